import Qv.Proofs.LogicEqZero
import Qv.Proofs.LogicGates
/-!
# The sixteen logic methods: the generic lemma and its instances (namespace `Qv.Logic`)

`Penalises s s' lam x G` is the content of T6.1–T6.3 at one assignment.  `eqZeroV_spec` is the generic lemma:
if the polynomial `P` handed to `add_constraint_eq_zero` is integer-valued at `x`, lies within the declared bounds
at `x`, then the method penalises exactly `P x ≠ 0`.  Each method instantiates it after computing `P x` from the
operand values; the declared bounds `(0,1)`, `(-1,1)`, `(0,3)` are proved from the `{0,1}`-valuedness of the
operands.  `Both` additionally records the *exact* added polynomial for the `(0,1)` methods — needed because
`PCBO().add_constraint_OR(…)` etc. are used as polynomials inside other methods.
-/
namespace Qv.Logic
open Qv

theorem ve_ofNat (n : Nat) : (@OfNat.ofNat VE n _) = VE.leaf (.num (n : Rat)) := rfl
theorem ve_add (a b : VE) : a + b = VE.add a b := rfl
theorem ve_sub (a b : VE) : a - b = VE.sub a b := rfl
theorem ve_mul (a b : VE) : a * b = VE.mul a b := rfl

/-! ### canonical storage is preserved (needed to use a PCBO as an arithmetic operand) -/

abbrev WFB (p : Poly) : Prop := WF (squash .pubo) p

theorem squash_pcbo : squash .pcbo = squash .pubo := by funext k; rfl

theorem squash_pubo_squashB (k : Key) : squash .pubo (squashB k) = .ok (squashB k) :=
  squash_of_canon (Or.inr ⟨squashB_sorted k, fun h => by simp [Kind.isDeg2] at h⟩)

theorem wf_addTermB {p : Poly} (h : WFB p) (k : Key) (v : Rat) : WFB (addTermB p k v) :=
  wf_set h (squash_pubo_squashB k) _

theorem wf_iaddB {p : Poly} (h : WFB p) (q : Poly) : WFB (iaddB p q) := by
  unfold iaddB
  induction q generalizing p with
  | nil => exact h
  | cons kv r ih => exact ih (wf_addTermB h _ _)

theorem wf_isubB {p : Poly} (h : WFB p) (q : Poly) : WFB (isubB p q) := by
  unfold isubB
  induction q generalizing p with
  | nil => exact h
  | cons kv r ih => exact ih (wf_addTermB h _ _)

theorem specialEq_terms {s s' : St} {P : Poly} {lam : Rat} (h : specialEq s P lam = some s') :
    ∃ q, s'.terms = iaddB s.terms q := by
  unfold specialEq at h
  split at h
  · split at h
    · split at h <;> first | (injection h with h; subst h; exact ⟨_, rfl⟩) | cases h
    · cases h
  · cases h

theorem wf_addEqZero {s : St} (hs : WFB s.terms) (P : Poly) (lam : Rat) (b : Option Rat × Option Rat)
    (sup : Bool) : WFB (addEqZero s P lam b sup).terms := by
  unfold addEqZero
  simp only []
  split
  · exact hs
  · split
    · rename_i s' hs'
      obtain ⟨q, hq⟩ := specialEq_terms hs'
      rw [hq]; exact wf_iaddB hs _
    · split_ifs <;> simp only [warn_terms, tag_terms, plus_terms, minus_terms, append_terms] <;>
        first | exact hs | exact wf_iaddB hs _ | exact wf_isubB hs _

/-! ### the generic lemma -/

/-- T6.1–T6.3 at the assignment `x`, for a method call `s ↦ s'` with penalty factor `lam` and gate truth `G` -/
structure Penalises (s s' : St) (lam : Rat) (x : Var → Rat) (G : Prop) : Prop where
  /-- T6.1: the added terms vanish where the gate holds … -/
  zero : G → eval x s'.terms - eval x s.terms = 0
  /-- … and are at least `lam` where it does not -/
  pen : ¬ G → lam ≤ eval x s'.terms - eval x s.terms
  /-- T6.2: no ancilla is drawn -/
  anc : s'.anc = s.anc
  /-- T6.3: `is_solution_valid` afterwards = before ∧ gate -/
  valid : isValid s' x = true ↔ (isValid s x = true ∧ G)

theorem Penalises.congr {s s' : St} {lam : Rat} {x : Var → Rat} {G G' : Prop} (h : Penalises s s' lam x G)
    (e : G ↔ G') : Penalises s s' lam x G' :=
  ⟨fun g => h.zero (e.mpr g), fun g => h.pen (fun g' => g (e.mp g')), h.anc, by rw [h.valid, e]⟩

theorem eqZeroV_cases {s s' : St} {P : Val} {lam lo hi : Rat} (hP : GoodB P)
    (h : eqZeroV s P lam lo hi = .ok s') :
    ∃ p, (∀ kv ∈ p, kv.2 ≠ 0) ∧ (∀ y, IsBool y → eval y p = P.eval y) ∧
      s' = addEqZero s p lam (some lo, some hi) false := by
  simp only [eqZeroV, bind_ok_iff] at h
  obtain ⟨w, hw, h⟩ := h
  have hg := (Val.cast_sound (famB isBool_zero) ⟨by decide, rfl⟩ hw).2
  have he := fun y hy => (Val.cast_sound (x := y) (famB hy) ⟨by decide, rfl⟩ hw).1
  cases w with
  | num c => simp at h
  | raw q => simp at h
  | mdl κ p =>
    simp only [pure, Except.pure] at h
    injection h with h
    exact ⟨p, hg.2.2.nonzero, he, h.symm⟩

/-- **Generic lemma.**  `P` canonical, integer-valued at `x` and within the declared bounds at `x`: the call
`add_constraint_eq_zero(P, lam, bounds=(lo,hi))` satisfies T6.1–T6.3 with gate `P x = 0`. -/
theorem eqZeroV_spec {s s' : St} {P : Val} {lam lo hi : Rat} {x : Var → Rat} (hx : IsBool x) (hlam : 0 < lam)
    (hP : GoodB P) (hint : ∃ z : Int, P.eval x = z) (hlo : lo ≤ P.eval x) (hhi : P.eval x ≤ hi)
    (h : eqZeroV s P lam lo hi = .ok s') : Penalises s s' lam x (P.eval x = 0) := by
  obtain ⟨p, hnz, he, rfl⟩ := eqZeroV_cases hP h
  have hpt := addEqZero_point (s := s) (P := p) (lam := lam) (b := (some lo, some hi)) (sup := false)
    hx hnz hlam (by rw [he x hx]; exact hint) (by rw [he x hx]; exact hlo) (by rw [he x hx]; exact hhi)
  rw [he x hx] at hpt
  obtain ⟨hc, ha⟩ := addEqZero_frame s p lam (some lo, some hi) false
  refine ⟨fun g => hpt.1.mpr g, fun g => hpt.2 g, ha, ?_⟩
  simp only [isValid, hc, List.all_append, List.all_cons, List.all_nil, Bool.and_true, Bool.and_eq_true,
    Rel.holds, decide_eq_true_eq, he x hx]

theorem int_of_mem {r : Rat} {l : List Int} (h : ∃ z ∈ l, r = (z : Rat)) : ∃ z : Int, r = z := by
  obtain ⟨z, _, hz⟩ := h; exact ⟨z, hz⟩

/-- bounds `(0, 1)` -/
theorem eqZeroV_spec01 {s s' : St} {P : Val} {lam : Rat} {x : Var → Rat} (hx : IsBool x) (hlam : 0 < lam)
    (hP : GoodB P) (h01 : P.eval x = 0 ∨ P.eval x = 1)
    (h : eqZeroV s P lam 0 1 = .ok s') : Penalises s s' lam x (P.eval x = 0) := by
  apply eqZeroV_spec hx hlam hP _ _ _ h
  · rcases h01 with h | h
    · exact ⟨0, by rw [h]; simp⟩
    · exact ⟨1, by rw [h]; simp⟩
  · rcases h01 with h | h <;> rw [h] <;> norm_num
  · rcases h01 with h | h <;> rw [h] <;> norm_num

/-- bounds `(-1, 1)` -/
theorem eqZeroV_specDiff {s s' : St} {P : Val} {lam : Rat} {x : Var → Rat} (hx : IsBool x) (hlam : 0 < lam)
    (hP : GoodB P) (hm : P.eval x = -1 ∨ P.eval x = 0 ∨ P.eval x = 1)
    (h : eqZeroV s P lam (-1) 1 = .ok s') : Penalises s s' lam x (P.eval x = 0) := by
  apply eqZeroV_spec hx hlam hP _ _ _ h
  · rcases hm with h | h | h
    · exact ⟨-1, by rw [h]; simp⟩
    · exact ⟨0, by rw [h]; simp⟩
    · exact ⟨1, by rw [h]; simp⟩
  · rcases hm with h | h | h <;> rw [h] <;> norm_num
  · rcases hm with h | h | h <;> rw [h] <;> norm_num

/-- bounds `(0, 3)` -/
theorem eqZeroV_spec013 {s s' : St} {P : Val} {lam : Rat} {x : Var → Rat} (hx : IsBool x) (hlam : 0 < lam)
    (hP : GoodB P) (hm : P.eval x = 0 ∨ P.eval x = 1 ∨ P.eval x = 3)
    (h : eqZeroV s P lam 0 3 = .ok s') : Penalises s s' lam x (P.eval x = 0) := by
  apply eqZeroV_spec hx hlam hP _ _ _ h
  · rcases hm with h | h | h
    · exact ⟨0, by rw [h]; simp⟩
    · exact ⟨1, by rw [h]; simp⟩
    · exact ⟨3, by rw [h]; simp⟩
  · rcases hm with h | h | h <;> rw [h] <;> norm_num
  · rcases hm with h | h | h <;> rw [h] <;> norm_num

/-- the exact added polynomial for bounds `(0, hi)`, `hi > 0` -/
theorem eqZeroV_exact {s s' : St} {P : Val} {lam hi : Rat} (hP : GoodB P) (hl : lam ≠ 0) (hhi : 0 < hi)
    (hpos : ∀ y, IsBool y → 0 ≤ P.eval y) (hs : WFB s.terms)
    (h : eqZeroV s P lam 0 hi = .ok s') :
    WFB s'.terms ∧ ∀ y, IsBool y → eval y s'.terms = eval y s.terms + lam * P.eval y := by
  obtain ⟨p, hnz, he, rfl⟩ := eqZeroV_cases hP h
  refine ⟨wf_addEqZero hs _ _ _ _, fun y hy => ?_⟩
  rw [addEqZero_exact hnz hl hhi (fun z hz => by rw [he z hz]; exact hpos z hz) hy, he y hy]

/-- what a `(0,1)`-bounded method does, with `pv` the value of the polynomial it hands to
`add_constraint_eq_zero`: the exact added polynomial `lam * pv`, and T6.1–T6.3 with gate `pv x = 0` -/
def Both (s s' : St) (lam : Rat) (pv : (Var → Rat) → Rat) : Prop :=
  (lam ≠ 0 → WFB s.terms → WFB s'.terms ∧ ∀ y, IsBool y → eval y s'.terms = eval y s.terms + lam * pv y) ∧
  (0 < lam → ∀ x, IsBool x → Penalises s s' lam x (pv x = 0))

theorem eqZeroV_both {s s' : St} {P : Val} {lam : Rat} (hP : GoodB P)
    (h01 : ∀ y, IsBool y → P.eval y = 0 ∨ P.eval y = 1) (h : eqZeroV s P lam 0 1 = .ok s') :
    Both s s' lam (fun y => P.eval y) :=
  ⟨fun hl hs => eqZeroV_exact hP hl (by norm_num)
      (fun y hy => by rcases h01 y hy with e | e <;> rw [e] <;> norm_num) hs h,
   fun hlam x hx => eqZeroV_spec01 hx hlam hP (h01 x hx) h⟩

theorem Both.congr {s s' : St} {lam : Rat} {pv pv' : (Var → Rat) → Rat} (h : Both s s' lam pv)
    (e : ∀ y, IsBool y → pv y = pv' y) : Both s s' lam pv' :=
  ⟨fun hl hs => ⟨(h.1 hl hs).1, fun y hy => by rw [(h.1 hl hs).2 y hy, e y hy]⟩,
   fun hlam x hx => (h.2 hlam x hx).congr (by rw [e x hx])⟩

/-- the inner call `PCBO().add_constraint_G(*vs)` (fresh state, `lam = 1`) as a value -/
theorem Both.inner {s' : St} {pv : (Var → Rat) → Rat} (h : Both St.fresh s' 1 pv) :
    GoodB s'.val ∧ ∀ y, IsBool y → s'.val.eval y = pv y := by
  obtain ⟨hw, he⟩ := h.1 one_ne_zero (wf_nil _)
  refine ⟨⟨by decide, rfl, by rw [squash_pcbo]; exact hw⟩, fun y hy => ?_⟩
  simp only [St.val, Val.eval]
  rw [he y hy]; simp [St.fresh]

theorem zero_iff_not_one {r : Rat} (h : r = 0 ∨ r = 1) : r = 0 ↔ ¬ r = 1 := by
  rcases h with rfl | rfl <;> norm_num

theorem one_sub_zero_iff {r : Rat} : 1 - r = 0 ↔ r = 1 := by
  constructor <;> intro h <;> linarith

/-! ### `add_constraint_G` -/

section
variable {s s' : St} {lam : Rat}

theorem consNOT_both {a : SVal} (ha : OpOK a) (h : consNOT s a lam = .ok s') :
    Both s s' lam (fun y => SVal.ev y a) := by
  simp only [consNOT, bind_ok_iff] at h
  obtain ⟨P, hP, h⟩ := h
  obtain ⟨gP, eP⟩ := bufferV_sound hP ha
  exact (eqZeroV_both gP (fun y hy => by rw [eP y hy]; exact ha.ev01 hy) h).congr eP

theorem consBUFFER_both {a : SVal} (ha : OpOK a) (h : consBUFFER s a lam = .ok s') :
    Both s s' lam (fun y => 1 - SVal.ev y a) := by
  simp only [consBUFFER, bind_ok_iff] at h
  obtain ⟨P, hP, h⟩ := h
  obtain ⟨gP, eP⟩ := notV_sound hP ha
  exact (eqZeroV_both gP (fun y hy => by
    rw [eP y hy]; rcases ha.ev01 hy with e | e <;> rw [e] <;> norm_num) h).congr eP

theorem allOK_ev01 {vs : List SVal} (hvs : ∀ v ∈ vs, OpOK v) {y : Var → Rat} (hy : IsBool y) :
    ∀ v ∈ vs, SVal.ev y v = 0 ∨ SVal.ev y v = 1 := fun v hv => (hvs v hv).ev01 hy

theorem consAND_both {vs : List SVal} (hvs : ∀ v ∈ vs, OpOK v) (h : consAND s vs lam = .ok s') :
    Both s s' lam (fun y => 1 - andR y vs) := by
  simp only [consAND, bind_ok_iff] at h
  obtain ⟨g, hg, h⟩ := h
  obtain ⟨gg, eg⟩ := andV_sound hg hvs
  have hop : OpOK (.val g) := ⟨gg, fun y hy => by rw [eg y hy]; exact (andR_fact (allOK_ev01 hvs hy)).1⟩
  exact (consBUFFER_both hop h).congr (fun y hy => by simp only [SVal.ev]; rw [eg y hy])

theorem consNAND_both {vs : List SVal} (hvs : ∀ v ∈ vs, OpOK v) (h : consNAND s vs lam = .ok s') :
    Both s s' lam (fun y => andR y vs) := by
  simp only [consNAND, bind_ok_iff] at h
  obtain ⟨g, hg, h⟩ := h
  obtain ⟨gg, eg⟩ := andV_sound hg hvs
  have hop : OpOK (.val g) := ⟨gg, fun y hy => by rw [eg y hy]; exact (andR_fact (allOK_ev01 hvs hy)).1⟩
  exact (consNOT_both hop h).congr (fun y hy => by simp only [SVal.ev]; rw [eg y hy])

/-- `P = 1 - g` for a `{0,1}`-valued value `g` -/
theorem oneMinus_both {g P : Val} {gv : (Var → Rat) → Rat} (gg : GoodB g)
    (eg : ∀ y, IsBool y → g.eval y = gv y) (h01 : ∀ y, IsBool y → gv y = 0 ∨ gv y = 1)
    (hP : VE.run (1 - g) = .ok P) (h : eqZeroV s P lam 0 1 = .ok s') :
    Both s s' lam (fun y => 1 - gv y) := by
  obtain ⟨gP, eP⟩ := VE.run_sound _ (by simp [VE.Good, ve_ofNat, ve_sub, Val.Good, gg]) hP
  have eP' : ∀ y, IsBool y → P.eval y = 1 - gv y := fun y hy => by
    rw [eP y hy]; simp only [VE.den, ve_ofNat, ve_sub, eg y hy]; simp [Val.eval]
  exact (eqZeroV_both gP (fun y hy => by
    rw [eP' y hy]; rcases h01 y hy with e | e <;> rw [e] <;> norm_num) h).congr eP'

theorem consOR_both {vs : List SVal} (hvs : ∀ v ∈ vs, OpOK v) (h : consOR s vs lam = .ok s') :
    Both s s' lam (fun y => 1 - orG y vs) := by
  simp only [consOR, bind_ok_iff] at h
  obtain ⟨g, hg, P, hP, h⟩ := h
  obtain ⟨gg, eg⟩ := orV_sound hg hvs
  exact oneMinus_both gg eg (fun y hy => orG_01 (allOK_ev01 hvs hy)) hP h

theorem consXOR_both {vs : List SVal} (hvs : ∀ v ∈ vs, OpOK v) (h : consXOR s vs lam = .ok s') :
    Both s s' lam (fun y => 1 - xorG y vs) := by
  simp only [consXOR, bind_ok_iff] at h
  obtain ⟨g, hg, P, hP, h⟩ := h
  obtain ⟨gg, eg⟩ := xorV_sound hg hvs
  exact oneMinus_both gg eg (fun y hy => xorG_01 (allOK_ev01 hvs hy)) hP h

theorem consNOR_both {vs : List SVal} (hvs : ∀ v ∈ vs, OpOK v) (h : consNOR s vs lam = .ok s') :
    Both s s' lam (fun y => orG y vs) := by
  simp only [consNOR, bind_ok_iff] at h
  obtain ⟨inner, hi, P, hP, h⟩ := h
  obtain ⟨gi, ei⟩ := (consOR_both hvs hi).inner
  exact (oneMinus_both gi ei (fun y hy => by
    rcases orG_01 (allOK_ev01 hvs hy) with e | e <;> rw [e] <;> norm_num) hP h).congr
    (fun y _ => by ring)

theorem consXNOR_both {vs : List SVal} (hvs : ∀ v ∈ vs, OpOK v) (h : consXNOR s vs lam = .ok s') :
    Both s s' lam (fun y => xorG y vs) := by
  simp only [consXNOR, bind_ok_iff] at h
  obtain ⟨inner, hi, P, hP, h⟩ := h
  obtain ⟨gi, ei⟩ := (consXOR_both hvs hi).inner
  exact (oneMinus_both gi ei (fun y hy => by
    rcases xorG_01 (allOK_ev01 hvs hy) with e | e <;> rw [e] <;> norm_num) hP h).congr
    (fun y _ => by ring)

end

end Qv.Logic
