import Qv.Proofs.ProblemsGPGround2
/-!
# GraphPartitioning: `is_solution_valid` on a spin assignment is the balance condition
-/
namespace Qv.Prob
open Qv

theorem gp_length_insertU {a : Var} {l : Key} (h : a ∉ l) : (insertU a l).length = l.length + 1 := by
  induction l with
  | nil => simp [insertU]
  | cons b bs ih =>
    have hb : a ≠ b := fun e => h (e ▸ List.mem_cons_self)
    have ht : a ∉ bs := fun m => h (List.mem_cons_of_mem _ m)
    unfold insertU
    split
    · simp
    · simp [ih ht]

/-- number of positions `off ≤ i < off + n` with `pred (z i)` -/
def gpCnt (pred : Rat → Bool) (z : Var → Rat) : Nat → Nat → Nat
  | _, 0 => 0
  | off, n + 1 => (if pred (z off) then 1 else 0) + gpCnt pred z (off + 1) n

/-- on the container `[z 0, …, z (N-1)]` and a duplicate-free vertex enumeration, the part selected by `pred` has one
element per selected position -/
theorem gp_pick_enum {order : List Var} (hnd : order.Nodup) (pred : Rat → Bool) (z : Var → Rat) (n : Nat) :
    ∀ off, off + n ≤ order.length →
      ∃ l, GP.pick order pred (enumFrom z off n) = .ok l ∧ l.length = gpCnt pred z off n ∧
        ∀ v ∈ l, ∃ i, off ≤ i ∧ order[i]? = some v := by
  induction n with
  | zero => intro off _; exact ⟨[], rfl, rfl, fun v hv => by cases hv⟩
  | succ n ih =>
    intro off hoff
    obtain ⟨l, hl, hlen, hmem⟩ := ih (off + 1) (by omega)
    have hlt : off < order.length := by omega
    by_cases hp : pred (z off) = true
    · have hva : vertexAt order off = .ok order[off] := by simp [vertexAt, List.getElem?_eq_getElem hlt]
      have hnot : order[off] ∉ l := by
        intro hm
        obtain ⟨i, hi, hg⟩ := hmem _ hm
        have := (List.getElem?_inj hlt hnd).mp ((List.getElem?_eq_getElem hlt).trans hg.symm)
        omega
      refine ⟨insertU order[off] l, ?_, ?_, ?_⟩
      · simp [enumFrom, GP.pick, hp, hva, hl, bind, Except.bind, pure, Except.pure]
      · rw [gp_length_insertU hnot, hlen]; simp only [gpCnt, hp, if_true]; omega
      · intro v hv
        rcases (gp_mem_insertU_iff _ _ _).mp hv with rfl | hv
        · exact ⟨off, le_refl _, List.getElem?_eq_getElem hlt⟩
        · obtain ⟨i, hi, hg⟩ := hmem v hv
          exact ⟨i, by omega, hg⟩
    · refine ⟨l, ?_, ?_, ?_⟩
      · simp [enumFrom, GP.pick, hp, hl]
      · rw [hlen]; simp [gpCnt, hp]
      · intro v hv
        obtain ⟨i, hi, hg⟩ := hmem v hv
        exact ⟨i, by omega, hg⟩

theorem gp_cnt_diff {z : Var → Rat} (hz : IsSpin z) (n : Nat) :
    ∀ off, sumTo z (off + n) = sumTo z off + ((gpCnt isOne z off n : Rat) - (gpCnt notOne z off n : Rat)) := by
  induction n with
  | zero => intro off; simp [gpCnt]
  | succ n ih =>
    intro off
    have e : off + (n + 1) = (off + 1) + n := by omega
    rw [e, ih (off + 1)]
    simp only [sumTo, gpCnt]
    rcases hz off with h | h
    · simp [h, isOne, notOne]; ring
    · have : ¬ ((-1 : Rat) = 1) := by norm_num
      simp [h, isOne, notOne, this]; ring

/-- **(VALID)** for a duplicate-free vertex enumeration and a spin assignment given as the container
`[z 0, …, z (N-1)]`, `is_solution_valid` answers whether `Σ_i z_i = 0` -/
theorem gp_valid_enum (p : GP) (hnd : p.order.Nodup) {z : Var → Rat} (hz : IsSpin z) :
    p.valid (enumSol z p.numVars) = .ok (decide (sumTo z p.numVars = 0)) := by
  obtain ⟨l1, h1, n1, _⟩ := gp_pick_enum hnd isOne z p.numVars 0 (by simp [GP.numVars])
  obtain ⟨l2, h2, n2, _⟩ := gp_pick_enum hnd notOne z p.numVars 0 (by simp [GP.numVars])
  have hd := gp_cnt_diff hz p.numVars 0
  simp only [sumTo, zero_add] at hd
  have hiff : (l1.length = l2.length) ↔ sumTo z p.numVars = 0 := by
    rw [hd, n1, n2, sub_eq_zero]; exact Nat.cast_inj.symm
  simp only [GP.valid, GP.convert, enumSol, h1, h2, bind, Except.bind, pure, Except.pure, GP.validConv]
  congr 1
  by_cases hb : sumTo z p.numVars = 0
  · simp [hb, hiff.mpr hb]
  · have : ¬ l1.length = l2.length := fun h => hb (hiff.mp h)
    simp [hb, this]

/-- in terms of `GP.Balanced` -/
theorem gp_valid_iff_balanced (p : GP) (hnd : p.order.Nodup) {z : Var → Rat} (hz : IsSpin z) :
    p.valid (enumSol z p.numVars) = .ok true ↔ p.Balanced z := by
  rw [gp_valid_enum p hnd hz]; simp [GP.Balanced]

/-- non-vacuity: the enumeration `2, 0, 3, 1` is duplicate-free; a balanced and an unbalanced assignment -/
example : ([2, 0, 3, 1] : List Var).Nodup := by decide
example : (⟨[((0, 1), 1), ((1, 2), 1), ((2, 3), 1), ((3, 3), 1)], [2, 0, 3, 1]⟩ : GP).valid
    (enumSol (fun i => if i = 1 ∨ i = 3 then 1 else -1) 4) = .ok true := by decide +kernel
example : (⟨[((0, 1), 1), ((1, 2), 1), ((2, 3), 1), ((3, 3), 1)], [2, 0, 3, 1]⟩ : GP).valid
    (enumSol (fun i => if i = 1 then -1 else 1) 4) = .ok false := by decide +kernel

end Qv.Prob
