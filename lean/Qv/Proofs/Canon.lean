import Qv.Proofs.Basic
/-!
# Canonical storage: sorted duplicate-free keys, distinct keys, no zero coefficient
-/
namespace Qv

/-- strictly increasing list -/
def SSorted : Key → Prop
  | [] => True
  | [_] => True
  | a :: b :: r => a < b ∧ SSorted (b :: r)

theorem SSorted.tail {a : Var} {l : Key} (h : SSorted (a :: l)) : SSorted l := by
  cases l with
  | nil => trivial
  | cons b r => exact h.2

/-- `a` is below the head (if any) -/
def LtHead (a : Var) : Key → Prop
  | [] => True
  | b :: _ => a < b

theorem ssorted_cons {a : Var} {l : Key} (h1 : LtHead a l) (h2 : SSorted l) : SSorted (a :: l) := by
  cases l with
  | nil => trivial
  | cons b r => exact ⟨h1, h2⟩

theorem SSorted.ltHead {a : Var} {l : Key} (h : SSorted (a :: l)) : LtHead a l := by
  cases l with
  | nil => trivial
  | cons b r => exact h.1

theorem insertU_sorted (a : Var) {l : Key} (h : SSorted l) :
    SSorted (insertU a l) ∧ ∀ c, c < a → LtHead c l → LtHead c (insertU a l) := by
  induction l with
  | nil => exact ⟨trivial, fun c hc _ => hc⟩
  | cons b r ih =>
    unfold insertU
    split
    · rename_i hab
      exact ⟨⟨hab, h⟩, fun c hc _ => hc⟩
    · split
      · exact ⟨h, fun c _ hl => hl⟩
      · rename_i h1 h2
        have hba : b < a := Nat.lt_of_le_of_ne (Nat.le_of_not_lt h1) (fun e => h2 e.symm)
        obtain ⟨ihs, ihl⟩ := ih h.tail
        exact ⟨ssorted_cons (ihl b hba h.ltHead) ihs, fun c _ hl => hl⟩

theorem toggleU_sorted (a : Var) {l : Key} (h : SSorted l) :
    SSorted (toggleU a l) ∧ ∀ c, c < a → LtHead c l → LtHead c (toggleU a l) := by
  induction l with
  | nil => exact ⟨trivial, fun c hc _ => hc⟩
  | cons b r ih =>
    unfold toggleU
    split
    · rename_i hab
      exact ⟨⟨hab, h⟩, fun c hc _ => hc⟩
    · split
      · rename_i h1 h2
        subst h2
        refine ⟨h.tail, fun c hc hl => ?_⟩
        cases r with
        | nil => trivial
        | cons d r' =>
          have : a < d := h.1
          exact Nat.lt_trans hc this
      · rename_i h1 h2
        have hba : b < a := Nat.lt_of_le_of_ne (Nat.le_of_not_lt h1) (fun e => h2 e.symm)
        obtain ⟨ihs, ihl⟩ := ih h.tail
        exact ⟨ssorted_cons (ihl b hba h.ltHead) ihs, fun c _ hl => hl⟩

theorem squashB_sorted (k : Key) : SSorted (squashB k) := by
  induction k with
  | nil => trivial
  | cons a k ih => exact (insertU_sorted a ih).1

theorem squashS_sorted (k : Key) : SSorted (squashS k) := by
  induction k with
  | nil => trivial
  | cons a k ih => exact (toggleU_sorted a ih).1

theorem insertU_of_ltHead {a : Var} {l : Key} (h : LtHead a l) : insertU a l = a :: l := by
  cases l with
  | nil => rfl
  | cons b r => simp [insertU, show a < b from h]

theorem toggleU_of_ltHead {a : Var} {l : Key} (h : LtHead a l) : toggleU a l = a :: l := by
  cases l with
  | nil => rfl
  | cons b r => simp [toggleU, show a < b from h]

theorem squashB_of_sorted {k : Key} (h : SSorted k) : squashB k = k := by
  induction k with
  | nil => rfl
  | cons a k ih =>
    show insertU a (squashB k) = _
    rw [ih h.tail, insertU_of_ltHead h.ltHead]

theorem squashS_of_sorted {k : Key} (h : SSorted k) : squashS k = k := by
  induction k with
  | nil => rfl
  | cons a k ih =>
    show toggleU a (squashS k) = _
    rw [ih h.tail, toggleU_of_ltHead h.ltHead]

/-- a key as the type `κ` stores it -/
def KeyCanon (κ : Kind) (k : Key) : Prop :=
  κ = .dict ∨ (SSorted k ∧ (κ.isDeg2 = true → k.length ≤ 2))

theorem squash_canon {κ : Kind} {k k' : Key} (h : squash κ k = .ok k') : KeyCanon κ k' := by
  unfold squash at h
  by_cases hd : κ = .dict
  · exact Or.inl hd
  · right
    cases κ <;> simp [Kind.isSpin, Kind.isDeg2] at h hd ⊢ <;>
      first
      | (subst h; first | exact squashB_sorted k | exact squashS_sorted k)
      | (split at h
         · cases h
         · injection h with h; subst h
           refine ⟨?_, by omega⟩
           first | exact squashB_sorted k | exact squashS_sorted k)

/-- `squash` is the identity on canonical keys -/
theorem squash_of_canon {κ : Kind} {k : Key} (h : KeyCanon κ k) : squash κ k = .ok k := by
  rcases h with rfl | ⟨hs, hl⟩
  · rfl
  · have hB := squashB_of_sorted hs
    have hS := squashS_of_sorted hs
    cases κ <;> simp [squash, Kind.isSpin, Kind.isDeg2, hB, hS] at hl ⊢ <;> omega

/-- `sq` is idempotent -/
def SqIdem (sq : Sq) : Prop := ∀ k k', sq k = .ok k' → sq k' = .ok k'

theorem squash_idem (κ : Kind) : SqIdem (squash κ) :=
  fun _ _ h => squash_of_canon (squash_canon h)

/-! ### well-formed dicts -/

def keys (p : Poly) : List Key := p.map Prod.fst

/-- distinct keys, each a fixed point of `sq`, no zero coefficient -/
structure WF (sq : Sq) (p : Poly) : Prop where
  nodup : (keys p).Nodup
  fixed : ∀ k ∈ keys p, sq k = .ok k
  nonzero : ∀ kv ∈ p, kv.2 ≠ 0

theorem wf_nil (sq : Sq) : WF sq [] := ⟨List.nodup_nil, by simp [keys], by simp⟩

theorem keys_erase_sub (p : Poly) (k k2 : Key) (h : k2 ∈ keys (erase p k)) : k2 ∈ keys p := by
  induction p with
  | nil => simpa [erase] using h
  | cons kv r ih =>
    obtain ⟨k', v⟩ := kv
    unfold erase at h
    split at h
    · simp [keys] at h ⊢; right; exact h
    · simp only [keys, List.map_cons, List.mem_cons] at h ⊢
      rcases h with h | h
      · exact Or.inl h
      · exact Or.inr (ih h)

theorem mem_erase_sub (p : Poly) (k : Key) (kv : Key × Rat) (h : kv ∈ erase p k) : kv ∈ p := by
  induction p with
  | nil => simpa [erase] using h
  | cons kv' r ih =>
    obtain ⟨k', v⟩ := kv'
    unfold erase at h
    split at h
    · exact List.mem_cons_of_mem _ h
    · rcases List.mem_cons.1 h with h | h
      · exact h ▸ List.mem_cons_self
      · exact List.mem_cons_of_mem _ (ih h)

theorem nodup_erase (p : Poly) (k : Key) (h : (keys p).Nodup) : (keys (erase p k)).Nodup := by
  induction p with
  | nil => simpa [erase] using h
  | cons kv r ih =>
    obtain ⟨k', v⟩ := kv
    simp only [keys, List.map_cons, List.nodup_cons] at h
    unfold erase
    split
    · exact h.2
    · simp only [keys, List.map_cons, List.nodup_cons]
      exact ⟨fun hm => h.1 (keys_erase_sub r k k' hm), ih h.2⟩

theorem keys_put (p : Poly) (k : Key) (v : Rat) (k2 : Key) (h : k2 ∈ keys (put p k v)) :
    k2 = k ∨ k2 ∈ keys p := by
  induction p with
  | nil => simp [put, keys] at h; exact Or.inl h
  | cons kv r ih =>
    obtain ⟨k', v'⟩ := kv
    unfold put at h
    split at h
    · simp only [keys, List.map_cons, List.mem_cons] at h ⊢
      rcases h with h | h
      · exact Or.inl h
      · exact Or.inr (Or.inr h)
    · simp only [keys, List.map_cons, List.mem_cons] at h ⊢
      rcases h with h | h
      · exact Or.inr (Or.inl h)
      · rcases ih h with h | h
        · exact Or.inl h
        · exact Or.inr (Or.inr h)

theorem mem_put (p : Poly) (k : Key) (v : Rat) (kv : Key × Rat) (h : kv ∈ put p k v) :
    kv = (k, v) ∨ kv ∈ p := by
  induction p with
  | nil => simp [put] at h; exact Or.inl h
  | cons kv' r ih =>
    obtain ⟨k', v'⟩ := kv'
    unfold put at h
    split at h
    · rcases List.mem_cons.1 h with h | h
      · exact Or.inl h
      · exact Or.inr (List.mem_cons_of_mem _ h)
    · rcases List.mem_cons.1 h with h | h
      · exact Or.inr (h ▸ List.mem_cons_self)
      · rcases ih h with h | h
        · exact Or.inl h
        · exact Or.inr (List.mem_cons_of_mem _ h)

theorem nodup_put (p : Poly) (k : Key) (v : Rat) (h : (keys p).Nodup) : (keys (put p k v)).Nodup := by
  induction p with
  | nil => simp [put, keys]
  | cons kv r ih =>
    obtain ⟨k', v'⟩ := kv
    simp only [keys, List.map_cons, List.nodup_cons] at h
    unfold put
    split
    · rename_i hk; subst hk
      simp only [keys, List.map_cons, List.nodup_cons]; exact h
    · rename_i hk
      simp only [keys, List.map_cons, List.nodup_cons]
      refine ⟨fun hm => ?_, ih h.2⟩
      rcases keys_put r k v k' hm with h' | h'
      · exact hk h'
      · exact h.1 h'

theorem wf_set {sq : Sq} {p : Poly} (h : WF sq p) {k : Key} (hk : sq k = .ok k) (v : Rat) :
    WF sq (set p k v) := by
  unfold set
  split
  · exact ⟨nodup_erase p k h.nodup, fun k2 h2 => h.fixed k2 (keys_erase_sub p k k2 h2),
      fun kv hkv => h.nonzero kv (mem_erase_sub p k kv hkv)⟩
  · rename_i hv
    refine ⟨nodup_put p k v h.nodup, fun k2 h2 => ?_, fun kv hkv => ?_⟩
    · rcases keys_put p k v k2 h2 with h' | h'
      · exact h' ▸ hk
      · exact h.fixed k2 h'
    · rcases mem_put p k v kv hkv with h' | h'
      · subst h'; exact hv
      · exact h.nonzero kv h'

theorem wf_addTerm {sq : Sq} (hi : SqIdem sq) {p p' : Poly} (h : WF sq p) {k : Key} {v : Rat}
    (ha : addTerm sq p k v = .ok p') : WF sq p' := by
  unfold addTerm at ha
  cases hk : sq k with
  | error e => simp [hk, bind, Except.bind] at ha
  | ok k' =>
    simp [hk, bind, Except.bind, pure, Except.pure] at ha
    subst ha
    exact wf_set h (hi k k' hk) _

theorem wf_mulItem {sq : Sq} (hi : SqIdem sq) {p p' : Poly} (h : WF sq p) {k : Key} {c : Rat}
    (ha : mulItem sq p k c = .ok p') : WF sq p' := by
  unfold mulItem at ha
  cases hk : sq k with
  | error e => simp [hk, bind, Except.bind] at ha
  | ok k' =>
    simp [hk, bind, Except.bind, pure, Except.pure] at ha
    subst ha
    exact wf_set h (hi k k' hk) _

theorem wf_iaddD {sq : Sq} (hi : SqIdem sq) {q p p' : Poly} (h : WF sq p)
    (ha : iaddD sq p q = .ok p') : WF sq p' := by
  induction q generalizing p with
  | nil => simp [iaddD] at ha; subst ha; exact h
  | cons kv r ih =>
    obtain ⟨k, v⟩ := kv
    simp only [iaddD, bind, Except.bind] at ha
    cases h1 : addTerm sq p k v with
    | error e => simp [h1] at ha
    | ok p1 => simp [h1] at ha; exact ih (wf_addTerm hi h h1) ha

theorem wf_isubD {sq : Sq} (hi : SqIdem sq) {q p p' : Poly} (h : WF sq p)
    (ha : isubD sq p q = .ok p') : WF sq p' := by
  induction q generalizing p with
  | nil => simp [isubD] at ha; subst ha; exact h
  | cons kv r ih =>
    obtain ⟨k, v⟩ := kv
    simp only [isubD, bind, Except.bind] at ha
    cases h1 : addTerm sq p k (-v) with
    | error e => simp [h1] at ha
    | ok p1 => simp [h1] at ha; exact ih (wf_addTerm hi h h1) ha

theorem wf_construct {sq : Sq} (hi : SqIdem sq) {d p : Poly} (ha : construct sq d = .ok p) :
    WF sq p := wf_iaddD hi (wf_nil sq) ha

theorem wf_mulRow {sq : Sq} (hi : SqIdem sq) {q acc acc' : Poly} {k : Key} {v : Rat} (h : WF sq acc)
    (ha : mulRow sq acc k v q = .ok acc') : WF sq acc' := by
  induction q generalizing acc with
  | nil => simp [mulRow] at ha; subst ha; exact h
  | cons kv r ih =>
    obtain ⟨ko, vo⟩ := kv
    simp only [mulRow, bind, Except.bind] at ha
    cases h1 : addTerm sq acc (k ++ ko) (v * vo) with
    | error e => simp [h1] at ha
    | ok a1 => simp [h1] at ha; exact ih (wf_addTerm hi h h1) ha

theorem wf_mulRows {sq : Sq} (hi : SqIdem sq) {p q acc acc' : Poly} (h : WF sq acc)
    (ha : mulRows sq acc p q = .ok acc') : WF sq acc' := by
  induction p generalizing acc with
  | nil => simp [mulRows] at ha; subst ha; exact h
  | cons kv r ih =>
    obtain ⟨k, v⟩ := kv
    simp only [mulRows, bind, Except.bind] at ha
    cases h1 : mulRow sq acc k v q with
    | error e => simp [h1] at ha
    | ok a1 => simp [h1] at ha; exact ih (wf_mulRow hi h h1) ha

theorem wf_imulD {sq : Sq} (hi : SqIdem sq) {p q p' : Poly} (ha : imulD sq p q = .ok p') :
    WF sq p' := wf_mulRows hi (wf_nil sq) ha

theorem wf_scaleKeys {sq : Sq} (hi : SqIdem sq) {ks : List Key} {p p' : Poly} {c : Rat} (h : WF sq p)
    (ha : scaleKeys sq p ks c = .ok p') : WF sq p' := by
  induction ks generalizing p with
  | nil => simp [scaleKeys] at ha; subst ha; exact h
  | cons k r ih =>
    simp only [scaleKeys, bind, Except.bind] at ha
    cases h1 : mulItem sq p k c with
    | error e => simp [h1] at ha
    | ok p1 => simp [h1] at ha; exact ih (wf_mulItem hi h h1) ha

theorem wf_powLoop {sq : Sq} (hi : SqIdem sq) {n : Nat} {p old p' : Poly} (h : WF sq p)
    (ha : powLoop sq p old n = .ok p') : WF sq p' := by
  induction n generalizing p with
  | zero => simp [powLoop] at ha; subst ha; exact h
  | succ n ih =>
    simp only [powLoop, bind, Except.bind] at ha
    cases h1 : imulD sq p old with
    | error e => simp [h1] at ha
    | ok p1 => simp [h1] at ha; exact ih (wf_imulD hi h1) ha

/-! ### scaling: needs distinct, fixed keys -/

/-- `Σ_{k ∈ ks} get p k * mon x k` -/
def sumKeys (x : Var → Rat) (p : Poly) : List Key → Rat
  | [] => 0
  | k :: r => get p k * mon x k + sumKeys x p r

theorem sumKeys_congr (x : Var → Rat) {p p' : Poly} {ks : List Key}
    (h : ∀ k ∈ ks, get p' k = get p k) : sumKeys x p' ks = sumKeys x p ks := by
  induction ks with
  | nil => rfl
  | cons k r ih =>
    simp only [sumKeys]
    rw [h k List.mem_cons_self, ih (fun k2 hk2 => h k2 (List.mem_cons_of_mem _ hk2))]

theorem eval_eq_sumKeys (x : Var → Rat) {p : Poly} (h : (keys p).Nodup) :
    eval x p = sumKeys x p (keys p) := by
  induction p with
  | nil => rfl
  | cons kv r ih =>
    obtain ⟨k, v⟩ := kv
    simp only [keys, List.map_cons, List.nodup_cons] at h
    simp only [keys, List.map_cons, sumKeys, eval_cons]
    have h1 : get ((k, v) :: r) k = v := by simp [get]
    have h2 : sumKeys x ((k, v) :: r) (List.map Prod.fst r) = sumKeys x r (List.map Prod.fst r) := by
      apply sumKeys_congr
      intro k2 hk2
      have : k ≠ k2 := fun e => h.1 (e ▸ hk2)
      simp [get, this]
    rw [h1, h2]; show _ = v * mon x k + sumKeys x r (keys r); rw [← ih h.2]

theorem eval_scaleKeys {sq : Sq} (x : Var → Rat) {ks : List Key} {p p' : Poly} {c : Rat}
    (hn : ks.Nodup) (hf : ∀ k ∈ ks, sq k = .ok k)
    (ha : scaleKeys sq p ks c = .ok p') :
    eval x p' = eval x p + (c - 1) * sumKeys x p ks := by
  induction ks generalizing p with
  | nil => simp [scaleKeys] at ha; subst ha; simp [sumKeys]
  | cons k r ih =>
    simp only [scaleKeys, bind, Except.bind] at ha
    cases h1 : mulItem sq p k c with
    | error e => simp [h1] at ha
    | ok p1 =>
      simp [h1] at ha
      have hk := hf k List.mem_cons_self
      unfold mulItem at h1
      simp [hk, bind, Except.bind, pure, Except.pure] at h1
      subst h1
      rw [List.nodup_cons] at hn
      rw [ih hn.2 (fun k2 hk2 => hf k2 (List.mem_cons_of_mem _ hk2)) ha, eval_set]
      have : sumKeys x (set p k (get p k * c)) r = sumKeys x p r := by
        apply sumKeys_congr
        intro k2 hk2
        exact get_set_ne p _ (fun e => hn.1 (e ▸ hk2))
      rw [this]; simp only [sumKeys]; ring

theorem eval_imulC {sq : Sq} (x : Var → Rat) {p p' : Poly} {c : Rat} (h : WF sq p)
    (ha : imulC sq p c = .ok p') : eval x p' = eval x p * c := by
  have := eval_scaleKeys x h.nodup h.fixed ha
  rw [this, ← eval_eq_sumKeys x h.nodup]; ring

theorem wf_imulC {sq : Sq} (hi : SqIdem sq) {p p' : Poly} {c : Rat} (h : WF sq p)
    (ha : imulC sq p c = .ok p') : WF sq p' := wf_scaleKeys hi h ha

theorem eval_idivC {sq : Sq} (x : Var → Rat) {p p' : Poly} {c : Rat} (h : WF sq p)
    (ha : idivC sq p c = .ok p') : eval x p' = eval x p / c := by
  unfold idivC at ha
  split at ha
  · split at ha
    · injection ha with ha; subst ha
      rename_i hc hp
      cases p with
      | nil => simp
      | cons a b => simp at hp
    · cases ha
  · rw [eval_imulC x h ha]; ring

theorem wf_idivC {sq : Sq} (hi : SqIdem sq) {p p' : Poly} {c : Rat} (h : WF sq p)
    (ha : idivC sq p c = .ok p') : WF sq p' := by
  unfold idivC at ha
  split at ha
  · split at ha
    · injection ha with ha; subst ha; exact h
    · cases ha
  · exact wf_imulC hi h ha

theorem wf_ipow {sq : Sq} (hi : SqIdem sq) {p p' : Poly} {e : Int} (h : WF sq p)
    (ha : ipow sq p e = .ok p') : WF sq p' := by
  unfold ipow at ha
  split at ha
  · cases ha
  · simp only [bind, Except.bind] at ha
    cases h1 : construct sq p with
    | error e => simp [h1] at ha
    | ok old => simp [h1] at ha; exact wf_powLoop hi h ha

end Qv
