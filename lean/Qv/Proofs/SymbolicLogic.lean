import Qv.Proofs.SymbolicThm
/-!
# C16, T16.0 for the sixteen logical methods: every method computes a `lam`-free polynomial `P` from its operands
(same errors whatever the weight and the state) and ends in `add_constraint_eq_zero(P, lam, bounds)`, which preserves
the simulation (`addEqZero_sim`).
-/
namespace Qv.Sym
open Qv Qv.PcboP

/-- simulation of results that may raise: the same exception, or related states -/
def ESim (lam : Rat) (st : St) : Except Err St → Except Err St → Prop
  | .ok a, .ok b => Sim lam st a b ∧ a.cons = st.cons ++ b.cons
  | .error e, .error e' => e = e'
  | _, _ => False

variable {lam : Rat} {st s s1 : St}

theorem ESim.bind {α : Type} (x : Except Err α) {f g : α → Except Err St}
    (h : ∀ a, ESim lam st (f a) (g a)) : ESim lam st (x >>= f) (x >>= g) := by
  cases x with
  | error e => exact rfl
  | ok a => exact h a

theorem eqZeroV_sim (h : Sim lam st s s1) (hc : s.cons = st.cons ++ s1.cons) (hl : lam ≠ 0) (P : Val) (lo hi : Rat) :
    ESim lam st (eqZeroV s P lam lo hi) (eqZeroV s1 P 1 lo hi) := by
  unfold eqZeroV
  refine ESim.bind _ (fun v => ?_)
  cases v with
  | num c => exact rfl
  | raw q => exact rfl
  | mdl κ p =>
    refine ⟨addEqZero_sim h hl p _ _, ?_⟩
    rw [addEqZero_cons, addEqZero_cons, hc, List.append_assoc]

syntax "esim_step" : tactic
macro_rules
  | `(tactic| esim_step) => `(tactic| first
      | exact eqZeroV_sim (by assumption) (by assumption) (by assumption) _ _ _
      | refine ESim.bind _ (fun _ => ?_)
      | split)

theorem consNOT_sim (h : Sim lam st s s1) (hc : s.cons = st.cons ++ s1.cons) (hl : lam ≠ 0) (a : SVal) :
    ESim lam st (consNOT s a lam) (consNOT s1 a 1) := by
  unfold consNOT; repeat esim_step

theorem consBUFFER_sim (h : Sim lam st s s1) (hc : s.cons = st.cons ++ s1.cons) (hl : lam ≠ 0) (a : SVal) :
    ESim lam st (consBUFFER s a lam) (consBUFFER s1 a 1) := by
  unfold consBUFFER; repeat esim_step

theorem consAND_sim (h : Sim lam st s s1) (hc : s.cons = st.cons ++ s1.cons) (hl : lam ≠ 0) (vs : List SVal) :
    ESim lam st (consAND s vs lam) (consAND s1 vs 1) := by
  unfold consAND; exact ESim.bind _ (fun g => consBUFFER_sim h hc hl _)

theorem consNAND_sim (h : Sim lam st s s1) (hc : s.cons = st.cons ++ s1.cons) (hl : lam ≠ 0) (vs : List SVal) :
    ESim lam st (consNAND s vs lam) (consNAND s1 vs 1) := by
  unfold consNAND; exact ESim.bind _ (fun g => consNOT_sim h hc hl _)

theorem consOR_sim (h : Sim lam st s s1) (hc : s.cons = st.cons ++ s1.cons) (hl : lam ≠ 0) (vs : List SVal) :
    ESim lam st (consOR s vs lam) (consOR s1 vs 1) := by
  unfold consOR; repeat esim_step

theorem consXOR_sim (h : Sim lam st s s1) (hc : s.cons = st.cons ++ s1.cons) (hl : lam ≠ 0) (vs : List SVal) :
    ESim lam st (consXOR s vs lam) (consXOR s1 vs 1) := by
  unfold consXOR; repeat esim_step

theorem consNOR_sim (h : Sim lam st s s1) (hc : s.cons = st.cons ++ s1.cons) (hl : lam ≠ 0) (vs : List SVal) :
    ESim lam st (consNOR s vs lam) (consNOR s1 vs 1) := by
  unfold consNOR; repeat esim_step

theorem consXNOR_sim (h : Sim lam st s s1) (hc : s.cons = st.cons ++ s1.cons) (hl : lam ≠ 0) (vs : List SVal) :
    ESim lam st (consXNOR s vs lam) (consXNOR s1 vs 1) := by
  unfold consXNOR; repeat esim_step

theorem consEqAND_sim (h : Sim lam st s s1) (hc : s.cons = st.cons ++ s1.cons) (hl : lam ≠ 0) (a : SVal) (vs : List SVal) :
    ESim lam st (consEqAND s a vs lam) (consEqAND s1 a vs 1) := by
  unfold consEqAND; repeat esim_step

theorem consEqNAND_sim (h : Sim lam st s s1) (hc : s.cons = st.cons ++ s1.cons) (hl : lam ≠ 0) (a : SVal) (vs : List SVal) :
    ESim lam st (consEqNAND s a vs lam) (consEqNAND s1 a vs 1) := by
  unfold consEqNAND; repeat esim_step

theorem consEqOR_sim (h : Sim lam st s s1) (hc : s.cons = st.cons ++ s1.cons) (hl : lam ≠ 0) (a : SVal) (vs : List SVal) :
    ESim lam st (consEqOR s a vs lam) (consEqOR s1 a vs 1) := by
  unfold consEqOR; repeat esim_step

theorem consEqNOR_sim (h : Sim lam st s s1) (hc : s.cons = st.cons ++ s1.cons) (hl : lam ≠ 0) (a : SVal) (vs : List SVal) :
    ESim lam st (consEqNOR s a vs lam) (consEqNOR s1 a vs 1) := by
  unfold consEqNOR; repeat esim_step

theorem consEqXOR_sim (h : Sim lam st s s1) (hc : s.cons = st.cons ++ s1.cons) (hl : lam ≠ 0) (a : SVal) (vs : List SVal) :
    ESim lam st (consEqXOR s a vs lam) (consEqXOR s1 a vs 1) := by
  unfold consEqXOR; repeat esim_step

theorem consEqXNOR_sim (h : Sim lam st s s1) (hc : s.cons = st.cons ++ s1.cons) (hl : lam ≠ 0) (a : SVal) (vs : List SVal) :
    ESim lam st (consEqXNOR s a vs lam) (consEqXNOR s1 a vs 1) := by
  unfold consEqXNOR; repeat esim_step

theorem consEqBUFFER_sim (h : Sim lam st s s1) (hc : s.cons = st.cons ++ s1.cons) (hl : lam ≠ 0) (a b : SVal) :
    ESim lam st (consEqBUFFER s a b lam) (consEqBUFFER s1 a b 1) := by
  unfold consEqBUFFER; repeat esim_step

theorem consEqNOT_sim (h : Sim lam st s s1) (hc : s.cons = st.cons ++ s1.cons) (hl : lam ≠ 0) (a b : SVal) :
    ESim lam st (consEqNOT s a b lam) (consEqNOT s1 a b 1) := by
  unfold consEqNOT; repeat esim_step

/-- all sixteen methods -/
theorem consLogic_sim (h : Sim lam st s s1) (hc : s.cons = st.cons ++ s1.cons) (hl : lam ≠ 0) (eq : Bool) (g : Gate) (ops : List SVal) :
    ESim lam st (consLogic eq g s ops lam) (consLogic eq g s1 ops 1) := by
  unfold consLogic
  split
  all_goals first
    | exact rfl
    | exact consNOT_sim h hc hl _
    | exact consBUFFER_sim h hc hl _
    | exact consAND_sim h hc hl _
    | exact consNAND_sim h hc hl _
    | exact consOR_sim h hc hl _
    | exact consNOR_sim h hc hl _
    | exact consXOR_sim h hc hl _
    | exact consXNOR_sim h hc hl _
    | exact consEqNOT_sim h hc hl _ _
    | exact consEqBUFFER_sim h hc hl _ _
    | exact consEqAND_sim h hc hl _ _
    | exact consEqNAND_sim h hc hl _ _
    | exact consEqOR_sim h hc hl _ _
    | exact consEqNOR_sim h hc hl _ _
    | exact consEqXOR_sim h hc hl _ _
    | exact consEqXNOR_sim h hc hl _ _

/-- the run at weight `lam ≠ 0` from `st` against the core -/
theorem logicCore_sim (eq : Bool) (g : Gate) (ops : List SVal) (st : St) (lam : Rat) (hl : lam ≠ 0)
    (hst : (keys st.terms).Nodup) :
    ESim lam st (consLogic eq g st ops lam) (consLogic eq g { anc := st.anc } ops 1) :=
  consLogic_sim (Sim.init lam st hst) (by simp) hl eq g ops

theorem agree_symLogic {c : Rat} {S : SymSt RatPoly} {st : St} (h : Agree c S st) (w : RatPoly)
    (hw : w.evalAt c ≠ 0) (eq : Bool) (g : Gate) (ops : List SVal) :
    match symLogic S w eq g ops, consLogic eq g st ops (w.evalAt c) with
    | .ok S', .ok st' => Agree c S' st'
    | .error e, .error e' => e = e'
    | _, _ => False := by
  have hsim := logicCore_sim eq g ops st (w.evalAt c) hw h.nd
  unfold symLogic logicCore
  rw [isZero_false_of_eval hw, ← h.anc]
  simp only [Bool.false_eq_true, if_false]
  cases e1 : consLogic eq g st ops (w.evalAt c) <;> cases e2 : consLogic eq g { anc := st.anc } ops 1 <;>
    rw [e1, e2] at hsim <;> simp only [ESim] at hsim
  · exact hsim.symm
  · rename_i st' s1
    obtain ⟨hs, hc⟩ := hsim
    have hG : CanonP squashB s1.terms := ⟨hs.nd1, hs.sq1⟩
    refine ⟨nodup_symAdd _ _ _ _ h.ndS, hs.nd, fun k => ?_, ?_, ?_, ?_, ?_⟩
    · show _ = RatPoly.evalAt c (getR (symAdd squashB S.terms w s1.terms) k)
      rw [phi_get_symAdd (hom_evalAt c) squashB_idem S.terms w hG h.ndS k, hs.terms k, h.terms k]
    · exact hs.anc
    · show _ = S.cons ++ s1.cons
      rw [hc, h.cons]
    · show _ = S.warns ++ s1.warns
      rw [hs.warns, h.warns]
    · show _ = S.tags ++ s1.tags
      rw [hs.tags, h.tags]

end Qv.Sym
