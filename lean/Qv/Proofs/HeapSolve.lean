import Qv.Proofs.HeapSep
/-!
# Qv.Proofs.HeapSolve — the brute-force solvers leave their argument's abstract value as it was (as a finite map)
-/
namespace Qv.Hp
open Qv

theorem absMapping_congr {h h' : Heap} {m : Option Nat} (hag : ∀ mr, m = some mr → h'[mr]? = h[mr]?) :
    absMapping h' m = absMapping h m := by
  cases m with
  | none => rfl
  | some mr => simp only [absMapping]; rw [hag mr rfl]

theorem absCons_congr {h h' : Heap} {c : Option Nat} (hag : ∀ cr, c = some cr → ∀ x, Reach h cr x → h'[x]? = h[x]?) :
    absCons h' c = absCons h c := by
  cases c with
  | none => rfl
  | some cr =>
    simp only [absCons]
    have hag' := hag cr rfl
    rw [hag' cr (Reach.refl _)]
    cases hcd : h[cr]? with
    | none => rfl
    | some cell =>
      cases cell with
      | cdict g =>
        simp only []
        apply absGroups_congr
        intro e he
        have hre : Reach h cr e.2 := Reach.step (Reach.refl _) hcd (by
          simp only [Cell.refs, List.mem_map]; exact ⟨e, he, rfl⟩)
        refine ⟨hag' _ hre, ?_⟩
        intro l hl r hrl
        exact hag' r (Reach.step hre hl (by simpa [Cell.refs] using hrl))
      | _ => rfl

theorem allocPlains_old : ∀ (k : Nat) (h : Heap) (c : Nat), c < h.length → (allocPlains h k).1[c]? = h[c]? :=
  fun k h _ hc => (allocPlains_closed.allocPlains_fresh' k h).old hc

/-- two abstract values that differ at most in the order of the terms -/
def SameUpToOrder (a b : MObj) : Prop :=
  a.kind = b.kind ∧ a.terms.Perm b.terms ∧ a.name = b.name ∧ a.mapping = b.mapping ∧ a.anc = b.anc ∧ a.cons = b.cons

theorem solveH_value {h h' : Heap} {a nres : Nat} {rs : List Nat} (hc : Closed h)
    (he : solveH h a nres = some (h', rs))
    (hacyc : ∀ cell, h[a]? = some cell → ∀ q ∈ cell.refs, ¬ Reach h q a)
    (hz : ∀ d m rm v c, h[a]? = some (Cell.obj d m rm v c) → ∀ e ∈ d.terms, e.1 = [] → e.2 ≠ 0)
    {mo : MObj} (hv : absVal h a = some mo) : ∃ mo', absVal h' a = some mo' ∧ SameUpToOrder mo' mo := by
  have hfr := (solveH_frame hc he).1
  unfold solveH at he
  split at he
  · rename_i d m rm v c hcell
    have halt := get_some_lt hcell
    simp only [Option.some.injEq] at he
    rw [Prod.ext_iff] at he
    obtain ⟨rfl, _⟩ := he
    have hkeep : ∀ q ∈ (Cell.obj d m rm v c).refs, ∀ x, Reach h q x →
        (allocPlains (write h a (.obj { d with terms := popReinsertObj d.terms } m rm v c)) nres).1[x]? = h[x]? := by
      intro q hq x hr
      have hqlt : q < h.length := hc a _ hcell q hq
      have hxlt := hr.lt hc hqlt
      apply hfr.2 x hxlt
      intro hmem
      simp only [List.mem_singleton] at hmem
      subst hmem
      exact hacyc _ hcell q hq hr
    have hnew : (allocPlains (write h a (.obj { d with terms := popReinsertObj d.terms } m rm v c)) nres).1[a]? =
        some (.obj { d with terms := popReinsertObj d.terms } m rm v c) := by
      rw [allocPlains_old _ _ _ (by simpa using halt), get_write_eq halt]
    have e1 := absMapping_congr (h := h)
      (h' := (allocPlains (write h a (.obj { d with terms := popReinsertObj d.terms } m rm v c)) nres).1) (m := m)
      (fun mr hmr => hkeep mr (by subst hmr; simp [Cell.refs]) mr (Reach.refl _))
    have e2 := absCons_congr (h := h)
      (h' := (allocPlains (write h a (.obj { d with terms := popReinsertObj d.terms } m rm v c)) nres).1) (c := c)
      (fun cr hcr x hx => hkeep cr (by subst hcr; simp [Cell.refs]) x hx)
    simp only [absVal, hcell] at hv
    simp only [absVal, hnew, e1, e2]
    cases hm : absMapping h m with
    | none => simp [hm] at hv
    | some mp =>
      cases hcs : absCons h c with
      | none => simp [hm, hcs] at hv
      | some cs =>
        simp only [hm, hcs, Option.some.injEq] at hv
        subst hv
        exact ⟨_, rfl, rfl, popReinsertObj_perm _ (hz d m rm v c hcell), rfl, rfl, rfl, rfl⟩
  · rename_i t hcell
    have halt := get_some_lt hcell
    simp only [Option.some.injEq] at he
    rw [Prod.ext_iff] at he
    obtain ⟨rfl, _⟩ := he
    have hnew : (allocPlains (write h a (.plain (popReinsert t))) nres).1[a]? = some (.plain (popReinsert t)) := by
      rw [allocPlains_old _ _ _ (by simpa using halt), get_write_eq halt]
    simp only [absVal, hcell, Option.some.injEq] at hv
    subst hv
    simp only [absVal, hnew]
    exact ⟨_, rfl, rfl, popReinsert_perm t, rfl, rfl, rfl, rfl⟩
  · cases he

end Qv.Hp
