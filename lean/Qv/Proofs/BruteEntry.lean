import Qv.Model.BruteEntry
import Qv.Proofs.BruteSolve
import Qv.Proofs.Book
/-!
# Helper lemmas for C09, part 4: every concrete entry point satisfies `Setup`

The glue between `_solve_bruteforce`'s abstract input and the objects that reach it:
* a Python `set` of the key labels, in any iteration order (`SetOrder`) — plain dicts and the Matrix types;
* `[_reverse_mapping[0], …, _reverse_mapping[N-1]]` under the bookkeeping invariant of C14 (`I2`, `I3`):
  no `KeyError`, no repetition, exactly the mapped labels (`bookVars_ok`);
* stored terms of an object are a dict with squashed keys and non-zero values (`I0`);
* `PCBO/PCSO.is_solution_valid` on an assignment dict over variables that cover the constraints.
-/
namespace Qv.Brute
open Qv Qv.Book

/-! ## a Python set of the labels of the keys -/

/-- `order` is one iteration order of `var = set(); for x in D: var.update(set(x))`: every label of every key,
once -/
def SetOrder (p : Poly) (order : List Var) : Prop :=
  order.Nodup ∧ ∀ i, i ∈ order ↔ ∃ kv ∈ p, i ∈ kv.1

theorem foldl_lab_spec (k : Key) (acc : List Var) (h : acc.Nodup) :
    (k.foldl (fun a i => if a.contains i then a else a ++ [i]) acc).Nodup ∧
    ∀ i, i ∈ k.foldl (fun a i => if a.contains i then a else a ++ [i]) acc ↔ i ∈ acc ∨ i ∈ k := by
  induction k generalizing acc with
  | nil => simp [h]
  | cons j r ih =>
    simp only [List.foldl_cons]
    by_cases hj : acc.contains j = true
    · simp only [hj, if_true]
      obtain ⟨h1, h2⟩ := ih acc h
      refine ⟨h1, fun i => (h2 i).trans ?_⟩
      have hj' : j ∈ acc := by simpa using hj
      constructor
      · rintro (h | h)
        · exact Or.inl h
        · exact Or.inr (List.mem_cons_of_mem _ h)
      · rintro (h | h)
        · exact Or.inl h
        · rcases List.mem_cons.mp h with rfl | h
          · exact Or.inl hj'
          · exact Or.inr h
    · simp only [hj, Bool.false_eq_true, if_false]
      have hj' : j ∉ acc := by simpa using hj
      have hn : (acc ++ [j]).Nodup := by
        rw [List.nodup_append]
        refine ⟨h, by simp, ?_⟩
        intro a ha b hb
        simp only [List.mem_singleton] at hb
        subst hb
        exact fun e => hj' (e ▸ ha)
      obtain ⟨h1, h2⟩ := ih (acc ++ [j]) hn
      refine ⟨h1, fun i => (h2 i).trans ?_⟩
      simp only [List.mem_append, List.mem_cons, List.not_mem_nil, or_false]
      constructor
      · rintro ((h | h) | h)
        · exact Or.inl h
        · exact Or.inr (Or.inl h)
        · exact Or.inr (Or.inr h)
      · rintro (h | h | h)
        · exact Or.inl (Or.inl h)
        · exact Or.inl (Or.inr h)
        · exact Or.inr h

theorem foldl_labs_spec (p : Poly) (acc : List Var) (h : acc.Nodup) :
    (p.foldl (fun acc kv => kv.1.foldl (fun a i => if a.contains i then a else a ++ [i]) acc) acc).Nodup ∧
    ∀ i, i ∈ p.foldl (fun acc kv => kv.1.foldl (fun a i => if a.contains i then a else a ++ [i]) acc) acc ↔
      i ∈ acc ∨ ∃ kv ∈ p, i ∈ kv.1 := by
  induction p generalizing acc with
  | nil => simp [h]
  | cons kv r ih =>
    simp only [List.foldl_cons]
    obtain ⟨a1, a2⟩ := foldl_lab_spec kv.1 acc h
    obtain ⟨h1, h2⟩ := ih _ a1
    refine ⟨h1, fun i => (h2 i).trans ?_⟩
    rw [a2]
    simp only [List.mem_cons, exists_eq_or_imp]
    constructor
    · rintro ((h | h) | h)
      · exact Or.inl h
      · exact Or.inr (Or.inl h)
      · exact Or.inr (Or.inr h)
    · rintro (h | h | h)
      · exact Or.inl (Or.inl h)
      · exact Or.inl (Or.inr h)
      · exact Or.inr h

/-- the first-appearance listing is one admissible set order (so `SetOrder` is satisfiable for every dict) -/
theorem setOrder_keyLabels (p : Poly) : SetOrder p (keyLabels p) := by
  obtain ⟨h1, h2⟩ := foldl_labs_spec p [] List.nodup_nil
  exact ⟨h1, fun i => by simpa [keyLabels] using h2 i⟩

/-- any reordering of an admissible order is admissible: the theorems do not depend on CPython's hashing -/
theorem SetOrder.perm {p : Poly} {o o' : List Var} (h : SetOrder p o) (hp : o'.Perm o) : SetOrder p o' :=
  ⟨hp.nodup_iff.mpr h.1, fun i => (hp.mem_iff).trans (h.2 i)⟩

/-- **plain dicts and the Matrix types** (no `_reverse_mapping`): the key scan yields `Setup` for every set order -/
theorem setup_of_scan {fn : Fn} {D : Model} {order : List Var} (hb : D.book = none) (hd : IsDict D.terms)
    (ho : SetOrder D.terms order) (hdeg : fn.DegOK D.terms) : Setup fn D order order :=
  ⟨hd, by simp [Model.vars, hb], ho.1, ho.2, hdeg⟩

/-! ## the stored terms of a model object -/

theorem isDict_of_I0 {s : State} (h0 : I0 s) : IsDict s.terms := h0.nodup

theorem nonzero_of_I0 {s : State} (h0 : I0 s) : ∀ kv ∈ s.terms, kv.2 ≠ 0 := h0.nonzero

/-- a degree-2 type stores keys of at most two labels (`squash_key` raises otherwise) -/
theorem len_le_two_of_I0 {s : State} (h0 : I0 s) (hk : s.kind.isDeg2 = true) :
    ∀ kv ∈ s.terms, kv.1.length ≤ 2 := by
  intro kv hkv
  have hf := h0.fixed kv.1 (List.mem_map_of_mem hkv)
  rcases squash_canon hf with hd | ⟨_, hl⟩
  · rw [hd] at hk; cases hk
  · exact hl hk

/-- the free function matches the object's degree class (always true for the two general solvers) -/
def FnFits (fn : Fn) (κ : Kind) : Prop :=
  match fn with
  | .pubo | .puso => True
  | .qubo | .quso => κ.isDeg2 = true

theorem degOK_of_fits {fn : Fn} {s : State} (h0 : I0 s) (hf : FnFits fn s.kind) : fn.DegOK s.terms := by
  cases fn <;> simp only [Fn.DegOK] <;> first | trivial | exact len_le_two_of_I0 h0 hf

theorem fits_fnOfKind (κ : Kind) : FnFits (fnOfKind κ) κ := by
  cases κ <;> simp [fnOfKind, FnFits, Kind.isDeg2]

/-! ## `_reverse_mapping[0..N-1]` under the C14 invariant -/

theorem rmLookup_mem {rm : List (Nat × Var)} {j : Nat} {l : Var} (h : rmLookup rm j = .ok l) : (j, l) ∈ rm := by
  induction rm with
  | nil => cases h
  | cons p r ih =>
    obtain ⟨j', l'⟩ := p
    by_cases hj : j' = j
    · subst hj
      simp only [rmLookup, if_true, Except.ok.injEq] at h
      subst h
      exact List.mem_cons_self
    · simp only [rmLookup, hj, if_false] at h
      exact List.mem_cons_of_mem _ (ih h)

theorem rmLookup_of_mem {rm : List (Nat × Var)} {j : Nat} {l : Var} (h : (j, l) ∈ rm) :
    ∃ l', rmLookup rm j = .ok l' := by
  induction rm with
  | nil => cases h
  | cons p r ih =>
    obtain ⟨j', l'⟩ := p
    by_cases hj : j' = j
    · exact ⟨l', by simp [rmLookup, hj]⟩
    · rcases List.mem_cons.mp h with h | h
      · injection h with h1 _
        exact absurd h1.symm hj
      · obtain ⟨l'', h''⟩ := ih h
        exact ⟨l'', by simp [rmLookup, hj, h'']⟩

theorem mapM_of_forall {α β : Type} {f : α → Except Err β} {g : α → β} :
    ∀ (l : List α), (∀ a ∈ l, f a = .ok (g a)) → l.mapM f = .ok (l.map g)
  | [], _ => rfl
  | a :: r, h => by
    have h1 := h a List.mem_cons_self
    have h2 := mapM_of_forall r (fun b hb => h b (List.mem_cons_of_mem _ hb))
    simp [List.mapM_cons, h1, h2, bind, Except.bind, pure, Except.pure]

/-- **the variable list of a labelled object.**  Under `I2` (mapping and reverse mapping are mutually inverse
bijections onto `0..next_label-1`) and `next_label = num_binary_variables` (part of `I3`): every lookup
`_reverse_mapping[j]`, `j < N`, succeeds; the resulting list has no repetition; its members are exactly the mapped
labels. -/
theorem bookVars_ok {s : State} (h2 : I2 s) (hn : s.nextLabel = s.numVars) :
    (List.range s.numVars).mapM (rmLookup s.reverse) = .ok (bookVars s) ∧ (bookVars s).Nodup ∧
    ∀ i, i ∈ bookVars s ↔ i ∈ mapDom s := by
  obtain ⟨m2r, r2m, hfst, hsnd, hlt, _⟩ := h2
  -- every index below `N` resolves
  have hres : ∀ j, j < s.numVars → ∃ l, rmLookup s.reverse j = .ok l := by
    intro j hj
    have : j ∈ s.mapping.map Prod.snd := (hlt j).mpr (hn ▸ hj)
    obtain ⟨p, hp, rfl⟩ := List.mem_map.mp this
    exact rmLookup_of_mem (m2r p hp)
  let g : Nat → Var := fun j => match rmLookup s.reverse j with | .ok l => l | .error _ => 0
  have hg : ∀ j, j < s.numVars → rmLookup s.reverse j = .ok (g j) := by
    intro j hj
    obtain ⟨l, hl⟩ := hres j hj
    simp [g, hl]
  have hgm : ∀ j, j < s.numVars → (g j, j) ∈ s.mapping := fun j hj => r2m _ (rmLookup_mem (hg j hj))
  refine ⟨mapM_of_forall _ (fun j hj => hg j (List.mem_range.mp hj)), ?_, ?_⟩
  · refine List.Nodup.map_on ?_ List.nodup_range
    intro a ha b hb hab
    have h1 := hgm a (List.mem_range.mp ha)
    have h2 := hgm b (List.mem_range.mp hb)
    have hab' : g a = g b := hab
    rw [hab'] at h1
    have := List.inj_on_of_nodup_map hfst h1 h2 rfl
    injection this
  · intro i
    show i ∈ (List.range s.numVars).map g ↔ _
    constructor
    · intro hi
      obtain ⟨j, hj, rfl⟩ := List.mem_map.mp hi
      exact List.mem_map.mpr ⟨_, hgm j (List.mem_range.mp hj), rfl⟩
    · intro hi
      obtain ⟨p, hp, rfl⟩ := List.mem_map.mp hi
      have hj : p.2 < s.numVars := hn ▸ (hlt p.2).mp (List.mem_map_of_mem hp)
      have h1 := hgm p.2 hj
      have : (g p.2, p.2) = p := List.inj_on_of_nodup_map hsnd h1 hp rfl
      exact List.mem_map.mpr ⟨p.2, List.mem_range.mpr hj, by rw [← this]⟩

/-! ## `Setup` without exactness: an object whose caches were not refreshed -/

/-- as `Setup`, but the enumerated variables only *cover* the labels of the keys (a labelled object keeps a
variable whose terms cancelled until `refresh()`; the extra variable is enumerated, the value does not depend on it) -/
structure SetupW (fn : Fn) (D : Model) (order vars : List Var) : Prop where
  dict : IsDict D.terms
  vars_ok : D.vars order = .ok vars
  nodup : vars.Nodup
  covers : Covers D.terms vars
  deg : fn.DegOK D.terms

theorem Setup.weak {fn : Fn} {D : Model} {order vars : List Var} (S : Setup fn D order vars) :
    SetupW fn D order vars :=
  ⟨S.dict, S.vars_ok, S.nodup, fun kv hkv i hi => (S.exact i).mpr ⟨kv, hkv, hi⟩, S.deg⟩

/-- the main lemma for a model that has a stored non-constant key, from coverage alone -/
theorem solve_spec_weak {fn : Fn} {D : Model} {order vars : List Var} (S : SetupW fn D order vars)
    (allS : Bool) (valid : Assign → Bool) (hnc : D.isConst = false) :
    ∃ out, solve fn D allS valid order = .ok out ∧
      Spec fn.spin vars valid allS (fun g => eval g D.terms) out := by
  unfold solve solveCore
  simp only [Model.isConst, Bool.or_eq_false_iff, Bool.and_eq_false_iff] at hnc
  obtain ⟨he', hk'⟩ := hnc
  simp only [he', Bool.false_eq_true, if_false]
  by_cases hk : hasKey D.terms [] = true
  · have hp : (erase D.terms []).isEmpty = false := by
      rcases hk' with h | h
      · rw [hk] at h; cases h
      · exact h
    simp only [hk, if_true, hp, Bool.false_eq_true, if_false]
    have hc' : Covers (store D.kind (erase D.terms []) [] (get D.terms [])) vars := by
      intro kv hkv i hi
      rcases mem_restored hkv with h' | h'
      · exact S.covers kv h' i hi
      · rw [h'] at hi; cases hi
    obtain ⟨out, ho, _, hs⟩ := solveMain_spec fn D _ allS valid order vars S.vars_ok S.nodup hc'
      (DegOK_restored S.deg)
    exact ⟨out, ho, Spec.congr (fun g _ => eval_restored D.kind S.dict g) hs⟩
  · simp only [hk, Bool.false_eq_true, if_false]
    obtain ⟨out, ho, _, hs⟩ := solveMain_spec fn D D.terms allS valid order vars S.vars_ok S.nodup S.covers S.deg
    exact ⟨out, ho, hs⟩

/-- the terms after a successful call are a permutation of the terms before -/
theorem after_perm {fn : Fn} {D : Model} {allS : Bool} {valid : Assign → Bool} {order : List Var}
    {out : Out} (hd : IsDict D.terms) (hz : D.kind ≠ .dict → ∀ kv ∈ D.terms, kv.2 ≠ 0)
    (h : solve fn D allS valid order = .ok out) : out.after.Perm D.terms := by
  rcases solve_after h with h' | ⟨hk, h'⟩
  · rw [h']
  · rw [h']
    refine restored_perm hd hk ?_
    by_cases hkind : D.kind = .dict
    · exact Or.inl hkind
    · exact Or.inr (hz hkind _ (get_mem_of_hasKey hk))

/-- **the whole property for one call**: it returns, the result meets `Spec` (objective = constrained minimum,
attained by the returned assignment over exactly `vars`; `all_solutions`: duplicate-free, exactly the accepted
minimisers; nothing accepted: `None`), and the terms afterwards are the same dict -/
def Holds (fn : Fn) (D : Model) (allS : Bool) (valid : Assign → Bool) (order vars : List Var) : Prop :=
  ∃ out, solve fn D allS valid order = .ok out ∧
    Spec fn.spin vars valid allS (fun g => eval g D.terms) out ∧ out.after.Perm D.terms

theorem holds_of_setup {fn : Fn} {D : Model} {order vars : List Var} (S : Setup fn D order vars)
    (hz : D.kind ≠ .dict → ∀ kv ∈ D.terms, kv.2 ≠ 0) (allS : Bool) (valid : Assign → Bool)
    (h : D.isConst = false ∨ valid [] = true) : Holds fn D allS valid order vars := by
  obtain ⟨out, ho, hs⟩ := solve_spec S allS valid h
  exact ⟨out, ho, hs, after_perm S.dict hz ho⟩

theorem holds_of_setupW {fn : Fn} {D : Model} {order vars : List Var} (S : SetupW fn D order vars)
    (hz : D.kind ≠ .dict → ∀ kv ∈ D.terms, kv.2 ≠ 0) (allS : Bool) (valid : Assign → Bool)
    (h : D.isConst = false) : Holds fn D allS valid order vars := by
  obtain ⟨out, ho, hs⟩ := solve_spec_weak S allS valid h
  exact ⟨out, ho, hs, after_perm S.dict hz ho⟩

/-! ## the three classes of arguments -/

theorem ofState_book_none {s : State} (hb : hasBO s.kind = false) : (ofState s).book = none := by
  simp [ofState, hb]

theorem ofState_vars {s : State} (hb : hasBO s.kind = true) (order : List Var) :
    (ofState s).vars order = (List.range s.numVars).mapM (rmLookup s.reverse) := by
  simp [ofState, hb, Model.vars]

theorem ofState_nonzero {s : State} (h0 : I0 s) :
    (ofState s).kind ≠ .dict → ∀ kv ∈ (ofState s).terms, kv.2 ≠ 0 := fun _ => h0.nonzero

/-- **Matrix objects** (any state with canonically stored terms): `Setup` for every set order of the stored keys'
labels — the caches (`_variables`, `num_binary_variables`) are not read -/
theorem setup_matrix {fn : Fn} {s : State} {order : List Var} (hb : hasBO s.kind = false) (h0 : I0 s)
    (ho : SetOrder s.terms order) (hf : FnFits fn s.kind) : Setup fn (ofState s) order order :=
  setup_of_scan (ofState_book_none hb) h0.nodup ho (degOK_of_fits h0 hf)

/-- **labelled objects, not refreshed**: the enumerated list is `bookVars s`; it covers the stored keys -/
theorem setupW_labelled {fn : Fn} {s : State} (order : List Var) (hb : hasBO s.kind = true) (h0 : I0 s)
    (h1 : I1 s) (h2 : I2 s) (h3 : I3 s) (hf : FnFits fn s.kind) :
    SetupW fn (ofState s) order (bookVars s) ∧ ∀ i, i ∈ bookVars s ↔ i ∈ s.variables := by
  obtain ⟨c1, c2, c3⟩ := h3 hb
  obtain ⟨b1, b2, b3⟩ := bookVars_ok h2 c3
  have hmem : ∀ i, i ∈ bookVars s ↔ i ∈ s.variables :=
    fun i => (b3 i).trans ⟨c1 i, c2 i⟩
  refine ⟨⟨h0.nodup, (ofState_vars hb order).trans b1, b2, ?_, degOK_of_fits h0 hf⟩, hmem⟩
  intro kv hkv i hi
  exact (hmem i).mpr (h1.1 kv hkv i hi)

/-- **labelled objects with exact caches** (fresh from the constructor's point of view: after `refresh()` or
`copy()`, or whenever no variable has been cancelled): `Setup` at full strength -/
theorem setup_labelled {fn : Fn} {s : State} (order : List Var) (hb : hasBO s.kind = true) (h0 : I0 s)
    (h1 : I1 s) (h2 : I2 s) (h3 : I3 s) (hex : ∀ i, i ∈ s.variables ↔ ∃ kv ∈ s.terms, i ∈ kv.1)
    (hf : FnFits fn s.kind) : Setup fn (ofState s) order (bookVars s) := by
  obtain ⟨W, hmem⟩ := setupW_labelled (fn := fn) order hb h0 h1 h2 h3 hf
  exact ⟨W.dict, W.vars_ok, W.nodup, fun i => (hmem i).trans (hex i), W.deg⟩

/-! ## constant models -/

/-- a model the code treats as constant is the empty dict or holds only the offset -/
theorem isConst_shape {D : Model} (h : D.isConst = true) :
    D.terms = [] ∨ D.terms = [([], get D.terms [])] := by
  simp only [Model.isConst, Bool.or_eq_true, Bool.and_eq_true] at h
  rcases h with he | ⟨_, hp⟩
  · exact Or.inl (List.isEmpty_iff.mp he)
  · cases ht : D.terms with
    | nil => exact Or.inl rfl
    | cons kv r =>
      right
      rw [← ht]
      exact offset_only (by rw [ht]; rfl) hp

/-! ## `PCBO.is_solution_valid` / `PCSO.is_solution_valid` on an assignment over covering variables -/

/-- every label of every recorded constraint is one of the enumerated variables -/
def ConsCover (cons : List (Rel × Poly)) (vars : List Var) : Prop := ∀ c ∈ cons, Covers c.2 vars

/-- `pubo_value` for a PCBO, `puso_value` for a PCSO -/
def pcValue (spin : Bool) : Assign → Poly → Except Err Rat := if spin then pusoValueP else puboValueP

theorem pcValue_restrict {spin : Bool} {vars : List Var} {g : Var → Rat} {P : Poly} (hg : Dom spin g)
    (hc : Covers P vars) : pcValue spin (restrict vars g) P = .ok (eval g P) := by
  cases spin with
  | false => exact Fn.valueP_restrict .pubo hc hg trivial
  | true => exact Fn.valueP_restrict .puso hc hg trivial

theorem pc_relOK_restrict {spin : Bool} {vars : List Var} {g : Var → Rat} (hg : Dom spin g) (r : Rel)
    (cons : List (Rel × Poly)) (hc : ∀ c ∈ cons, Covers c.2 vars) :
    Workflow.relOK (pcValue spin) r (restrict vars g) cons =
      .ok (cons.all (fun c => !(decide (c.1 = r)) || c.1.holds (eval g c.2))) := by
  induction cons with
  | nil => rfl
  | cons c rest ih =>
    obtain ⟨r', P⟩ := c
    have ih' := ih (fun c hc' => hc c (List.mem_cons_of_mem _ hc'))
    by_cases hr : r' = r
    · subst hr
      have hv := pcValue_restrict (spin := spin) hg (hc _ List.mem_cons_self)
      simp only [Workflow.relOK, if_true, hv, bind, Except.bind, List.all_cons, decide_true, Bool.not_true,
        Bool.false_or]
      by_cases hh : r'.holds (eval g P) = true
      · simp [hh, ih']
      · simp [hh, pure, Except.pure]
    · simp [Workflow.relOK, hr, ih']

theorem pc_validLoop_restrict {spin : Bool} {vars : List Var} {g : Var → Rat} (hg : Dom spin g)
    (cons : List (Rel × Poly)) (hc : ∀ c ∈ cons, Covers c.2 vars) (rels : List Rel) :
    Workflow.validLoop (pcValue spin) cons (restrict vars g) rels =
      .ok (rels.all (fun r => cons.all (fun c => !(decide (c.1 = r)) || c.1.holds (eval g c.2)))) := by
  induction rels with
  | nil => rfl
  | cons r rest ih =>
    simp only [Workflow.validLoop, pc_relOK_restrict hg r cons hc, bind, Except.bind, List.all_cons]
    by_cases hh : (cons.all fun c => !(decide (c.1 = r)) || c.1.holds (eval g c.2)) = true
    · simp [hh, ih]
    · simp [hh, pure, Except.pure]

/-- on an assignment over variables that cover the recorded constraints, `is_solution_valid` returns (no
`KeyError`) and says whether every recorded constraint holds -/
theorem pc_isSolutionValid_restrict {spin : Bool} {st : Qv.St} {vars : List Var} {g : Var → Rat}
    (hg : Dom spin g) (hc : ConsCover st.cons vars) :
    Workflow.isSolutionValidP spin st (restrict vars g) = .ok (isValid st g) := by
  have := pc_validLoop_restrict hg st.cons hc Workflow.relOrder
  unfold Workflow.isSolutionValidP
  unfold pcValue at this
  rw [this]
  congr 1
  rw [Bool.eq_iff_iff]
  unfold isValid Workflow.relOrder
  simp only [List.all_cons, List.all_nil, Bool.and_true, Bool.and_eq_true, List.all_eq_true, Bool.or_eq_true,
    Bool.not_eq_true', decide_eq_false_iff_not]
  constructor
  · intro h c hcm
    obtain ⟨h1, h2, h3, h4, h5, h6⟩ := h
    cases hr : c.1
    · rcases h1 c hcm with h | h; exact absurd hr h; rwa [hr] at h
    · rcases h2 c hcm with h | h; exact absurd hr h; rwa [hr] at h
    · rcases h3 c hcm with h | h; exact absurd hr h; rwa [hr] at h
    · rcases h4 c hcm with h | h; exact absurd hr h; rwa [hr] at h
    · rcases h5 c hcm with h | h; exact absurd hr h; rwa [hr] at h
    · rcases h6 c hcm with h | h; exact absurd hr h; rwa [hr] at h
  · intro h
    refine ⟨?_, ?_, ?_, ?_, ?_, ?_⟩ <;> exact fun c hcm => Or.inr (h c hcm)

/-! ## what the `solve_bruteforce` methods return (the solution part only) -/

/-- The solution part, relative to an acceptance predicate `V` and an objective `E` on total assignments:
without `all_solutions` an accepted assignment over exactly `vars` that minimises `E` over all accepted ones; with
`all_solutions` a duplicate-free list whose members are exactly those. -/
def SolSpec (spin : Bool) (vars : List Var) (V : (Var → Rat) → Prop) (E : (Var → Rat) → Rat) (allS : Bool)
    (sol : Sol) : Prop :=
  (allS = false → ∃ g, Dom spin g ∧ sol = .one (restrict vars g) ∧ V g ∧
    ∀ g', Dom spin g' → V g' → E g ≤ E g') ∧
  (allS = true → ∃ l, sol = .many l ∧ l.Nodup ∧
    ∀ a, a ∈ l ↔ ∃ g, Dom spin g ∧ a = restrict vars g ∧ V g ∧ ∀ g', Dom spin g' → V g' → E g ≤ E g')

theorem SolSpec.congr {spin : Bool} {vars : List Var} {V V' : (Var → Rat) → Prop} {E : (Var → Rat) → Rat}
    {allS : Bool} {sol : Sol} (h : ∀ g, Dom spin g → (V g ↔ V' g)) (S : SolSpec spin vars V E allS sol) :
    SolSpec spin vars V' E allS sol := by
  refine ⟨fun ha => ?_, fun ha => ?_⟩
  · obtain ⟨g, hg, e, hv, hmin⟩ := S.1 ha
    exact ⟨g, hg, e, (h g hg).mp hv, fun g' hg' hv' => hmin g' hg' ((h g' hg').mpr hv')⟩
  · obtain ⟨l, e, hnd, hmem⟩ := S.2 ha
    refine ⟨l, e, hnd, fun a => (hmem a).trans ?_⟩
    constructor
    · rintro ⟨g, hg, e', hv, hmin⟩
      exact ⟨g, hg, e', (h g hg).mp hv, fun g' hg' hv' => hmin g' hg' ((h g' hg').mpr hv')⟩
    · rintro ⟨g, hg, e', hv, hmin⟩
      exact ⟨g, hg, e', (h g hg).mpr hv, fun g' hg' hv' => hmin g' hg' ((h g' hg').mp hv')⟩

/-- from the full specification of the pair to the solution part, when something is accepted -/
theorem solSpec_of_spec {spin : Bool} {vars : List Var} {valid : Assign → Bool} {allS : Bool}
    {E : (Var → Rat) → Rat} {out : Out} (hs : Spec spin vars valid allS E out)
    (hex : ∃ g, Dom spin g ∧ valid (restrict vars g) = true) :
    SolSpec spin vars (fun g => valid (restrict vars g) = true) E allS out.sol := by
  obtain ⟨m, _, hmin, ⟨g, hg, hv, he, hsol⟩, hall⟩ := hs.2 hex
  refine ⟨fun ha => ⟨g, hg, hsol ha, hv, fun g' hg' hv' => he ▸ hmin g' hg' hv'⟩, fun ha => ?_⟩
  obtain ⟨l, hl, hnd, hmem⟩ := hall ha
  refine ⟨l, hl, hnd, fun a => (hmem a).trans ?_⟩
  constructor
  · rintro ⟨g1, hg1, rfl, hv1, he1⟩
    exact ⟨g1, hg1, rfl, hv1, fun g' hg' hv' => he1 ▸ hmin g' hg' hv'⟩
  · rintro ⟨g1, hg1, rfl, hv1, hle⟩
    exact ⟨g1, hg1, rfl, hv1, le_antisymm (he ▸ hle g hg hv) (hmin g1 hg1 hv1)⟩

theorem solveMethod_of_solve {fn : Fn} {D : Model} {allS : Bool} {valid : Assign → Bool} {order : List Var}
    {out : Out} (h : solve fn D allS valid order = .ok out) :
    solveMethod fn D allS valid order = .ok out.sol := by
  simp [solveMethod, h, Except.map]

/-- the methods of the eight unconstrained types: `valid` is constantly true, so something is always accepted -/
theorem method_true_of_holds {fn : Fn} {D : Model} {allS : Bool} {order vars : List Var}
    (h : Holds fn D allS (fun _ => true) order vars) :
    ∃ sol, solveMethod fn D allS (fun _ => true) order = .ok sol ∧
      SolSpec fn.spin vars (fun _ => True) (fun g => eval g D.terms) allS sol := by
  obtain ⟨out, ho, hs, _⟩ := h
  refine ⟨out.sol, solveMethod_of_solve ho, ?_⟩
  exact (solSpec_of_spec hs ⟨_, dom_one fn.spin, rfl⟩).congr (fun g _ => by simp)

/-! ## the constrained types -/

theorem wfModel_eq {s : State} (hk : s.kind = .pcbo ∨ s.kind = .pcso) :
    Workflow.wfModel s.kind.isSpin (consSt s) ⟨s.numVars, s.reverse⟩ = ofState s := by
  rcases hk with h | h <;> simp [Workflow.wfModel, ofState, consSt, h, Kind.isSpin, hasBO, Kind.isMatrix]

theorem wfFn_eq {s : State} (hk : s.kind = .pcbo ∨ s.kind = .pcso) :
    Workflow.wfFn s.kind.isSpin = fnOfKind s.kind := by
  rcases hk with h | h <;> simp [Workflow.wfFn, fnOfKind, h, Kind.isSpin]

theorem fnOfKind_spin {s : State} (hk : s.kind = .pcbo ∨ s.kind = .pcso) :
    (fnOfKind s.kind).spin = s.kind.isSpin := by
  rcases hk with h | h <;> simp [fnOfKind, h, Kind.isSpin, Fn.spin]

/-- **`PCBO.solve_bruteforce` / `PCSO.solve_bruteforce`.**  When the enumerated variables cover the recorded
constraints, `is_solution_valid` never raises inside the loop, the call is the generic solver with the predicate
"every recorded constraint holds", and therefore: (a) if some assignment satisfies the constraints, the result is
an assignment over exactly `vars` satisfying them and minimising the model among those (resp. exactly all of
them, once each); (b) if none does and the model has a variable, the result is `{}` (resp. `[{}]`). -/
theorem methodCons_spec {s : State} {vars : List Var} (hk : s.kind = .pcbo ∨ s.kind = .pcso)
    (hv : (ofState s).vars [] = .ok vars) (hnd : vars.Nodup) (hc : ConsCover s.constraints vars)
    (hcv : (ofState s).isConst = true → vars = []) (allS : Bool)
    (H : (ofState s).isConst = false ∨ Workflow.wfValid s.kind.isSpin (consSt s) [] = true →
      Holds (fnOfKind s.kind) (ofState s) allS (Workflow.wfValid s.kind.isSpin (consSt s)) [] vars) :
    ((∃ g, Dom s.kind.isSpin g ∧ isValid (consSt s) g = true) →
      ∃ sol, methodCons s allS = .ok sol ∧
        SolSpec s.kind.isSpin vars (fun g => isValid (consSt s) g = true) (fun g => eval g s.terms) allS sol) ∧
    ((∀ g, Dom s.kind.isSpin g → isValid (consSt s) g = false) → (ofState s).isConst = false →
      methodCons s allS = .ok (emptySol allS)) := by
  have hspin := fnOfKind_spin hk
  have hval : ∀ g, Dom s.kind.isSpin g →
      Workflow.wfValid s.kind.isSpin (consSt s) (restrict vars g) = isValid (consSt s) g := by
    intro g hg
    simp [Workflow.wfValid, pc_isSolutionValid_restrict (st := consSt s) hg (by simpa [consSt] using hc)]
  -- the method is the generic one whenever the generic one is reached
  have hrun : methodCons s allS =
      solveMethod (fnOfKind s.kind) (ofState s) allS (Workflow.wfValid s.kind.isSpin (consSt s)) [] := by
    unfold methodCons Workflow.solveBruteforce
    simp only [wfModel_eq hk, wfFn_eq hk]
    split
    · rfl
    · simp only [hv, bind, Except.bind]
      have hall : (enumerate s.kind.isSpin vars).all (Workflow.validReturns s.kind.isSpin (consSt s)) = true := by
        rw [List.all_eq_true]
        intro a ha
        obtain ⟨g, hg, rfl⟩ := exists_of_mem_enumerate hnd ha
        simp [Workflow.validReturns,
          pc_isSolutionValid_restrict (st := consSt s) hg (by simpa [consSt] using hc)]
      simp only [hall, if_true]
  refine ⟨fun hex => ?_, fun hnone hnc => ?_⟩
  · obtain ⟨g0, hg0, hv0⟩ := hex
    have hex' : ∃ g, Dom (fnOfKind s.kind).spin g ∧
        Workflow.wfValid s.kind.isSpin (consSt s) (restrict vars g) = true :=
      ⟨g0, by rwa [hspin], by rw [hval g0 hg0]; exact hv0⟩
    have hcond : (ofState s).isConst = false ∨ Workflow.wfValid s.kind.isSpin (consSt s) [] = true := by
      cases hcst : (ofState s).isConst with
      | false => exact Or.inl rfl
      | true =>
        right
        have h0 := hval g0 hg0
        rw [hcv hcst, restrict_nil, hv0] at h0
        exact h0
    obtain ⟨out, ho, hs, _⟩ := H hcond
    refine ⟨out.sol, by rw [hrun]; exact solveMethod_of_solve ho, ?_⟩
    have := solSpec_of_spec hs hex'
    rw [hspin] at this
    exact this.congr (fun g hg => by rw [hval g hg])
  · obtain ⟨out, ho, hs, _⟩ := H (Or.inl hnc)
    have h1 := hs.1 (fun g hg => by rw [hspin] at hg; rw [hval g hg]; exact hnone g hg)
    rw [hrun, solveMethod_of_solve ho, h1.2]

/-! ## constant models, histories -/

/-- on a model without variables the code returns before the loop: `valid` is never called -/
theorem solve_const {fn : Fn} {D : Model} {allS : Bool} {valid : Assign → Bool} {order : List Var}
    (hc : D.isConst = true) :
    ∃ after, solve fn D allS valid order = .ok ⟨some (get D.terms []), emptySol allS, after⟩ := by
  unfold solve solveCore
  simp only [Model.isConst, Bool.or_eq_true, Bool.and_eq_true] at hc
  by_cases he : D.terms.isEmpty = true
  · have : D.terms = [] := List.isEmpty_iff.mp he
    exact ⟨D.terms, by simp [this, get]⟩
  · rcases hc with h | ⟨hk, hp⟩
    · exact absurd h he
    · exact ⟨store D.kind (erase D.terms []) [] (get D.terms []), by simp [he, hk, hp]⟩

/-- the C14 invariant (canonical terms, caches are upper bounds, mapping ↔ reverse mapping bijective onto
`0..N-1`, mapped labels = reported variables) holds after every history of edits -/
theorem inv_of_run (κ : Kind) (ops : List Op) :
    I0 (Book.run Fix.fixed κ ops) ∧ I1 (Book.run Fix.fixed κ ops) ∧ I2 (Book.run Fix.fixed κ ops) ∧
    I3 (Book.run Fix.fixed κ ops) :=
  have h := run_pres (closed_QInv Fix.fixed rfl) κ ops (fun op _ s => opOK_true s op)
  ⟨run_pres (closed_I0 Fix.fixed) κ ops (fun op _ s => opOK_true s op), h.1, h.2.1, h.2.2⟩

/-- a history that ends with `refresh()` has exact caches -/
theorem exact_of_refresh (κ : Kind) (ops : List Op) :
    ∀ i, i ∈ (Book.run Fix.fixed κ (ops ++ [.refresh])).variables ↔
      ∃ kv ∈ (Book.run Fix.fixed κ (ops ++ [.refresh])).terms, i ∈ kv.1 := by
  obtain ⟨c, hc, _, _, hex, _⟩ := refresh_spec Fix.fixed (Book.run Fix.fixed κ ops) (inv_of_run κ ops).1
  have hstep : ∀ s, (step Fix.fixed s .refresh).1 = (refresh Fix.fixed s).1 := fun _ => rfl
  have : Book.run Fix.fixed κ (ops ++ [.refresh]) = c := by
    have h1 : Book.run Fix.fixed κ (ops ++ [.refresh]) =
        (step Fix.fixed (Book.run Fix.fixed κ ops) .refresh).1 := by
      unfold Book.run
      rw [List.foldl_append]
      rfl
    rw [h1, hstep, hc]
  rw [this]
  exact hex.1

/-! ## `Problem.solve_bruteforce`: padding the QUBO with every label of the problem -/

theorem eval_append_zero (g : Var → Rat) (p : Poly) (k : Key) : eval g (p ++ [(k, 0)]) = eval g p := by
  induction p with
  | nil => simp [eval]
  | cons kv r ih => obtain ⟨k', v⟩ := kv; simp only [List.cons_append, eval, ih]

theorem eval_setdefault0 (g : Var → Rat) (p : Poly) (k : Key) : eval g (setdefault0 p k) = eval g p := by
  unfold setdefault0; split
  · rfl
  · exact eval_append_zero g p k

theorem isDict_setdefault0 {p : Poly} (h : IsDict p) (k : Key) : IsDict (setdefault0 p k) := by
  unfold setdefault0; split
  · exact h
  · rename_i hk
    have hk' : k ∉ p.map Prod.fst := fun hm => hk ((hasKey_iff_mem p k).mpr hm)
    unfold IsDict
    rw [List.map_append, List.nodup_append]
    refine ⟨h, by simp, ?_⟩
    intro a ha b hb
    simp only [List.map_cons, List.map_nil, List.mem_singleton] at hb
    subst hb
    exact fun e => hk' (e ▸ ha)

theorem labels_setdefault0 (p : Poly) (i j : Var) :
    (∃ kv ∈ setdefault0 p [i], j ∈ kv.1) ↔ (∃ kv ∈ p, j ∈ kv.1) ∨ j = i := by
  unfold setdefault0; split
  · rename_i hk
    constructor
    · exact Or.inl
    · rintro (h | rfl)
      · exact h
      · exact ⟨_, get_mem_of_hasKey hk, by simp⟩
  · constructor
    · rintro ⟨kv, hkv, hj⟩
      rcases List.mem_append.mp hkv with h | h
      · exact Or.inl ⟨kv, h, hj⟩
      · simp only [List.mem_singleton] at h
        subst h
        right; simpa using hj
    · rintro (⟨kv, hkv, hj⟩ | rfl)
      · exact ⟨kv, List.mem_append_left _ hkv, hj⟩
      · exact ⟨([j], 0), by simp, by simp⟩

theorem len_setdefault0 {p : Poly} (h : ∀ kv ∈ p, kv.1.length ≤ 2) (i : Var) :
    ∀ kv ∈ setdefault0 p [i], kv.1.length ≤ 2 := by
  unfold setdefault0; split
  · exact h
  · intro kv hkv
    rcases List.mem_append.mp hkv with h' | h'
    · exact h kv h'
    · simp only [List.mem_singleton] at h'
      subst h'; simp

/-- the padded dict: still a dict of degree ≤ 2, the same function, and its labels are those of `Q` plus `0..N-1` -/
theorem padQ_spec {Q : Poly} (hd : IsDict Q) (hl : ∀ kv ∈ Q, kv.1.length ≤ 2) (N : Nat) :
    IsDict (padQ Q N) ∧ (∀ kv ∈ padQ Q N, kv.1.length ≤ 2) ∧ (∀ g, eval g (padQ Q N) = eval g Q) ∧
    ∀ j, (∃ kv ∈ padQ Q N, j ∈ kv.1) ↔ (∃ kv ∈ Q, j ∈ kv.1) ∨ j < N := by
  unfold padQ
  induction N with
  | zero => exact ⟨hd, hl, fun _ => rfl, fun j => by simp⟩
  | succ n ih =>
    rw [List.range_succ, List.foldl_append]
    simp only [List.foldl_cons, List.foldl_nil]
    obtain ⟨i1, i2, i3, i4⟩ := ih
    refine ⟨isDict_setdefault0 i1 _, len_setdefault0 i2 n, fun g => (eval_setdefault0 g _ _).trans (i3 g), ?_⟩
    intro j
    rw [labels_setdefault0, i4]
    constructor
    · rintro ((h | h) | h)
      · exact Or.inl h
      · exact Or.inr (Nat.lt_succ_of_lt h)
      · exact Or.inr (h ▸ Nat.lt_succ_self n)
    · rintro (h | h)
      · exact Or.inl (Or.inl h)
      · rcases Nat.lt_succ_iff_lt_or_eq.mp h with h | h
        · exact Or.inl (Or.inr h)
        · exact Or.inr h

end Qv.Brute
