import Qv.Proofs.PcboBase
import Mathlib.Tactic.NormNum
import Mathlib.Tactic.Positivity
/-!
# C02 number lemmas: integrality, `num_bits`, binary and unary slack representation
-/
namespace Qv.PcboP

/-! ## integrality -/

theorem int_pos_ge_one {v : Rat} (hi : ∃ n : Int, v = n) (h : 0 < v) : 1 ≤ v := by
  obtain ⟨n, rfl⟩ := hi
  have : (0 : Int) < n := by exact_mod_cast h
  have : (1 : Int) ≤ n := this
  exact_mod_cast this

theorem int_neg_le_neg_one {v : Rat} (hi : ∃ n : Int, v = n) (h : v < 0) : v ≤ -1 := by
  obtain ⟨n, rfl⟩ := hi
  have : n < (0 : Int) := by exact_mod_cast h
  have : n ≤ (-1 : Int) := by omega
  exact_mod_cast this

theorem int_sq_ge_one {v : Rat} (hi : ∃ n : Int, v = n) (h : v ≠ 0) : 1 ≤ v * v := by
  rcases lt_or_gt_of_ne h with h | h
  · have := int_neg_le_neg_one hi h; nlinarith
  · have := int_pos_ge_one hi h; nlinarith

theorem int_gt_neg_one {v : Rat} (hi : ∃ n : Int, v = n) (h : -1 < v) : 0 ≤ v := by
  obtain ⟨n, rfl⟩ := hi
  have : (-1 : Int) < n := by exact_mod_cast h
  have : (0 : Int) ≤ n := by omega
  exact_mod_cast this

theorem int_lt_one {v : Rat} (hi : ∃ n : Int, v = n) (h : v < 1) : v ≤ 0 := by
  obtain ⟨n, rfl⟩ := hi
  have : n < (1 : Int) := by exact_mod_cast h
  have : n ≤ (0 : Int) := by omega
  exact_mod_cast this

/-- a non-negative integer value is a natural number -/
theorem int_nonneg_nat {v : Rat} (hi : ∃ n : Int, v = n) (h : 0 ≤ v) : ∃ m : Nat, v = m := by
  obtain ⟨n, rfl⟩ := hi
  have hn : (0 : Int) ≤ n := by exact_mod_cast h
  refine ⟨n.toNat, ?_⟩
  have : ((n.toNat : Int) : Rat) = (n : Rat) := by rw [Int.toNat_of_nonneg hn]
  rw [← this]; exact (Int.cast_natCast _)

/-! ## `num_bits` -/

theorem le_ceilNat {v : Rat} {m : Nat} (h : (m : Rat) ≤ v) : m ≤ ceilNat v := by
  unfold ceilNat
  have h1 : (m : Rat) ≤ ((Rat.ceil v : Int) : Rat) := le_trans h Rat.le_ceil
  have h2 : (m : Int) ≤ Rat.ceil v := by exact_mod_cast h1
  omega

theorem lt_two_pow_bitLength (n : Nat) : n < 2 ^ bitLength n := by
  unfold bitLength
  split
  · subst_vars; simp
  · exact Nat.lt_log2_self

/-! ## the slack ancillas `ANC+base, ANC+base+1, …` with weights `2^i` (log trick) or `1` -/

def wgt (lt : Bool) (i : Nat) : Rat := if lt then ((2 ^ i : Nat) : Rat) else 1

/-- `Σ_{j<n} wgt (i+j) * s (ANC+base+j)` in the order the loops build it -/
def slackVal (lt : Bool) (s : Var → Rat) : Nat → Nat → Nat → Rat
  | _, _, 0 => 0
  | base, i, n + 1 => wgt lt i * s (ANC + base) + slackVal lt s (base + 1) (i + 1) n

def slackTot (lt : Bool) : Nat → Nat → Rat
  | _, 0 => 0
  | i, n + 1 => wgt lt i + slackTot lt (i + 1) n

theorem wgt_pos (lt : Bool) (i : Nat) : 0 < wgt lt i := by
  unfold wgt; split
  · have : 0 < 2 ^ i := Nat.pow_pos (by decide)
    exact_mod_cast this
  · norm_num

theorem slackVal_bounds {lt : Bool} {s : Var → Rat} (hs : IsBool s) (base i n : Nat) :
    0 ≤ slackVal lt s base i n ∧ slackVal lt s base i n ≤ slackTot lt i n := by
  induction n generalizing base i with
  | zero => simp [slackVal, slackTot]
  | succ n ih =>
    obtain ⟨h1, h2⟩ := ih (base + 1) (i + 1)
    have hw := wgt_pos lt i
    simp only [slackVal, slackTot]
    rcases hs (ANC + base) with h | h <;> rw [h] <;> constructor <;> linarith

theorem slackVal_nat {lt : Bool} {s : Var → Rat} (hs : IsBool s) (base i n : Nat) :
    ∃ m : Nat, slackVal lt s base i n = m := by
  induction n generalizing base i with
  | zero => exact ⟨0, by simp [slackVal]⟩
  | succ n ih =>
    obtain ⟨m, hm⟩ := ih (base + 1) (i + 1)
    simp only [slackVal, hm]
    rcases hs (ANC + base) with h | h <;> rw [h]
    · exact ⟨m, by simp⟩
    · cases lt
      · exact ⟨1 + m, by simp [wgt]⟩
      · exact ⟨2 ^ i + m, by simp [wgt]⟩

theorem slackVal_congr {lt : Bool} {s t : Var → Rat} (base i n : Nat)
    (h : ∀ j, j < n → s (ANC + (base + j)) = t (ANC + (base + j))) :
    slackVal lt s base i n = slackVal lt t base i n := by
  induction n generalizing base i with
  | zero => rfl
  | succ n ih =>
    simp only [slackVal]
    have h0 := h 0 (Nat.succ_pos n)
    simp only [Nat.add_zero] at h0
    rw [h0, ih (base + 1) (i + 1) (fun j hj => by
      have := h (j + 1) (Nat.succ_lt_succ hj)
      simpa [Nat.add_assoc, Nat.add_comm 1 j] using this)]

theorem slackVal_log {s : Var → Rat} (n : Nat) : ∀ (base i m : Nat), m < 2 ^ n →
    (∀ j, j < n → s (ANC + (base + j)) = ((m / 2 ^ j % 2 : Nat) : Rat)) →
    slackVal true s base i n = ((2 ^ i * m : Nat) : Rat) := by
  induction n with
  | zero =>
    intro base i m hm _
    have : m = 0 := by simpa using hm
    subst this; simp [slackVal]
  | succ n ih =>
    intro base i m hm hs
    have h0 := hs 0 (Nat.succ_pos n)
    simp only [Nat.add_zero, Nat.pow_zero, Nat.div_one] at h0
    have hm2 : m / 2 < 2 ^ n := by
      rw [Nat.div_lt_iff_lt_mul (by decide)]; rw [Nat.pow_succ] at hm; exact hm
    have hrest := ih (base + 1) (i + 1) (m / 2) hm2 (fun j hj => by
      have := hs (j + 1) (Nat.succ_lt_succ hj)
      rw [Nat.pow_succ, Nat.mul_comm, ← Nat.div_div_eq_div_mul] at this
      simpa [Nat.add_assoc, Nat.add_comm 1 j] using this)
    simp only [slackVal, h0, hrest, wgt, if_true]
    have key : 2 ^ i * (m % 2) + 2 ^ (i + 1) * (m / 2) = 2 ^ i * m := by
      have := Nat.mod_add_div m 2
      calc 2 ^ i * (m % 2) + 2 ^ (i + 1) * (m / 2) = 2 ^ i * (m % 2 + 2 * (m / 2)) := by ring
        _ = 2 ^ i * m := by rw [this]
    have : (((2 ^ i * (m % 2) + 2 ^ (i + 1) * (m / 2) : Nat)) : Rat) = ((2 ^ i * m : Nat) : Rat) := by rw [key]
    rw [← this]; push_cast; ring

theorem slackVal_unary {s : Var → Rat} (n : Nat) : ∀ (base i m : Nat), m ≤ n →
    (∀ j, j < n → s (ANC + (base + j)) = if j < m then 1 else 0) →
    slackVal false s base i n = (m : Rat) := by
  induction n with
  | zero =>
    intro base i m hm _
    have : m = 0 := by omega
    subst this; simp [slackVal]
  | succ n ih =>
    intro base i m hm hs
    have h0 := hs 0 (Nat.succ_pos n)
    simp only [Nat.add_zero] at h0
    have hrest := ih (base + 1) (i + 1) (m - 1) (by omega) (fun j hj => by
      have := hs (j + 1) (Nat.succ_lt_succ hj)
      have e : (j + 1 < m) ↔ (j < m - 1) := by omega
      simp only [e] at this
      simpa [Nat.add_assoc, Nat.add_comm 1 j] using this)
    simp only [slackVal, h0, hrest, wgt]
    by_cases h : 0 < m
    · simp only [h, if_true]
      have : ((m - 1 : Nat) : Rat) = (m : Rat) - 1 := by
        rw [Nat.cast_sub (by omega)]; simp
      rw [this]; simp
    · have : m = 0 := by omega
      subst this; simp

/-- every natural number the slack can represent is reached by some setting of the slack ancillas that
leaves every other label as in `x` -/
theorem slack_repr (lt : Bool) {x : Var → Rat} (hx : IsBool x) (base n m : Nat)
    (hm : if lt then m < 2 ^ n else m ≤ n) :
    ∃ s, IsBool s ∧ (∀ i, ¬ (ANC + base ≤ i ∧ i < ANC + base + n) → s i = x i) ∧
      slackVal lt s base 0 n = (m : Rat) := by
  cases lt
  · simp only [Bool.false_eq_true, if_false] at hm
    refine ⟨fun i => if ANC + base ≤ i ∧ i < ANC + base + n then (if i - (ANC + base) < m then 1 else 0) else x i,
      ?_, ?_, ?_⟩
    · intro i; simp only []
      split
      · split <;> simp
      · exact hx i
    · intro i hi; simp only [hi, if_false]
    · apply slackVal_unary n base 0 m hm
      intro j hj
      have h1 : ANC + base ≤ ANC + (base + j) ∧ ANC + (base + j) < ANC + base + n := by omega
      have h2 : ANC + (base + j) - (ANC + base) = j := by omega
      simp only [h1, and_self, if_true, h2]
  · simp only [if_true] at hm
    refine ⟨fun i => if ANC + base ≤ i ∧ i < ANC + base + n then
        ((m / 2 ^ (i - (ANC + base)) % 2 : Nat) : Rat) else x i, ?_, ?_, ?_⟩
    · intro i; simp only []
      split
      · rcases Nat.mod_two_eq_zero_or_one (m / 2 ^ (i - (ANC + base))) with h | h <;> simp [h]
      · exact hx i
    · intro i hi; simp only [hi, if_false]
    · have := slackVal_log (s := fun i => if ANC + base ≤ i ∧ i < ANC + base + n then
        ((m / 2 ^ (i - (ANC + base)) % 2 : Nat) : Rat) else x i) n base 0 m hm (by
          intro j hj
          have h1 : ANC + base ≤ ANC + (base + j) ∧ ANC + (base + j) < ANC + base + n := by omega
          have h2 : ANC + (base + j) - (ANC + base) = j := by omega
          simp only [h1, and_self, if_true, h2])
      rw [this]; simp

/-- the capacity the code reserves: every natural `m ≤ v` is representable with `numBits v lt` ancillas -/
theorem numBits_cap (lt : Bool) {v : Rat} {m : Nat} (h : (m : Rat) ≤ v) :
    if lt then m < 2 ^ numBits v lt else m ≤ numBits v lt := by
  have hc := le_ceilNat h
  cases lt
  · simpa [numBits] using hc
  · simp only [numBits, if_true]
    exact lt_of_le_of_lt hc (lt_two_pow_bitLength _)

end Qv.PcboP
