import Qv.Proofs.HeapMut
/-!
# Qv.Proofs.HeapSep — separation and frame consequences of "built from fresh cells only"
-/
namespace Qv.Hp
open Qv

/-- everything reachable from a fresh result is fresh -/
theorem FreshResult.reach_fresh {h h' : Heap} {r c : Nat} (f : FreshResult h.length h h' r) (hr : Reach h' r c) :
    h.length ≤ c :=
  Reach.inside (S := fun c => h.length ≤ c)
    (fun c cell hc hg q hq => (f.1.up c cell hc hg q hq).1) f.2.1 hr

/-- everything reachable from an old cell after a call that wrote no old cell is old, and was reachable before -/
theorem FreshExt.reach_old {n : Nat} {h h' : Heap} (e : FreshExt n h h') (hc : Closed h) {x c : Nat}
    (hx : x < h.length) (hr : Reach h' x c) : c < h.length ∧ Reach h x c := by
  induction hr with
  | refl => exact ⟨hx, Reach.refl _⟩
  | step _ hg hm ih =>
    rw [e.old ih.1] at hg
    exact ⟨hc _ _ hg _ hm, Reach.step ih.2 hg hm⟩

theorem FreshExt.reach_old_iff {n : Nat} {h h' : Heap} (e : FreshExt n h h') (hc : Closed h) {x c : Nat}
    (hx : x < h.length) : Reach h' x c ↔ Reach h x c := by
  constructor
  · exact fun hr => (e.reach_old hc hx hr).2
  · intro hr
    induction hr with
    | refl => exact Reach.refl _
    | step hab hg hm ih =>
      rw [← e.old (hab.lt hc hx)] at hg
      exact Reach.step ih hg hm

/-- the result shares no cell with any object that existed before the call -/
def Separated (h h' : Heap) (r : Nat) : Prop :=
  ∀ x, x < h.length → ∀ c, Reach h' r c → ¬ Reach h' x c

theorem FreshResult.separated {h h' : Heap} {r : Nat} (f : FreshResult h.length h h' r) (hc : Closed h) :
    Separated h h' r := by
  intro x hx c hrc hxc
  have h1 := f.reach_fresh hrc
  have h2 := (f.1.reach_old hc hx hxc).1
  omega

/-- the value of every old object is what it was -/
theorem FreshExt.absVal_old {n : Nat} {h h' : Heap} (e : FreshExt n h h') (hc : Closed h) {x : Nat}
    (hx : x < h.length) : absVal h' x = absVal h x :=
  absVal_congr (fun _ hr => e.old (hr.lt hc hx))

/-! ### T19.B — frame -/

/-- client steps that write only fresh cells (cells at or above `n`) leave every old object as it was -/
theorem frame_old {n : Nat} {h h' : Heap} (e : FreshExt n h h') (hc : Closed h) (s : List Step)
    (hs : ∀ st ∈ s, ∀ t, st.target = some t → h.length ≤ t) {x : Nat} (hx : x < h.length) :
    (∀ c, Reach (runSteps h' s) x c ↔ Reach h x c) ∧ (∀ c, Reach h x c → (runSteps h' s)[c]? = h[c]?) ∧
      absVal (runSteps h' s) x = absVal h x := by
  have hag : ∀ c, Reach h x c → (runSteps h' s)[c]? = h[c]? := by
    intro c hr
    have hlt := hr.lt hc hx
    rw [runSteps_keep (fun c => c < h.length) s h' (fun st hst t ht => by have := hs st hst t ht; omega) c
      (Nat.lt_of_lt_of_le hlt e.len) hlt]
    exact e.old hlt
  exact ⟨fun c => Reach.congr hag, hag, absVal_congr hag⟩

/-- client steps that write only old cells (cells below `n = h.length`) leave the fresh result as it was -/
theorem frame_result {h h' : Heap} {r : Nat} (f : FreshResult h.length h h' r) (s : List Step)
    (hs : ∀ st ∈ s, ∀ t, st.target = some t → t < h.length) :
    (∀ c, Reach (runSteps h' s) r c ↔ Reach h' r c) ∧ (∀ c, Reach h' r c → (runSteps h' s)[c]? = h'[c]?) ∧
      absVal (runSteps h' s) r = absVal h' r := by
  have hex : ∀ c, Reach h' r c → c < h'.length := by
    intro c hr
    exact Reach.inside (S := fun c => h.length ≤ c ∧ c < h'.length)
      (fun c cell hc hg q hq => f.1.up c cell hc.1 hg q hq) ⟨f.2.1, f.2.2⟩ hr |>.2
  have hag : ∀ c, Reach h' r c → (runSteps h' s)[c]? = h'[c]? := by
    intro c hr
    exact runSteps_keep (fun c => h.length ≤ c) s h' (fun st hst t ht => by have := hs st hst t ht; omega) c
      (hex c hr) (f.reach_fresh hr)
  exact ⟨fun c => Reach.congr hag, hag, absVal_congr hag⟩

/-! ### a client that holds only the result -/

/-- a step of a client that holds the references `roots`: it writes a cell it can reach from a root, and a cell it
stores refers only to cells it can reach from a root -/
def Via (roots : List Nat) (h : Heap) : Step → Prop
  | .alloc c => ∀ q ∈ c.refs, ∃ r ∈ roots, Reach h r q
  | .write t c => (∃ r ∈ roots, Reach h r t) ∧ ∀ q ∈ c.refs, ∃ r ∈ roots, Reach h r q

/-- a run of such a client; a cell it allocates becomes a root -/
def RunVia : List Nat → Heap → List Step → Prop
  | _, _, [] => True
  | roots, h, st :: s =>
    Via roots h st ∧
      RunVia (match st with | .alloc _ => h.length :: roots | .write _ _ => roots) (runStep h st) s

/-- the region at or above `n` is closed under references -/
def UpClosed (n : Nat) (h : Heap) : Prop :=
  ∀ (c : Nat) (cell : Cell), n ≤ c → h[c]? = some cell → ∀ q ∈ cell.refs, n ≤ q

theorem UpClosed.reach {n : Nat} {h : Heap} (u : UpClosed n h) {a c : Nat} (ha : n ≤ a) (hr : Reach h a c) : n ≤ c :=
  Reach.inside (S := fun c => n ≤ c) (fun c cell hc hg q hq => u c cell hc hg q hq) ha hr

/-- a client that starts from fresh roots never gets to write an old cell -/
theorem RunVia.targets {n : Nat} : ∀ (s : List Step) (roots : List Nat) (h : Heap), n ≤ h.length → UpClosed n h →
    (∀ r ∈ roots, n ≤ r) → RunVia roots h s → ∀ st ∈ s, ∀ t, st.target = some t → n ≤ t
  | [], _, _, _, _, _, _ => by intro st hst; simp at hst
  | st0 :: s, roots, h, hn, hu, hroots, hrun => by
    obtain ⟨hvia, hrest⟩ := hrun
    intro st hst t ht
    simp only [List.mem_cons] at hst
    cases st0 with
    | alloc cell =>
      have hu' : UpClosed n (runStep h (.alloc cell)) := by
        intro c cl hc hg q hq
        simp only [runStep] at hg
        rcases Nat.lt_or_ge c h.length with h1 | h1
        · rw [get_append_old h1] at hg
          exact hu c cl hc hg q hq
        · have hlt := get_some_lt hg
          simp at hlt
          have : c = h.length := by omega
          subst this
          rw [get_alloc_new] at hg
          cases hg
          obtain ⟨r, hr, hreach⟩ := hvia q hq
          exact hu.reach (hroots r hr) hreach
      rcases hst with rfl | hst
      · simp [Step.target] at ht
      · exact RunVia.targets s (h.length :: roots) _ (by simp [runStep]; omega) hu'
          (by intro r hr; simp only [List.mem_cons] at hr; rcases hr with rfl | hr; exact hn; exact hroots r hr)
          hrest st hst t ht
    | write w cell =>
      obtain ⟨⟨r0, hr0, hreach0⟩, hrefs⟩ := hvia
      have hw : n ≤ w := hu.reach (hroots r0 hr0) hreach0
      have hu' : UpClosed n (runStep h (.write w cell)) := by
        intro c cl hc hg q hq
        simp only [runStep] at hg
        by_cases he : c = w
        · subst he
          have hlt := get_some_lt hg
          rw [length_write] at hlt
          rw [get_write_eq hlt] at hg
          cases hg
          obtain ⟨r, hr, hreach⟩ := hrefs q hq
          exact hu.reach (hroots r hr) hreach
        · rw [get_write_ne he] at hg
          exact hu c cl hc hg q hq
      rcases hst with rfl | hst
      · simp only [Step.target, Option.some.injEq] at ht
        subst ht
        exact hw
      · exact RunVia.targets s roots _ (by simp [runStep]; exact hn) hu' hroots hrest st hst t ht

theorem FreshResult.upClosed {h h' : Heap} {r : Nat} (f : FreshResult h.length h h' r) : UpClosed h.length h' :=
  fun c cell hc hg q hq => (f.1.up c cell hc hg q hq).1

/-! ### the brute-force solvers restore the argument's dict as a finite map -/

theorem popReinsert_perm : ∀ (t : Poly), (popReinsert t).Perm t
  | [] => List.Perm.refl _
  | e :: t => by
    simp only [popReinsert]
    split
    · exact (List.perm_append_singleton e t)
    · exact (popReinsert_perm t).cons e

theorem popReinsertObj_perm : ∀ (t : Poly), (∀ e ∈ t, e.1 = [] → e.2 ≠ 0) → (popReinsertObj t).Perm t
  | [], _ => List.Perm.refl _
  | e :: t, hz => by
    simp only [popReinsertObj]
    split
    · rename_i he
      have : ¬ e.2 = 0 := hz e (by simp) he
      simp only [this, if_false]
      exact (List.perm_append_singleton e t)
    · exact (popReinsertObj_perm t (fun e' he' => hz e' (by simp [he']))).cons e

end Qv.Hp
