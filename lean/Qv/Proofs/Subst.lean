import Qv.Model.Subst
import Qv.Proofs.Canon
import Mathlib.Tactic.Ring
import Mathlib.Tactic.Linarith
import Mathlib.Algebra.Order.Ring.Rat
import Mathlib.Tactic.FieldSimp
import Mathlib.Algebra.Order.Ring.Abs
import Mathlib.Algebra.Order.Field.Basic
/-!
# Helper lemmas for C18: `subvalue`, `subgraph`, `normalize`
-/
namespace Qv

theorem bind_ok_iff' {α β : Type} {a : Except Err α} {f : α → Except Err β} {b : β} :
    (a >>= f) = .ok b ↔ ∃ a', a = .ok a' ∧ f a' = .ok b := by
  cases a <;> simp [bind, Except.bind]

/-! ### monomials under a partially fixed assignment -/

theorem mon_override (ρ : Var → Rat) (vals : Assoc) (k : Key) :
    mon (override ρ vals) k = mon ρ (svKey vals k) * prodL (svVals vals k) := by
  induction k with
  | nil => simp [svKey, svVals, prodL]
  | cons i r ih =>
    simp only [svKey, svVals] at ih ⊢
    cases h : lookup vals i with
    | none =>
      simp [inDict, h, override, ih]; ring
    | some v =>
      simp [inDict, h, override, ih, prodL]; ring

theorem mon_sgAssign (ρ : Var → Rat) (nodes : List Var) (conn : Assoc) (k : Key) :
    mon (sgAssign ρ nodes conn) k = mon ρ (sgKey nodes k) * prodL (sgVals nodes conn k) := by
  induction k with
  | nil => simp [sgKey, sgVals, prodL]
  | cons i r ih =>
    simp only [sgKey, sgVals] at ih ⊢
    by_cases h : i ∈ nodes
    · simp [h, sgAssign, ih]; ring
    · simp [h, sgAssign, ih, prodL]; ring

/-! ### canonical keys stay canonical under `filter` -/

theorem SSorted.lt_of_mem {a : Var} {l : Key} (h : SSorted (a :: l)) : ∀ b ∈ l, a < b := by
  induction l generalizing a with
  | nil => intro b hb; cases hb
  | cons c r ih =>
    intro b hb
    have hac : a < c := h.1
    rcases List.mem_cons.1 hb with rfl | hb
    · exact hac
    · exact Nat.lt_trans hac (ih h.2 b hb)

theorem ssorted_filter (p : Var → Bool) {l : Key} (h : SSorted l) : SSorted (l.filter p) := by
  induction l with
  | nil => trivial
  | cons a r ih =>
    rw [List.filter_cons]
    split
    · refine ssorted_cons ?_ (ih h.tail)
      cases hf : r.filter p with
      | nil => trivial
      | cons b r' =>
        have hb : b ∈ r.filter p := by rw [hf]; exact List.mem_cons_self
        exact h.lt_of_mem b (List.mem_of_mem_filter hb)
    · exact ih h.tail

theorem keyCanon_filter {κ : Kind} (p : Var → Bool) {k : Key} (h : KeyCanon κ k) :
    KeyCanon κ (k.filter p) := by
  rcases h with h | ⟨hs, hl⟩
  · exact Or.inl h
  · exact Or.inr ⟨ssorted_filter p hs, fun hd => Nat.le_trans (List.length_filter_le p k) (hl hd)⟩

theorem keyCanon_dict (k : Key) : KeyCanon .dict k := Or.inl rfl

/-! ### the accumulate step -/

theorem store_canon {τ : Ty} {D : Poly} {k : Key} {v : Rat} (hk : KeyCanon τ.kind k) (hv : v ≠ 0) :
    τ.store D k v = .ok (put D k v) := by
  cases τ with
  | builtin => rfl
  | da κ =>
    have : squash κ k = .ok k := squash_of_canon hk
    simp [Ty.store, setItem, this, set, hv, bind, Except.bind, pure, Except.pure]

theorem accum_canon {τ : Ty} {D : Poly} {k : Key} {w : Rat} (hk : KeyCanon τ.kind k) :
    accum τ D k w = .ok (set D k (w + get D k)) := by
  unfold accum
  by_cases hv : w + get D k = 0
  · simp [hv, set]
  · simp [hv, set, store_canon hk hv]

theorem eval_accum_set (ρ : Var → Rat) (D : Poly) (k : Key) (w : Rat) :
    eval ρ (set D k (w + get D k)) = eval ρ D + w * mon ρ k := by
  rw [eval_set]; ring

theorem keys_set (p : Poly) (k : Key) (v : Rat) (k2 : Key) (h : k2 ∈ keys (set p k v)) :
    k2 = k ∨ k2 ∈ keys p := by
  unfold set at h
  split at h
  · exact Or.inr (keys_erase_sub p k k2 h)
  · exact keys_put p k v k2 h

/-- no label of any key satisfies `bad` -/
def AvoidsLabels (bad : Var → Bool) (p : Poly) : Prop := ∀ k ∈ keys p, ∀ i ∈ k, bad i = false

theorem avoids_set {bad : Var → Bool} {p : Poly} (h : AvoidsLabels bad p) {k : Key}
    (hk : ∀ i ∈ k, bad i = false) (v : Rat) : AvoidsLabels bad (set p k v) := by
  intro k2 hk2
  rcases keys_set p k v k2 hk2 with rfl | h2
  · exact hk
  · exact h k2 h2

/-! ### subvalue -/

/-- the loop of `subvalue` on canonical keys: succeeds, adds `⟦G⟧(ρ overridden by vals)`, keeps the
dict well formed and free of substituted labels -/
theorem subvalueLoop_spec (τ : Ty) (vals : Assoc) (G : Poly) (D : Poly)
    (hc : ∀ k ∈ keys G, KeyCanon τ.kind k) :
    ∃ D', subvalueLoop τ vals D (liftItems G) = .ok D' ∧
      (∀ ρ, eval ρ D' = eval ρ D + eval (override ρ vals) G) ∧
      (WF (squash τ.kind) D → WF (squash τ.kind) D') ∧
      (AvoidsLabels (inDict vals) D → AvoidsLabels (inDict vals) D') := by
  induction G generalizing D with
  | nil => exact ⟨D, rfl, fun ρ => by simp, id, id⟩
  | cons kv r ih =>
    obtain ⟨k, v⟩ := kv
    have hk : KeyCanon τ.kind (svKey vals k) :=
      keyCanon_filter _ (hc k (by simp [keys]))
    obtain ⟨D', h1, h2, h3, h4⟩ := ih (set D (svKey vals k) (v * prodL (svVals vals k) + get D (svKey vals k)))
      (fun k2 hk2 => hc k2 (by simp only [keys, List.map_cons, List.mem_cons] at hk2 ⊢; exact Or.inr hk2))
    refine ⟨D', ?_, fun ρ => ?_, fun hw => ?_, fun ha => ?_⟩
    · simp only [liftItems, List.map_cons, subvalueLoop, accum_canon hk, bind, Except.bind]
      exact h1
    · rw [h2 ρ, eval_accum_set, eval_cons, mon_override]; ring
    · exact h3 (wf_set hw (squash_of_canon hk) _)
    · refine h4 (avoids_set ha (fun i hi => ?_) _)
      have := (List.mem_filter.1 hi).2
      simpa using this

/-! ### subgraph -/

theorem eval_dropConst_cons_nil (ρ : Var → Rat) (v : Rat) (r : Poly) :
    eval ρ (dropConst (([], v) :: r)) = eval ρ (dropConst r) := by
  simp [dropConst]

theorem eval_dropConst_cons (ρ : Var → Rat) {k : Key} (hk : k.isEmpty = false) (v : Rat) (r : Poly) :
    eval ρ (dropConst ((k, v) :: r)) = v * mon ρ k + eval ρ (dropConst r) := by
  simp [dropConst, hk]

theorem subgraphLoop_spec (τ : Ty) (nodes : List Var) (conn : Assoc) (G : Poly) (D : Poly)
    (hc : ∀ k ∈ keys G, KeyCanon τ.kind k) :
    ∃ D', subgraphLoop τ nodes conn D (liftItems G) = .ok D' ∧
      (∀ ρ, eval ρ D' = eval ρ D + eval (sgAssign ρ nodes conn) (dropConst G)) ∧
      (WF (squash τ.kind) D → WF (squash τ.kind) D') ∧
      (AvoidsLabels (fun i => !(nodes.contains i)) D → AvoidsLabels (fun i => !(nodes.contains i)) D') := by
  induction G generalizing D with
  | nil => exact ⟨D, rfl, fun ρ => by simp [dropConst], id, id⟩
  | cons kv r ih =>
    obtain ⟨k, v⟩ := kv
    have hr : ∀ k2 ∈ keys r, KeyCanon τ.kind k2 :=
      fun k2 hk2 => hc k2 (by simp only [keys, List.map_cons, List.mem_cons] at hk2 ⊢; exact Or.inr hk2)
    cases he : k.isEmpty with
    | true =>
      obtain ⟨D', h1, h2, h3, h4⟩ := ih D hr
      have hk0 : k = [] := by simpa using he
      subst hk0
      refine ⟨D', ?_, fun ρ => ?_, h3, h4⟩
      · simp only [liftItems, List.map_cons, subgraphLoop, List.isEmpty_nil, if_true]
        exact h1
      · rw [h2 ρ, eval_dropConst_cons_nil]
    | false =>
      have hk : KeyCanon τ.kind (sgKey nodes k) := keyCanon_filter _ (hc k (by simp [keys]))
      obtain ⟨D', h1, h2, h3, h4⟩ :=
        ih (set D (sgKey nodes k) (v * prodL (sgVals nodes conn k) + get D (sgKey nodes k))) hr
      refine ⟨D', ?_, fun ρ => ?_, fun hw => ?_, fun ha => ?_⟩
      · simp only [liftItems, List.map_cons, subgraphLoop, he, accum_canon hk, bind, Except.bind]
        exact h1
      · rw [h2 ρ, eval_accum_set, eval_dropConst_cons _ he, mon_sgAssign]; ring
      · exact h3 (wf_set hw (squash_of_canon hk) _)
      · refine h4 (avoids_set ha (fun i hi => ?_) _)
        have := (List.mem_filter.1 hi).2
        simpa using this

/-! ### normalize: magnitudes -/

theorem absV_eq (v : Rat) : absV v = |v| := by
  unfold absV
  split
  · rename_i h; exact (abs_of_neg h).symm
  · rename_i h; exact (abs_of_nonneg (not_lt.1 h)).symm

theorem maxAbs_cons (k : Key) (v : Rat) (r : Poly) : maxAbs ((k, v) :: r) = max |v| (maxAbs r) := by
  simp only [maxAbs, absV_eq]
  split
  · rename_i h; exact (max_eq_left (le_of_lt h)).symm
  · rename_i h; exact (max_eq_right (not_lt.1 h)).symm

theorem maxAbs_nonneg (p : Poly) : 0 ≤ maxAbs p := by
  induction p with
  | nil => exact le_refl _
  | cons kv r ih => obtain ⟨k, v⟩ := kv; rw [maxAbs_cons]; exact le_max_of_le_right ih

theorem le_maxAbs {p : Poly} {kv : Key × Rat} (h : kv ∈ p) : |kv.2| ≤ maxAbs p := by
  induction p with
  | nil => cases h
  | cons kv' r ih =>
    obtain ⟨k, v⟩ := kv'
    rw [maxAbs_cons]
    rcases List.mem_cons.1 h with rfl | h
    · exact le_max_left _ _
    · exact le_max_of_le_right (ih h)

/-- the largest magnitude is attained -/
theorem maxAbs_attained {p : Poly} (h : p ≠ []) : ∃ kv ∈ p, |kv.2| = maxAbs p := by
  induction p with
  | nil => exact absurd rfl h
  | cons kv r ih =>
    obtain ⟨k, v⟩ := kv
    rw [maxAbs_cons]
    rcases le_total (maxAbs r) |v| with hle | hle
    · exact ⟨(k, v), List.mem_cons_self, (max_eq_left hle).symm⟩
    · cases r with
      | nil =>
        refine ⟨(k, v), List.mem_cons_self, ?_⟩
        have h0 : maxAbs ([] : Poly) = 0 := rfl
        rw [h0] at hle ⊢
        rw [max_eq_left (abs_nonneg v)]
      | cons kv2 r2 =>
        obtain ⟨kv', hm, he⟩ := ih (by simp)
        exact ⟨kv', List.mem_cons_of_mem _ hm, by rw [he, max_eq_right hle]⟩

/-- every coefficient multiplied by `m` (keys and order kept) -/
def scaleAll (m : Rat) (D : Poly) : Poly := D.map (fun kv => (kv.1, m * kv.2))

/-- entries with value zero removed -/
def dropZeros (p : Poly) : Poly := p.filter (fun kv => decide (kv.2 ≠ 0))

/-- what `normalize` returns for a container of type `τ`: a builtin dict keeps zero values -/
def normOut (τ : Ty) (m : Rat) (D : Poly) : Poly :=
  match τ with
  | .builtin => scaleAll m D
  | .da _ => dropZeros (scaleAll m D)

@[simp] theorem scaleAll_nil (m : Rat) : scaleAll m [] = [] := rfl
@[simp] theorem scaleAll_cons (m : Rat) (k : Key) (v : Rat) (r : Poly) :
    scaleAll m ((k, v) :: r) = (k, m * v) :: scaleAll m r := rfl

theorem keys_scaleAll (m : Rat) (D : Poly) : keys (scaleAll m D) = keys D := by
  simp [keys, scaleAll, List.map_map, Function.comp_def]

theorem maxAbs_scaleAll (m : Rat) (D : Poly) : maxAbs (scaleAll m D) = |m| * maxAbs D := by
  induction D with
  | nil => simp [maxAbs]
  | cons kv r ih =>
    obtain ⟨k, v⟩ := kv
    rw [scaleAll_cons, maxAbs_cons, maxAbs_cons, ih, abs_mul]
    rcases le_total |v| (maxAbs r) with h | h
    · rw [max_eq_right h, max_eq_right (mul_le_mul_of_nonneg_left h (abs_nonneg m))]
    · rw [max_eq_left h, max_eq_left (mul_le_mul_of_nonneg_left h (abs_nonneg m))]

theorem maxAbs_dropZeros (p : Poly) : maxAbs (dropZeros p) = maxAbs p := by
  induction p with
  | nil => rfl
  | cons kv r ih =>
    obtain ⟨k, v⟩ := kv
    by_cases hv : v = 0
    · subst hv
      have : dropZeros ((k, (0 : Rat)) :: r) = dropZeros r := by simp [dropZeros]
      rw [this, ih, maxAbs_cons, abs_zero, max_eq_right (maxAbs_nonneg r)]
    · have : dropZeros ((k, v) :: r) = (k, v) :: dropZeros r := by simp [dropZeros, hv]
      rw [this, maxAbs_cons, maxAbs_cons, ih]

theorem maxAbs_normOut (τ : Ty) (m : Rat) (D : Poly) : maxAbs (normOut τ m D) = |m| * maxAbs D := by
  cases τ with
  | builtin => exact maxAbs_scaleAll m D
  | da κ => simp only [normOut]; rw [maxAbs_dropZeros, maxAbs_scaleAll]

/-! ### normalize: coefficients -/

theorem get_scaleAll (m : Rat) (D : Poly) (k : Key) : get (scaleAll m D) k = m * get D k := by
  induction D with
  | nil => simp [get]
  | cons kv r ih =>
    obtain ⟨k', v⟩ := kv
    rw [scaleAll_cons]
    unfold get
    split
    · rfl
    · exact ih

theorem get_of_not_mem {p : Poly} {k : Key} (h : k ∉ keys p) : get p k = 0 := by
  induction p with
  | nil => rfl
  | cons kv r ih =>
    obtain ⟨k', v⟩ := kv
    simp only [keys, List.map_cons, List.mem_cons, not_or] at h
    unfold get
    rw [if_neg (fun e => h.1 e.symm)]
    exact ih h.2

theorem get_dropZeros {p : Poly} (hn : (keys p).Nodup) (k : Key) : get (dropZeros p) k = get p k := by
  induction p with
  | nil => rfl
  | cons kv r ih =>
    obtain ⟨k', v⟩ := kv
    simp only [keys, List.map_cons, List.nodup_cons] at hn
    by_cases hv : v = 0
    · subst hv
      have : dropZeros ((k', (0 : Rat)) :: r) = dropZeros r := by simp [dropZeros]
      rw [this, ih hn.2]
      by_cases hk : k' = k
      · subst hk; rw [get_of_not_mem hn.1]; simp [get]
      · simp [get, hk]
    · have : dropZeros ((k', v) :: r) = (k', v) :: dropZeros r := by simp [dropZeros, hv]
      rw [this]
      by_cases hk : k' = k
      · simp [get, hk]
      · simp only [get, hk, if_false]; exact ih hn.2

theorem get_normOut (τ : Ty) (m : Rat) {D : Poly} (hn : (keys D).Nodup) (k : Key) :
    get (normOut τ m D) k = m * get D k := by
  cases τ with
  | builtin => exact get_scaleAll m D k
  | da κ =>
    simp only [normOut]
    rw [get_dropZeros (by rw [keys_scaleAll]; exact hn), get_scaleAll]

theorem keys_dropZeros_sublist (p : Poly) : (keys (dropZeros p)).Sublist (keys p) :=
  List.Sublist.map _ List.filter_sublist

theorem wf_normOut_da {κ : Kind} (m : Rat) {D : Poly} (hn : (keys D).Nodup)
    (hc : ∀ k ∈ keys D, KeyCanon κ k) : WF (squash κ) (normOut (.da κ) m D) := by
  simp only [normOut]
  refine ⟨?_, fun k hk => ?_, fun kv hkv => ?_⟩
  · exact List.Nodup.sublist (keys_dropZeros_sublist _) (by rw [keys_scaleAll]; exact hn)
  · have := (keys_dropZeros_sublist (scaleAll m D)).subset hk
    rw [keys_scaleAll] at this
    exact squash_of_canon (hc k this)
  · have := (List.mem_filter.1 hkv).2
    simpa using this

/-! ### normalize: the function's loop in closed form -/

theorem keys_append (p q : Poly) : keys (p ++ q) = keys p ++ keys q := by simp [keys]

theorem put_of_not_mem {p : Poly} {k : Key} (v : Rat) (h : k ∉ keys p) : put p k v = p ++ [(k, v)] := by
  induction p with
  | nil => rfl
  | cons kv r ih =>
    obtain ⟨k', v'⟩ := kv
    simp only [keys, List.map_cons, List.mem_cons, not_or] at h
    unfold put
    rw [if_neg (fun e => h.1 e.symm), ih h.2]; rfl

theorem erase_of_not_mem {p : Poly} {k : Key} (h : k ∉ keys p) : erase p k = p := by
  induction p with
  | nil => rfl
  | cons kv r ih =>
    obtain ⟨k', v'⟩ := kv
    simp only [keys, List.map_cons, List.mem_cons, not_or] at h
    unfold erase
    rw [if_neg (fun e => h.1 e.symm), ih h.2]

theorem normLoop_builtin (m : Rat) (L res : Poly) (hn : (keys L).Nodup)
    (hd : ∀ k ∈ keys L, k ∉ keys res) :
    normLoop .builtin m res L = .ok (res ++ scaleAll m L) := by
  induction L generalizing res with
  | nil => simp [normLoop]
  | cons kv r ih =>
    obtain ⟨k, v⟩ := kv
    simp only [keys, List.map_cons, List.nodup_cons] at hn
    have hk : k ∉ keys res := hd k (by simp [keys])
    simp only [normLoop, Ty.store, bind, Except.bind, put_of_not_mem _ hk]
    rw [ih _ hn.2]
    · simp
    · intro k2 hk2
      rw [keys_append]
      simp only [keys, List.map_cons, List.map_nil, List.mem_append, List.mem_singleton, not_or]
      exact ⟨hd k2 (by simp only [keys, List.map_cons, List.mem_cons]; exact Or.inr hk2),
        fun e => hn.1 (e ▸ hk2)⟩

theorem normLoop_da (κ : Kind) (m : Rat) (L res : Poly) (hn : (keys L).Nodup)
    (hd : ∀ k ∈ keys L, k ∉ keys res) (hc : ∀ k ∈ keys L, KeyCanon κ k) :
    normLoop (.da κ) m res L = .ok (res ++ dropZeros (scaleAll m L)) := by
  induction L generalizing res with
  | nil => simp [normLoop, dropZeros]
  | cons kv r ih =>
    obtain ⟨k, v⟩ := kv
    simp only [keys, List.map_cons, List.nodup_cons] at hn
    have hk : k ∉ keys res := hd k (by simp [keys])
    have hsq : squash κ k = .ok k := squash_of_canon (hc k (by simp [keys]))
    have hr : ∀ k2 ∈ keys r, KeyCanon κ k2 :=
      fun k2 hk2 => hc k2 (by simp only [keys, List.map_cons, List.mem_cons]; exact Or.inr hk2)
    simp only [normLoop, Ty.store, setItem, hsq, bind, Except.bind, pure, Except.pure]
    by_cases hv : m * v = 0
    · have h1 : set res k (m * v) = res := by simp [set, hv, erase_of_not_mem hk]
      have h2 : dropZeros (scaleAll m ((k, v) :: r)) = dropZeros (scaleAll m r) := by
        simp [dropZeros, hv]
      rw [h1, h2]
      exact ih _ hn.2
        (fun k2 hk2 => hd k2 (by simp only [keys, List.map_cons, List.mem_cons]; exact Or.inr hk2)) hr
    · have h1 : set res k (m * v) = res ++ [(k, m * v)] := by simp [set, hv, put_of_not_mem _ hk]
      have h2 : dropZeros (scaleAll m ((k, v) :: r)) = (k, m * v) :: dropZeros (scaleAll m r) := by
        simp [dropZeros, hv]
      rw [h1, h2, ih _ hn.2 _ hr]
      · simp
      · intro k2 hk2
        rw [keys_append]
        simp only [keys, List.map_cons, List.map_nil, List.mem_append, List.mem_singleton, not_or]
        exact ⟨hd k2 (by simp only [keys, List.map_cons, List.mem_cons]; exact Or.inr hk2),
          fun e => hn.1 (e ▸ hk2)⟩

theorem normalizeFn_closed (τ : Ty) {D : Poly} (c : Rat) (hn : (keys D).Nodup)
    (hc : ∀ k ∈ keys D, KeyCanon τ.kind k) (hne : D ≠ []) (hm : maxAbs D ≠ 0) :
    normalizeFn τ D c = .ok (normOut τ (c / maxAbs D) D) := by
  have he : D.isEmpty = false := by cases D <;> simp_all
  unfold normalizeFn
  simp only [he, hm, if_false, Bool.false_eq_true]
  cases τ with
  | builtin => rw [normLoop_builtin _ _ _ hn (by simp [keys])]; simp [normOut]
  | da κ => rw [normLoop_da κ _ _ _ hn (by simp [keys]) hc]; simp [normOut]

theorem abs_div_mul_self {c M : Rat} (hM : 0 < M) : |c / M| * M = |c| := by
  rw [abs_div, abs_of_pos hM, div_mul_cancel₀ _ (ne_of_gt hM)]

/-! ### normalize: the method's loop over the key snapshot in closed form -/

theorem get_mid {pre post : Poly} {k : Key} (v : Rat) (h : k ∉ keys pre) :
    get (pre ++ (k, v) :: post) k = v := by
  induction pre with
  | nil => simp [get]
  | cons kv r ih =>
    obtain ⟨k', v'⟩ := kv
    simp only [keys, List.map_cons, List.mem_cons, not_or] at h
    simp only [List.cons_append, get, if_neg (fun e => h.1 e.symm : ¬ k' = k)]
    exact ih h.2

theorem put_mid {pre post : Poly} {k : Key} (v w : Rat) (h : k ∉ keys pre) :
    put (pre ++ (k, v) :: post) k w = pre ++ (k, w) :: post := by
  induction pre with
  | nil => simp [put]
  | cons kv r ih =>
    obtain ⟨k', v'⟩ := kv
    simp only [keys, List.map_cons, List.mem_cons, not_or] at h
    simp only [List.cons_append, put, if_neg (fun e => h.1 e.symm : ¬ k' = k)]
    rw [ih h.2]

theorem erase_mid {pre post : Poly} {k : Key} (v : Rat) (h : k ∉ keys pre) :
    erase (pre ++ (k, v) :: post) k = pre ++ post := by
  induction pre with
  | nil => simp [erase]
  | cons kv r ih =>
    obtain ⟨k', v'⟩ := kv
    simp only [keys, List.map_cons, List.mem_cons, not_or] at h
    simp only [List.cons_append, erase, if_neg (fun e => h.1 e.symm : ¬ k' = k)]
    rw [ih h.2]

/-- `for k in tuple(self.keys()): self[k] *= m` on distinct fixed keys: every entry is scaled in place,
entries that become zero are removed -/
theorem scaleKeys_closed {sq : Sq} (m : Rat) (L pre : Poly)
    (hn : (keys (pre ++ L)).Nodup) (hf : ∀ k ∈ keys L, sq k = .ok k) :
    scaleKeys sq (pre ++ L) (keys L) m = .ok (pre ++ dropZeros (scaleAll m L)) := by
  induction L generalizing pre with
  | nil => simp [scaleKeys, keys, dropZeros]
  | cons kv r ih =>
    obtain ⟨k, v⟩ := kv
    have hk : k ∉ keys pre := by
      rw [keys_append] at hn
      simp only [keys, List.map_cons] at hn
      have := (List.nodup_append.1 hn).2.2
      exact fun hmem => this k hmem k List.mem_cons_self rfl
    have hsq : sq k = .ok k := hf k (by simp [keys])
    have hr : ∀ k2 ∈ keys r, sq k2 = .ok k2 :=
      fun k2 hk2 => hf k2 (by simp only [keys, List.map_cons, List.mem_cons]; exact Or.inr hk2)
    have hg := get_mid (post := r) v hk
    by_cases hvm : v * m = 0
    · have hstep : mulItem sq (pre ++ (k, v) :: r) k m = .ok (pre ++ r) := by
        unfold mulItem
        simp only [hsq, bind, Except.bind, pure, Except.pure, hg]
        unfold set
        rw [if_pos hvm, erase_mid v hk]
      have h2 : dropZeros (scaleAll m ((k, v) :: r)) = dropZeros (scaleAll m r) := by
        simp [dropZeros, mul_comm m v, hvm]
      simp only [keys, List.map_cons, scaleKeys, bind, Except.bind]
      rw [hstep, h2]
      have := ih pre
        (by
          rw [keys_append] at hn ⊢
          simp only [keys, List.map_cons] at hn
          exact List.Nodup.sublist
            (List.Sublist.append_left (List.sublist_cons_self k _) _) hn) hr
      simp only [keys] at this
      exact this
    · have hstep : mulItem sq (pre ++ (k, v) :: r) k m = .ok ((pre ++ [(k, m * v)]) ++ r) := by
        unfold mulItem
        simp only [hsq, bind, Except.bind, pure, Except.pure, hg]
        unfold set
        rw [if_neg hvm, put_mid v (v * m) hk, mul_comm v m]
        simp
      have h2 : dropZeros (scaleAll m ((k, v) :: r)) = (k, m * v) :: dropZeros (scaleAll m r) := by
        simp [dropZeros, mul_comm m v, hvm]
      simp only [keys, List.map_cons, scaleKeys, bind, Except.bind]
      rw [hstep, h2]
      have := ih (pre ++ [(k, m * v)])
        (by
          have e : keys ((pre ++ [(k, m * v)]) ++ r) = keys (pre ++ (k, v) :: r) := by simp [keys]
          rw [e]; exact hn) hr
      simp only [keys] at this
      show scaleKeys sq ((pre ++ [(k, m * v)]) ++ r) (List.map Prod.fst r) m = _
      rw [this]; simp

theorem wf_maxAbs_pos {sq : Sq} {D : Poly} (h : WF sq D) (hne : D ≠ []) : 0 < maxAbs D := by
  cases D with
  | nil => exact absurd rfl hne
  | cons kv r =>
    have h1 : |kv.2| ≤ maxAbs (kv :: r) := le_maxAbs List.mem_cons_self
    have h2 : 0 < |kv.2| := abs_pos.2 (h.nonzero kv List.mem_cons_self)
    exact lt_of_lt_of_le h2 h1

/-- the method computes exactly what the function computes, for every requested value -/
theorem normalizeM_closed {κ : Kind} {D : Poly} (c : Rat) (h : WF (squash κ) D) (hne : D ≠ []) :
    normalizeM κ D c = .ok (normOut (.da κ) (c / maxAbs D) D) := by
  have hpos := wf_maxAbs_pos h hne
  have he : D.isEmpty = false := by cases D <;> simp_all
  unfold normalizeM
  simp only [he, ne_of_gt hpos, if_false, Bool.false_eq_true]
  have := scaleKeys_closed (sq := squash κ) (c / maxAbs D) D [] (by simpa using h.nodup) h.fixed
  simpa [keys, normOut] using this

theorem dropZeros_scaleAll_zero (D : Poly) : dropZeros (scaleAll 0 D) = [] := by
  unfold dropZeros
  rw [List.filter_eq_nil_iff]
  intro kv hkv
  simp only [scaleAll, List.mem_map] at hkv
  obtain ⟨kv0, _, rfl⟩ := hkv
  simp

theorem scaleAll_wf {sq : Sq} {D : Poly} {m : Rat} (h : WF sq D) (hm : m ≠ 0) : WF sq (scaleAll m D) := by
  refine ⟨by rw [keys_scaleAll]; exact h.nodup, fun k hk => h.fixed k (by rwa [keys_scaleAll] at hk), ?_⟩
  intro kv hkv
  simp only [scaleAll, List.mem_map] at hkv
  obtain ⟨kv0, hm0, rfl⟩ := hkv
  exact mul_ne_zero hm (h.nonzero kv0 hm0)

/-! ### packaging for the property file -/

/-- every key of `G` is stored the way the container type `τ` stores keys (no condition for the builtin
dict and for `DictArithmetic`; strictly sorted labels, at most two for the degree-2 types, otherwise).
Every object of a model type satisfies this (C05 `tree_canonical`). -/
def CanonKeys (τ : Ty) (G : Poly) : Prop := ∀ k ∈ keys G, KeyCanon τ.kind k

theorem canonKeys_of_dict {τ : Ty} (h : τ.kind = .dict) (G : Poly) : CanonKeys τ G :=
  fun _ _ => Or.inl h

theorem canonKeys_of_wf {κ : Kind} {G : Poly} (h : WF (squash κ) G) : CanonKeys (.da κ) G :=
  fun k hk => squash_canon (h.fixed k hk)

theorem eval_dropConst (ρ : Var → Rat) {G : Poly} (hn : (keys G).Nodup) :
    eval ρ (dropConst G) = eval ρ G - get G [] := by
  induction G with
  | nil => simp [dropConst, get]
  | cons kv r ih =>
    obtain ⟨k, v⟩ := kv
    simp only [keys, List.map_cons, List.nodup_cons] at hn
    cases he : k.isEmpty with
    | true =>
      have hk0 : k = [] := by simpa using he
      subst hk0
      rw [eval_dropConst_cons_nil, ih hn.2, get_of_not_mem hn.1]
      simp [get]
    | false =>
      have hk0 : k ≠ [] := by intro e; subst e; simp at he
      rw [eval_dropConst_cons ρ he, ih hn.2]
      simp only [eval_cons, get, if_neg hk0]; ring

theorem subvalueLoop_nontuple {τ : Ty} (hτ : τ.kind = .dict) (vals : Assoc) (G : List RawItem) (D : Poly)
    (h : ∃ it ∈ G, it.1 = none) : subvalueLoop τ vals D G = .error .value := by
  induction G generalizing D with
  | nil => obtain ⟨it, hm, _⟩ := h; cases hm
  | cons it r ih =>
    obtain ⟨ok, v⟩ := it
    cases ok with
    | none => rfl
    | some k =>
      simp only [subvalueLoop, accum_canon (Or.inl hτ : KeyCanon τ.kind _), bind, Except.bind]
      apply ih
      obtain ⟨it, hm, hn⟩ := h
      rcases List.mem_cons.1 hm with rfl | hm
      · cases hn
      · exact ⟨it, hm, hn⟩

theorem subgraphLoop_nontuple {τ : Ty} (hτ : τ.kind = .dict) (nodes : List Var) (conn : Assoc)
    (G : List RawItem) (D : Poly) (h : ∃ it ∈ G, it.1 = none) :
    subgraphLoop τ nodes conn D G = .error .value := by
  induction G generalizing D with
  | nil => obtain ⟨it, hm, _⟩ := h; cases hm
  | cons it r ih =>
    obtain ⟨ok, v⟩ := it
    cases ok with
    | none => rfl
    | some k =>
      have hr : ∃ it ∈ r, it.1 = none := by
        obtain ⟨it, hm, hn⟩ := h
        rcases List.mem_cons.1 hm with rfl | hm
        · cases hn
        · exact ⟨it, hm, hn⟩
      cases he : k.isEmpty with
      | true =>
        simp only [subgraphLoop, he, if_true]
        exact ih D hr
      | false =>
        simp only [subgraphLoop, he, accum_canon (Or.inl hτ : KeyCanon τ.kind _), bind, Except.bind]
        exact ih _ hr

theorem normalizeFn_guards {τ : Ty} {D res : Poly} {c : Rat} (h : normalizeFn τ D c = .ok res) :
    D ≠ [] ∧ maxAbs D ≠ 0 := by
  unfold normalizeFn at h
  split at h
  · cases h
  · rename_i he
    simp only [] at h
    by_cases hm : maxAbs D = 0
    · rw [if_pos hm] at h; cases h
    · exact ⟨by intro e; subst e; simp at he, hm⟩

theorem dropZeros_of_nonzero {p : Poly} (h : ∀ kv ∈ p, kv.2 ≠ 0) : dropZeros p = p := by
  unfold dropZeros
  rw [List.filter_eq_self]
  intro kv hkv
  simpa using h kv hkv

end Qv
