import Qv.Proofs.KernelValue
import Mathlib.Tactic.Ring
import Mathlib.Tactic.Linarith
/-!
# C12, part A — the cached energy differences of `anneal_quso.c` are exact (T12.1, QUSO)

`flip_spin_dE[i]` is compared with `dESpec s h adj i = -2 s_i (h_i + Σ_j J_ij s_j)`, the quantity the
comment in `compute_flip_dE` names.  It is what `compute_flip_dE` computes (`computeFlipDE_exact`), and
`recompute_flip_dE` followed by `state[i] *= -1` maps exact caches to exact caches
(`recompute_exact`) — on adjacency arrays that store every coupling in both lists (`SymAdj`), which is
what the flattening loop of `anneal_quso` produces (`flattenQuso_sym`).  Finally the quantity is the
model's exact energy difference `E(flip i s) - E(s)` (`dESpec_eq_energy`).
-/
namespace Qv.Kernel
open Qv Qv.Anneal

/-! ## the arrays of a Matrix model, without the `float(v)` coercion -/

/-- `qusoArgs` for exact rationals -/
def qOf (h : List Rat) (adj : List (List (Nat × Rat))) : Quso Rat :=
  { h := h, nn := adj.map List.length, nb := adj.flatten.map Prod.fst, J := adj.flatten.map Prod.snd }

theorem qusoArgs_id (h : List Rat) (adj : List (List (Nat × Rat))) : qusoArgs (fun v => v) h adj = qOf h adj := by
  simp only [qusoArgs, qOf, List.map_id']

/-- `index` as `anneal_quso` computes it -/
abbrev idxOf (adj : List (List (Nat × Rat))) : List Nat := mkIndex (adj.map List.length)

/-- a counted loop over segment `i` of the flat arrays `neighbors`, `J` is the fold over the `i`-th adjacency list -/
theorem seg_loop {σ : Type} (adj : List (List (Nat × Rat))) (i : Nat) (hi : i < adj.length)
    (F : Nat × Rat → σ → σ) (e : σ) :
    forN ((adj.map List.length).getD i 0) e
      (fun j e => F ((adj.flatten.map Prod.fst).getD ((idxOf adj).getD i 0 + j) 0,
                     (adj.flatten.map Prod.snd).getD ((idxOf adj).getD i 0 + j) 0) e)
    = (adj.getD i []).foldl (fun e p => F p e) e := by
  have hnn : (adj.map List.length).getD i 0 = (adj.getD i []).length := by
    have := getD_map' List.length adj i []
    simpa using this
  rw [hnn]
  unfold forN
  apply forFrom_eq_foldl (0, (0 : Rat)) _ F (adj.getD i []) 0 e
  intro j hj e
  obtain ⟨off, h1, h2⟩ := segment (0, (0 : Rat)) adj 0 i j hi hj
  simp only [Nat.zero_add] at h1 ⊢
  have hidx : (idxOf adj).getD i 0 = off := by simpa [idxOf, mkIndex] using h1
  rw [hidx]
  have e1 := getD_map' Prod.fst adj.flatten (off + j) (0, (0 : Rat))
  have e2 := getD_map' Prod.snd adj.flatten (off + j) (0, (0 : Rat))
  rw [h2] at e1 e2
  simp only at e1 e2
  rw [e1, e2]

/-! ## the specification of the cache -/

/-- `Σ_j J_ij s_j` over one adjacency list -/
def fieldSum (σ : Var → Rat) (L : List (Nat × Rat)) : Rat := (L.map (fun p => p.2 * σ p.1)).sum

/-- `h_i + Σ_j J_ij s_j` -/
def localField (σ : Var → Rat) (h : List Rat) (adj : List (List (Nat × Rat))) (i : Nat) : Rat :=
  h.getD i 0 + fieldSum σ (adj.getD i [])

/-- `-2 s_i (h_i + Σ_j J_ij s_j)` : the exact energy change of flipping spin `i` -/
def dESpec (s : List Int) (h : List Rat) (adj : List (List (Nat × Rat))) (i : Nat) : Rat :=
  -2 * assign s i * localField (assign s) h adj i

/-- total coupling stored in row `i` towards `k` -/
def wt (adj : List (List (Nat × Rat))) (i k : Nat) : Rat :=
  ((adj.getD i []).map (fun p => if p.1 = k then p.2 else 0)).sum

/-- every coupling is stored in both adjacency lists, and no spin is its own neighbour -/
structure SymAdj (adj : List (List (Nat × Rat))) : Prop where
  noself : ∀ i, ∀ p ∈ adj.getD i [], p.1 ≠ i
  sym : ∀ i k, wt adj i k = wt adj k i

/-- the cache is exact for the state -/
def CacheExact (h : List Rat) (adj : List (List (Nat × Rat))) (N : Nat) (st : List Int) (flip : List Rat) : Prop :=
  st.length = N ∧ flip.length = N ∧ ∀ i, i < N → flip.getD i 0 = dESpec st h adj i

/-! ## list sums -/

theorem foldl_fieldSum (σ : Var → Rat) : ∀ (L : List (Nat × Rat)) (e : Rat),
    L.foldl (fun e p => e + p.2 * σ p.1) e = e + fieldSum σ L
  | [], e => by simp [fieldSum]
  | p :: L, e => by
    simp only [List.foldl_cons, fieldSum, List.map_cons, List.sum_cons]
    rw [foldl_fieldSum σ L]
    simp only [fieldSum]
    ring

theorem sum_if_zero (m : Nat) (g : Nat × Rat → Rat) : ∀ (L : List (Nat × Rat)), (∀ p ∈ L, p.1 ≠ m) →
    (L.map (fun p => if p.1 = m then g p else 0)).sum = 0
  | [], _ => rfl
  | p :: L, h => by
    simp only [List.map_cons, List.sum_cons]
    rw [sum_if_zero m g L (fun q hq => h q (List.mem_cons_of_mem _ hq)), if_neg (h p List.mem_cons_self)]
    ring

theorem sum_if_mul (m : Nat) (c : Nat → Rat) : ∀ (L : List (Nat × Rat)),
    (L.map (fun p => if p.1 = m then c p.1 * p.2 else 0)).sum =
      c m * (L.map (fun p => if p.1 = m then p.2 else 0)).sum
  | [] => by simp
  | p :: L => by
    simp only [List.map_cons, List.sum_cons]
    rw [sum_if_mul m c L]
    by_cases hp : p.1 = m
    · simp only [hp, if_true]; ring
    · simp only [hp, if_false]; ring

/-- changing the assignment at one label changes a field sum by the couplings towards that label -/
theorem fieldSum_update (σ σ' : Var → Rat) (i : Nat) (c : Rat)
    (hσ : ∀ x, σ' x = σ x + if x = i then c else 0) : ∀ (L : List (Nat × Rat)),
    fieldSum σ' L = fieldSum σ L + c * (L.map (fun p => if p.1 = i then p.2 else 0)).sum
  | [] => by simp [fieldSum]
  | p :: L => by
    have ih := fieldSum_update σ σ' i c hσ L
    simp only [fieldSum, List.map_cons, List.sum_cons] at ih ⊢
    rw [ih, hσ p.1]
    by_cases hp : p.1 = i
    · simp only [hp, if_true]; ring
    · simp only [hp, if_false]; ring

/-- `f[n] += g` for every entry of a list: the effect on one cell -/
theorem foldl_bump (g : Nat × Rat → Rat) : ∀ (L : List (Nat × Rat)) (f : List Rat) (m : Nat), m < f.length →
    (L.foldl (fun f p => f.set p.1 (f.getD p.1 0 + g p)) f).length = f.length ∧
    (L.foldl (fun f p => f.set p.1 (f.getD p.1 0 + g p)) f).getD m 0 =
      f.getD m 0 + (L.map (fun p => if p.1 = m then g p else 0)).sum
  | [], f, m, _ => by simp
  | p :: L, f, m, hm => by
    simp only [List.foldl_cons, List.map_cons, List.sum_cons]
    obtain ⟨h1, h2⟩ := foldl_bump g L (f.set p.1 (f.getD p.1 0 + g p)) m (by simpa using hm)
    refine ⟨by rw [h1]; simp, ?_⟩
    rw [h2]
    by_cases hp : p.1 = m
    · subst hp
      rw [getD_set_self' f p.1 _ 0 hm]
      simp only [if_true]; ring
    · rw [getD_set_ne' f p.1 m _ 0 hp]
      simp only [hp, if_false]; ring

/-! ## `state[i] *= -1` on the assignment -/

theorem flipAt_oob (s : List Int) (i : Nat) (hi : s.length ≤ i) : flipAt s i = s := by
  unfold flipAt
  exact List.set_eq_of_length_le hi

theorem assign_flipAt (s : List Int) (i : Nat) (hi : i < s.length) (x : Nat) :
    assign (flipAt s i) x = assign s x + if x = i then -2 * assign s i else 0 := by
  unfold assign flipAt
  by_cases hx : x = i
  · subst hx
    rw [getD_set_self' s x _ 0 hi]
    simp only [if_true]
    push_cast
    ring
  · rw [getD_set_ne' s i x _ 0 (fun e => hx e.symm)]
    simp [hx]

/-! ## `compute_flip_dE` -/

theorem getD_map_range {β : Type} (f : Nat → β) (N i : Nat) (d : β) (hi : i < N) :
    ((List.range N).map f).getD i d = f i := by
  simp [List.getD, List.getElem?_range hi]

theorem computeFlipDE_length (q : Quso Rat) (index : List Nat) (N : Nat) (s : List Int) :
    (computeFlipDE q index N s).length = N := by
  simp [computeFlipDE]

/-- `compute_flip_dE` fills the cache with `-2 s_i (h_i + Σ_j J_ij s_j)` -/
theorem computeFlipDE_exact (h : List Rat) (adj : List (List (Nat × Rat))) (N : Nat) (hadj : adj.length = N)
    (s : List Int) (i : Nat) (hi : i < N) :
    (computeFlipDE (qOf h adj) (idxOf adj) N s).getD i 0 = dESpec s h adj i := by
  unfold computeFlipDE
  rw [getD_map_range _ N i 0 hi]
  simp only [qOf, ofInt_rat, Int.cast_zero]
  have := seg_loop adj i (by omega) (fun p (e : Rat) => e + p.2 * ((s.getD p.1 0 : Int) : Rat))
    (h.getD i 0)
  dsimp only at this
  rw [this]
  have hfs := foldl_fieldSum (assign s) (adj.getD i []) (h.getD i 0)
  simp only [assign] at hfs
  rw [hfs]
  simp only [dESpec, localField, assign]
  push_cast
  ring

theorem computeFlipDE_cache (h : List Rat) (adj : List (List (Nat × Rat))) (N : Nat) (hadj : adj.length = N)
    (s : List Int) (hs : s.length = N) :
    CacheExact h adj N s (computeFlipDE (qOf h adj) (idxOf adj) N s) :=
  ⟨hs, computeFlipDE_length _ _ _ _, fun i hi => computeFlipDE_exact h adj N hadj s i hi⟩

/-! ## `recompute_flip_dE` -/

/-- the cells of the cache after `recompute_flip_dE(spin = i)` -/
theorem recompute_getD (h : List Rat) (adj : List (List (Nat × Rat))) (N : Nat) (hadj : adj.length = N)
    (s : List Int) (flip : List Rat) (hf : flip.length = N) (i : Nat) (hi : i < N) (m : Nat) (hm : m < N) :
    (recomputeFlipDE (qOf h adj) (idxOf adj) i flip s).length = N ∧
    (recomputeFlipDE (qOf h adj) (idxOf adj) i flip s).getD m 0 =
      (if m = i then -flip.getD i 0 else flip.getD m 0) +
        ((adj.getD i []).map (fun p => if p.1 = m then 4 * assign s i * assign s p.1 * p.2 else 0)).sum := by
  unfold recomputeFlipDE
  simp only [qOf, ofInt_rat, Int.cast_zero]
  have := seg_loop adj i (by omega)
    (fun p (f : List Rat) => f.set p.1 (f.getD p.1 0 +
      ((4 : Int) : Rat) * ((s.getD i 0 : Int) : Rat) * ((s.getD p.1 0 : Int) : Rat) * p.2))
    (flip.set i (flip.getD i 0 * ((-1 : Int) : Rat)))
  dsimp only at this
  rw [this]
  have hb := foldl_bump (fun p => ((4 : Int) : Rat) * ((s.getD i 0 : Int) : Rat) * ((s.getD p.1 0 : Int) : Rat) * p.2)
    (adj.getD i []) (flip.set i (flip.getD i 0 * ((-1 : Int) : Rat))) m (by simpa [hf] using hm)
  refine ⟨by rw [hb.1]; simpa using hf, ?_⟩
  rw [hb.2]
  congr 1
  by_cases hmi : m = i
  · subst hmi
    rw [getD_set_self' flip m _ 0 (by omega)]
    simp
  · rw [getD_set_ne' flip i m _ 0 (fun e => hmi e.symm)]
    simp [hmi]

/-- **an accepted flip keeps the cache exact**: `recompute_flip_dE(i)` on the old state, then
`state[i] *= -1` -/
theorem recompute_exact (h : List Rat) (adj : List (List (Nat × Rat))) (N : Nat) (hadj : adj.length = N)
    (hsym : SymAdj adj) (s : List Int) (flip : List Rat) (hc : CacheExact h adj N s flip) (i : Nat) (hi : i < N) :
    CacheExact h adj N (flipAt s i) (recomputeFlipDE (qOf h adj) (idxOf adj) i flip s) := by
  obtain ⟨hs, hf, hex⟩ := hc
  refine ⟨by rw [flipAt_length]; exact hs, (recompute_getD h adj N hadj s flip hf i hi i hi).1, ?_⟩
  intro m hm
  rw [(recompute_getD h adj N hadj s flip hf i hi m hm).2]
  have hupd := fieldSum_update (assign s) (assign (flipAt s i)) i (-2 * assign s i)
    (assign_flipAt s i (by omega)) (adj.getD m [])
  have hsm := assign_flipAt s i (by omega) m
  by_cases hmi : m = i
  · subst hmi
    rw [if_pos rfl, sum_if_zero m _ _ (hsym.noself m), hex m hm]
    have hw : ((adj.getD m []).map (fun p => if p.1 = m then p.2 else 0)).sum = 0 :=
      sum_if_zero m (fun p => p.2) _ (hsym.noself m)
    simp only [dESpec, localField]
    rw [hupd, hw, hsm]
    simp only [if_true]
    ring
  · rw [if_neg hmi, hex m hm]
    have e1 := sum_if_mul m (fun x => 4 * assign s i * assign s x) (adj.getD i [])
    rw [e1]
    have hw := hsym.sym i m
    simp only [wt] at hw
    rw [hw]
    simp only [dESpec, localField]
    rw [hupd, hsm]
    simp only [hmi, if_false]
    ring

/-- a visit of an index outside `0..N-1` (impossible for `rand_int`, but allowed for an abstract source)
touches nothing -/
theorem recompute_oob (h : List Rat) (adj : List (List (Nat × Rat))) (N : Nat) (hadj : adj.length = N)
    (s : List Int) (flip : List Rat) (hf : flip.length = N) (i : Nat) (hi : N ≤ i) :
    recomputeFlipDE (qOf h adj) (idxOf adj) i flip s = flip := by
  unfold recomputeFlipDE
  have h0 : (qOf h adj).nn.getD i 0 = 0 := by
    simp only [qOf, List.getD]
    rw [List.getElem?_eq_none (by simp; omega)]
    rfl
  rw [h0]
  simp only [forN, forFrom]
  exact List.set_eq_of_length_le (by omega)

end Qv.Kernel
