import Qv.Proofs.KernelMemRefine
/-!
# Qv.Proofs.KernelMemRefine2 — `anneal_quso` (the loop over the anneals) computes `Kernel.annealQuso`

The `states` buffer is described row by row (`RowIs`), the `values` buffer cell by cell.
-/
namespace Qv.KMem
open Qv.Kernel (Src OfInt ofInt forFrom forN)

/-- row `r` of the flat `states` buffer holds the list `l` -/
def RowIs (b : Buf Int) (N r : Nat) (l : List Int) : Prop :=
  ∀ j, j < N → b.cells[r * N + j]? = some (some (l.getD j 0))

theorem flat_inj {N r j r' j' : Nat} (hj : j < N) (hj' : j' < N) (h : r * N + j = r' * N + j') : r = r' ∧ j = j' := by
  have key : ∀ {a b x y : Nat}, a < b → x < N → a * N + x < b * N + y := by
    intro a b x y hab hx
    have : (a + 1) * N ≤ b * N := Nat.mul_le_mul_right N hab
    rw [Nat.add_mul] at this
    omega
  rcases Nat.lt_trichotomy r r' with hlt | heq | hgt
  · have := key (y := j') hlt hj; omega
  · subst heq; exact ⟨rfl, by omega⟩
  · have := key (y := j) hgt hj'; omega

theorem getD_snoc {β : Type} (l : List β) (v d : β) : (l ++ [v]).getD l.length d = v := by
  have := Kernel.getD_append_right' l [v] 0 d
  simpa using this

section
variable {α ρ : Type} [Add α] [Mul α] [OfInt α]

/-- the body of `Kernel.initState`'s loop with its tuple pattern written as projections -/
def initBody (src : Src ρ α) (init : List Int) (j : Nat) (t : List Int × ρ) : List Int × ρ :=
  if init.length ≠ 0 then (t.1 ++ [init.getD j 0], t.2)
  else (t.1 ++ [if (src.coin t.2).2 then 1 else -1], (src.coin t.2).1)

omit [Add α] [Mul α] [OfInt α] in
theorem initState_unfold (src : Src ρ α) (N : Nat) (init : List Int) (rng : ρ) :
    Kernel.initState src N init rng = forN N ([], rng) (initBody src init) := by
  unfold Kernel.initState
  congr

omit [Add α] [Mul α] [OfInt α] in
/-- drawing or copying the initial state: the buffer ends up holding `Kernel.initState`'s list -/
theorem initState_sim (src : Src ρ α) {N na : Nat} (provided : Bool) (init : List Int)
    (hprov : provided = decide (init.length ≠ 0)) {states : Buf Int} (hl : states.live = true) {i : Nat}
    (hi : i < na) (hT : na * N ≤ 2147483647) (hrow : provided = true → RowIs states N i init)
    (hinit : provided = true → Kernel.GoodState N init) {state : Buf Int} {k0 : Nat} {p0 : Nat → Int → Prop}
    (hs : state.Upto N k0 p0) (rng : ρ) :
    Ok (initState src N provided states i state rng)
      (fun r => StateR N r.1 (Kernel.initState src N init rng).1 ∧ r.2 = (Kernel.initState src N init rng).2) := by
  rw [initState_unfold]
  unfold initState
  refine (forNM_sim (fun j (s : Buf Int × ρ) (t : List Int × ρ) =>
      s.1.Upto N j (Is t.1 0) ∧ t.1.length = j ∧ Kernel.SpinList t.1 ∧ s.2 = t.2) N (state, rng) ([], rng) _ _
    ⟨hs.zero, rfl, fun x hx => by simp at hx, rfl⟩ fun j s t hj hI => ?_).mono fun r hr =>
      ⟨⟨hr.1, hr.2.1, hr.2.2.1⟩, hr.2.2.2⟩
  obtain ⟨hup, hlen, hspin, hr⟩ := hI
  have hlt := flat_index_lt (N := N) hi hj
  have snoc : ∀ (b : Buf Int) (v : Int), (v = 1 ∨ v = -1) → b.Upto N j (Is t.1 0) →
      Ok (b.wr (j : Int) v) (fun b' => b'.Upto N (j + 1) (Is (t.1 ++ [v]) 0) ∧ (t.1 ++ [v]).length = j + 1 ∧
        Kernel.SpinList (t.1 ++ [v])) := by
    intro b v hv hb
    refine (wr_gen hb j hj (j + 1) v (fun m hm => by omega) ?_ fun m w hm _ hw => ?_).mono fun b' hb' =>
      ⟨hb', by simp [hlen], fun x hx => ?_⟩
    · show v = (t.1 ++ [v]).getD j 0
      rw [← hlen, getD_snoc]
    · show w = (t.1 ++ [v]).getD m 0
      rw [Kernel.getD_append_left' t.1 [v] m 0 (by omega)]; exact hw
    · rcases List.mem_append.mp hx with h | h
      · exact hspin x h
      · simp at h; rw [h]; exact hv
  cases provided
  · have hz : init.length = 0 := by simpa using hprov.symm
    have eb : initBody src init j t = (t.1 ++ [if (src.coin t.2).2 then 1 else -1], (src.coin t.2).1) :=
      if_neg (by simp [hz])
    rw [eb]
    simp only [Bool.false_eq_true, ↓reduceIte]
    rw [hr]
    refine Ok.bind (snoc s.1 _ (by cases (src.coin t.2).2 <;> simp) hup) fun b' hb' => ?_
    exact Ok.pure ⟨hb'.1, hb'.2.1, hb'.2.2, rfl⟩
  · have hne : init.length ≠ 0 := by simpa using hprov.symm
    have eb : initBody src init j t = (t.1 ++ [init.getD j 0], t.2) := if_pos hne
    rw [eb]
    simp only [↓reduceIte]
    refine Ok.bind (imul_flat (row_le hi) hT) fun p hp' => ?_
    subst hp'
    refine Ok.bind (iadd_flat hlt hT) fun ix hix => ?_
    subst hix
    refine Ok.bind ⟨_, rd_cell hl (hrow rfl j hj), rfl⟩ fun v hv => ?_
    subst hv
    have hg := hinit rfl
    have hsp : init.getD j 0 = 1 ∨ init.getD j 0 = -1 := hg.2 _ (Kernel.getD_mem 0 (by rw [hg.1]; exact hj))
    refine Ok.bind (snoc s.1 _ hsp hup) fun b' hb' => ?_
    exact Ok.pure ⟨hb'.1, hb'.2.1, hb'.2.2, hr⟩

end

/-- storing row `i` : afterwards row `i` holds `st`, every other row is unchanged -/
theorem storeState_sim {N na : Nat} {states : Buf Int} (hl : states.live = true)
    (hsz : states.cells.size = na * N) {i : Nat} (hi : i < na) (hT : na * N ≤ 2147483647) {state : Buf Int}
    {st : List Int} (hs : StateR N state st) :
    Ok (storeState N states i state) (fun s' => s'.live = true ∧ s'.cells.size = na * N ∧ RowIs s' N i st ∧
      ∀ r, r ≠ i → ∀ j, j < N → s'.cells[r * N + j]? = states.cells[r * N + j]?) := by
  unfold storeState
  refine (forNM_ok (fun j (s' : Buf Int) => s'.live = true ∧ s'.cells.size = na * N ∧
      (∀ j', j' < j → s'.cells[i * N + j']? = some (some (st.getD j' 0))) ∧
      ∀ r, r ≠ i → ∀ j', j' < N → s'.cells[r * N + j']? = states.cells[r * N + j']?) _ _ _
    ⟨hl, hsz, fun j' h => by omega, fun _ _ _ _ => rfl⟩ fun j s' hj hI => ?_).mono fun s' hs' =>
      ⟨hs'.1, hs'.2.1, hs'.2.2.1, hs'.2.2.2⟩
  obtain ⟨hl', hsz', hrow, hoth⟩ := hI
  have hlt := flat_index_lt (N := N) hi hj
  refine Ok.bind (imul_flat (row_le hi) hT) fun p hp' => ?_
  subst hp'
  refine Ok.bind (iadd_flat hlt hT) fun ix hix => ?_
  subst hix
  refine Ok.bind (rd_ok hs.1 j hj) fun v hv => ?_
  have hv' : v = st.getD j 0 := hv
  subst hv'
  refine (wr_raw hl' (i * N + j) (by omega) _).mono fun b hb => ?_
  obtain ⟨hbl, hbsz, hbc, hbo⟩ := hb
  refine ⟨hbl, by omega, fun j' hj' => ?_, fun r hr j' hj' => ?_⟩
  · by_cases e : j' = j
    · subst e; exact hbc
    · rw [hbo _ (by omega)]
      exact hrow j' (by omega)
  · rw [hbo _ (fun e => hr (flat_inj hj' hj e).1)]
    exact hoth r hr j' hj'

section
variable {α ρ : Type} [Add α] [Mul α] [OfInt α]

omit [Add α] [Mul α] [OfInt α] in
theorem annealLoop_succ (src : Src ρ α) (N : Nat) (init : List Int) (single : List Int → ρ → List Int × ρ)
    (value : List Int → α) (k : Nat) (rng : ρ) :
    Kernel.annealLoop src N init single value (k + 1) rng =
      ((single (Kernel.initState src N init rng).1 (Kernel.initState src N init rng).2).1,
        value (single (Kernel.initState src N init rng).1 (Kernel.initState src N init rng).2).1) ::
      Kernel.annealLoop src N init single value k
        (single (Kernel.initState src N init rng).1 (Kernel.initState src N init rng).2).2 := rfl

/-- what `states` / `values` hold after `anneal_quso`, in terms of a result list `OUT` -/
def OutR (na N : Nat) (states : Buf Int) (values : Buf α) (OUT : List (List Int × α)) : Prop :=
  states.live = true ∧ states.cells.size = na * N ∧ values.Upto na na (fun k v => v = (OUT.getD k ([], ofInt 0)).2) ∧
  (∀ k, k < na → RowIs states N k (OUT.getD k ([], ofInt 0)).1) ∧ OUT.length = na ∧ ∀ o ∈ OUT, o.1.length = N

/-- the loop over the anneals, for any checked `SINGLE`/`VALUE` simulating unchecked `single`/`value` -/
theorem annealLoop_sim {N : Nat} (src : Src ρ α) (init : List Int) (na : Nat) (htot : na * N ≤ 2147483647)
    (SINGLE : Buf Int → ρ → M (Buf Int × ρ)) (VALUE : Buf Int → M α)
    (single : List Int → ρ → List Int × ρ) (value : List Int → α)
    (hS : ∀ (state : Buf Int) (st : List Int) (rng : ρ), StateR N state st →
      Ok (SINGLE state rng) (fun r => StateR N r.1 (single st rng).1 ∧ r.2 = (single st rng).2))
    (hV : ∀ (state : Buf Int) (st : List Int), StateR N state st → Ok (VALUE state) (fun v => v = value st))
    {states : Buf Int} (hl : states.live = true) (hsz : states.cells.size = na * N)
    (hinit : init.length ≠ 0 → Kernel.GoodState N init)
    (hrows : init.length ≠ 0 → ∀ r, r < na → RowIs states N r init) {values : Buf α} {p0 : Nat → α → Prop}
    (hv : values.Upto na 0 p0) {state0 : Buf Int} (hs0 : state0.Upto N 0 Spins) (rng : ρ) :
    Ok (forNM na (states, values, state0, rng) fun i s => do
        let sr ← initState src N (decide (init.length ≠ 0)) s.1 i s.2.2.1 s.2.2.2
        let sr ← SINGLE sr.1 sr.2
        let v ← VALUE sr.1
        let values ← s.2.1.wr i v
        let states ← storeState N s.1 i sr.1
        pure (states, values, sr.1, sr.2))
      (fun s => OutR na N s.1 s.2.1 (Kernel.annealLoop src N init single value na rng) ∧
        ∃ k p, s.2.2.1.Upto N k p) := by
  refine (forNM_ok (fun i (s : Buf Int × Buf α × Buf Int × ρ) =>
      ∃ outs : List (List Int × α), outs.length = i ∧
        Kernel.annealLoop src N init single value na rng =
          outs ++ Kernel.annealLoop src N init single value (na - i) s.2.2.2 ∧
        s.1.live = true ∧ s.1.cells.size = na * N ∧
        (∀ r, r < i → RowIs s.1 N r (outs.getD r ([], ofInt 0)).1) ∧
        (init.length ≠ 0 → ∀ r, i ≤ r → r < na → RowIs s.1 N r init) ∧
        s.2.1.Upto na i (fun k v => v = (outs.getD k ([], ofInt 0)).2) ∧
        (∃ k p, s.2.2.1.Upto N k p) ∧ ∀ o ∈ outs, o.1.length = N) _ _ _
    ⟨[], rfl, by simp, hl, hsz, fun r h => by omega, fun h r _ hr => hrows h r hr, hv.zero, ⟨0, Spins, hs0⟩,
      fun o ho => by cases ho⟩ fun i s hi hI => ?_).mono fun s hI => ?_
  · obtain ⟨outs, hlen, hU, hsl, hssz, hdone, hpend, hvals, ⟨ks, ps, hstate⟩, hlens⟩ := hI
    have hk : na - i = (na - i - 1) + 1 := by omega
    rw [hk, annealLoop_succ] at hU
    refine Ok.bind (initState_sim src (decide (init.length ≠ 0)) init rfl hsl hi htot
      (fun hp => hpend (by simpa using hp) i (Nat.le_refl i) hi) (fun hp => hinit (by simpa using hp)) hstate
      s.2.2.2) fun sr hsr => ?_
    obtain ⟨hsr1, hsr2⟩ := hsr
    refine Ok.bind (hS sr.1 _ sr.2 hsr1) fun sr2 hsr2' => ?_
    rw [hsr2] at hsr2'
    obtain ⟨hst, hrng⟩ := hsr2'
    refine Ok.bind (hV sr2.1 _ hst) fun v hv' => ?_
    subst hv'
    generalize hfin : (single (Kernel.initState src N init s.2.2.2).1 (Kernel.initState src N init s.2.2.2).2) = fin
      at hU hst hrng
    refine Ok.bind (wr_gen (q := fun k v => v = ((outs ++ [(fin.1, value fin.1)]).getD k ([], ofInt 0)).2) hvals i hi
      (i + 1) (value fin.1) (fun m hm => by omega) ?_ fun m w hm _ hw => ?_) fun values' hvalues' => ?_
    · show value fin.1 = _
      rw [← hlen, getD_snoc]
    · show w = _
      rw [Kernel.getD_append_left' outs _ m _ (by omega)]; exact hw
    refine Ok.bind (storeState_sim hsl hssz hi htot hst) fun states' hstates' => ?_
    obtain ⟨hl', hsz', hrowi, hoth⟩ := hstates'
    refine Ok.pure ⟨outs ++ [(fin.1, value fin.1)], by simp [hlen], ?_, hl', hsz', ?_, ?_, hvalues',
      ⟨N, _, hst.1⟩, ?_⟩
    · rw [hU]
      have e : na - (i + 1) = na - i - 1 := by omega
      simp only [e, hrng, List.append_assoc, List.singleton_append]
    · intro r hr
      by_cases e : r = i
      · subst e
        have e2 : (outs ++ [(fin.1, value fin.1)]).getD r ([], ofInt 0) = (fin.1, value fin.1) := by
          rw [← hlen, getD_snoc]
        rw [e2]
        exact hrowi
      · rw [Kernel.getD_append_left' outs _ r _ (by omega)]
        intro j hj
        rw [hoth r e j hj]
        exact hdone r (by omega) j hj
    · intro h r hr1 hr2 j hj
      rw [hoth r (by omega) j hj]
      exact hpend h r (by omega) hr2 j hj
    · intro o ho
      rcases List.mem_append.mp ho with h | h
      · exact hlens o h
      · simp at h; rw [h]; exact hst.2.1
  · obtain ⟨outs, hlen, hU, hsl, hssz, hdone, _, hvals, hstate, hlens⟩ := hI
    have e : na - na = 0 := by omega
    rw [e] at hU
    have hU' : Kernel.annealLoop src N init single value na rng = outs := by
      rw [hU]; simp [Kernel.annealLoop]
    rw [hU']
    exact ⟨⟨hsl, hssz, hvals, hdone, hlen, hlens⟩, hstate⟩

theorem annealQuso_sim {q : QusoB α} {N : Nat} {Q : Kernel.Quso α} (c : QCtxR q N Q) (hN1 : 1 ≤ N)
    {src : Src ρ α} (hsrc : IndexOK src N) (inOrder : Bool) (init : List Int) {Ts : List α} {TsB : Buf α}
    (hT : TsB.Upto Ts.length Ts.length (Is Ts (ofInt 0))) (na : Nat) (htot : na * N ≤ 2147483647)
    {states : Buf Int} (hl : states.live = true) (hsz : states.cells.size = na * N)
    (hinit : init.length ≠ 0 → Kernel.GoodState N init)
    (hrows : init.length ≠ 0 → ∀ r, r < na → RowIs states N r init) {values : Buf α} {p0 : Nat → α → Prop}
    (hv : values.Upto na 0 p0) (rng : ρ) :
    Ok (annealQuso src (na : Int) states values N q Ts.length TsB inOrder (decide (init.length ≠ 0)) rng)
      (fun r => OutR na N r.1 r.2 (Kernel.annealQuso src Q N Ts inOrder init na rng)) := by
  unfold annealQuso
  have hN := c.N_le
  refine Ok.bind (mkIndexQuso_sim c hN1) fun index hx => ?_
  refine Ok.bind (malloc_nat_ok N 4 Spins (by omega)) fun state0 hs0 => ?_
  rw [Int.toNat_natCast]
  refine Ok.bind (annealLoop_sim src init na htot
    (singleAnnealQuso src q index N Ts.length TsB inOrder) (qusoValue q index N)
    (Kernel.singleAnnealQuso src Q (Kernel.mkIndex Q.nn) N Ts inOrder) (Kernel.qusoValueC Q (Kernel.mkIndex Q.nn) N)
    (fun state st rng hs => singleAnnealQuso_sim c hx hsrc inOrder hT hs rng)
    (fun state st hs => qusoValue_sim c hx hs) hl hsz hinit hrows hv hs0 rng) fun s hI => ?_
  obtain ⟨hout, ks, ps, hstate⟩ := hI
  refine Ok.bind (free_ok hx.live) fun index' hi' => ?_
  refine Ok.bind (free_ok hstate.live) fun state' hs' => ?_
  refine Ok.bind (noLeak_ok (by
    intro b hb
    simp at hb
    rcases hb with rfl | rfl
    · exact hi'.1
    · exact hs'.1)) fun _ _ => ?_
  exact Ok.pure hout

end

end Qv.KMem
