import Qv.Proofs.Expr
import Qv.Model.PcboLogic
import Mathlib.Tactic.NormNum
/-!
# Gates on evaluated operands, local to C06 (namespace `Qv.Logic`)

`OpOK` (admissible operand), the numeric gate functions `andR`, `orG`, `xorG`, soundness of
`bufferV`, `notV`, `andLoop`, `andV`, `orV`, `xorV` and of the source-shaped arithmetic trees `VE`,
and the link between the numeric gate values and the truth-level predicates `AllT`, `AnyT`, `OddT`.
-/
namespace Qv.Logic
open Qv

/-- canonical boolean-family value (numbers and plain dicts are unrestricted) -/
abbrev GoodB (v : Val) : Prop := Val.Good false v

theorem famB {x : Var → Rat} (hx : IsBool x) : Fam false x := by simpa [Fam] using hx

theorem isBool_zero : IsBool (fun _ => (0 : Rat)) := fun _ => Or.inl rfl

/-- value of an evaluated operand at an assignment -/
def SVal.ev (x : Var → Rat) : SVal → Rat
  | .lbl i => x i
  | .val v => v.eval x

/-- an admissible operand: a label, or a value (plain dict / canonical boolean model) that takes values
in `{0,1}` on every boolean assignment -/
def OpOK : SVal → Prop
  | .lbl _ => True
  | .val w => GoodB w ∧ ∀ y, IsBool y → (w.eval y = 0 ∨ w.eval y = 1)

theorem OpOK.ev01 {v : SVal} (h : OpOK v) {y : Var → Rat} (hy : IsBool y) : SVal.ev y v = 0 ∨ SVal.ev y v = 1 := by
  cases v with
  | lbl i => exact hy i
  | val w => exact h.2 y hy

/-! ### source-shaped arithmetic -/

def VE.den (x : Var → Rat) : VE → Rat
  | .leaf v => v.eval x
  | .add a b => VE.den x a + VE.den x b
  | .sub a b => VE.den x a - VE.den x b
  | .mul a b => VE.den x a * VE.den x b

def VE.Good : VE → Prop
  | .leaf v => GoodB v
  | .add a b => VE.Good a ∧ VE.Good b
  | .sub a b => VE.Good a ∧ VE.Good b
  | .mul a b => VE.Good a ∧ VE.Good b

theorem VE.run_sound : ∀ (e : VE) {v : Val}, VE.Good e → e.run = .ok v →
    GoodB v ∧ ∀ y, IsBool y → v.eval y = VE.den y e := by
  intro e
  induction e with
  | leaf w =>
    intro v hg h
    simp only [VE.run] at h
    injection h with h; subst h
    exact ⟨hg, fun _ _ => rfl⟩
  | add a b iha ihb =>
    intro v hg h
    simp only [VE.run, bind_ok_iff] at h
    obtain ⟨va, hva, vb, hvb, h⟩ := h
    obtain ⟨ga, ea⟩ := iha hg.1 hva
    obtain ⟨gb, eb⟩ := ihb hg.2 hvb
    refine ⟨(Val.add_sound (famB isBool_zero) ga gb h).2, fun y hy => ?_⟩
    rw [(Val.add_sound (famB hy) ga gb h).1, ea y hy, eb y hy]; rfl
  | sub a b iha ihb =>
    intro v hg h
    simp only [VE.run, bind_ok_iff] at h
    obtain ⟨va, hva, vb, hvb, h⟩ := h
    obtain ⟨ga, ea⟩ := iha hg.1 hva
    obtain ⟨gb, eb⟩ := ihb hg.2 hvb
    refine ⟨(Val.sub_sound (famB isBool_zero) ga gb h).2, fun y hy => ?_⟩
    rw [(Val.sub_sound (famB hy) ga gb h).1, ea y hy, eb y hy]; rfl
  | mul a b iha ihb =>
    intro v hg h
    simp only [VE.run, bind_ok_iff] at h
    obtain ⟨va, hva, vb, hvb, h⟩ := h
    obtain ⟨ga, ea⟩ := iha hg.1 hva
    obtain ⟨gb, eb⟩ := ihb hg.2 hvb
    refine ⟨(Val.mul_sound (famB isBool_zero) ga gb h).2, fun y hy => ?_⟩
    rw [(Val.mul_sound (famB hy) ga gb h).1, ea y hy, eb y hy]; rfl

/-! ### numeric gate functions -/

/-- `AND`: the product of the operand values -/
def andR (y : Var → Rat) : List SVal → Rat
  | [] => 1
  | v :: r => SVal.ev y v * andR y r

/-- the left fold of `OR`: `a ↦ a + v * (1 - a)` -/
def orF (y : Var → Rat) (a : Rat) : List SVal → Rat
  | [] => a
  | v :: r => orF y (a + SVal.ev y v * (1 - a)) r

/-- the left fold of `XOR`: `a ↦ (a - v)^2` -/
def xorF (y : Var → Rat) (a : Rat) : List SVal → Rat
  | [] => a
  | v :: r => xorF y ((a - SVal.ev y v) ^ 2) r

/-- `OR(*vs)` as qubovert defines it (`OR() = 1`) -/
def orG (y : Var → Rat) : List SVal → Rat
  | [] => 1
  | v :: r => orF y (SVal.ev y v) r

/-- `XOR(*vs)` as qubovert defines it (`XOR() = 1`) -/
def xorG (y : Var → Rat) : List SVal → Rat
  | [] => 1
  | v :: r => xorF y (SVal.ev y v) r

/-! ### truth-level reading -/

/-- the operand is true at `x` -/
def T (x : Var → Rat) (v : SVal) : Prop := SVal.ev x v = 1
/-- all operands true (`AND`) -/
def AllT (x : Var → Rat) (vs : List SVal) : Prop := ∀ v ∈ vs, T x v
/-- some operand true (`OR`) -/
def AnyT (x : Var → Rat) (vs : List SVal) : Prop := ∃ v ∈ vs, T x v
/-- number of true operands -/
def cntT (x : Var → Rat) (vs : List SVal) : Nat := vs.countP (fun v => decide (SVal.ev x v = 1))
/-- an odd number of operands true (`XOR`) -/
def OddT (x : Var → Rat) (vs : List SVal) : Prop := cntT x vs % 2 = 1

theorem andR_fact {y : Var → Rat} : ∀ {vs : List SVal}, (∀ v ∈ vs, SVal.ev y v = 0 ∨ SVal.ev y v = 1) →
    (andR y vs = 0 ∨ andR y vs = 1) ∧ (andR y vs = 1 ↔ AllT y vs)
  | [], _ => ⟨Or.inr rfl, by simp [andR, AllT]⟩
  | v :: r, h => by
    obtain ⟨h01, hiff⟩ := andR_fact (vs := r) (fun u hu => h u (List.mem_cons_of_mem _ hu))
    have hv := h v List.mem_cons_self
    have key : andR y (v :: r) = 1 ↔ (SVal.ev y v = 1 ∧ andR y r = 1) := by
      simp only [andR]
      rcases hv with hv | hv <;> rcases h01 with hr | hr <;> rw [hv, hr] <;> norm_num
    refine ⟨?_, ?_⟩
    · simp only [andR]
      rcases hv with hv | hv <;> rcases h01 with hr | hr <;> rw [hv, hr] <;> norm_num
    · rw [key, hiff]; simp only [AllT, List.forall_mem_cons, T]

theorem orF_fact {y : Var → Rat} : ∀ {r : List SVal} {a : Rat}, (a = 0 ∨ a = 1) →
    (∀ v ∈ r, SVal.ev y v = 0 ∨ SVal.ev y v = 1) →
    (orF y a r = 0 ∨ orF y a r = 1) ∧ (orF y a r = 1 ↔ (a = 1 ∨ AnyT y r))
  | [], a, ha, _ => ⟨ha, by simp [orF, AnyT]⟩
  | v :: r, a, ha, h => by
    have hv := h v List.mem_cons_self
    have ha' : (a + SVal.ev y v * (1 - a) = 0 ∨ a + SVal.ev y v * (1 - a) = 1) ∧
        (a + SVal.ev y v * (1 - a) = 1 ↔ (a = 1 ∨ SVal.ev y v = 1)) := by
      rcases ha with rfl | rfl <;> rcases hv with hv | hv <;> rw [hv] <;> norm_num
    obtain ⟨h01, hiff⟩ := orF_fact (r := r) ha'.1 (fun u hu => h u (List.mem_cons_of_mem _ hu))
    refine ⟨h01, ?_⟩
    simp only [orF]
    rw [hiff, ha'.2]
    simp only [AnyT, List.exists_mem_cons_iff, T] -- ∃ over cons
    tauto

theorem xorF_fact {y : Var → Rat} : ∀ {r : List SVal} {a : Rat}, (a = 0 ∨ a = 1) →
    (∀ v ∈ r, SVal.ev y v = 0 ∨ SVal.ev y v = 1) →
    (xorF y a r = 0 ∨ xorF y a r = 1) ∧
    (xorF y a r = 1 ↔ ((if a = 1 then 1 else 0) + cntT y r) % 2 = 1)
  | [], a, ha, _ => ⟨ha, by rcases ha with rfl | rfl <;> simp [xorF, cntT]⟩
  | v :: r, a, ha, h => by
    have hv := h v List.mem_cons_self
    obtain ⟨h01, hiff⟩ := xorF_fact (r := r) (a := (a - SVal.ev y v) ^ 2)
      (by rcases ha with rfl | rfl <;> rcases hv with hv | hv <;> rw [hv] <;> norm_num)
      (fun u hu => h u (List.mem_cons_of_mem _ hu))
    refine ⟨h01, ?_⟩
    simp only [xorF]
    rw [hiff]
    simp only [cntT, List.countP_cons]
    rcases ha with rfl | rfl <;> rcases hv with hv | hv <;> rw [hv] <;> norm_num <;> omega

theorem orG_fact {y : Var → Rat} {vs : List SVal} (hne : vs ≠ [])
    (h : ∀ v ∈ vs, SVal.ev y v = 0 ∨ SVal.ev y v = 1) :
    (orG y vs = 0 ∨ orG y vs = 1) ∧ (orG y vs = 1 ↔ AnyT y vs) := by
  cases vs with
  | nil => exact absurd rfl hne
  | cons v r =>
    obtain ⟨h01, hiff⟩ := orF_fact (y := y) (r := r) (h v List.mem_cons_self)
      (fun u hu => h u (List.mem_cons_of_mem _ hu))
    refine ⟨h01, ?_⟩
    simp only [orG]
    rw [hiff]
    simp only [AnyT, List.exists_mem_cons_iff, T]

theorem xorG_fact {y : Var → Rat} {vs : List SVal} (hne : vs ≠ [])
    (h : ∀ v ∈ vs, SVal.ev y v = 0 ∨ SVal.ev y v = 1) :
    (xorG y vs = 0 ∨ xorG y vs = 1) ∧ (xorG y vs = 1 ↔ OddT y vs) := by
  cases vs with
  | nil => exact absurd rfl hne
  | cons v r =>
    have hv := h v List.mem_cons_self
    obtain ⟨h01, hiff⟩ := xorF_fact (y := y) (r := r) hv
      (fun u hu => h u (List.mem_cons_of_mem _ hu))
    refine ⟨h01, ?_⟩
    simp only [xorG]
    rw [hiff]
    simp only [OddT, cntT, List.countP_cons]
    rcases hv with hv | hv <;> rw [hv] <;> norm_num <;> omega

/-- for the degenerate empty operand list qubovert's `OR()` and `XOR()` are `1` -/
theorem orG_01 {y : Var → Rat} {vs : List SVal} (h : ∀ v ∈ vs, SVal.ev y v = 0 ∨ SVal.ev y v = 1) :
    orG y vs = 0 ∨ orG y vs = 1 := by
  cases vs with
  | nil => exact Or.inr rfl
  | cons v r => exact (orG_fact (by simp) h).1

theorem xorG_01 {y : Var → Rat} {vs : List SVal} (h : ∀ v ∈ vs, SVal.ev y v = 0 ∨ SVal.ev y v = 1) :
    xorG y vs = 0 ∨ xorG y vs = 1 := by
  cases vs with
  | nil => exact Or.inr rfl
  | cons v r => exact (xorG_fact (by simp) h).1

/-! ### soundness of the gates of `Qv.Model.Sat` on admissible operands -/

theorem goodB_pubo_nil : GoodB (.mdl .pubo []) := ⟨by decide, rfl, wf_nil _⟩

theorem bufferV_sound {v : SVal} {b : Val} (h : bufferV v = .ok b) (hv : OpOK v) :
    GoodB b ∧ ∀ y, IsBool y → b.eval y = SVal.ev y v := by
  cases v with
  | lbl i =>
    simp only [bufferV, bind_ok_iff, pure, Except.pure] at h
    obtain ⟨r, hr, h⟩ := h
    injection h with h; subst h
    refine ⟨⟨by decide, rfl, wf_construct (squash_idem .pubo) hr⟩, fun y hy => ?_⟩
    simp only [Val.eval, SVal.ev]
    rw [eval_construct (sqOK_bool rfl hy) hr]; simp
  | val w =>
    cases w with
    | num c => simp [bufferV] at h
    | raw p =>
      simp only [bufferV] at h
      exact ⟨(Val.cast_sound (famB isBool_zero) ⟨by decide, rfl⟩ h).2,
        fun y hy => (Val.cast_sound (famB hy) ⟨by decide, rfl⟩ h).1⟩
    | mdl κ p =>
      simp only [bufferV] at h
      exact ⟨(Val.pos_sound (famB isBool_zero) hv.1 h).2, fun y hy => (Val.pos_sound (famB hy) hv.1 h).1⟩

theorem notV_sound {v : SVal} {b : Val} (h : notV v = .ok b) (hv : OpOK v) :
    GoodB b ∧ ∀ y, IsBool y → b.eval y = 1 - SVal.ev y v := by
  simp only [notV, bind_ok_iff] at h
  obtain ⟨w, hw, h⟩ := h
  obtain ⟨gw, ew⟩ := bufferV_sound hw hv
  refine ⟨(Val.sub_sound (famB isBool_zero) (a := .num 1) trivial gw h).2, fun y hy => ?_⟩
  rw [(Val.sub_sound (famB hy) (a := .num 1) trivial gw h).1, ew y hy]; rfl

theorem andLoop_sound : ∀ (r : List SVal) {acc v : Val}, GoodB acc → (∀ u ∈ r, OpOK u) →
    andLoop acc r = .ok v → GoodB v ∧ ∀ y, IsBool y → v.eval y = acc.eval y * andR y r := by
  intro r
  induction r with
  | nil =>
    intro acc v ga _ h
    simp only [andLoop] at h
    injection h with h; subst h
    exact ⟨ga, fun y _ => by simp [andR]⟩
  | cons u r ih =>
    intro acc v ga hr h
    simp only [andLoop, bind_ok_iff] at h
    obtain ⟨b, hb, m, hm, h⟩ := h
    obtain ⟨gb, eb⟩ := bufferV_sound hb (hr u List.mem_cons_self)
    have gm := (Val.mul_sound (famB isBool_zero) ga gb hm).2
    obtain ⟨gv, ev⟩ := ih gm (fun w hw => hr w (List.mem_cons_of_mem _ hw)) h
    refine ⟨gv, fun y hy => ?_⟩
    rw [ev y hy, (Val.mul_sound (famB hy) ga gb hm).1, eb y hy]
    simp only [andR]; ring

theorem satOne_sound {v : Val} (h : satOne = .ok v) : GoodB v ∧ ∀ y, IsBool y → v.eval y = 1 := by
  unfold satOne at h
  refine ⟨(Val.add_sound (famB isBool_zero) goodB_pubo_nil (b := .num 1) trivial h).2, fun y hy => ?_⟩
  rw [(Val.add_sound (famB hy) goodB_pubo_nil (b := .num 1) trivial h).1]
  simp [Val.eval]

theorem andV_sound {vs : List SVal} {g : Val} (h : andV vs = .ok g) (hvs : ∀ u ∈ vs, OpOK u) :
    GoodB g ∧ ∀ y, IsBool y → g.eval y = andR y vs := by
  cases vs with
  | nil =>
    simp only [andV] at h
    obtain ⟨gg, eg⟩ := satOne_sound h
    exact ⟨gg, fun y hy => by rw [eg y hy]; rfl⟩
  | cons u r =>
    simp only [andV] at h
    obtain ⟨gg, eg⟩ := andLoop_sound (u :: r) (acc := .num 1) trivial hvs h
    exact ⟨gg, fun y hy => by rw [eg y hy]; simp [Val.eval]⟩

theorem orFold_sound : ∀ (r : List SVal) {acc v : Val}, GoodB acc → (∀ u ∈ r, OpOK u) →
    foldSteps orStep acc r = .ok v → GoodB v ∧ ∀ y, IsBool y → v.eval y = orF y (acc.eval y) r := by
  intro r
  induction r with
  | nil =>
    intro acc v ga _ h
    simp only [foldSteps] at h
    injection h with h; subst h
    exact ⟨ga, fun y _ => rfl⟩
  | cons u r ih =>
    intro acc v ga hr h
    simp only [foldSteps, orStep, bind_ok_iff] at h
    obtain ⟨m, ⟨b, hb, d, hd, t, ht, hm⟩, h⟩ := h
    obtain ⟨gb, eb⟩ := bufferV_sound hb (hr u List.mem_cons_self)
    have gd := (Val.sub_sound (famB isBool_zero) (a := .num 1) trivial ga hd).2
    have gt := (Val.mul_sound (famB isBool_zero) gb gd ht).2
    have gm := (Val.add_sound (famB isBool_zero) ga gt hm).2
    obtain ⟨gv, ev⟩ := ih gm (fun w hw => hr w (List.mem_cons_of_mem _ hw)) h
    refine ⟨gv, fun y hy => ?_⟩
    rw [ev y hy, (Val.add_sound (famB hy) ga gt hm).1, (Val.mul_sound (famB hy) gb gd ht).1,
      (Val.sub_sound (famB hy) (a := .num 1) trivial ga hd).1, eb y hy]
    rfl

theorem xorFold_sound : ∀ (r : List SVal) {acc v : Val}, GoodB acc → (∀ u ∈ r, OpOK u) →
    foldSteps xorStep acc r = .ok v → GoodB v ∧ ∀ y, IsBool y → v.eval y = xorF y (acc.eval y) r := by
  intro r
  induction r with
  | nil =>
    intro acc v ga _ h
    simp only [foldSteps] at h
    injection h with h; subst h
    exact ⟨ga, fun y _ => rfl⟩
  | cons u r ih =>
    intro acc v ga hr h
    simp only [foldSteps, xorStep, bind_ok_iff] at h
    obtain ⟨m, ⟨b, hb, d, hd, hm⟩, h⟩ := h
    obtain ⟨gb, eb⟩ := bufferV_sound hb (hr u List.mem_cons_self)
    have gd := (Val.sub_sound (famB isBool_zero) ga gb hd).2
    have gm := (Val.pow_sound (famB isBool_zero) gd hm).2.2
    obtain ⟨gv, ev⟩ := ih gm (fun w hw => hr w (List.mem_cons_of_mem _ hw)) h
    refine ⟨gv, fun y hy => ?_⟩
    rw [ev y hy, (Val.pow_sound (famB hy) gd hm).2.1, (Val.sub_sound (famB hy) ga gb hd).1, eb y hy]
    rfl

theorem orV_sound {vs : List SVal} {g : Val} (h : orV vs = .ok g) (hvs : ∀ u ∈ vs, OpOK u) :
    GoodB g ∧ ∀ y, IsBool y → g.eval y = orG y vs := by
  cases vs with
  | nil =>
    simp only [orV] at h
    obtain ⟨gg, eg⟩ := satOne_sound h
    exact ⟨gg, fun y hy => by rw [eg y hy]; rfl⟩
  | cons u r =>
    simp only [orV, bind_ok_iff] at h
    obtain ⟨b, hb, h⟩ := h
    obtain ⟨gb, eb⟩ := bufferV_sound hb (hvs u List.mem_cons_self)
    obtain ⟨gg, eg⟩ := orFold_sound r gb (fun w hw => hvs w (List.mem_cons_of_mem _ hw)) h
    exact ⟨gg, fun y hy => by rw [eg y hy, eb y hy]; rfl⟩

theorem xorV_sound {vs : List SVal} {g : Val} (h : xorV vs = .ok g) (hvs : ∀ u ∈ vs, OpOK u) :
    GoodB g ∧ ∀ y, IsBool y → g.eval y = xorG y vs := by
  cases vs with
  | nil =>
    simp only [xorV] at h
    obtain ⟨gg, eg⟩ := satOne_sound h
    exact ⟨gg, fun y hy => by rw [eg y hy]; rfl⟩
  | cons u r =>
    simp only [xorV, bind_ok_iff] at h
    obtain ⟨b, hb, h⟩ := h
    obtain ⟨gb, eb⟩ := bufferV_sound hb (hvs u List.mem_cons_self)
    obtain ⟨gg, eg⟩ := xorFold_sound r gb (fun w hw => hvs w (List.mem_cons_of_mem _ hw)) h
    exact ⟨gg, fun y hy => by rw [eg y hy, eb y hy]; rfl⟩

end Qv.Logic
