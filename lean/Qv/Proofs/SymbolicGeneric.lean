import Qv.Model.Symbolic
import Qv.Proofs.Basic
import Qv.Proofs.Canon
import Mathlib.Tactic.Ring
import Mathlib.Tactic.Linarith
import Mathlib.Algebra.Order.Ring.Rat
/-!
# C16: the coefficient-generic dict layer (`getR/setR`, `iaddR`, `scaleR`, `subsR`) under a coefficient
homomorphism `φ : R → ℚ` (for `R = RatPoly`: evaluation of the symbol at `c`; for `R = ℚ`: the identity)

The one lemma everything rests on (`phi_get_symAdd`): for a dict `S` with distinct keys and a canonical numeric
`G`, `φ (S + w • G)[k] = φ S[k] + φ w * G[k]` at *every* key `k` — `φ` is additive and multiplicative on
coefficients and commutes with `iadd` / `scale` up to the zero coefficients that `__setitem__` drops; and
`subsR φ` reads `φ` of every coefficient (`get_subsR`).
-/
namespace Qv.Sym
open Qv
set_option linter.unusedSectionVars false

section generic
variable {R : Type} [Coef R]

/-- a map of coefficients into `ℚ` that respects the operations the dict layer uses -/
structure Hom (φ : R → Rat) : Prop where
  zero : φ Coef.zero = 0
  add : ∀ a b, φ (Coef.add a b) = φ a + φ b
  mul : ∀ a b, φ (Coef.mul a b) = φ a * φ b
  isZero : ∀ a, Coef.isZero a = true → φ a = 0
  ofRat : ∀ r, φ (Coef.ofRat r) = r

def keysR (p : PolyR R) : List Key := p.map Prod.fst

@[simp] theorem keysR_nil : keysR ([] : PolyR R) = [] := rfl
@[simp] theorem keysR_cons (k : Key) (v : R) (p : PolyR R) : keysR ((k, v) :: p) = k :: keysR p := rfl

theorem getR_of_not_mem (p : PolyR R) {k : Key} (h : k ∉ keysR p) : getR p k = Coef.zero := by
  induction p with
  | nil => rfl
  | cons kv r ih =>
    obtain ⟨k', v⟩ := kv
    simp only [keysR_cons, List.mem_cons, not_or] at h
    simp only [getR]
    rw [if_neg (fun e => h.1 e.symm)]
    exact ih h.2

theorem getR_eraseR_ne (p : PolyR R) {k k2 : Key} (h : k2 ≠ k) : getR (eraseR p k) k2 = getR p k2 := by
  induction p with
  | nil => rfl
  | cons kv r ih =>
    obtain ⟨k', v⟩ := kv
    simp only [eraseR]
    split
    · rename_i e; subst e
      simp only [getR]; rw [if_neg (fun e => h e.symm)]
    · simp only [getR]; rw [ih]

theorem mem_keysR_eraseR (p : PolyR R) {k k2 : Key} (h : k2 ∈ keysR (eraseR p k)) : k2 ∈ keysR p := by
  induction p with
  | nil => exact h
  | cons kv r ih =>
    obtain ⟨k', v⟩ := kv
    simp only [eraseR] at h
    split at h
    · exact List.mem_cons_of_mem _ h
    · simp only [keysR_cons, List.mem_cons] at h ⊢
      rcases h with h | h
      · exact Or.inl h
      · exact Or.inr (ih h)

theorem nodup_eraseR (p : PolyR R) (k : Key) (h : (keysR p).Nodup) : (keysR (eraseR p k)).Nodup := by
  induction p with
  | nil => exact h
  | cons kv r ih =>
    obtain ⟨k', v⟩ := kv
    simp only [keysR_cons, List.nodup_cons] at h
    simp only [eraseR]
    split
    · exact h.2
    · simp only [keysR_cons, List.nodup_cons]
      exact ⟨fun hm => h.1 (mem_keysR_eraseR r hm), ih h.2⟩

theorem getR_eraseR_eq (p : PolyR R) (k : Key) (h : (keysR p).Nodup) : getR (eraseR p k) k = Coef.zero := by
  induction p with
  | nil => rfl
  | cons kv r ih =>
    obtain ⟨k', v⟩ := kv
    simp only [keysR_cons, List.nodup_cons] at h
    simp only [eraseR]
    split
    · rename_i e; subst e; exact getR_of_not_mem r h.1
    · rename_i e
      simp only [getR]; rw [if_neg e]; exact ih h.2

theorem getR_putR_ne (p : PolyR R) {k k2 : Key} (v : R) (h : k2 ≠ k) : getR (putR p k v) k2 = getR p k2 := by
  induction p with
  | nil => simp only [putR, getR]; rw [if_neg (fun e => h e.symm)]
  | cons kv r ih =>
    obtain ⟨k', v'⟩ := kv
    simp only [putR]
    split
    · rename_i e; subst e
      simp only [getR]; rw [if_neg (fun e => h e.symm), if_neg (fun e => h e.symm)]
    · simp only [getR]; rw [ih]

theorem getR_putR_eq (p : PolyR R) (k : Key) (v : R) : getR (putR p k v) k = v := by
  induction p with
  | nil => simp [putR, getR]
  | cons kv r ih =>
    obtain ⟨k', v'⟩ := kv
    simp only [putR]
    split
    · simp [getR]
    · rename_i e; simp only [getR]; rw [if_neg e]; exact ih

theorem mem_keysR_putR (p : PolyR R) {k k2 : Key} (v : R) (h : k2 ∈ keysR (putR p k v)) : k2 = k ∨ k2 ∈ keysR p := by
  induction p with
  | nil => simp only [putR, keysR_cons, keysR_nil, List.mem_cons, List.not_mem_nil, or_false] at h; exact Or.inl h
  | cons kv r ih =>
    obtain ⟨k', v'⟩ := kv
    simp only [putR] at h
    split at h
    · rename_i e
      simp only [keysR_cons, List.mem_cons] at h ⊢
      rcases h with h | h
      · exact Or.inl h
      · exact Or.inr (Or.inr h)
    · simp only [keysR_cons, List.mem_cons] at h ⊢
      rcases h with h | h
      · exact Or.inr (Or.inl h)
      · rcases ih h with h | h
        · exact Or.inl h
        · exact Or.inr (Or.inr h)

theorem nodup_putR (p : PolyR R) (k : Key) (v : R) (h : (keysR p).Nodup) : (keysR (putR p k v)).Nodup := by
  induction p with
  | nil => simp [putR]
  | cons kv r ih =>
    obtain ⟨k', v'⟩ := kv
    simp only [keysR_cons, List.nodup_cons] at h
    simp only [putR]
    split
    · rename_i e; subst e
      simp only [keysR_cons, List.nodup_cons]; exact h
    · rename_i e
      simp only [keysR_cons, List.nodup_cons]
      refine ⟨fun hm => ?_, ih h.2⟩
      rcases mem_keysR_putR r v hm with h' | h'
      · exact e h'
      · exact h.1 h'

theorem nodup_setR (p : PolyR R) (k : Key) (v : R) (h : (keysR p).Nodup) : (keysR (setR p k v)).Nodup := by
  unfold setR; split
  · exact nodup_eraseR p k h
  · exact nodup_putR p k v h

theorem mem_keysR_setR (p : PolyR R) {k k2 : Key} (v : R) (h : k2 ∈ keysR (setR p k v)) : k2 = k ∨ k2 ∈ keysR p := by
  unfold setR at h; split at h
  · exact Or.inr (mem_keysR_eraseR p h)
  · exact mem_keysR_putR p v h

variable {φ : R → Rat}

/-- `__setitem__` read back through `φ` (a dropped zero reads as `φ 0 = 0 = φ v`) -/
theorem phi_get_setR (hφ : Hom φ) (p : PolyR R) (k k2 : Key) (v : R) (h : (keysR p).Nodup) :
    φ (getR (setR p k v) k2) = if k2 = k then φ v else φ (getR p k2) := by
  unfold setR
  by_cases e : k2 = k
  · subst e
    rw [if_pos rfl]
    split
    · rename_i hz
      rw [getR_eraseR_eq p k2 h, hφ.zero, hφ.isZero v hz]
    · rw [getR_putR_eq]
  · rw [if_neg e]
    split
    · rw [getR_eraseR_ne p e]
    · rw [getR_putR_ne p v e]

theorem phi_get_addTermR (hφ : Hom φ) (sq : Key → Key) (p : PolyR R) (k k2 : Key) (v : R) (h : (keysR p).Nodup) :
    φ (getR (addTermR sq p k v) k2) = φ (getR p k2) + if sq k = k2 then φ v else 0 := by
  unfold addTermR
  simp only []
  rw [phi_get_setR hφ p (sq k) k2 _ h]
  by_cases e : k2 = sq k
  · subst e; rw [if_pos rfl, if_pos rfl, hφ.add]
  · rw [if_neg e, if_neg (fun e' => e e'.symm)]; ring

theorem nodup_addTermR (sq : Key → Key) (p : PolyR R) (k : Key) (v : R) (h : (keysR p).Nodup) :
    (keysR (addTermR sq p k v)).Nodup := nodup_setR p _ _ h

/-- the sum of `φ` of the coefficients that `iadd` adds at the key `k2` -/
def csumR (φ : R → Rat) (sq : Key → Key) (q : PolyR R) (k2 : Key) : Rat :=
  match q with
  | [] => 0
  | (k, v) :: r => (if sq k = k2 then φ v else 0) + csumR φ sq r k2

theorem nodup_iaddR (sq : Key → Key) (q p : PolyR R) (h : (keysR p).Nodup) : (keysR (iaddR sq p q)).Nodup := by
  unfold iaddR
  induction q generalizing p with
  | nil => exact h
  | cons kv r ih => exact ih _ (nodup_addTermR sq p kv.1 kv.2 h)

/-- `φ` is additive over `iadd`, coefficientwise -/
theorem phi_get_iaddR (hφ : Hom φ) (sq : Key → Key) (q p : PolyR R) (k2 : Key) (h : (keysR p).Nodup) :
    φ (getR (iaddR sq p q) k2) = φ (getR p k2) + csumR φ sq q k2 := by
  unfold iaddR
  induction q generalizing p with
  | nil => simp [csumR]
  | cons kv r ih =>
    obtain ⟨k, v⟩ := kv
    simp only [List.foldl_cons, csumR]
    rw [ih _ (nodup_addTermR sq p k v h), phi_get_addTermR hφ sq p k k2 v h]; ring

theorem nodup_scaleFold (sq : Key → Key) (c : R) (q acc : PolyR R) (h : (keysR acc).Nodup) :
    (keysR (q.foldl (fun acc kv => addTermR sq acc kv.1 (Coef.mul c kv.2)) acc)).Nodup := by
  induction q generalizing acc with
  | nil => exact h
  | cons kv r ih => exact ih _ (nodup_addTermR sq acc kv.1 _ h)

theorem nodup_scaleR (sq : Key → Key) (c : R) (q : PolyR R) : (keysR (scaleR sq c q)).Nodup :=
  nodup_scaleFold sq c q [] List.nodup_nil

theorem phi_get_scaleFold (hφ : Hom φ) (sq : Key → Key) (c : R) (q acc : PolyR R) (k2 : Key) (h : (keysR acc).Nodup) :
    φ (getR (q.foldl (fun acc kv => addTermR sq acc kv.1 (Coef.mul c kv.2)) acc) k2)
      = φ (getR acc k2) + φ c * csumR φ sq q k2 := by
  induction q generalizing acc with
  | nil => simp [csumR]
  | cons kv r ih =>
    obtain ⟨k, v⟩ := kv
    simp only [List.foldl_cons, csumR]
    rw [ih _ (nodup_addTermR sq acc k _ h), phi_get_addTermR hφ sq acc k k2 _ h, hφ.mul]
    split <;> ring

/-- `φ` is multiplicative over `scale`, coefficientwise -/
theorem phi_get_scaleR (hφ : Hom φ) (sq : Key → Key) (c : R) (q : PolyR R) (k2 : Key) :
    φ (getR (scaleR sq c q) k2) = φ c * csumR φ sq q k2 := by
  unfold scaleR
  rw [phi_get_scaleFold hφ sq c q [] k2 List.nodup_nil]
  simp [getR, hφ.zero]

/-! ### keys in the image of the squashing function -/

def SqKeys (sq : Key → Key) (p : PolyR R) : Prop := ∀ k ∈ keysR p, sq k = k

theorem sqKeys_nil (sq : Key → Key) : SqKeys sq ([] : PolyR R) := by intro k h; cases h

theorem sqKeys_addTermR {sq : Key → Key} (hsq : ∀ k, sq (sq k) = sq k) {p : PolyR R} (k : Key) (v : R)
    (h : SqKeys sq p) : SqKeys sq (addTermR sq p k v) := by
  intro k2 hk2
  rcases mem_keysR_setR p _ hk2 with e | e
  · rw [e]; exact hsq k
  · exact h k2 e

theorem sqKeys_iaddR {sq : Key → Key} (hsq : ∀ k, sq (sq k) = sq k) (q : PolyR R) {p : PolyR R}
    (h : SqKeys sq p) : SqKeys sq (iaddR sq p q) := by
  unfold iaddR
  induction q generalizing p with
  | nil => exact h
  | cons kv r ih => exact ih (sqKeys_addTermR hsq kv.1 kv.2 h)

theorem sqKeys_scaleFold {sq : Key → Key} (hsq : ∀ k, sq (sq k) = sq k) (c : R) (q : PolyR R) {acc : PolyR R}
    (h : SqKeys sq acc) : SqKeys sq (q.foldl (fun acc kv => addTermR sq acc kv.1 (Coef.mul c kv.2)) acc) := by
  induction q generalizing acc with
  | nil => exact h
  | cons kv r ih => exact ih (sqKeys_addTermR hsq kv.1 _ h)

theorem sqKeys_scaleR {sq : Key → Key} (hsq : ∀ k, sq (sq k) = sq k) (c : R) (q : PolyR R) :
    SqKeys sq (scaleR sq c q) := sqKeys_scaleFold hsq c q (sqKeys_nil sq)

theorem csumR_not_mem (φ : R → Rat) {sq : Key → Key} {q : PolyR R} (hq : SqKeys sq q) {k : Key}
    (h : k ∉ keysR q) : csumR φ sq q k = 0 := by
  induction q with
  | nil => rfl
  | cons kv r ih =>
    obtain ⟨k', v⟩ := kv
    simp only [keysR_cons, List.mem_cons, not_or] at h
    simp only [csumR]
    have e : sq k' = k' := hq k' (by simp)
    rw [e, if_neg (fun e' => h.1 e'.symm), ih (fun k2 hk2 => hq k2 (List.mem_cons_of_mem _ hk2)) h.2]; ring

/-- for a stored dict (distinct, squashed keys) the sum `iadd` adds at a key is the stored coefficient -/
theorem csumR_canon (hφ : Hom φ) {sq : Key → Key} {q : PolyR R} (hn : (keysR q).Nodup) (hq : SqKeys sq q) (k : Key) :
    csumR φ sq q k = φ (getR q k) := by
  induction q with
  | nil => simp [csumR, getR, hφ.zero]
  | cons kv r ih =>
    obtain ⟨k', v⟩ := kv
    simp only [keysR_cons, List.nodup_cons] at hn
    have hq' : SqKeys sq r := fun k2 hk2 => hq k2 (List.mem_cons_of_mem _ hk2)
    have e : sq k' = k' := hq k' (by simp)
    simp only [csumR, getR, e]
    by_cases ek : k' = k
    · subst ek
      rw [if_pos rfl, if_pos rfl, csumR_not_mem φ hq' hn.1]; ring
    · rw [if_neg ek, if_neg ek, ih hn.2 hq']; ring

/-! ### `lift` -/

theorem keysR_lift (G : Poly) : keysR (lift (R := R) G) = keys G := by
  unfold keysR lift keys; rw [List.map_map]; rfl

theorem phi_get_lift (hφ : Hom φ) (G : Poly) (k : Key) : φ (getR (lift (R := R) G) k) = get G k := by
  induction G with
  | nil => simp [lift, getR, get, hφ.zero]
  | cons kv r ih =>
    obtain ⟨k', v⟩ := kv
    have : lift (R := R) ((k', v) :: r) = (k', Coef.ofRat v) :: lift r := rfl
    rw [this]
    simp only [getR, get]
    split
    · exact hφ.ofRat v
    · exact ih

/-- a numeric dict as `PUBO(...)`/`PUSO(...)` stores it: distinct keys, each fixed by the squashing function -/
structure CanonP (sq : Key → Key) (G : Poly) : Prop where
  nodup : (keys G).Nodup
  sq : ∀ k ∈ keys G, sq k = k

theorem csumR_lift (hφ : Hom φ) {sq : Key → Key} {G : Poly} (hG : CanonP sq G) (k : Key) :
    csumR φ sq (lift (R := R) G) k = get G k := by
  rw [csumR_canon hφ (by rw [keysR_lift]; exact hG.nodup) (by intro k hk; rw [keysR_lift] at hk; exact hG.sq k hk),
    phi_get_lift hφ]

/-! ### the generic-layer lemma -/

theorem nodup_symAdd (sq : Key → Key) (S : PolyR R) (w : R) (G : Poly) (h : (keysR S).Nodup) :
    (keysR (symAdd sq S w G)).Nodup := nodup_iaddR sq _ S h

/-- **Generic-layer lemma.**  Coefficientwise, `φ (S + w • G) = φ S + φ w * G`. -/
theorem phi_get_symAdd (hφ : Hom φ) {sq : Key → Key} (hsq : ∀ k, sq (sq k) = sq k) (S : PolyR R) (w : R)
    {G : Poly} (hG : CanonP sq G) (hS : (keysR S).Nodup) (k : Key) :
    φ (getR (symAdd sq S w G) k) = φ (getR S k) + φ w * get G k := by
  unfold symAdd
  rw [phi_get_iaddR hφ sq _ S k hS, csumR_canon hφ (nodup_scaleR sq w _) (sqKeys_scaleR hsq w _),
    phi_get_scaleR hφ, csumR_lift hφ hG]

/-! ### `subs` -/

theorem get_of_not_mem (p : Poly) {k : Key} (h : k ∉ keys p) : get p k = 0 := by
  induction p with
  | nil => rfl
  | cons kv r ih =>
    obtain ⟨k', v⟩ := kv
    have h' : k ≠ k' ∧ k ∉ keys r := by simpa [keys] using h
    simp only [get]
    rw [if_neg (fun e => h'.1 e.symm)]
    exact ih h'.2

theorem get_erase_eq (p : Poly) (k : Key) (h : (keys p).Nodup) : get (erase p k) k = 0 := by
  induction p with
  | nil => rfl
  | cons kv r ih =>
    obtain ⟨k', v⟩ := kv
    have hn : k' ∉ keys r ∧ (keys r).Nodup := by simpa [keys] using h
    simp only [erase]
    split
    · rename_i e; subst e; exact get_of_not_mem r hn.1
    · rename_i e
      simp only [get]; rw [if_neg e]; exact ih hn.2

theorem get_set_eq (p : Poly) (k : Key) (v : Rat) (h : (keys p).Nodup) : get (set p k v) k = v := by
  unfold set; split
  · rename_i hv; rw [get_erase_eq p k h, hv]
  · exact get_put_eq p k v

theorem nodup_set (p : Poly) (k : Key) (v : Rat) (h : (keys p).Nodup) : (keys (set p k v)).Nodup := by
  unfold set; split
  · exact nodup_erase p k h
  · exact nodup_put p k v h

theorem get_subsFold (φ : R → Rat) (p : PolyR R) (d : Poly) (k : Key) (hp : (keysR p).Nodup) (hd : (keys d).Nodup) :
    get (p.foldl (fun d kv => set d kv.1 (φ kv.2)) d) k = if k ∈ keysR p then φ (getR p k) else get d k := by
  induction p generalizing d with
  | nil => simp
  | cons kv r ih =>
    obtain ⟨k', v⟩ := kv
    simp only [keysR_cons, List.nodup_cons] at hp
    simp only [List.foldl_cons]
    rw [ih _ hp.2 (nodup_set d k' (φ v) hd)]
    by_cases e : k = k'
    · subst e
      rw [if_neg hp.1, get_set_eq d k _ hd, if_pos (show k ∈ keysR ((k, v) :: r) from List.mem_cons_self)]
      simp [getR]
    · have hm : (k ∈ keysR ((k', v) :: r)) ↔ k ∈ keysR r := by simp [e]
      have hg : getR ((k', v) :: r) k = getR r k := by simp only [getR]; rw [if_neg (fun e' => e e'.symm)]
      rw [get_set_ne d _ e, hg]
      by_cases hk : k ∈ keysR r
      · rw [if_pos hk, if_pos (hm.2 hk)]
      · rw [if_neg hk, if_neg (fun h => hk (hm.1 h))]

theorem nodup_subsFold (φ : R → Rat) (p : PolyR R) (d : Poly) (hd : (keys d).Nodup) :
    (keys (p.foldl (fun d kv => set d kv.1 (φ kv.2)) d)).Nodup := by
  induction p generalizing d with
  | nil => exact hd
  | cons kv r ih => exact ih _ (nodup_set d _ _ hd)

theorem nodup_subsR (φ : R → Rat) (p : PolyR R) : (keys (subsR φ p)).Nodup :=
  nodup_subsFold φ p [] (by simp [keys])

/-- **`subs` reads `φ` of every coefficient** (and stores no zero: it goes through `__setitem__`) -/
theorem get_subsR (hφ : Hom φ) (p : PolyR R) (k : Key) (hp : (keysR p).Nodup) :
    get (subsR φ p) k = φ (getR p k) := by
  unfold subsR
  rw [get_subsFold φ p [] k hp (by simp [keys])]
  split
  · rfl
  · rename_i h; rw [getR_of_not_mem p h, hφ.zero]; rfl

theorem mem_set_ne_zero {p : Poly} (hp : ∀ kv ∈ p, kv.2 ≠ 0) (k : Key) (v : Rat) : ∀ kv ∈ set p k v, kv.2 ≠ 0 := by
  intro kv hkv
  unfold set at hkv
  split at hkv
  · exact hp kv (mem_erase_sub p k kv hkv)
  · rename_i hv
    rcases mem_put p k v kv hkv with h | h
    · rw [h]; exact hv
    · exact hp kv h

/-- `subs` never stores a zero coefficient (a coefficient such as `2λ - 2` at `c = 1` is dropped) -/
theorem subsR_no_zero (φ : R → Rat) (p : PolyR R) : ∀ kv ∈ subsR φ p, kv.2 ≠ 0 := by
  unfold subsR
  suffices H : ∀ d : Poly, (∀ kv ∈ d, kv.2 ≠ 0) → ∀ kv ∈ p.foldl (fun d kv => set d kv.1 (φ kv.2)) d, kv.2 ≠ 0 from
    H [] (by intro kv h; cases h)
  induction p with
  | nil => intro d hd; exact hd
  | cons kv r ih => intro d hd; exact ih _ (mem_set_ne_zero hd _ _)

end generic

/-! ## the two instances -/

theorem hom_id : Hom (R := Rat) (fun r => r) :=
  ⟨rfl, fun _ _ => rfl, fun _ _ => rfl, fun a h => by
    have : decide (a = 0) = true := h
    exact of_decide_eq_true this, fun _ => rfl⟩

theorem evalL_normL (c : Rat) (l : List Rat) : evalL c (normL l) = evalL c l := by
  induction l with
  | nil => rfl
  | cons a r ih =>
    simp only [normL]
    split
    · rename_i h
      simp only [Bool.and_eq_true, List.isEmpty_iff, decide_eq_true_eq] at h
      rw [h.1] at ih
      simp only [evalL] at ih ⊢
      rw [← ih, h.2]; ring
    · simp only [evalL, ih]

theorem evalL_addL (c : Rat) (a b : List Rat) : evalL c (addL a b) = evalL c a + evalL c b := by
  induction a generalizing b with
  | nil => simp [addL, evalL]
  | cons x xs ih =>
    cases b with
    | nil => simp [addL, evalL]
    | cons y ys => simp only [addL, evalL, ih]; ring

theorem evalL_scaleL (c k : Rat) (l : List Rat) : evalL c (scaleL k l) = k * evalL c l := by
  induction l with
  | nil => simp [scaleL, evalL]
  | cons a r ih =>
    have : scaleL k (a :: r) = (k * a) :: scaleL k r := rfl
    rw [this]; simp only [evalL, ih]; ring

theorem evalL_mulL (c : Rat) (a b : List Rat) : evalL c (mulL a b) = evalL c a * evalL c b := by
  induction a with
  | nil => simp [mulL, evalL]
  | cons x xs ih =>
    simp only [mulL, evalL_addL, evalL_scaleL, evalL, ih]; ring

/-- evaluation of the symbol at `c` is a ring homomorphism `ℚ[λ] → ℚ` on the normalised representation -/
theorem hom_evalAt (c : Rat) : Hom (RatPoly.evalAt c) := by
  refine ⟨rfl, fun a b => ?_, fun a b => ?_, fun a h => ?_, fun r => ?_⟩
  · show evalL c (normL (addL a.c b.c)) = _
    rw [evalL_normL, evalL_addL]; rfl
  · show evalL c (normL (mulL a.c b.c)) = _
    rw [evalL_normL, evalL_mulL]; rfl
  · have h' : (normL a.c).isEmpty = true := h
    have : normL a.c = [] := List.isEmpty_iff.1 h'
    show evalL c a.c = 0
    rw [← evalL_normL, this]; rfl
  · show evalL c (normL [r]) = r
    rw [evalL_normL]; simp [evalL]

theorem evalAt_X (c : Rat) : RatPoly.evalAt c RatPoly.X = c := by
  simp [RatPoly.evalAt, RatPoly.X, evalL]

/-! ## the `Rat` instance of the generic layer *is* the rational dict layer of `Qv.Model.BoolArith` -/

theorem getR_rat (p : Poly) (k : Key) : getR (R := Rat) p k = get p k := by
  induction p with
  | nil => rfl
  | cons kv r ih => obtain ⟨k', v⟩ := kv; simp only [getR, get, ih]

theorem eraseR_rat (p : Poly) (k : Key) : eraseR (R := Rat) p k = erase p k := by
  induction p with
  | nil => rfl
  | cons kv r ih => obtain ⟨k', v⟩ := kv; simp only [eraseR, erase, ih]

theorem putR_rat (p : Poly) (k : Key) (v : Rat) : putR (R := Rat) p k v = put p k v := by
  induction p with
  | nil => rfl
  | cons kv r ih => obtain ⟨k', v'⟩ := kv; simp only [putR, put, ih]

theorem setR_rat (p : Poly) (k : Key) (v : Rat) : setR (R := Rat) p k v = set p k v := by
  unfold setR set
  rw [eraseR_rat, putR_rat]
  by_cases h : v = 0
  · rw [if_pos h, if_pos (by show decide (v = 0) = true; exact decide_eq_true h)]
  · rw [if_neg h, if_neg (by show ¬ decide (v = 0) = true; simpa using h)]

theorem addTermR_rat (p : Poly) (k : Key) (v : Rat) : addTermR (R := Rat) squashB p k v = addTermB p k v := by
  unfold addTermR addTermB
  simp only []
  rw [setR_rat, getR_rat]; rfl

theorem iaddR_rat (p q : Poly) : iaddR (R := Rat) squashB p q = iaddB p q := by
  unfold iaddR iaddB
  induction q generalizing p with
  | nil => rfl
  | cons kv r ih => simp only [List.foldl_cons, addTermR_rat, ih]

theorem scaleR_rat (c : Rat) (q : Poly) : scaleR (R := Rat) squashB c q = scaleB c q := by
  unfold scaleR scaleB
  simp only [addTermR_rat]
  rfl

theorem keysR_rat (p : Poly) : keysR (R := Rat) p = keys p := rfl

/-- the coefficient `iaddB` adds at the key `k`: the sum over the raw keys that squash to `k` -/
def csum (q : Poly) (k : Key) : Rat := csumR (R := Rat) (fun r => r) squashB q k

theorem csum_nil (k : Key) : csum [] k = 0 := rfl
theorem csum_cons (k' : Key) (v : Rat) (r : Poly) (k : Key) :
    csum ((k', v) :: r) k = (if squashB k' = k then v else 0) + csum r k := rfl

theorem get_iaddB (p q : Poly) (k : Key) (h : (keys p).Nodup) : get (iaddB p q) k = get p k + csum q k := by
  have := phi_get_iaddR hom_id squashB q p k (by rw [keysR_rat]; exact h)
  rw [iaddR_rat, getR_rat, getR_rat] at this
  exact this

theorem nodup_iaddB (p q : Poly) (h : (keys p).Nodup) : (keys (iaddB p q)).Nodup := by
  have := nodup_iaddR (R := Rat) squashB q p (by rw [keysR_rat]; exact h)
  rw [iaddR_rat, keysR_rat] at this
  exact this

theorem squashB_idem (k : Key) : squashB (squashB k) = squashB k := squashB_of_sorted (squashB_sorted k)
theorem squashS_idem (k : Key) : squashS (squashS k) = squashS k := squashS_of_sorted (squashS_sorted k)

end Qv.Sym
