import Qv.Proofs.ProblemsRest
import Qv.Proofs.LogicEqZero
import Qv.Proofs.Extrema
/-!
# GraphPartitioning: the balance penalty `PCSO().add_constraint_eq_zero({(i,): 1 …}, lam=A)` is `A (Σ z_i)^2`
-/
namespace Qv.Prob
open Qv Qv.Logic

/-- a PUBO that is positive at the all-zeros point and negative at the all-ones point goes through the squaring
branch of `add_constraint_eq_zero` (the shortcut needs value 0 at all-zeros; the computed bounds enclose both
values) -/
theorem addEqZero_square {P : Poly} {lam : Rat} (hnz : ∀ kv ∈ P, kv.2 ≠ 0) (hl : lam ≠ 0)
    (h0 : 0 < eval (fun _ => (0 : Rat)) P) (h1 : eval (fun _ => (1 : Rat)) P < 0)
    {x : Var → Rat} (hx : IsBool x) :
    eval x (addEqZero {} P lam (none, none) false).terms = lam * (eval x P) ^ 2 := by
  unfold addEqZero
  simp only [hl, if_false]
  split
  · rename_i s' hs
    exfalso
    obtain ⟨a, b, c, v, _, _, _, hP, _⟩ := specialEq_some hnz hs
    rw [hP] at h0
    simp at h0
  · have e0 := puboExtrema_encloses (x := fun _ => (0 : Rat)) (fun _ => Or.inl rfl) P
    have e1 := puboExtrema_encloses (x := fun _ => (1 : Rat)) (fun _ => Or.inr rfl) P
    have hlo : (puboExtrema P).1 < 0 := by linarith [e1.1]
    have hhi : 0 < (puboExtrema P).2 := by linarith [e0.2]
    have hb : getBounds P (none, none) = ((puboExtrema P).1, (puboExtrema P).2) := by simp [getBounds]
    rw [hb]
    have c1 : ¬ ((puboExtrema P).1 = 0) := ne_of_lt hlo
    have c2 : ¬ ((puboExtrema P).1 > 0) := not_lt.mpr (le_of_lt hlo)
    have c3 : ¬ ((puboExtrema P).2 < 0) := not_lt.mpr (le_of_lt hhi)
    have c4 : ¬ ((puboExtrema P).2 = 0) := ne_of_gt hhi
    simp only [c1, c2, c3, c4, false_and, if_false, tag_terms, plus_terms, append_terms,
      eval_iaddB hx, eval_mulB hx, eval_scaleB hx, eval_nil]
    ring

theorem sumTo_const (c : Rat) (n : Nat) : sumTo (fun _ => c) n = (n : Rat) * c := by
  induction n with
  | zero => simp [sumTo]
  | succ n ih => simp only [sumTo, ih]; push_cast; ring

/-- **the balance penalty.**  For every `N`, every `lam` and every spin assignment the terms the fresh PCSO ends with
evaluate to `lam (Σ_{i<N} z_i)^2`. -/
theorem pcso_eqZero_linear (N : Nat) (lam : Rat) (pen : Poly)
    (h : pcsoEqZeroTerms ((List.range N).map (fun i => ([i], (1 : Rat)))) lam = .ok pen)
    (z : Var → Rat) (hz : IsSpin z) : eval z pen = lam * (sumTo z N) ^ 2 := by
  simp only [pcsoEqZeroTerms, bind_ok_iff] at h
  obtain ⟨Hs, hHs, h⟩ := h
  by_cases hl : lam = 0
  · simp only [hl, if_true, pure, Except.pure] at h
    cases h; simp [hl]
  simp only [hl, if_false, bind_ok_iff, pure, Except.pure] at h
  obtain ⟨P, hP, P', hP', T, hT, hpen⟩ := h
  have eHs : ∀ w, IsSpin w → eval w Hs = sumTo w N := fun w hw => by
    rw [eval_construct (sqOK_spin (κ := .puso) rfl hw) hHs, eval_range_lin]; ring
  have eP' : ∀ x, IsBool x → eval x P' = sumTo (b2s x) N := fun x hx => by
    rw [eval_construct (sqOK_bool (κ := .pubo) rfl hx) hP', eval_pusoToPubo hx hP, eHs _ (isSpin_b2s hx)]
  have eT := eval_puboToPuso hz hT
  have epen := eval_iaddD (sqOK_spin (κ := .pcso) rfl hz) hpen
  have hsb : IsBool (s2b z) := isBool_s2b hz
  rcases Nat.eq_zero_or_pos N with hN | hN
  · -- no vertex: `P'` is the zero polynomial on booleans, the constraint adds nothing
    subst hN
    simp only [List.range_zero, List.map_nil] at hHs
    have : Hs = [] := by simpa [construct, iaddD] using hHs.symm
    subst this
    have : P = [] := by simpa [pusoToPubo, convLoop] using hP.symm
    subst this
    have : P' = [] := by simpa [construct, iaddD] using hP'.symm
    subst this
    have hterms : (addEqZero {} [] lam (none, none) false).terms = [] := by
      simp [addEqZero, hl, specialEq, getBounds, puboExtrema, St.append, St.warn, St.tag]
    rw [hterms] at hT
    have : T = [] := by simpa [puboToPuso, convLoop] using hT.symm
    subst this
    rw [epen]; simp [sumTo]
  · have hnz : ∀ kv ∈ P', kv.2 ≠ 0 := (wf_construct (squash_idem .pubo) hP').nonzero
    have hzero : b2s (fun _ => (0 : Rat)) = fun _ => (1 : Rat) := by funext i; simp [b2s]
    have hone : b2s (fun _ => (1 : Rat)) = fun _ => (-1 : Rat) := by funext i; simp [b2s]; norm_num
    have hNpos : (0 : Rat) < (N : Rat) := by exact_mod_cast hN
    have h0 : 0 < eval (fun _ => (0 : Rat)) P' := by
      rw [eP' _ (fun _ => Or.inl rfl), hzero, sumTo_const]; linarith
    have h1 : eval (fun _ => (1 : Rat)) P' < 0 := by
      rw [eP' _ (fun _ => Or.inr rfl), hone, sumTo_const]; linarith
    rw [epen, eT, addEqZero_square hnz hl h0 h1 hsb, eP' _ hsb, b2s_s2b]
    simp

/-- the weight `A` actually used by `GraphPartitioning.to_quso`: the argument, or `min(2·degree, N)·B/8` -/
def GP.weightA (p : GP) (A : Option Rat) (B : Rat) : Rat :=
  match A with | some a => a | none => ((min (2 * p.degree) p.numVars : Nat) : Rat) * B / 8

/-- **T10.1 (GraphPartitioning).** -/
theorem gp_toQuso_eval (p : GP) (A : Option Rat) (B : Rat) (L : Poly) (h : p.toQuso A B = .ok L)
    (z : Var → Rat) (hz : IsSpin z) :
    eval z L = p.weightA A B * (sumTo z p.numVars) ^ 2 + B * sumL (p.edges.map Prod.snd) / 2 -
      cutSum p.order B z p.edges := by
  cases A <;>
  · simp only [GP.toQuso, bind_ok_iff] at h
    obtain ⟨pen, hpen, L0, h0, L1, h1, h2⟩ := h
    have hs : SqOK (squash .qusom) z := sqOK_spin rfl hz
    rw [gp_cutLoop_eval hz p.edges L1 L h2, eval_addTerm hs h1, eval_iaddD hs h0,
      pcso_eqZero_linear _ _ pen hpen z hz]
    simp only [GP.weightA, eval_nil, mon_nil]; ring

end Qv.Prob
