import Qv.Proofs.PcboSlack
/-!
# C02: `_special_constraints_le_zero` and `add_constraint_le_zero`
-/
namespace Qv.PcboP

/-! ## the offset of a dict is its value at the all-zero assignment -/

theorem mon_zero_of_ne_nil {k : Key} (h : k ≠ []) : mon (fun _ => (0 : Rat)) k = 0 := by
  cases k with
  | nil => exact absurd rfl h
  | cons i r => simp

theorem eval_zero_of_no_nil {p : Poly} (h : [] ∉ keys p) : eval (fun _ => (0 : Rat)) p = 0 := by
  induction p with
  | nil => rfl
  | cons kv r ih =>
    obtain ⟨k, v⟩ := kv
    simp only [keys, List.map_cons, List.mem_cons, not_or] at h
    rw [eval_cons, mon_zero_of_ne_nil (fun e => h.1 e.symm), ih h.2]; ring

theorem eval_zero_eq_offset {p : Poly} (h : (keys p).Nodup) : eval (fun _ => (0 : Rat)) p = offsetOf p := by
  induction p with
  | nil => rfl
  | cons kv r ih =>
    obtain ⟨k, v⟩ := kv
    simp only [keys, List.map_cons, List.nodup_cons] at h
    unfold offsetOf get
    split
    · rename_i hk; subst hk
      rw [eval_cons, eval_zero_of_no_nil h.1]; simp
    · rename_i hk
      rw [eval_cons, mon_zero_of_ne_nil hk, ih h.2]; unfold offsetOf; ring

theorem isBool_zero : IsBool (fun _ => (0 : Rat)) := fun _ => Or.inl rfl

theorem offset_int {P : Poly} (hint : IntValued P) (hnd : (keys P).Nodup) : ∃ n : Int, offsetOf P = n := by
  rw [← eval_zero_eq_offset hnd]; exact hint _ isBool_zero

/-- a polynomial all of whose coefficients are 1 takes natural-number values -/
theorem eval_allOnes {p : Poly} (h : ∀ kv ∈ p, kv.2 = 1) {x : Var → Rat} (hx : IsBool x) :
    ∃ m : Nat, eval x p = m := by
  induction p with
  | nil => exact ⟨0, by simp⟩
  | cons kv r ih =>
    obtain ⟨k, v⟩ := kv
    obtain ⟨m, hm⟩ := ih (fun kv hkv => h kv (List.mem_cons_of_mem _ hkv))
    have hv : v = 1 := h (k, v) List.mem_cons_self
    rw [eval_cons, hm, hv]
    rcases mon_bool hx k with h0 | h0 <;> rw [h0]
    · exact ⟨m, by simp⟩
    · exact ⟨1 + m, by push_cast; ring⟩

/-! ## inversion of `specialLe` -/

theorem specialLe_inv {s s' : St} {P : Poly} {lam : Rat} {lt : Bool} {lo hi : Rat}
    (h : specialLe s P lam lt (lo, hi) = some s') :
    (offsetOf P = -1 ∧ (∀ kv ∈ isubB P (addConstB [] (offsetOf P)), kv.2 = 1) ∧
      s' = (s.plus (scaleB (1 / 2) (mulB (scaleB lam P) (isubB P (addConstB [] (offsetOf P)))))).tag "le-special-sum1") ∨
    (lt = false ∧ lo = offsetOf P ∧ offsetOf P ≤ 0 ∧ lo ≠ 0 ∧
      s' = ((unaryAncillas s (numBits (-offsetOf P) false)).1.plus
            (mulB (scaleB lam (isubB (isubB P (addConstB [] (offsetOf P))) (unaryAncillas s (numBits (-offsetOf P) false)).2))
              (isubB (isubB P (addConstB [] (offsetOf P))) (unaryAncillas s (numBits (-offsetOf P) false)).2))).tag
        "le-special-unary") ∨
    (offsetOf P = 1 ∧ ∃ k0 k1, isubB P (addConstB [] (offsetOf P)) = [(k0, -1), (k1, -1)] ∧
      s' = (s.plus (scaleB lam (isubB (addConstB [] 1)
              (iaddB (monoPoly k0) (mulB (monoPoly k1) (isubB (addConstB [] 1) (monoPoly k0))))))).tag "le-special-or") ∨
    (∃ kx ky, (P = [(kx, 1), (ky, -1)] ∨ P = [(ky, -1), (kx, 1)]) ∧
      s' = (s.plus (mulB (scaleB lam (monoPoly kx)) (isubB (addConstB [] 1) (monoPoly ky)))).tag "le-special-xley") := by
  unfold specialLe at h
  simp only [] at h
  split_ifs at h with c1 c2 c3 c4
  · left
    injection h with h
    refine ⟨c1.1, fun kv hkv => ?_, h.symm⟩
    have := List.all_eq_true.1 c1.2 kv hkv
    exact of_decide_eq_true this
  · right; left
    injection h with h
    obtain ⟨a1, a2, a3, a4⟩ := c2
    refine ⟨by simpa using a1, by linarith, a3, a4, h.symm⟩
  · right; right; left
    obtain ⟨a1, a2, a3⟩ := c3
    obtain ⟨⟨k0, v0⟩, ⟨k1, v1⟩, hP⟩ := List.length_eq_two.1 a2
    rw [hP] at h a3
    simp only [List.all_cons, List.all_nil, Bool.and_true, Bool.and_eq_true, decide_eq_true_eq] at a3
    injection h with h
    obtain ⟨rfl, rfl⟩ := a3
    exact ⟨a1, k0, k1, hP, h.symm⟩
  · right; right; right
    obtain ⟨a1, a2, a3, a4⟩ := c4
    obtain ⟨⟨k0, v0⟩, ⟨k1, v1⟩, rfl⟩ := List.length_eq_two.1 a2
    simp only [List.any_cons, List.any_nil, Bool.or_false, Bool.or_eq_true, decide_eq_true_eq] at a3 a4
    by_cases e0 : v0 = 1
    · subst e0
      have e1 : v1 = -1 := by
        rcases a4 with a4 | a4
        · norm_num at a4
        · exact a4
      subst e1
      simp only [List.find?] at h
      norm_num at h
      exact ⟨k0, k1, Or.inl rfl, h.symm⟩
    · have e1 : v1 = 1 := by
        rcases a3 with a3 | a3
        · exact absurd a3 e0
        · exact a3
      subst e1
      have e2 : v0 = -1 := by
        rcases a4 with a4 | a4
        · exact a4
        · norm_num at a4
      subst e2
      simp only [List.find?] at h
      norm_num at h
      exact ⟨k1, k0, Or.inr rfl, h.symm⟩

/-! ## `_special_constraints_le_zero`: bookkeeping and semantics -/

theorem specialLe_book {s s' : St} {P : Poly} {lam : Rat} {lt : Bool} {lo hi : Rat}
    (h : specialLe s P lam lt (lo, hi) = some s') :
    s'.cons = s.cons ∧ s'.warns = s.warns ∧ Struct s s' P := by
  rcases specialLe_inv h with ⟨_, _, rfl⟩ | ⟨_, _, _, _, rfl⟩ | ⟨_, k0, k1, hP, rfl⟩ | ⟨kx, ky, hP, rfl⟩
  · refine ⟨rfl, rfl, Nat.le_refl _, _, rfl, fun V hV _ => ?_⟩
    exact labelsIn_scaleB _ (labelsIn_mulB (labelsIn_scaleB _ hV)
      (labelsIn_isubB hV (labelsIn_addConstB _ (labelsIn_nil V))))
  · obtain ⟨u1, u2, u3, u4, u5, u6⟩ := unaryAncillas_spec s (numBits (-offsetOf P) false)
    refine ⟨by simp [u3], by simp [u4], by simp [u1], _, by rw [St.tag_terms, St.plus_terms, u2], fun V hV hA => ?_⟩
    have hd : LabelsIn V (isubB (isubB P (addConstB [] (offsetOf P))) (unaryAncillas s (numBits (-offsetOf P) false)).2) := by
      refine labelsIn_isubB (labelsIn_isubB hV (labelsIn_addConstB _ (labelsIn_nil V))) (u6 V ?_)
      intro k hk1 hk2
      exact hA k hk1 (by simpa [u1] using hk2)
    exact labelsIn_mulB (labelsIn_scaleB _ hd) hd
  · refine ⟨rfl, rfl, Nat.le_refl _, _, rfl, fun V hV _ => ?_⟩
    have hw : LabelsIn V (isubB P (addConstB [] (offsetOf P))) :=
      labelsIn_isubB hV (labelsIn_addConstB _ (labelsIn_nil V))
    rw [hP] at hw
    have h0 : LabelsIn V (monoPoly k0) := labelsIn_monoPoly (hw _ List.mem_cons_self)
    have h1 : LabelsIn V (monoPoly k1) := labelsIn_monoPoly (hw _ (List.mem_cons_of_mem _ List.mem_cons_self))
    have hc : LabelsIn V (addConstB [] 1) := labelsIn_addConstB _ (labelsIn_nil V)
    exact labelsIn_scaleB _ (labelsIn_isubB hc (labelsIn_iaddB h0 (labelsIn_mulB h1 (labelsIn_isubB hc h0))))
  · refine ⟨rfl, rfl, Nat.le_refl _, _, rfl, fun V hV _ => ?_⟩
    have hx : LabelsIn V (monoPoly kx) := by
      rcases hP with rfl | rfl
      · exact labelsIn_monoPoly (hV _ List.mem_cons_self)
      · exact labelsIn_monoPoly (hV _ (List.mem_cons_of_mem _ List.mem_cons_self))
    have hy : LabelsIn V (monoPoly ky) := by
      rcases hP with rfl | rfl
      · exact labelsIn_monoPoly (hV _ (List.mem_cons_of_mem _ List.mem_cons_self))
      · exact labelsIn_monoPoly (hV _ List.mem_cons_self)
    exact labelsIn_mulB (labelsIn_scaleB _ hx) (labelsIn_isubB (labelsIn_addConstB _ (labelsIn_nil V)) hy)

theorem not_InA_self (s : St) (i : Var) (s' : St) (h : s'.anc = s.anc) : ¬ InA s s' i := by
  rintro ⟨k, h1, h2, _⟩; omega

theorem specialLe_sem {s s' : St} {P : Poly} {lam : Rat} {lt : Bool} {lo hi : Rat}
    (h : specialLe s P lam lt (lo, hi) = some s')
    (hlam : 0 < lam) (hint : IntValued P) (hnd : (keys P).Nodup)
    (hbd : ∀ x, IsBool x → lo ≤ eval x P) (hbel : Below (ANC + s.anc) P) :
    Sem (fun v => v ≤ 0) s s' P lam := by
  rcases specialLe_inv h with ⟨hoff, hall, rfl⟩ | ⟨hlt, hlo, hoff, hne, rfl⟩ | ⟨hoff, k0, k1, hP, rfl⟩ | ⟨kx, ky, hP, rfl⟩
  · -- sum(x_i) <= 1
    have hF : ∀ x, IsBool x → ∃ m : Nat, eval x P = (m : Rat) - 1 ∧
        FPen s ((s.plus (scaleB (1 / 2) (mulB (scaleB lam P) (isubB P (addConstB [] (offsetOf P)))))).tag "le-special-sum1") x
          = lam * (((m : Rat) - 1) * m / 2) := by
      intro x hx
      obtain ⟨m, hm⟩ := eval_allOnes hall hx
      rw [eval_Pwo hx, hoff] at hm
      refine ⟨m, by linarith, ?_⟩
      simp only [FPen, St.tag_terms, St.plus_terms, eval_iaddB hx, eval_scaleB hx, eval_mulB hx, eval_Pwo hx, hoff]
      have : eval x P = (m : Rat) - 1 := by linarith
      rw [this]; ring
    have key : ∀ m : Nat, 0 ≤ ((m : Rat) - 1) * m / 2 ∧ ((m : Rat) - 1 ≤ 0 → ((m : Rat) - 1) * m / 2 = 0) ∧
        (¬ ((m : Rat) - 1 ≤ 0) → 1 ≤ ((m : Rat) - 1) * m / 2) := by
      intro m
      rcases m with _ | _ | m
      · norm_num
      · norm_num
      · have : (0 : Rat) ≤ (m : Rat) := Nat.cast_nonneg m
        push_cast
        refine ⟨by nlinarith, fun h => by linarith, fun _ => by nlinarith⟩
    refine ⟨fun x hx => ?_, fun x hx hr => ⟨x, fun _ _ => rfl, hx, ?_⟩, fun x hx hr => ?_⟩
    · obtain ⟨m, h1, h2⟩ := hF x hx
      rw [h2]; have := (key m).1; positivity
    · obtain ⟨m, h1, h2⟩ := hF x hx
      rw [h2, (key m).2.1 (by rw [← h1]; exact hr)]; ring
    · obtain ⟨m, h1, h2⟩ := hF x hx
      rw [h2]
      have := (key m).2.2 (by rw [← h1]; exact hr)
      nlinarith
  · -- unary slack on the offset
    obtain ⟨u1, u2, u3, u4, u5, u6⟩ := unaryAncillas_spec s (numBits (-offsetOf P) false)
    obtain ⟨no, hno⟩ := offset_int hint hnd
    -- `-offset` is a natural number `n`, and exactly `n` ancillas are created
    obtain ⟨n, hn⟩ : ∃ n : Nat, -offsetOf P = (n : Rat) := int_nonneg_nat ⟨-no, by rw [hno]; simp⟩ (by linarith)
    have hnb : numBits (-offsetOf P) false = n := by
      simp only [numBits, Bool.false_eq_true, if_false]; rw [hn, ceilNat_natCast]
    rw [hnb] at u1 u2 u5 u6 ⊢
    have hF : ∀ x, IsBool x →
        FPen s (((unaryAncillas s n).1.plus
            (mulB (scaleB lam (isubB (isubB P (addConstB [] (offsetOf P))) (unaryAncillas s n).2))
              (isubB (isubB P (addConstB [] (offsetOf P))) (unaryAncillas s n).2))).tag "le-special-unary") x
          = lam * ((eval x P + n - slackVal false x s.anc 0 n) * (eval x P + n - slackVal false x s.anc 0 n)) := by
      intro x hx
      simp only [FPen, St.tag_terms, St.plus_terms, u2, eval_iaddB hx, eval_scaleB hx, eval_mulB hx, eval_isubB hx,
        eval_addConstB hx, u5 x hx, eval_nil]
      have : offsetOf P = -(n : Rat) := by linarith
      rw [this]; ring
    refine ⟨fun x hx => ?_, fun x hx hr => ?_, fun x hx hr => ?_⟩
    · rw [hF x hx]
      have := mul_self_nonneg (eval x P + n - slackVal false x s.anc 0 n)
      positivity
    · -- P(x) <= 0: the slack takes the value P(x) - offset
      have hge : 0 ≤ eval x P + n := by have := hbd x hx; rw [hlo] at this; linarith
      obtain ⟨m, hm⟩ : ∃ m : Nat, eval x P + n = (m : Rat) := by
        obtain ⟨k, hk⟩ := hint x hx
        exact int_nonneg_nat ⟨k + n, by rw [hk]; push_cast; ring⟩ hge
      have hmn : m ≤ n := by
        have : (m : Rat) ≤ (n : Rat) := by rw [← hm]; linarith
        exact_mod_cast this
      obtain ⟨t, ht1, ht2, ht3⟩ := slack_repr false hx s.anc n m (by simpa using hmn)
      refine ⟨t, fun i hi => ht2 i (fun hc => hi ⟨i - ANC, ?_, ?_, ?_⟩), ht1, ?_⟩
      · omega
      · simp only [St.tag_anc, St.plus_anc, u1]; omega
      · exact (Nat.add_sub_cancel' (Nat.le_trans (Nat.le_add_right _ _) hc.1)).symm
      · rw [hF t ht1, ht3]
        have : eval t P = eval x P := eval_off_anc hbel (fun i hi => ht2 i (by omega))
        rw [this, hm]; ring
    · -- P(x) > 0: every slack value leaves a non-zero integer
      rw [hF x hx]
      have hpos : 0 < eval x P := not_le.1 hr
      have h1 := int_pos_ge_one (hint x hx) hpos
      have h2 := (slackVal_bounds (lt := false) hx s.anc 0 n).2
      rw [slackTot_false] at h2
      have hd : 1 ≤ eval x P + n - slackVal false x s.anc 0 n := by linarith
      have hdd : 1 ≤ (eval x P + n - slackVal false x s.anc 0 n) * (eval x P + n - slackVal false x s.anc 0 n) := by
        nlinarith
      nlinarith [mul_le_mul_of_nonneg_left hdd hlam.le]
  · -- 1 <= x + y
    have hv : ∀ x, IsBool x → eval x P = 1 - mon x k0 - mon x k1 := by
      intro x hx
      have := eval_Pwo hx P (offsetOf P)
      rw [hP, hoff] at this
      simp only [eval_cons, eval_nil] at this
      linarith
    have hF : ∀ x, IsBool x →
        FPen s ((s.plus (scaleB lam (isubB (addConstB [] 1)
              (iaddB (monoPoly k0) (mulB (monoPoly k1) (isubB (addConstB [] 1) (monoPoly k0))))))).tag "le-special-or") x
          = lam * (1 - (mon x k0 + mon x k1 * (1 - mon x k0))) := by
      intro x hx
      simp only [FPen, St.tag_terms, St.plus_terms, eval_iaddB hx, eval_scaleB hx, eval_mulB hx, eval_isubB hx,
        eval_addConstB hx, eval_monoPoly hx, eval_nil]; ring
    refine ⟨fun x hx => ?_, fun x hx hr => ⟨x, fun _ _ => rfl, hx, ?_⟩, fun x hx hr => ?_⟩
    · rw [hF x hx]
      rcases mon_bool hx k0 with h0 | h0 <;> rcases mon_bool hx k1 with h1 | h1 <;> rw [h0, h1] <;> nlinarith
    · rw [hF x hx]
      have hr : eval x P ≤ 0 := hr
      rw [hv x hx] at hr
      rcases mon_bool hx k0 with h0 | h0 <;> rcases mon_bool hx k1 with h1 | h1 <;> rw [h0, h1] at hr ⊢ <;> (try norm_num at hr) <;> (try norm_num)
    · rw [hF x hx]
      have hr : ¬ eval x P ≤ 0 := hr
      rw [hv x hx] at hr
      rcases mon_bool hx k0 with h0 | h0 <;> rcases mon_bool hx k1 with h1 | h1 <;> rw [h0, h1] at hr ⊢ <;> (try norm_num at hr) <;> (try norm_num)
  · -- x <= y
    have hv : ∀ x : Var → Rat, eval x P = mon x kx - mon x ky := by
      intro x
      rcases hP with rfl | rfl <;> simp only [eval_cons, eval_nil] <;> ring
    have hF : ∀ x, IsBool x →
        FPen s ((s.plus (mulB (scaleB lam (monoPoly kx)) (isubB (addConstB [] 1) (monoPoly ky)))).tag "le-special-xley") x
          = lam * (mon x kx * (1 - mon x ky)) := by
      intro x hx
      simp only [FPen, St.tag_terms, St.plus_terms, eval_iaddB hx, eval_scaleB hx, eval_mulB hx, eval_isubB hx,
        eval_addConstB hx, eval_monoPoly hx, eval_nil]; ring
    refine ⟨fun x hx => ?_, fun x hx hr => ⟨x, fun _ _ => rfl, hx, ?_⟩, fun x hx hr => ?_⟩
    · rw [hF x hx]
      rcases mon_bool hx kx with h0 | h0 <;> rcases mon_bool hx ky with h1 | h1 <;> rw [h0, h1] <;> nlinarith
    · rw [hF x hx]
      have hr : eval x P ≤ 0 := hr
      rw [hv x] at hr
      rcases mon_bool hx kx with h0 | h0 <;> rcases mon_bool hx ky with h1 | h1 <;> rw [h0, h1] at hr ⊢ <;> (try norm_num at hr) <;> (try norm_num)
    · rw [hF x hx]
      have hr : ¬ eval x P ≤ 0 := hr
      rw [hv x] at hr
      rcases mon_bool hx kx with h0 | h0 <;> rcases mon_bool hx ky with h1 | h1 <;> rw [h0, h1] at hr ⊢ <;> (try norm_num at hr) <;> (try norm_num)

end Qv.PcboP
