import Qv.Model.Basic
import Qv.Model.Arith
import Mathlib.Tactic.Ring
import Mathlib.Tactic.Linarith
import Mathlib.Algebra.Order.Ring.Rat
import Mathlib.Tactic.FieldSimp
/-!
# Helper lemmas: dict operations and evaluation
-/
namespace Qv

def IsBool (x : Var → Rat) : Prop := ∀ i, x i = 0 ∨ x i = 1
def IsSpin (z : Var → Rat) : Prop := ∀ i, z i = 1 ∨ z i = -1

/-- `sq` does not change the monomial function at `x` -/
def SqOK (sq : Sq) (x : Var → Rat) : Prop := ∀ k k', sq k = .ok k' → mon x k' = mon x k

theorem IsBool.sq {x : Var → Rat} (hx : IsBool x) (i : Var) : x i * x i = x i := by
  rcases hx i with h | h <;> simp [h]

theorem IsSpin.sq {z : Var → Rat} (hz : IsSpin z) (i : Var) : z i * z i = 1 := by
  rcases hz i with h | h <;> simp [h]

@[simp] theorem mon_nil (x : Var → Rat) : mon x [] = 1 := rfl
@[simp] theorem mon_cons (x : Var → Rat) (i : Var) (k : Key) : mon x (i :: k) = x i * mon x k := rfl
@[simp] theorem eval_nil (x : Var → Rat) : eval x [] = 0 := rfl
@[simp] theorem eval_cons (x : Var → Rat) (k : Key) (v : Rat) (r : Poly) :
    eval x ((k, v) :: r) = v * mon x k + eval x r := rfl

theorem mon_append (x : Var → Rat) (k k' : Key) : mon x (k ++ k') = mon x k * mon x k' := by
  induction k with
  | nil => simp
  | cons i r ih => simp [ih]; ring

theorem mon_insertU {x : Var → Rat} (hx : IsBool x) (a : Var) (k : Key) :
    mon x (insertU a k) = x a * mon x k := by
  induction k with
  | nil => simp [insertU]
  | cons b bs ih =>
    unfold insertU
    split
    · simp
    · split
      · subst_vars
        simp only [mon_cons]
        rw [← mul_assoc, hx.sq]
      · simp only [mon_cons, ih]; ring

theorem mon_squashB {x : Var → Rat} (hx : IsBool x) (k : Key) : mon x (squashB k) = mon x k := by
  induction k with
  | nil => rfl
  | cons a k ih =>
    show mon x (insertU a (squashB k)) = _
    rw [mon_insertU hx, ih]; rfl

theorem mon_toggleU {z : Var → Rat} (hz : IsSpin z) (a : Var) (k : Key) :
    mon z (toggleU a k) = z a * mon z k := by
  induction k with
  | nil => simp [toggleU]
  | cons b bs ih =>
    unfold toggleU
    split
    · simp
    · split
      · subst_vars
        simp only [mon_cons]
        rw [← mul_assoc, hz.sq]; simp
      · simp only [mon_cons, ih]; ring

theorem mon_squashS {z : Var → Rat} (hz : IsSpin z) (k : Key) : mon z (squashS k) = mon z k := by
  induction k with
  | nil => rfl
  | cons a k ih =>
    show mon z (toggleU a (squashS k)) = _
    rw [mon_toggleU hz, ih]; rfl

theorem squash_ok_cases {κ : Kind} {k k' : Key} (h : squash κ k = .ok k') :
    (κ = .dict ∧ k' = k) ∨ (κ ≠ .dict ∧ κ.isSpin = true ∧ k' = squashS k) ∨
    (κ ≠ .dict ∧ κ.isSpin = false ∧ k' = squashB k) := by
  unfold squash at h
  cases κ <;> simp [Kind.isSpin, Kind.isDeg2] at h ⊢ <;>
    first
    | exact h.symm
    | (split at h <;> first | (injection h with h; exact h.symm) | cases h)

/-- boolean kinds preserve monomials on boolean assignments -/
theorem sqOK_bool {κ : Kind} (hκ : κ.isSpin = false) {x : Var → Rat} (hx : IsBool x) :
    SqOK (squash κ) x := by
  intro k k' h
  rcases squash_ok_cases h with ⟨_, rfl⟩ | ⟨_, hs, _⟩ | ⟨_, _, rfl⟩
  · rfl
  · rw [hκ] at hs; cases hs
  · exact mon_squashB hx k

/-- spin kinds preserve monomials on spin assignments -/
theorem sqOK_spin {κ : Kind} (hκ : κ.isSpin = true) {z : Var → Rat} (hz : IsSpin z) :
    SqOK (squash κ) z := by
  intro k k' h
  rcases squash_ok_cases h with ⟨hd, _⟩ | ⟨_, _, rfl⟩ | ⟨_, hs, _⟩
  · subst hd; cases hκ
  · exact mon_squashS hz k
  · rw [hκ] at hs; cases hs

/-! ### get / set algebra -/

theorem eval_erase (x : Var → Rat) (p : Poly) (k : Key) :
    eval x (erase p k) = eval x p - get p k * mon x k := by
  induction p with
  | nil => simp [erase, get]
  | cons kv rest ih =>
    obtain ⟨k', v⟩ := kv
    unfold erase get
    split
    · subst_vars; simp
    · simp only [eval_cons, ih]; ring

theorem eval_put (x : Var → Rat) (p : Poly) (k : Key) (v : Rat) :
    eval x (put p k v) = eval x p - get p k * mon x k + v * mon x k := by
  induction p with
  | nil => simp [put, get]
  | cons kv rest ih =>
    obtain ⟨k', v'⟩ := kv
    unfold put get
    split
    · subst_vars; simp; ring
    · simp only [eval_cons, ih]; ring

theorem eval_set (x : Var → Rat) (p : Poly) (k : Key) (v : Rat) :
    eval x (set p k v) = eval x p - get p k * mon x k + v * mon x k := by
  unfold set
  split
  · subst_vars; rw [eval_erase]; ring
  · exact eval_put x p k v

theorem get_erase_ne (p : Poly) {k k2 : Key} (h : k2 ≠ k) : get (erase p k) k2 = get p k2 := by
  induction p with
  | nil => rfl
  | cons kv rest ih =>
    obtain ⟨k', v⟩ := kv
    unfold erase
    split
    · subst_vars; simp [get, Ne.symm h]
    · simp only [get]; rw [ih]

theorem get_put_ne (p : Poly) {k k2 : Key} (v : Rat) (h : k2 ≠ k) : get (put p k v) k2 = get p k2 := by
  induction p with
  | nil => simp [put, get, Ne.symm h]
  | cons kv rest ih =>
    obtain ⟨k', v'⟩ := kv
    unfold put
    split
    · subst_vars; simp [get, Ne.symm h]
    · simp only [get]; rw [ih]

theorem get_set_ne (p : Poly) {k k2 : Key} (v : Rat) (h : k2 ≠ k) : get (set p k v) k2 = get p k2 := by
  unfold set; split
  · exact get_erase_ne p h
  · exact get_put_ne p v h

theorem get_put_eq (p : Poly) (k : Key) (v : Rat) : get (put p k v) k = v := by
  induction p with
  | nil => simp [put, get]
  | cons kv rest ih =>
    obtain ⟨k', v'⟩ := kv
    unfold put
    split
    · simp [get]
    · rename_i h; simp [get, h, ih]

/-! ### the loops -/

theorem eval_addTerm {sq : Sq} {x : Var → Rat} (hs : SqOK sq x) {p p' : Poly} {k : Key} {v : Rat}
    (h : addTerm sq p k v = .ok p') : eval x p' = eval x p + v * mon x k := by
  unfold addTerm at h
  cases hk : sq k with
  | error e => simp [hk, bind, Except.bind] at h
  | ok k' =>
    simp [hk, bind, Except.bind, pure, Except.pure] at h
    subst h
    rw [eval_set, hs k k' hk]; ring

theorem eval_iaddD {sq : Sq} {x : Var → Rat} (hs : SqOK sq x) {q p p' : Poly}
    (h : iaddD sq p q = .ok p') : eval x p' = eval x p + eval x q := by
  induction q generalizing p with
  | nil => simp [iaddD] at h; subst h; simp
  | cons kv r ih =>
    obtain ⟨k, v⟩ := kv
    simp only [iaddD, bind, Except.bind] at h
    cases h1 : addTerm sq p k v with
    | error e => simp [h1] at h
    | ok p1 =>
      simp [h1] at h
      rw [ih h, eval_addTerm hs h1, eval_cons]; ring

theorem eval_isubD {sq : Sq} {x : Var → Rat} (hs : SqOK sq x) {q p p' : Poly}
    (h : isubD sq p q = .ok p') : eval x p' = eval x p - eval x q := by
  induction q generalizing p with
  | nil => simp [isubD] at h; subst h; simp
  | cons kv r ih =>
    obtain ⟨k, v⟩ := kv
    simp only [isubD, bind, Except.bind] at h
    cases h1 : addTerm sq p k (-v) with
    | error e => simp [h1] at h
    | ok p1 =>
      simp [h1] at h
      rw [ih h, eval_addTerm hs h1, eval_cons]; ring

theorem eval_iaddC {sq : Sq} {x : Var → Rat} (hs : SqOK sq x) {p p' : Poly} {c : Rat}
    (h : iaddC sq p c = .ok p') : eval x p' = eval x p + c := by
  have := eval_addTerm hs h
  simpa using this

theorem eval_construct {sq : Sq} {x : Var → Rat} (hs : SqOK sq x) {d p : Poly}
    (h : construct sq d = .ok p) : eval x p = eval x d := by
  have := eval_iaddD hs h
  simpa using this

theorem eval_mulRow {sq : Sq} {x : Var → Rat} (hs : SqOK sq x) {q acc acc' : Poly} {k : Key} {v : Rat}
    (h : mulRow sq acc k v q = .ok acc') : eval x acc' = eval x acc + v * mon x k * eval x q := by
  induction q generalizing acc with
  | nil => simp [mulRow] at h; subst h; simp
  | cons kv r ih =>
    obtain ⟨ko, vo⟩ := kv
    simp only [mulRow, bind, Except.bind] at h
    cases h1 : addTerm sq acc (k ++ ko) (v * vo) with
    | error e => simp [h1] at h
    | ok a1 =>
      simp [h1] at h
      rw [ih h, eval_addTerm hs h1, eval_cons, mon_append]; ring

theorem eval_mulRows {sq : Sq} {x : Var → Rat} (hs : SqOK sq x) {p q acc acc' : Poly}
    (h : mulRows sq acc p q = .ok acc') : eval x acc' = eval x acc + eval x p * eval x q := by
  induction p generalizing acc with
  | nil => simp [mulRows] at h; subst h; simp
  | cons kv r ih =>
    obtain ⟨k, v⟩ := kv
    simp only [mulRows, bind, Except.bind] at h
    cases h1 : mulRow sq acc k v q with
    | error e => simp [h1] at h
    | ok a1 =>
      simp [h1] at h
      rw [ih h, eval_mulRow hs h1, eval_cons]; ring

theorem eval_imulD {sq : Sq} {x : Var → Rat} (hs : SqOK sq x) {p q p' : Poly}
    (h : imulD sq p q = .ok p') : eval x p' = eval x p * eval x q := by
  have := eval_mulRows hs h
  simpa using this

theorem eval_powLoop {sq : Sq} {x : Var → Rat} (hs : SqOK sq x) {old p p' : Poly} {n : Nat}
    (h : powLoop sq p old n = .ok p') : eval x p' = eval x p * eval x old ^ n := by
  induction n generalizing p with
  | zero => simp [powLoop] at h; subst h; simp
  | succ n ih =>
    simp only [powLoop, bind, Except.bind] at h
    cases h1 : imulD sq p old with
    | error e => simp [h1] at h
    | ok p1 =>
      simp [h1] at h
      rw [ih h, eval_imulD hs h1]; ring

theorem eval_ipow {sq : Sq} {x : Var → Rat} (hs : SqOK sq x) {p p' : Poly} {e : Int}
    (h : ipow sq p e = .ok p') : 0 < e ∧ eval x p' = eval x p ^ e.toNat := by
  unfold ipow at h
  split at h
  · cases h
  · rename_i he
    have he : 0 < e := by omega
    refine ⟨he, ?_⟩
    simp only [bind, Except.bind] at h
    cases h1 : construct sq p with
    | error e => simp [h1] at h
    | ok old =>
      simp [h1] at h
      rw [eval_powLoop hs h, eval_construct hs h1]
      have : e.toNat = (e.toNat - 1) + 1 := by omega
      conv_rhs => rw [this, pow_succ]
      ring

end Qv
