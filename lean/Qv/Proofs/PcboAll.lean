import Qv.Proofs.PcboNe2
/-!
# C02: the six relations together (`addConstraint`), `is_solution_valid`, histories
-/
namespace Qv.PcboP

/-- the relation against zero, as a proposition -/
def RelP : Rel → Rat → Prop
  | .eq, v => v = 0 | .ne, v => v ≠ 0 | .lt, v => v < 0 | .le, v => v ≤ 0 | .gt, v => v > 0 | .ge, v => v ≥ 0

theorem holds_iff (r : Rel) (v : Rat) : r.holds v = true ↔ RelP r v := by
  cases r <;> simp [Rel.holds, RelP]

/-- the two branches in which the library gives up ("Constraint cannot be satisfied") and only adds
`lam * P`: `P < 0` with `min ≥ 0`, `P > 0` with `max ≤ 0` -/
def WeakBranch (r : Rel) (P : Poly) (b : Option Rat × Option Rat) : Prop :=
  match r with
  | .lt => (getBounds P b).1 ≥ 0
  | .gt => (getBounds P b).2 ≤ 0
  | _ => False

/-- the hypotheses of the property on one call -/
structure Hyp (st : St) (P : Poly) (lam : Rat) (b : Option Rat × Option Rat) : Prop where
  lam_pos : 0 < lam
  int : IntValued P
  nz : NoZero P
  nd : (keys P).Nodup
  bounds : ValidBounds P b
  fresh : Below (ANC + st.anc) P

theorem addConstraint_book (r : Rel) (st : St) (P : Poly) (lam : Rat) (lt : Bool) (b : Option Rat × Option Rat)
    (sup : Bool) :
    (addConstraint r st P lam lt b sup).cons = st.cons ++ [(r, P)] ∧ Struct st (addConstraint r st P lam lt b sup) P := by
  cases r <;> simp only [addConstraint]
  · exact ⟨addEqZero_cons _ _ _ _ _, addEqZero_struct _ _ _ _ _⟩
  · exact addNeZero_book _ _ _ _ _ _
  · exact addLtZero_book _ _ _ _ _ _
  · exact addLeZero_book _ _ _ _ _ _
  · exact addGtZero_book _ _ _ _ _ _
  · exact addGeZero_book _ _ _ _ _ _

theorem addEqZero_Sem {st : St} {P : Poly} {lam : Rat} {b : Option Rat × Option Rat} {sup : Bool}
    (hlam : 0 < lam) (hint : IntValued P) (hnz : NoZero P) (hb : ValidBounds P b) :
    Sem (fun v => v = 0) st (addEqZero st P lam b sup) P lam :=
  ⟨fun s hs => (addEqZero_sem hlam hint hnz hb hs).1,
   fun x hx hr => ⟨x, fun _ _ => rfl, hx, (addEqZero_sem hlam hint hnz hb hx).2.1 hr⟩,
   fun s hs hr => (addEqZero_sem hlam hint hnz hb hs).2.2 hr⟩

theorem addConstraint_nonneg {r : Rel} {st : St} {P : Poly} {lam : Rat} {lt : Bool} {b : Option Rat × Option Rat}
    {sup : Bool} (h : Hyp st P lam b) {s : Var → Rat} (hs : IsBool s) :
    0 ≤ FPen st (addConstraint r st P lam lt b sup) s := by
  obtain ⟨hlam, hint, hnz, hnd, hb, hbel⟩ := h
  cases r <;> simp only [addConstraint]
  · exact (addEqZero_sem hlam hint hnz hb hs).1
  · exact (addNeZero_sem hlam hint hnz hnd hb hbel).nonneg s hs
  · exact (addLtZero_sem hlam hint hnz hnd hb hbel).1 s hs
  · exact (addLeZero_sem hlam hint hnz hnd hb hbel).nonneg s hs
  · exact (addGtZero_sem hlam hint hb hbel).1 s hs
  · exact (addGeZero_sem hlam hint hb hbel).nonneg s hs

theorem addConstraint_sem {r : Rel} {st : St} {P : Poly} {lam : Rat} {lt : Bool} {b : Option Rat × Option Rat}
    {sup : Bool} (h : Hyp st P lam b) (hw : ¬ WeakBranch r P b) :
    Sem (RelP r) st (addConstraint r st P lam lt b sup) P lam := by
  obtain ⟨hlam, hint, hnz, hnd, hb, hbel⟩ := h
  cases r <;> simp only [addConstraint]
  · exact addEqZero_Sem hlam hint hnz hb
  · exact addNeZero_sem hlam hint hnz hnd hb hbel
  · exact (addLtZero_sem hlam hint hnz hnd hb hbel).2 hw
  · exact addLeZero_sem hlam hint hnz hnd hb hbel
  · exact (addGtZero_sem hlam hint hb hbel).2 hw
  · exact addGeZero_sem hlam hint hb hbel

/-- in a weak branch the library (when not told to be silent) warns "cannot be satisfied" -/
theorem addConstraint_warns {r : Rel} (st : St) (P : Poly) {lam : Rat} (lt : Bool) (b : Option Rat × Option Rat)
    (hl : lam ≠ 0) (hw : WeakBranch r P b) :
    (addConstraint r st P lam lt b false).warns = st.warns ++ ["unsat"] := by
  cases r <;> simp only [WeakBranch] at hw
  · exact addLtZero_warns st P lam lt b hl hw
  · exact addGtZero_warns st P lam lt b hl hw

/-- the warnings a call emitted -/
def newWarns (st st' : St) : List String := st'.warns.drop st.warns.length

theorem not_weak_of_no_warning {r : Rel} {st : St} {P : Poly} {lam : Rat} {lt : Bool} {b : Option Rat × Option Rat}
    (hl : lam ≠ 0) (h : "unsat" ∉ newWarns st (addConstraint r st P lam lt b false)) : ¬ WeakBranch r P b := by
  intro hw
  apply h
  unfold newWarns
  rw [addConstraint_warns st P lt b hl hw]
  simp

/-! ## `is_solution_valid` -/

theorem isValid_append (st : St) (r : Rel) (P : Poly) (st' : St) (h : st'.cons = st.cons ++ [(r, P)])
    (x : Var → Rat) : isValid st' x = true ↔ (isValid st x = true ∧ RelP r (eval x P)) := by
  unfold isValid
  rw [h, List.all_append]
  simp [holds_iff]

theorem isValid_iff (st : St) (x : Var → Rat) : isValid st x = true ↔ ∀ c ∈ st.cons, RelP c.1 (eval x c.2) := by
  unfold isValid
  simp [List.all_eq_true, holds_iff]

/-! ## histories -/

structure Step where
  rel : Rel
  P : Poly
  lam : Rat
  lt : Bool
  b : Option Rat × Option Rat
  sup : Bool

def step (st : St) (c : Step) : St := addConstraint c.rel st c.P c.lam c.lt c.b c.sup
def run (st : St) (h : List Step) : St := h.foldl step st

/-- every label occurring in the model's terms is a user label or an ancilla already counted -/
def AncInv (st : St) : Prop := Below (ANC + st.anc) st.terms

/-- every polynomial of the history is free of ancillas not yet created when it is added -/
def HistOk : St → List Step → Prop
  | _, [] => True
  | st, c :: r => Below (ANC + st.anc) c.P ∧ HistOk (step st c) r

theorem step_anc_le (st : St) (c : Step) : st.anc ≤ (step st c).anc :=
  (addConstraint_book c.rel st c.P c.lam c.lt c.b c.sup).2.anc_le

theorem step_ancInv {st : St} {c : Step} (hi : AncInv st) (hP : Below (ANC + st.anc) c.P) : AncInv (step st c) := by
  obtain ⟨h1, q, h2, h3⟩ := (addConstraint_book c.rel st c.P c.lam c.lt c.b c.sup).2
  unfold AncInv step
  rw [h2]
  have hm : ∀ i, i < ANC + st.anc → i < ANC + (addConstraint c.rel st c.P c.lam c.lt c.b c.sup).anc :=
    fun i hi => by omega
  refine labelsIn_iaddB (hi.mono hm) (h3 _ (hP.mono hm) ?_)
  intro k _ hk; exact Nat.add_lt_add_left hk _

theorem run_anc_le (st : St) (h : List Step) : st.anc ≤ (run st h).anc := by
  induction h generalizing st with
  | nil => exact Nat.le_refl _
  | cons c r ih => exact Nat.le_trans (step_anc_le st c) (ih (step st c))

theorem run_ancInv {st : St} {h : List Step} (hi : AncInv st) (hok : HistOk st h) : AncInv (run st h) := by
  induction h generalizing st with
  | nil => exact hi
  | cons c r ih => exact ih (step_ancInv hi hok.1) hok.2

theorem run_append (st : St) (h1 h2 : List Step) : run st (h1 ++ h2) = run (run st h1) h2 := by
  unfold run; rw [List.foldl_append]

/-- the recorded constraints after a history are exactly the inputs, in order -/
theorem run_cons (st : St) (h : List Step) : (run st h).cons = st.cons ++ h.map (fun c => (c.rel, c.P)) := by
  induction h generalizing st with
  | nil => simp [run]
  | cons c r ih =>
    have := ih (step st c)
    simp only [run, List.foldl_cons, List.map_cons] at this ⊢
    rw [this]
    unfold step
    rw [(addConstraint_book c.rel st c.P c.lam c.lt c.b c.sup).1]
    simp

/-- ancilla sets of two different additions of one history are disjoint -/
theorem ancillas_disjoint (st : St) (h1 : List Step) (c : Step) (h2 : List Step) (d : Step) (i : Var)
    (hc : InA (run st h1) (step (run st h1) c) i)
    (hd : InA (run (step (run st h1) c) h2) (step (run (step (run st h1) c) h2) d) i) : False := by
  obtain ⟨k, _, hk2, rfl⟩ := hc
  obtain ⟨k', hk1', _, e⟩ := hd
  have := run_anc_le (step (run st h1) c) h2
  have e' : k = k' := Nat.add_left_cancel e
  omega

end Qv.PcboP

namespace Qv.PcboP

/-- integer coefficients give integer values on boolean assignments -/
theorem intValued_of_intCoeffs {P : Poly} (h : ∀ kv ∈ P, ∃ n : Int, kv.2 = n) : IntValued P := by
  intro x hx
  induction P with
  | nil => exact ⟨0, by simp⟩
  | cons kv r ih =>
    obtain ⟨k, v⟩ := kv
    obtain ⟨m, hm⟩ := ih (fun kv hkv => h kv (List.mem_cons_of_mem _ hkv))
    obtain ⟨n, hn⟩ := h (k, v) List.mem_cons_self
    simp only at hn
    rw [eval_cons, hm, hn]
    rcases mon_bool hx k with h0 | h0 <;> rw [h0]
    · exact ⟨m, by simp⟩
    · exact ⟨n + m, by push_cast; ring⟩

theorem validBounds_none (P : Poly) : ValidBounds P (none, none) :=
  ⟨fun _ h _ _ => (by cases h), fun _ h _ _ => (by cases h)⟩

end Qv.PcboP
