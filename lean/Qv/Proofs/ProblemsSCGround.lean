import Qv.Proofs.ProblemsSC
import Mathlib.Tactic.Positivity
/-!
# SetCover: lower bound of the penalty form, repair of a non-cover (Lucas 5.1, `B < A`)

`SC.Hit x α` — a chosen set contains `α`; `SC.Covers x` — every element of `U` is hit; `SC.unc x α` — `1` if `α`
is not hit, else `0`.  For every boolean `x`

* `sc_penalty_ge` : the penalty of an element is `≥ unc x α` (whatever the counter bits are),
* `sc_repair` : there is a cover `y` with `w(y) ≤ w(x) + #unhit(x)` (add one set per element that is not hit; needs
  every weight `≤ 1` and every element of `U` in some set).
-/
namespace Qv.Prob
open Qv

/-! ## sums of booleans -/

theorem sumMap_nonneg {α : Type} (l : List α) (f : α → Rat) (h : ∀ a ∈ l, 0 ≤ f a) : 0 ≤ sumMap l f := by
  induction l with
  | nil => simp [sumMap]
  | cons a r ih =>
    simp only [sumMap]
    have := h a List.mem_cons_self
    have := ih (fun b hb => h b (List.mem_cons_of_mem _ hb))
    linarith

theorem sumMap_le {α : Type} (l : List α) (f g : α → Rat) (h : ∀ a ∈ l, f a ≤ g a) : sumMap l f ≤ sumMap l g := by
  induction l with
  | nil => simp [sumMap]
  | cons a r ih =>
    simp only [sumMap]
    have := h a List.mem_cons_self
    have := ih (fun b hb => h b (List.mem_cons_of_mem _ hb))
    linarith

theorem sumMap_zero {α : Type} (l : List α) (f : α → Rat) (h : ∀ a ∈ l, f a = 0) : sumMap l f = 0 := by
  rw [sumMap_congr l h]; simp [sumMap_const]

/-- a sum of boolean values is the number of ones -/
theorem sumMap_bool_count {x : Var → Rat} (hx : IsBool x) (l : List Nat) :
    sumMap l x = ((l.filter (fun i => decide (x i = 1))).length : Rat) := by
  induction l with
  | nil => simp [sumMap]
  | cons a r ih =>
    simp only [sumMap, ih, List.filter_cons]
    rcases hx a with h | h
    · simp [h]
    · simp [h]; ring

/-! ## hit / covered -/

/-- some chosen set contains `alpha` -/
def SC.Hit (p : SC) (x : Var → Rat) (alpha : Var) : Prop := ∃ i ∈ p.filtered alpha 0, x i = 1

instance (p : SC) (x : Var → Rat) (alpha : Var) : Decidable (p.Hit x alpha) := by
  unfold SC.Hit; infer_instance

/-- the chosen sets cover `U` -/
def SC.Covers (p : SC) (x : Var → Rat) : Prop := ∀ alpha ∈ p.U, p.Hit x alpha

/-- every element of `U` lies in some set (`is_coverable()`) -/
def SC.Coverable (p : SC) : Prop := ∀ alpha ∈ p.U, p.filtered alpha 0 ≠ []

/-- `1` for an element that is not hit -/
def SC.unc (p : SC) (x : Var → Rat) (alpha : Var) : Rat := if p.Hit x alpha then 0 else 1

/-- number of elements of `U` that are not hit -/
def SC.uncN (p : SC) (x : Var → Rat) : Nat := (p.U.filter (fun a => decide (¬ p.Hit x a))).length

theorem sc_unc_nonneg (p : SC) (x : Var → Rat) (a : Var) : 0 ≤ p.unc x a := by
  unfold SC.unc; split <;> norm_num

theorem sc_sum_unc (p : SC) (x : Var → Rat) : sumMap p.U (p.unc x) = (p.uncN x : Rat) := by
  unfold SC.uncN
  induction p.U with
  | nil => simp [sumMap]
  | cons a r ih =>
    simp only [sumMap, ih, List.filter_cons, SC.unc]
    by_cases h : p.Hit x a
    · simp [h]
    · simp [h]; ring

theorem sc_X_of_not_hit {p : SC} {x : Var → Rat} (hx : IsBool x) {a : Var} (h : ¬ p.Hit x a) : p.X x a = 0 := by
  unfold SC.X
  refine sumMap_zero _ _ (fun i hi => ?_)
  rcases hx i with h0 | h1
  · exact h0
  · exact absurd ⟨i, hi, h1⟩ h

theorem sc_covers_iff_uncN (p : SC) (x : Var → Rat) : p.Covers x ↔ p.uncN x = 0 := by
  unfold SC.Covers SC.uncN
  rw [List.length_eq_zero_iff, List.filter_eq_nil_iff]
  constructor
  · intro h a ha; simpa using h a ha
  · intro h a ha; simpa using h a ha

/-! ## the penalty of an element is at least `unc` -/

theorem sc_T_nat {x : Var → Rat} (hx : IsBool x) (p : SC) (ia : Nat) : ∃ n : Nat, p.T x ia = n := by
  unfold SC.T
  have := sumMap_bool_count (x := fun m => x (p.x ia m)) (fun m => hx _) ((List.range p.M).map (· + 1))
  exact ⟨_, this⟩

theorem sc_T_le_Z {x : Var → Rat} (hx : IsBool x) (p : SC) (ia : Nat) : p.T x ia ≤ p.Z x ia := by
  unfold SC.T SC.Z
  refine sumMap_le _ _ _ (fun m hm => ?_)
  obtain ⟨k, _, rfl⟩ := List.mem_map.mp hm
  have h1 : (1 : Rat) ≤ ((k + 1 : Nat) : Rat) := by push_cast; have : (0 : Rat) ≤ (k : Rat) := Nat.cast_nonneg k; linarith
  rcases hx (p.x ia (k + 1)) with h | h <;> rw [h]
  · simp
  · simp

theorem sc_Ylog_nonneg {x : Var → Rat} (hx : IsBool x) (p : SC) (ia : Nat) : 0 ≤ p.Ylog x ia := by
  unfold SC.Ylog
  refine sumMap_nonneg _ _ (fun m _ => ?_)
  have : (0 : Rat) < (2 : Rat) ^ m := by positivity
  rcases hx (p.x ia m) with h | h <;> rw [h] <;> linarith

/-- **lower bound of one element's penalty**, for every boolean assignment and every counter index -/
theorem sc_penalty_ge {x : Var → Rat} (hx : IsBool x) (p : SC) (a : Var) (ia : Nat) :
    p.unc x a ≤ p.elemPenalty x a ia := by
  unfold SC.unc SC.elemPenalty
  by_cases hh : p.Hit x a
  · simp only [hh, if_true]
    split <;> positivity
  · simp only [hh, if_false]
    rw [sc_X_of_not_hit hx hh]
    split
    · have := sc_Ylog_nonneg hx p ia
      nlinarith
    · obtain ⟨n, hn⟩ := sc_T_nat hx p ia
      have hz := sc_T_le_Z hx p ia
      rw [hn] at hz ⊢
      rcases Nat.eq_zero_or_pos n with h0 | hpos
      · subst h0
        have : 0 ≤ (p.Z x ia - 0) ^ 2 := by positivity
        simp only [Nat.cast_zero] at *
        linarith
      · have h1 : (1 : Rat) ≤ (n : Rat) := by exact_mod_cast hpos
        have : 0 ≤ (1 - (n : Rat)) ^ 2 := by positivity
        nlinarith

theorem sumIdx_ge (f : Var → Nat → Rat) (g : Var → Rat) (h : ∀ a i, g a ≤ f a i) (U : List Var) (i : Nat) :
    sumMap U g ≤ sumIdx f U i := by
  induction U generalizing i with
  | nil => simp [sumMap, sumIdx]
  | cons a r ih => simp only [sumMap, sumIdx]; linarith [h a i, ih (i + 1)]

/-- `Σ_α penalty_α(x) ≥ #unhit(x)` -/
theorem sc_penalties_ge {x : Var → Rat} (hx : IsBool x) (p : SC) :
    (p.uncN x : Rat) ≤ sumIdx (p.elemPenalty x) p.U 0 := by
  rw [← sc_sum_unc]
  exact sumIdx_ge _ _ (fun a i => sc_penalty_ge hx p a i) _ _

/-! ## repair: adding a set that contains an element that is not hit -/

theorem sc_hit_upd {p : SC} {x : Var → Rat} (u : Var) {a : Var} (h : p.Hit x a) : p.Hit (upd x u) a := by
  obtain ⟨i, hi, h1⟩ := h
  refine ⟨i, hi, ?_⟩
  unfold upd; split
  · rfl
  · exact h1

theorem filter_length_lt {α : Type} (l : List α) (P Q : α → Bool) (hPQ : ∀ a ∈ l, P a = true → Q a = true)
    (a : α) (ha : a ∈ l) (hQ : Q a = true) (hP : P a = false) : (l.filter P).length < (l.filter Q).length := by
  induction l with
  | nil => cases ha
  | cons b r ih =>
    have hmono : (r.filter P).length ≤ (r.filter Q).length := by
      clear ih ha
      induction r with
      | nil => simp
      | cons c s ihs =>
        have hc := hPQ c (List.mem_cons_of_mem _ List.mem_cons_self)
        have := ihs (fun d hd => hPQ d (by
          rcases List.mem_cons.mp hd with rfl | hd
          · exact List.mem_cons_self
          · exact List.mem_cons_of_mem _ (List.mem_cons_of_mem _ hd)))
        simp only [List.filter_cons]
        cases hPc : P c
        · cases hQc : Q c <;> simp <;> omega
        · simp [hc hPc]; omega
    rcases List.mem_cons.mp ha with rfl | hr
    · simp only [List.filter_cons, hQ, hP, if_true]
      simp; omega
    · have := ih (fun c hc => hPQ c (List.mem_cons_of_mem _ hc)) hr
      have hb := hPQ b List.mem_cons_self
      simp only [List.filter_cons]
      cases hPb : P b
      · cases hQb : Q b <;> simp <;> omega
      · simp [hb hPb]; omega

theorem sc_uncN_upd_lt {p : SC} {x : Var → Rat} {a : Var} (ha : a ∈ p.U) (hn : ¬ p.Hit x a) {i : Var}
    (hi : i ∈ p.filtered a 0) : p.uncN (upd x i) < p.uncN x := by
  unfold SC.uncN
  refine filter_length_lt _ _ _ (fun b _ hb => ?_) a ha (by simpa using hn) ?_
  · simp only [decide_eq_true_eq] at hb ⊢
    exact fun h => hb (sc_hit_upd i h)
  · have : p.Hit (upd x i) a := ⟨i, hi, by simp [upd]⟩
    simpa using this

/-- the cost `Σ w_i x_i` grows by at most one weight (`≤ 1`) when a set is added -/
theorem dotFrom_upd_le {x : Var → Rat} (hx : IsBool x) (u : Var) (ws : List Rat) (hw : ∀ w ∈ ws, w ≤ 1) (off : Nat) :
    dotFrom (upd x u) ws off ≤ dotFrom x ws off + 1 ∧ (u < off → dotFrom (upd x u) ws off = dotFrom x ws off) := by
  induction ws generalizing off with
  | nil => simp [dotFrom]
  | cons a r ih =>
    have ha := hw a List.mem_cons_self
    have ihr := ih (fun w h => hw w (List.mem_cons_of_mem _ h)) (off + 1)
    simp only [dotFrom]
    by_cases hu : off = u
    · subst hu
      have e := ihr.2 (Nat.lt_succ_self _)
      have h1 : upd x off off = 1 := by simp [upd]
      refine ⟨?_, fun h => absurd h (Nat.lt_irrefl _)⟩
      rw [e, h1]
      rcases hx off with h | h <;> rw [h] <;> linarith
    · have h1 : upd x u off = x off := by simp [upd, hu]
      rw [h1]
      refine ⟨by linarith [ihr.1], fun h => ?_⟩
      rw [ihr.2 (Nat.lt_succ_of_lt h)]

/-- **repair.**  Every boolean choice of sets can be completed to a cover whose weight exceeds the given one by at most
the number of elements that were not hit. -/
theorem sc_repair (p : SC) (hcov : p.Coverable) (hw : ∀ w ∈ p.weights, w ≤ 1) :
    ∀ (k : Nat) (x : Var → Rat), IsBool x → p.uncN x = k →
      ∃ y, IsBool y ∧ p.Covers y ∧ dotFrom y p.weights 0 ≤ dotFrom x p.weights 0 + (k : Rat) := by
  intro k
  induction k using Nat.strong_induction_on with
  | _ k ih =>
    intro x hx hk
    by_cases hc : p.Covers x
    · exact ⟨x, hx, hc, by have : (0 : Rat) ≤ (k : Rat) := Nat.cast_nonneg k; linarith⟩
    · obtain ⟨a, ha, hn⟩ : ∃ a, a ∈ p.U ∧ ¬ p.Hit x a := by
        by_contra h
        exact hc (fun a ha => by
          by_contra hn
          exact h ⟨a, ha, hn⟩)
      obtain ⟨i, hi⟩ := List.exists_mem_of_ne_nil _ (hcov a ha)
      have hlt := sc_uncN_upd_lt ha hn hi
      rw [hk] at hlt
      obtain ⟨y, hy, hcy, hle⟩ := ih _ hlt (upd x i) (isBool_upd hx i) rfl
      refine ⟨y, hy, hcy, ?_⟩
      have h1 := (dotFrom_upd_le hx i p.weights hw 0).1
      have h2 : ((p.uncN (upd x i) : Nat) : Rat) + 1 ≤ (k : Rat) := by exact_mod_cast hlt
      linarith

end Qv.Prob
