import Qv.Model.Brute
import Qv.Proofs.Values
import Mathlib.Data.List.Nodup
/-!
# Helper lemmas for C09, part 1: assignments, the value functions on assignment dicts, the enumeration
-/
namespace Qv.Brute
open Qv

/-- the assignment dict over exactly `vars` that agrees with the total function `g` -/
def restrict (vars : List Var) (g : Var → Rat) : Assign := vars.map (fun i => (i, g i))

/-- `g` takes its values in `(1, -1)` (spin) resp. `(0, 1)` (boolean) -/
def Dom (spin : Bool) (g : Var → Rat) : Prop := if spin then IsSpin g else IsBool g

/-- every label of every key is among `vars` -/
def Covers (p : Poly) (vars : List Var) : Prop := ∀ kv ∈ p, ∀ i ∈ kv.1, i ∈ vars

theorem Covers.tail {kv : Key × Rat} {p : Poly} {vars : List Var} (h : Covers (kv :: p) vars) :
    Covers p vars := fun kv' h' => h kv' (List.mem_cons_of_mem _ h')

theorem Covers.head {k : Key} {v : Rat} {p : Poly} {vars : List Var} (h : Covers ((k, v) :: p) vars) :
    ∀ i ∈ k, i ∈ vars := h (k, v) List.mem_cons_self

/-! ## assignment dicts -/

@[simp] theorem restrict_nil (g : Var → Rat) : restrict [] g = [] := rfl
@[simp] theorem restrict_cons (i : Var) (r : List Var) (g : Var → Rat) :
    restrict (i :: r) g = (i, g i) :: restrict r g := rfl

theorem restrict_keys (vars : List Var) (g : Var → Rat) : (restrict vars g).map Prod.fst = vars := by
  induction vars with
  | nil => rfl
  | cons i r ih => simp [ih]

theorem aget?_restrict {vars : List Var} {g : Var → Rat} {i : Var} (h : i ∈ vars) :
    aget? (restrict vars g) i = some (g i) := by
  induction vars with
  | nil => cases h
  | cons j r ih =>
    simp only [restrict_cons, aget?]
    by_cases hji : j = i
    · simp [hji]
    · simp only [hji, if_false]
      rcases List.mem_cons.mp h with h | h
      · exact absurd h.symm hji
      · exact ih h

theorem alookup_restrict {vars : List Var} {g : Var → Rat} {i : Var} (h : i ∈ vars) :
    alookup (restrict vars g) i = .ok (g i) := by
  simp [alookup, aget?_restrict h]

theorem aput_fresh {x : Assign} {i : Var} (v : Rat) (h : i ∉ x.map Prod.fst) :
    aput x i v = x ++ [(i, v)] := by
  induction x with
  | nil => rfl
  | cons p r ih =>
    obtain ⟨j, w⟩ := p
    simp only [List.map_cons, List.mem_cons, not_or] at h
    have hne : ¬ j = i := fun e => h.1 e.symm
    simp [aput, hne, ih h.2]

theorem foldl_aput (zs : List (Var × Rat)) (acc : Assign)
    (hnd : (zs.map Prod.fst).Nodup) (hdis : ∀ p ∈ zs, p.1 ∉ acc.map Prod.fst) :
    zs.foldl (fun x p => aput x p.1 p.2) acc = acc ++ zs := by
  induction zs generalizing acc with
  | nil => simp
  | cons p r ih =>
    simp only [List.map_cons, List.nodup_cons] at hnd
    simp only [List.foldl_cons]
    rw [aput_fresh p.2 (hdis p List.mem_cons_self)]
    rw [ih _ hnd.2]
    · simp
    · intro q hq
      simp only [List.map_append, List.map_cons, List.map_nil, List.mem_append, List.mem_singleton, not_or]
      refine ⟨hdis q (List.mem_cons_of_mem _ hq), ?_⟩
      intro e
      exact hnd.1 (e ▸ List.mem_map_of_mem (f := Prod.fst) hq)

theorem map_fst_zip_sublist (l₁ : List Var) (l₂ : List Rat) : ((l₁.zip l₂).map Prod.fst).Sublist l₁ := by
  induction l₁ generalizing l₂ with
  | nil => simp
  | cons a r ih =>
    cases l₂ with
    | nil => simp
    | cons b r' => simpa using ih r'

/-- on distinct labels the dict comprehension is the zip -/
theorem mkAssign_eq_zip {vars : List Var} (hnd : vars.Nodup) (vals : List Rat) :
    mkAssign vars vals = vars.zip vals := by
  unfold mkAssign
  rw [foldl_aput]
  · simp
  · exact hnd.sublist (map_fst_zip_sublist vars vals)
  · intro p _; simp

theorem zip_map_eq_restrict (vars : List Var) (g : Var → Rat) :
    vars.zip (vars.map g) = restrict vars g := by
  induction vars with
  | nil => rfl
  | cons i r ih => simp [ih]

/-! ## the value functions on assignment dicts agree with the total ones (C05) when every label is present -/

theorem allTruthyP_restrict {vars : List Var} {g : Var → Rat} {k : Key} (h : ∀ i ∈ k, i ∈ vars) :
    allTruthyP (restrict vars g) k = .ok (allTruthy g k) := by
  induction k with
  | nil => rfl
  | cons i r ih =>
    have hi := alookup_restrict (g := g) (h i List.mem_cons_self)
    have hr := ih (fun j hj => h j (List.mem_cons_of_mem _ hj))
    simp only [allTruthyP, hi, allTruthy]
    by_cases hz : g i = 0
    · simp [hz, bind, Except.bind, pure, Except.pure]
    · simp [hz, bind, Except.bind, hr]

theorem puboValueP_restrict {vars : List Var} {g : Var → Rat} {p : Poly} (h : Covers p vars) :
    puboValueP (restrict vars g) p = .ok (puboValue g p) := by
  induction p with
  | nil => rfl
  | cons kv r ih =>
    obtain ⟨k, v⟩ := kv
    simp [puboValueP, puboValue, allTruthyP_restrict h.head, ih h.tail, bind, Except.bind, pure, Except.pure]

theorem quboTermP_restrict {vars : List Var} {g : Var → Rat} {k : Key} (v : Rat) (h : ∀ i ∈ k, i ∈ vars) :
    quboTermP (restrict vars g) k v = .ok (quboTerm g k v) := by
  match k, h with
  | [], _ => rfl
  | [i], h =>
    simp [quboTermP, quboTerm, alookup_restrict (g := g) (h i (by simp)), bind, Except.bind, pure, Except.pure]
  | [i, j], h =>
    have hi := alookup_restrict (g := g) (h i (by simp))
    have hj := alookup_restrict (g := g) (h j (by simp))
    by_cases hz : g i = 0
    · simp [quboTermP, quboTerm, hi, hz, bind, Except.bind, pure, Except.pure]
    · by_cases hz' : g j = 0 <;>
        simp [quboTermP, quboTerm, hi, hj, hz, hz', bind, Except.bind, pure, Except.pure]
  | _ :: _ :: _ :: _, _ => rfl

theorem quboValueP_restrict {vars : List Var} {g : Var → Rat} {p : Poly} (h : Covers p vars) :
    quboValueP (restrict vars g) p = .ok (quboValue g p) := by
  induction p with
  | nil => rfl
  | cons kv r ih =>
    obtain ⟨k, v⟩ := kv
    simp [quboValueP, quboValue, quboTermP_restrict v h.head, ih h.tail, bind, Except.bind, pure, Except.pure]

theorem countNegP_restrict {vars : List Var} {g : Var → Rat} {k : Key} (h : ∀ i ∈ k, i ∈ vars) :
    countNegP (restrict vars g) k = .ok (countNeg g k) := by
  induction k with
  | nil => rfl
  | cons i r ih =>
    have hi := alookup_restrict (g := g) (h i List.mem_cons_self)
    have hr := ih (fun j hj => h j (List.mem_cons_of_mem _ hj))
    simp [countNegP, countNeg, hi, hr, bind, Except.bind, pure, Except.pure]

theorem pusoValueP_restrict {vars : List Var} {g : Var → Rat} {p : Poly} (h : Covers p vars) :
    pusoValueP (restrict vars g) p = .ok (pusoValue g p) := by
  induction p with
  | nil => rfl
  | cons kv r ih =>
    obtain ⟨k, v⟩ := kv
    simp [pusoValueP, pusoValue, countNegP_restrict h.head, ih h.tail, bind, Except.bind, pure, Except.pure]

theorem qusoTermP_restrict {vars : List Var} {g : Var → Rat} {k : Key} (v : Rat) (h : ∀ i ∈ k, i ∈ vars) :
    qusoTermP (restrict vars g) k v = .ok (qusoTerm g k v) := by
  match k, h with
  | [], _ => rfl
  | [i], h =>
    simp [qusoTermP, qusoTerm, alookup_restrict (g := g) (h i (by simp)), bind, Except.bind, pure, Except.pure]
  | i :: j :: r, h =>
    have hi := alookup_restrict (g := g) (h i (by simp))
    have hj := alookup_restrict (g := g) (h j (by simp))
    simp [qusoTermP, qusoTerm, hi, hj, bind, Except.bind, pure, Except.pure]

theorem qusoValueP_restrict {vars : List Var} {g : Var → Rat} {p : Poly} (h : Covers p vars) :
    qusoValueP (restrict vars g) p = .ok (qusoValue g p) := by
  induction p with
  | nil => rfl
  | cons kv r ih =>
    obtain ⟨k, v⟩ := kv
    simp [qusoValueP, qusoValue, qusoTermP_restrict v h.head, ih h.tail, bind, Except.bind, pure, Except.pure]

/-- the precondition of the degree-2 value functions (their docstrings: "will not raise an exception if
the input is not a QUBO/QUSO … will return an incorrect value") -/
def Fn.DegOK (fn : Fn) (p : Poly) : Prop :=
  match fn with
  | .pubo | .puso => True
  | .qubo | .quso => ∀ kv ∈ p, kv.1.length ≤ 2

/-- **the value function of each public solver is `eval`** on every assignment over `vars`, when `vars`
covers the labels of the keys -/
theorem Fn.valueP_restrict (fn : Fn) {vars : List Var} {g : Var → Rat} {p : Poly}
    (hc : Covers p vars) (hg : Dom fn.spin g) (hd : fn.DegOK p) :
    fn.valueP (restrict vars g) p = .ok (eval g p) := by
  cases fn with
  | pubo => simpa [Fn.valueP, puboValueP_restrict hc] using puboValue_eq_eval (by simpa [Dom, Fn.spin] using hg) p
  | qubo =>
    simpa [Fn.valueP, quboValueP_restrict hc] using
      quboValue_eq_eval (by simpa [Dom, Fn.spin] using hg) p (by simpa [Fn.DegOK] using hd)
  | puso => simpa [Fn.valueP, pusoValueP_restrict hc] using pusoValue_eq_eval (by simpa [Dom, Fn.spin] using hg) p
  | quso =>
    simpa [Fn.valueP, qusoValueP_restrict hc] using qusoValue_eq_eval g p (by simpa [Fn.DegOK] using hd)

/-! ## `itertools.product` -/

theorem mem_product {dom : List Rat} {n : Nat} {t : List Rat} :
    t ∈ product dom n ↔ t.length = n ∧ ∀ a ∈ t, a ∈ dom := by
  induction n generalizing t with
  | zero =>
    simp only [product, List.mem_singleton]
    constructor
    · rintro rfl; simp
    · rintro ⟨h, _⟩; exact List.length_eq_zero_iff.mp h
  | succ n ih =>
    simp only [product, List.mem_flatMap, List.mem_map]
    constructor
    · rintro ⟨a, ha, t', ht', rfl⟩
      obtain ⟨hl, hm⟩ := ih.mp ht'
      refine ⟨by simp [hl], ?_⟩
      intro b hb
      rcases List.mem_cons.mp hb with rfl | hb
      · exact ha
      · exact hm b hb
    · rintro ⟨hl, hm⟩
      match t, hl with
      | a :: t', hl =>
        refine ⟨a, hm a List.mem_cons_self, t', ih.mpr ⟨by simpa using hl, ?_⟩, rfl⟩
        exact fun b hb => hm b (List.mem_cons_of_mem _ hb)

theorem nodup_product {dom : List Rat} (hd : dom.Nodup) (n : Nat) : (product dom n).Nodup := by
  induction n with
  | zero => simp [product]
  | succ n ih =>
    simp only [product]
    rw [List.nodup_flatMap]
    refine ⟨fun a _ => ih.map (fun t t' h => by simpa using h), ?_⟩
    refine hd.imp ?_
    intro a b hab
    simp only [Function.onFun]
    intro t h1 h2
    obtain ⟨t1, _, rfl⟩ := List.mem_map.mp h1
    obtain ⟨t2, _, h⟩ := List.mem_map.mp h2
    exact hab (by injection h with h _; exact h.symm)

theorem nodup_domOf (spin : Bool) : (domOf spin).Nodup := by
  cases spin <;> simp [domOf]; norm_num

theorem mem_domOf_of_Dom {spin : Bool} {g : Var → Rat} (hg : Dom spin g) (i : Var) : g i ∈ domOf spin := by
  cases spin with
  | true =>
    have := (show IsSpin g by simpa [Dom] using hg) i
    simpa [domOf] using this
  | false =>
    have := (show IsBool g by simpa [Dom] using hg) i
    simpa [domOf] using this

/-! ## the enumerated assignments -/

theorem enumerate_eq {vars : List Var} (hnd : vars.Nodup) (spin : Bool) :
    enumerate spin vars = (product (domOf spin) vars.length).map (fun t => vars.zip t) := by
  unfold enumerate
  exact List.map_congr_left (fun t _ => mkAssign_eq_zip hnd t)

/-- every assignment of `vars` with values in the domain is visited … -/
theorem restrict_mem_enumerate {vars : List Var} (hnd : vars.Nodup) {spin : Bool} {g : Var → Rat}
    (hg : Dom spin g) : restrict vars g ∈ enumerate spin vars := by
  rw [enumerate_eq hnd]
  refine List.mem_map.mpr ⟨vars.map g, mem_product.mpr ⟨by simp, ?_⟩, zip_map_eq_restrict vars g⟩
  intro a ha
  obtain ⟨i, _, rfl⟩ := List.mem_map.mp ha
  exact mem_domOf_of_Dom hg i

/-- … and nothing else is -/
theorem exists_of_mem_enumerate {vars : List Var} (hnd : vars.Nodup) {spin : Bool} {a : Assign}
    (h : a ∈ enumerate spin vars) : ∃ g, Dom spin g ∧ a = restrict vars g := by
  rw [enumerate_eq hnd] at h
  obtain ⟨t, ht, rfl⟩ := List.mem_map.mp h
  obtain ⟨hl, hm⟩ := mem_product.mp ht
  -- the total function: the visited value on `vars`, a fixed domain element elsewhere
  let d : Rat := 1
  refine ⟨fun i => (aget? (vars.zip t) i).getD d, ?_, ?_⟩
  · have hd : d ∈ domOf spin := by cases spin <;> simp [domOf, d]
    have key : ∀ i, (aget? (vars.zip t) i).getD d ∈ domOf spin := by
      intro i
      have : ∀ (z : Assign), (∀ p ∈ z, p.2 ∈ domOf spin) → (aget? z i).getD d ∈ domOf spin := by
        intro z hz
        induction z with
        | nil => simpa [aget?] using hd
        | cons p r ih =>
          obtain ⟨j, w⟩ := p
          simp only [aget?]
          by_cases hji : j = i
          · simpa [hji] using hz (j, w) List.mem_cons_self
          · simpa [hji] using ih (fun q hq => hz q (List.mem_cons_of_mem _ hq))
      apply this
      intro p hp
      exact hm p.2 (List.of_mem_zip hp).2
    cases spin with
    | true =>
      show IsSpin _
      intro i; simpa [domOf] using key i
    | false =>
      show IsBool _
      intro i; simpa [domOf] using key i
  · -- `vars.zip t = restrict vars (lookup in vars.zip t)` for distinct `vars` and `|t| = |vars|`
    clear hm ht h
    induction vars generalizing t with
    | nil => simp
    | cons i r ih =>
      match t, hl with
      | w :: t', hl =>
        simp only [List.nodup_cons] at hnd
        simp only [List.zip_cons_cons, restrict_cons, aget?, if_true, Option.getD_some]
        congr 1
        refine (ih hnd.2 t' (by simpa using hl)).trans ?_
        apply List.map_congr_left
        intro j hj
        have : ¬ i = j := fun e => hnd.1 (e ▸ hj)
        simp [this]

theorem nodup_enumerate {vars : List Var} (hnd : vars.Nodup) (spin : Bool) :
    (enumerate spin vars).Nodup := by
  rw [enumerate_eq hnd]
  refine (nodup_product (nodup_domOf spin) _).map_on ?_
  intro t ht t' ht' h
  have hl := (mem_product.mp ht).1
  have hl' := (mem_product.mp ht').1
  have := congrArg (List.map Prod.snd) h
  rwa [List.map_snd_zip (by omega), List.map_snd_zip (by omega)] at this

end Qv.Brute
