import Qv.Model.KernelMem
/-!
# Qv.Proofs.KernelMem — the Hoare-style layer for the checked-memory kernels (C17)

`Ok x P` : the computation `x : M β` returns `ok a` with `P a` (no `MemErr`).  Rules for `bind`, the two loop
forms, the checked integer operations and the buffer operations (`Buf.Upto b n k p` : a live buffer of `n`
cells whose first `k` cells are initialised and satisfy `p index value`).  Core Lean only.
-/
namespace Qv.KMem

/-- `x` succeeds (no memory error) with a result satisfying `P` -/
def Ok {β : Type} (x : M β) (P : β → Prop) : Prop := ∃ a, x = .ok a ∧ P a

theorem Ok.pure {β : Type} {a : β} {P : β → Prop} (h : P a) : Ok (Pure.pure a : M β) P := ⟨a, rfl, h⟩

theorem Ok.ok {β : Type} {a : β} {P : β → Prop} (h : P a) : Ok (Except.ok a : M β) P := ⟨a, rfl, h⟩

theorem Ok.bind {β γ : Type} {x : M β} {f : β → M γ} {P : β → Prop} {Q : γ → Prop}
    (hx : Ok x P) (hf : ∀ a, P a → Ok (f a) Q) : Ok (x >>= f) Q := by
  obtain ⟨a, rfl, ha⟩ := hx
  exact hf a ha

theorem Ok.mono {β : Type} {x : M β} {P Q : β → Prop} (hx : Ok x P) (h : ∀ a, P a → Q a) : Ok x Q := by
  obtain ⟨a, e, ha⟩ := hx
  exact ⟨a, e, h a ha⟩

theorem Ok.exists {β : Type} {x : M β} {P : β → Prop} (hx : Ok x P) : ∃ a, x = .ok a := by
  obtain ⟨a, e, _⟩ := hx
  exact ⟨a, e⟩

/-! ## loops -/

theorem forFromM_ok {σ : Type} (Inv : Nat → σ → Prop) (body : Nat → σ → M σ) :
    ∀ (k a : Nat) (s : σ), Inv a s →
      (∀ i s, a ≤ i → i < a + k → Inv i s → Ok (body i s) (Inv (i + 1))) →
      Ok (forFromM body a k s) (Inv (a + k))
  | 0, a, s, h0, _ => ⟨s, rfl, by simpa using h0⟩
  | k + 1, a, s, h0, hb => by
    show Ok (body a s >>= forFromM body (a + 1) k) (Inv (a + (k + 1)))
    refine Ok.bind (hb a s (Nat.le_refl a) (by omega) h0) fun s' hs' => ?_
    have := forFromM_ok Inv body k (a + 1) s' hs' (fun i s hi hlt hI => hb i s (by omega) (by omega) hI)
    have e : a + 1 + k = a + (k + 1) := by omega
    rw [e] at this
    exact this

theorem forNM_ok {σ : Type} (Inv : Nat → σ → Prop) (n : Nat) (s : σ) (body : Nat → σ → M σ)
    (h0 : Inv 0 s) (hb : ∀ i s, i < n → Inv i s → Ok (body i s) (Inv (i + 1))) :
    Ok (forNM n s body) (Inv n) := by
  have := forFromM_ok Inv body n 0 s h0 (fun i s _ hlt hI => hb i s (by omega) hI)
  simpa [forNM] using this

/-! ## checked integer arithmetic -/

theorem chkInt_ok {x : Int} (h : -2147483648 ≤ x ∧ x ≤ 2147483647) : Ok (chkInt x) (fun y => y = x) := by
  refine ⟨x, ?_, rfl⟩
  simp [chkInt, INT_MIN, INT_MAX, h]

theorem chkLong_ok {x : Int} (h : -9223372036854775808 ≤ x ∧ x ≤ 9223372036854775807) :
    Ok (chkLong x) (fun y => y = x) := by
  refine ⟨x, ?_, rfl⟩
  simp [chkLong, LONG_MIN, LONG_MAX, h]

theorem iadd_ok {a b : Int} (h : -2147483648 ≤ a + b ∧ a + b ≤ 2147483647) : Ok (iadd a b) (fun y => y = a + b) :=
  chkInt_ok h
theorem imul_ok {a b : Int} (h : -2147483648 ≤ a * b ∧ a * b ≤ 2147483647) : Ok (imul a b) (fun y => y = a * b) :=
  chkInt_ok h
theorem ladd_ok {a b : Int} (h : -9223372036854775808 ≤ a + b ∧ a + b ≤ 9223372036854775807) :
    Ok (ladd a b) (fun y => y = a + b) := chkLong_ok h
theorem lmul_ok {a b : Int} (h : -9223372036854775808 ≤ a * b ∧ a * b ≤ 9223372036854775807) :
    Ok (lmul a b) (fun y => y = a * b) := chkLong_ok h
theorem toInt_ok {x : Int} (h : -2147483648 ≤ x ∧ x ≤ 2147483647) : Ok (toInt x) (fun y => y = x) := chkInt_ok h

/-- `i * N + j < na * N` for `i < na`, `j < N` -/
theorem flat_index_lt {i na N j : Nat} (hi : i < na) (hj : j < N) : i * N + j < na * N := by
  have : (i + 1) * N ≤ na * N := Nat.mul_le_mul_right N hi
  rw [Nat.add_mul] at this
  omega

/-! ## buffers -/

/-- a live buffer of `n` cells whose first `k` cells are initialised with values satisfying `p i v` -/
structure Buf.Upto {α : Type} (b : Buf α) (n k : Nat) (p : Nat → α → Prop) : Prop where
  live : b.live = true
  size : b.cells.size = n
  init : ∀ i, i < k → ∃ v, b.cells[i]? = some (some v) ∧ p i v

theorem Buf.Upto.weaken {α : Type} {b : Buf α} {n k k' : Nat} {p q : Nat → α → Prop} (h : b.Upto n k p)
    (hk : k' ≤ k) (hpq : ∀ i v, i < k' → p i v → q i v) : b.Upto n k' q :=
  ⟨h.live, h.size, fun i hi => by
    obtain ⟨v, e, hp⟩ := h.init i (by omega)
    exact ⟨v, e, hpq i v hi hp⟩⟩

theorem Buf.Upto.zero {α : Type} {b : Buf α} {n k : Nat} {p q : Nat → α → Prop} (h : b.Upto n k p) : b.Upto n 0 q :=
  ⟨h.live, h.size, fun i hi => by omega⟩

theorem malloc_ok {α : Type} (c : Int) (sz : Nat) (p : Nat → α → Prop) (hc : 0 ≤ c)
    (hs : c.toNat * sz ≤ 18446744073709551615) :
    Ok (malloc c sz : M (Buf α)) (fun b => b.Upto c.toNat 0 p) := by
  refine ⟨{ cells := Array.replicate c.toNat none, live := true }, ?_, rfl, by simp, fun i hi => by omega⟩
  have h1 : ¬ c < 0 := by omega
  have h2 : ¬ c.toNat * sz > SIZE_MAX := by simp [SIZE_MAX]; omega
  simp [malloc, h1, h2]

theorem malloc_nat_ok {α : Type} (N : Nat) (sz : Nat) (p : Nat → α → Prop) (hs : N * sz ≤ 18446744073709551615) :
    Ok (malloc (N : Int) sz : M (Buf α)) (fun b => b.Upto N 0 p) := by
  have := malloc_ok (α := α) (N : Int) sz p (by omega) (by simpa using hs)
  simpa using this

/-- reading a cell known to be initialised -/
theorem rd_cell {α : Type} {b : Buf α} {i : Nat} {v : α} (hl : b.live = true) (h : b.cells[i]? = some (some v)) :
    b.rd (i : Int) = .ok v := by
  have h1 : ¬ ((i : Int) < 0) := by omega
  simp [Buf.rd, hl, h1, h]

theorem rd_ok {α : Type} {b : Buf α} {n k : Nat} {p : Nat → α → Prop} (hb : b.Upto n k p) (i : Nat) (hi : i < k) :
    Ok (b.rd (i : Int)) (p i) := by
  obtain ⟨v, e, hp⟩ := hb.init i hi
  exact ⟨v, rd_cell hb.live e, hp⟩

theorem rd_int_ok {α : Type} {b : Buf α} {n k : Nat} {p : Nat → α → Prop} (hb : b.Upto n k p) (i : Int)
    (h0 : 0 ≤ i) (hi : i.toNat < k) : Ok (b.rd i) (p i.toNat) := by
  have := rd_ok hb i.toNat hi
  rwa [Int.toNat_of_nonneg h0] at this

/-- the general write rule: cell `i < n` receives `v`; afterwards the first `k'` cells (each of which is `i`
or was among the first `k`) satisfy `q` -/
theorem wr_gen {α : Type} {b : Buf α} {n k : Nat} {p q : Nat → α → Prop} (hb : b.Upto n k p) (i : Nat) (hi : i < n)
    (k' : Nat) (v : α) (hk' : ∀ m, m < k' → m = i ∨ m < k) (hv : q i v)
    (hpq : ∀ m w, m < k → m ≠ i → p m w → q m w) :
    Ok (b.wr (i : Int) v) (fun b' => b'.Upto n k' q) := by
  have hsz : i < b.cells.size := by rw [hb.size]; exact hi
  refine ⟨{ b with cells := b.cells.set i (some v) hsz }, ?_, hb.live, by simp [hb.size], ?_⟩
  · have h1 : ¬ ((i : Int) < 0) := by omega
    simp [Buf.wr, hb.live, h1, hsz]
  · intro m hm
    by_cases hmi : m = i
    · subst hmi
      exact ⟨v, by simp [hsz], hv⟩
    · have hmk : m < k := by
        rcases hk' m hm with h | h
        · exact absurd h hmi
        · exact h
      obtain ⟨w, e, hp⟩ := hb.init m hmk
      refine ⟨w, ?_, hpq m w hmk hmi hp⟩
      simp only [Array.getElem?_set]
      rw [if_neg (fun h => hmi h.symm)]
      exact e

/-- sequential fill: write cell `k` -/
theorem wr_next {α : Type} {b : Buf α} {n k : Nat} {p : Nat → α → Prop} (hb : b.Upto n k p) (hk : k < n) (v : α)
    (hv : p k v) : Ok (b.wr (k : Int) v) (fun b' => b'.Upto n (k + 1) p) :=
  wr_gen hb k hk (k + 1) v (fun _ hm => by omega) hv (fun _ _ _ _ h => h)

/-- overwrite a cell of a (partially) initialised buffer -/
theorem wr_in {α : Type} {b : Buf α} {n k : Nat} {p : Nat → α → Prop} (hb : b.Upto n k p) (i : Nat) (hi : i < n)
    (v : α) (hv : p i v) : Ok (b.wr (i : Int) v) (fun b' => b'.Upto n k p) :=
  wr_gen hb i hi k v (fun _ hm => Or.inr hm) hv (fun _ _ _ _ h => h)

/-- write at or below the fill mark -/
theorem wr_upto {α : Type} {b : Buf α} {n k : Nat} {p : Nat → α → Prop} (hb : b.Upto n k p) (i : Nat) (hi : i < n)
    (hik : i ≤ k) (v : α) (hv : p i v) : Ok (b.wr (i : Int) v) (fun b' => b'.Upto n (max k (i + 1)) p) :=
  wr_gen hb i hi (max k (i + 1)) v (fun m hm => by omega) hv (fun _ _ _ _ h => h)

theorem wr_int_in {α : Type} {b : Buf α} {n k : Nat} {p : Nat → α → Prop} (hb : b.Upto n k p) (i : Int) (h0 : 0 ≤ i)
    (hi : i.toNat < n) (v : α) (hv : p i.toNat v) : Ok (b.wr i v) (fun b' => b'.Upto n k p) := by
  have := wr_in hb i.toNat hi v hv
  rwa [Int.toNat_of_nonneg h0] at this

/-- the raw effect of a write on the cells -/
theorem wr_raw {α : Type} {b : Buf α} (hl : b.live = true) (i : Nat) (hi : i < b.cells.size) (v : α) :
    Ok (b.wr (i : Int) v) (fun b' => b'.live = true ∧ b'.cells.size = b.cells.size ∧
      b'.cells[i]? = some (some v) ∧ ∀ m, m ≠ i → b'.cells[m]? = b.cells[m]?) := by
  refine ⟨{ b with cells := b.cells.set i (some v) hi }, ?_, hl, by simp, by simp [hi], fun m hm => ?_⟩
  · have h1 : ¬ ((i : Int) < 0) := by omega
    simp [Buf.wr, hl, h1, hi]
  · simp only [Array.getElem?_set]
    rw [if_neg (fun h => hm h.symm)]

theorem free_ok {α : Type} {b : Buf α} (hl : b.live = true) :
    Ok b.free (fun b' => b'.live = false ∧ b'.cells = b.cells) :=
  ⟨{ b with live := false }, by simp [Buf.free, hl], rfl, rfl⟩

theorem realloc_ok {α : Type} {b : Buf α} (hl : b.live = true) (c : Int) (sz : Nat) (hc : 0 ≤ c)
    (hs : c.toNat * sz ≤ 18446744073709551615) :
    Ok (b.realloc c sz) (fun b' => b'.live = true ∧ b'.cells.size = c.toNat ∧
      ∀ i, i < c.toNat → b'.cells[i]? = some ((b.cells[i]?).getD none)) := by
  refine ⟨{ cells := Array.ofFn (n := c.toNat) (fun i => (b.cells[i.val]?).getD none), live := true }, ?_, rfl,
    by simp, fun i hi => by simp [hi]⟩
  have h1 : ¬ c < 0 := by omega
  have h2 : ¬ c.toNat * sz > SIZE_MAX := by simp [SIZE_MAX]; omega
  simp [Buf.realloc, hl, h1, h2]

theorem pyGet_ok {β : Type} {l : List β} {i : Nat} (h : i < l.length) :
    Ok (pyGet l i) (fun v => l[i]? = some v) := by
  refine ⟨l[i], ?_, by simp [h]⟩
  simp [pyGet, h]

/-! ## prefix sums of the segment lengths -/

/-- `Σ_{t<k} l[t]` : the value `index[k]` holds -/
def psum (l : List Int) (k : Nat) : Int := (l.take k).sum

theorem psum_zero (l : List Int) : psum l 0 = 0 := by simp [psum]

theorem psum_succ {l : List Int} {k : Nat} {v : Int} (h : l[k]? = some v) : psum l (k + 1) = psum l k + v := by
  simp [psum, List.take_add_one, h]

theorem sum_nonneg : ∀ {l : List Int}, (∀ x ∈ l, 0 ≤ x) → 0 ≤ l.sum
  | [], _ => by simp
  | a :: r, h => by
    have h1 := h a (by simp)
    have h2 := sum_nonneg (l := r) (fun x hx => h x (by simp [hx]))
    simp only [List.sum_cons]
    omega

theorem psum_bounds {l : List Int} (h : ∀ x ∈ l, 0 ≤ x) (k : Nat) : 0 ≤ psum l k ∧ psum l k ≤ l.sum := by
  have e : (l.take k).sum + (l.drop k).sum = l.sum := by
    rw [← List.sum_append_int, List.take_append_drop]
  have h1 : 0 ≤ (l.take k).sum := sum_nonneg (fun x hx => h x (List.mem_of_mem_take hx))
  have h2 : 0 ≤ (l.drop k).sum := sum_nonneg (fun x hx => h x (List.mem_of_mem_drop hx))
  unfold psum
  omega

theorem psum_all {l : List Int} {k : Nat} (h : l.length ≤ k) : psum l k = l.sum := by
  simp [psum, List.take_of_length_le h]

/-- inside segment `k` : `index[k] + j` is a valid position of the flat array -/
theorem psum_seg {l : List Int} (h : ∀ x ∈ l, 0 ≤ x) {k : Nat} {c : Int} (hk : l[k]? = some c) {j : Int}
    (hj0 : 0 ≤ j) (hj : j < c) : 0 ≤ psum l k + j ∧ psum l k + j < l.sum := by
  have h1 := psum_bounds h k
  have h2 := psum_bounds h (k + 1)
  rw [psum_succ hk] at h2
  omega

theorem mem_of_getElem? {β : Type} {l : List β} {i : Nat} {v : β} (h : l[i]? = some v) : v ∈ l := by
  obtain ⟨hi, e⟩ := List.getElem?_eq_some_iff.mp h
  exact e ▸ List.getElem_mem hi

theorem le_sum_of_mem : ∀ {l : List Int}, (∀ x ∈ l, 0 ≤ x) → ∀ x ∈ l, x ≤ l.sum
  | [], _, x, hx => by simp at hx
  | a :: r, h, x, hx => by
    have h1 := h a (by simp)
    have h2 := sum_nonneg (l := r) (fun x hx => h x (by simp [hx]))
    simp only [List.sum_cons]
    rcases List.mem_cons.mp hx with rfl | hx
    · omega
    · have := le_sum_of_mem (l := r) (fun x hx => h x (by simp [hx])) x hx
      omega

/-- spin values -/
def Spin (v : Int) : Prop := v = 1 ∨ v = -1

end Qv.KMem
