import Qv.Proofs.ProblemsMinExists
import Qv.Proofs.ProblemsJSTop
import Qv.Proofs.ProblemsGPTop
/-!
# Optimal feasible solutions exist (JobSequencing, GraphPartitioning) — by minimising the closed energy form at a weight
strictly above the threshold, whose minimisers are feasible and optimal (`js_ground_states`, `gp_ground_states`)
-/
namespace Qv.Prob
open Qv

/-- a function of finitely many coordinates has a minimiser among the `{a, b}`-valued assignments -/
theorem two_valued_min_of_list (a b : Rat) (idx : List Nat) (f : (Var → Rat) → Rat)
    (hdep : ∀ x y, (∀ i ∈ idx, x i = y i) → f x = f y) :
    ∃ x, (∀ i, x i = a ∨ x i = b) ∧ ∀ y, (∀ i, y i = a ∨ y i = b) → f x ≤ f y := by
  obtain ⟨n, hn⟩ := key_bound idx
  exact two_valued_min_exists a b n f (fun x y h => hdep x y (fun i hi => h i (hn i hi)))

/-! ## JobSequencing -/

/-- the labels the closed energy form reads -/
def JS.labels (p : JS) : List Nat :=
  p.jobs.flatMap (fun jl => (List.range p.m).map (fun w => p.x jl.1 w)) ++
  (List.range p.m).flatMap (fun w => (List.range p.maxM).map (fun n => p.y n w))

theorem js_energy_congr (p : JS) (hm1 : 1 ≤ p.m) (A B : Rat) {x y : Var → Rat} (h : ∀ i ∈ p.labels, x i = y i) :
    p.energy A B x = p.energy A B y := by
  have hx : ∀ jl ∈ p.jobs, ∀ w, w < p.m → x (p.x jl.1 w) = y (p.x jl.1 w) := by
    intro jl hjl w hw
    refine h _ (List.mem_append_left _ (List.mem_flatMap.mpr ⟨jl, hjl, List.mem_map.mpr ⟨w, List.mem_range.mpr hw, rfl⟩⟩))
  have hy : ∀ w, w < p.m → ∀ n, n < p.maxM → x (p.y n w) = y (p.y n w) := by
    intro w hw n hn
    refine h _ (List.mem_append_right _ (List.mem_flatMap.mpr ⟨w, List.mem_range.mpr hw,
      List.mem_map.mpr ⟨n, List.mem_range.mpr hn, rfl⟩⟩))
  have hS : ∀ jl ∈ p.jobs, p.S x jl.1 = p.S y jl.1 := fun jl hjl =>
    sumMap_congr _ (fun w hw => hx jl hjl w (List.mem_range.mp hw))
  have hY : ∀ w, w < p.m → p.Y x w = p.Y y w := fun w hw =>
    sumMap_congr _ (fun n hn => by rw [hy w hw n (List.mem_range.mp hn)])
  have hD : ∀ w, w < p.m → p.D x w = p.D y w := fun w hw =>
    sumMap_congr _ (fun jl hjl => by rw [hx jl hjl w hw, hx jl hjl 0 hm1])
  have e1 : sumMap p.jobs (fun jl => (1 - p.S x jl.1) ^ 2) = sumMap p.jobs (fun jl => (1 - p.S y jl.1) ^ 2) :=
    sumMap_congr p.jobs (fun jl hjl => by rw [hS jl hjl])
  have e2 : sumMap p.jobs (fun jl => jl.2 * x (p.x jl.1 0)) = sumMap p.jobs (fun jl => jl.2 * y (p.x jl.1 0)) :=
    sumMap_congr p.jobs (fun jl hjl => by rw [hx jl hjl 0 hm1])
  have e3 : sumMap ((List.range p.m).drop 1) (fun w => (p.Y x w + p.D x w) ^ 2) =
      sumMap ((List.range p.m).drop 1) (fun w => (p.Y y w + p.D y w) ^ 2) :=
    sumMap_congr _ (fun w hw => by
      have hw' : w < p.m := (js_mem_drop_one.mp hw).2
      rw [hY w hw', hD w hw'])
  unfold JS.energy
  rw [e1, e2, e3]

/-- **an optimal schedule exists**: a boolean one-hot assignment whose makespan no other one-hot assignment beats -/
theorem js_optimal_exists (p : JS) (hm : 1 ≤ p.m) (hN : p.NatLengths) (hF : p.Fits) :
    ∃ y, IsBool y ∧ p.OneHot y ∧
      ∀ y', IsBool y' → p.OneHot y' → ∃ w', w' < p.m ∧ ∀ w, w < p.m → p.load y w ≤ p.load y' w' := by
  obtain ⟨y, hy, hmin⟩ := two_valued_min_of_list 0 1 p.labels (fun x => p.energy (1 * p.maxL + 1) 1 x)
    (fun x y h => js_energy_congr p hm _ _ h)
  obtain ⟨hoh, w1, _, _, hmax, hopt⟩ := js_ground_states p (1 * p.maxL + 1) 1 hm (by norm_num) (by linarith) hN hF y hy hmin
  refine ⟨y, hy, hoh, fun y' hy' hoh' => ?_⟩
  obtain ⟨w', hw', hle⟩ := hopt y' hy' hoh'
  exact ⟨w', hw', fun w hw => le_trans (hmax w hw) hle⟩

/-- **the weak / default sentence, closed**: weight in use `≥ B · max length` (e.g. the default `A = None`): some ground
state `x'` of `to_qubo(A, B)` is one-hot, its worker `0` carries the largest load, its energy is `B ·` that makespan,
and no one-hot assignment has a smaller makespan -/
theorem js_weak_sentence (p : JS) (A : Option Rat) (B : Rat) (hm : 1 ≤ p.m) (hB : 0 ≤ B)
    (hA : B * p.maxL ≤ p.weightA A B) (hN : p.NatLengths) (hF : p.Fits) (Q : Poly) (h : p.toQubo A B = .ok Q) :
    ∃ x', IsBool x' ∧ p.OneHot x' ∧ (∀ x'', IsBool x'' → eval x' Q ≤ eval x'' Q) ∧
      eval x' Q = B * p.load x' 0 ∧ (∀ w, w < p.m → p.load x' w ≤ p.load x' 0) ∧
      ∀ y', IsBool y' → p.OneHot y' → ∃ w', w' < p.m ∧ p.load x' 0 ≤ p.load y' w' := by
  obtain ⟨y, hy, hoh, hopt⟩ := js_optimal_exists p hm hN hF
  obtain ⟨x', hx', hoh', w0, hw0, _, he, h0, hle, hg⟩ := js_default_top p A B hm hB hA hN hF Q h y hy hoh hopt
  refine ⟨x', hx', hoh', hg, by rw [he, h0], fun w hw => by rw [h0]; exact hle w hw, fun y' hy' hoh'' => ?_⟩
  obtain ⟨w', hw', hall⟩ := hopt y' hy' hoh''
  exact ⟨w', hw', by rw [h0]; exact hall w0 hw0⟩

/-! ## GraphPartitioning -/

/-- the labels the closed energy form reads -/
def GP.labels (p : GP) : List Nat :=
  List.range p.numVars ++ p.edges.flatMap (fun e => [idxD p.order e.1.1, idxD p.order e.1.2])

theorem sumTo_congr {x y : Var → Rat} (n : Nat) (h : ∀ i, i < n → x i = y i) : sumTo x n = sumTo y n := by
  induction n with
  | zero => rfl
  | succ n ih =>
    simp only [sumTo]
    rw [ih (fun i hi => h i (Nat.lt_succ_of_lt hi)), h n (Nat.lt_succ_self n)]

theorem cutSum_congr {x y : Var → Rat} (order : List Var) (B : Rat) (es : List ((Var × Var) × Rat))
    (h : ∀ e ∈ es, x (idxD order e.1.1) = y (idxD order e.1.1) ∧ x (idxD order e.1.2) = y (idxD order e.1.2)) :
    cutSum order B x es = cutSum order B y es := by
  induction es with
  | nil => rfl
  | cons e r ih =>
    obtain ⟨⟨u, v⟩, w⟩ := e
    simp only [cutSum]
    have := h ((u, v), w) List.mem_cons_self
    rw [this.1, this.2, ih (fun e he => h e (List.mem_cons_of_mem _ he))]

theorem gp_energy_congr (p : GP) (A B : Rat) {x y : Var → Rat} (h : ∀ i ∈ p.labels, x i = y i) :
    p.energy A B x = p.energy A B y := by
  unfold GP.energy GP.cutCost
  rw [sumTo_congr p.numVars (fun i hi => h i (List.mem_append_left _ (List.mem_range.mpr hi))),
    cutSum_congr p.order B p.edges (fun e he =>
      ⟨h _ (List.mem_append_right _ (List.mem_flatMap.mpr ⟨e, he, by simp⟩)),
       h _ (List.mem_append_right _ (List.mem_flatMap.mpr ⟨e, he, by simp⟩))⟩)]

/-- **an optimal balanced partition exists** (`N` even, simple graph, weights in `[0, 1]`) -/
theorem gp_optimal_exists {p : GP} (hwf : p.WF) (hu : p.UnitWeights) (hsimple : p.Simple) {B : Rat} (hB : 0 ≤ B)
    {h : Nat} (hN : p.numVars = 2 * h) :
    ∃ y, IsSpin y ∧ p.Balanced y ∧ ∀ y' : Var → Rat, IsSpin y' → p.Balanced y' → p.cutCost B y ≤ p.cutCost B y' := by
  obtain ⟨y, hy, hmin⟩ := two_valued_min_of_list 1 (-1) p.labels
    (fun z => p.energy (B * ((min (2 * p.degree) p.numVars : Nat) : Rat) / 8 + 1) B z)
    (fun x y h => gp_energy_congr p _ _ h)
  obtain ⟨hb, _, hopt⟩ := gp_ground_states hwf hu hsimple hB (by linarith) hN hy hmin
  exact ⟨y, hy, hb, hopt⟩

/-- **the weak / default sentence, closed**: weight in use `≥ B · min(2·degree, N)/8` (e.g. the default `A = None`): some
ground state of `to_quso(A, B)` is balanced, its energy is `B ·` its cut weight, and no balanced partition has a
lighter cut -/
theorem gp_weak_sentence {p : GP} (hwf : p.WF) (hu : p.UnitWeights) (hsimple : p.Simple) {A : Option Rat} {B : Rat}
    (hB : 0 ≤ B) {L : Poly} (hL : p.toQuso A B = .ok L)
    (hA : B * ((min (2 * p.degree) p.numVars : Nat) : Rat) / 8 ≤ p.weightA A B) {h : Nat} (hN : p.numVars = 2 * h) :
    ∃ y, IsSpin y ∧ p.Balanced y ∧ (∀ z : Var → Rat, IsSpin z → eval y L ≤ eval z L) ∧ eval y L = p.cutCost B y ∧
      ∀ y' : Var → Rat, IsSpin y' → p.Balanced y' → p.cutCost B y ≤ p.cutCost B y' := by
  obtain ⟨y, hy, hb, hopt⟩ := gp_optimal_exists hwf hu hsimple hB hN
  obtain ⟨hg, he⟩ := gp_default_top hwf hu hsimple hB hL hA hN hy hb hopt
  exact ⟨y, hy, hb, hg, he, hopt⟩

end Qv.Prob
