import Qv.Proofs.ReduceImpl
import Qv.Proofs.Book
import Qv.Proofs.ConvertExport
/-!
# C01 in the model's original labels

Glue between the reduction (`Qv.Reduce`), the bookkeeping invariant of C14 (`Qv.Book`: `mapping` and
`reverse_mapping` are mutually inverse bijections between the reported variables and `0..n-1`) and
`convert_solution` of C04 (`Qv.convertSolution`).
-/
namespace Qv.Reduce
open Qv

/-- what the reduction and `convert_solution` need of the bookkeeping of a model with terms `items`:
`m = mapping`, `rev = reverse_mapping`, `n = num_binary_variables`, `cdeg = degree` (cached) -/
structure BookOK (items : Poly) (m rev : Mapping) (n cdeg : Nat) : Prop where
  keys : ∀ kv ∈ items, kv.1.Nodup
  lt : ∀ i j, lookup m i = some j → (j : Nat) < n
  inj : ∀ i i' j, lookup m i = some j → lookup m i' = some j → i = i'
  dom : ∀ kv ∈ items, ∀ i ∈ kv.1, ∃ j, lookup m i = some j
  revOk : ∀ i j, lookup m i = some j → mapGet rev j = .ok i
  revInj : ∀ i j l, i < n → j < n → mapGet rev i = .ok l → mapGet rev j = .ok l → i = j
  deg : ∀ kv ∈ items, kv.1.length ≤ cdeg

/-! ### from the invariant of C14 -/

theorem lookup_eq_book (m : Mapping) (i : Var) : lookup m i = Book.lookup m i := by
  induction m with
  | nil => rfl
  | cons p r ih =>
    obtain ⟨a, b⟩ := p
    unfold lookup Book.lookup
    rw [List.find?_cons]
    by_cases h : a = i
    · simp [h]
    · have : ((a, b).1 == i) = false := by simpa using h
      simp only [h, if_false, this]
      rw [ih]; rfl

theorem mapGet_ok_mem {rev : Mapping} {i l : Var} (h : mapGet rev i = .ok l) : (i, l) ∈ rev := by
  induction rev with
  | nil => simp [mapGet] at h
  | cons p r ih =>
    obtain ⟨a, b⟩ := p
    unfold mapGet at h
    split at h
    · rename_i ha; injection h with h; subst ha h; exact List.mem_cons_self
    · exact List.mem_cons_of_mem _ (ih h)

theorem mapGet_of_mem {rev : Mapping} {i l : Var} (h : (i, l) ∈ rev) : ∃ l', mapGet rev i = .ok l' := by
  induction rev with
  | nil => cases h
  | cons p r ih =>
    obtain ⟨a, b⟩ := p
    unfold mapGet
    by_cases ha : a = i
    · exact ⟨b, by simp [ha]⟩
    · rcases List.mem_cons.mp h with e | h
      · injection e with e1 _; exact absurd e1.symm ha
      · simp only [ha, if_false]; exact ih h

theorem pair_unique_snd {m : Mapping} (h : (m.map Prod.snd).Nodup) {a b c : Var}
    (ha : (a, c) ∈ m) (hb : (b, c) ∈ m) : a = b := by
  induction m with
  | nil => cases ha
  | cons p r ih =>
    rw [List.map_cons, List.nodup_cons] at h
    rcases List.mem_cons.mp ha with ha' | ha' <;> rcases List.mem_cons.mp hb with hb' | hb'
    · rw [← ha'] at hb'; injection hb' with e _; exact e.symm
    · exfalso; apply h.1; rw [← ha']; exact List.mem_map.mpr ⟨(b, c), hb', rfl⟩
    · exfalso; apply h.1; rw [← hb']; exact List.mem_map.mpr ⟨(a, c), ha', rfl⟩
    · exact ih h.2 ha' hb'

theorem pair_unique_fst {m : Mapping} (h : (m.map Prod.fst).Nodup) {a b c : Var}
    (ha : (c, a) ∈ m) (hb : (c, b) ∈ m) : a = b := by
  induction m with
  | nil => cases ha
  | cons p r ih =>
    rw [List.map_cons, List.nodup_cons] at h
    rcases List.mem_cons.mp ha with ha' | ha' <;> rcases List.mem_cons.mp hb with hb' | hb'
    · rw [← ha'] at hb'; injection hb' with _ e; exact e.symm
    · exfalso; apply h.1; rw [← ha']; exact List.mem_map.mpr ⟨(c, b), hb', rfl⟩
    · exfalso; apply h.1; rw [← hb']; exact List.mem_map.mpr ⟨(c, a), ha', rfl⟩
    · exact ih h.2 ha' hb'

theorem ss_nodup {l : Key} (h : SSorted l) : l.Nodup := by
  induction l with
  | nil => exact List.nodup_nil
  | cons a r ih =>
    rw [List.nodup_cons]
    exact ⟨fun hm => by have := ss_head_lt h a hm; vomega, ih h.tail⟩

/-- **the bookkeeping invariant of C14 gives `BookOK`** for the labelled types (`I0`–`I3` hold along every
history of the repaired code: `Qv.C14.inv_history`) -/
theorem bookOK_of_inv (s : Book.State) (hb : Book.hasBO s.kind = true) (i0 : Book.I0 s) (i1 : Book.I1 s)
    (i2 : Book.I2 s) (i3 : Book.I3 s) :
    BookOK s.terms s.mapping s.reverse s.numVars (s.degree.getD 0) := by
  obtain ⟨m2r, r2m, ndf, nds, img, _⟩ := i2
  obtain ⟨_, _, hnext⟩ := i3 hb
  have memOf : ∀ {i j : Var}, lookup s.mapping i = some j → (i, j) ∈ s.mapping := fun h =>
    Book.lookup_some (by rw [← lookup_eq_book]; exact h)
  refine ⟨?_, ?_, ?_, ?_, ?_, ?_, ?_⟩
  · intro kv hkv
    have hk : kv.1 ∈ keys s.terms := List.mem_map.mpr ⟨kv, hkv, rfl⟩
    rcases squash_canon (i0.fixed _ hk) with hd | ⟨hs, _⟩
    · rw [hd] at hb; cases hb
    · exact ss_nodup hs
  · intro i j h
    have : j ∈ s.mapping.map Prod.snd := List.mem_map.mpr ⟨(i, j), memOf h, rfl⟩
    rw [← hnext]; exact (img j).mp this
  · intro i i' j h h'
    exact pair_unique_snd nds (memOf h) (memOf h')
  · intro kv hkv i hi
    obtain ⟨l, hl, _⟩ := Book.var_label_lt hb i1 ⟨m2r, r2m, ndf, nds, img, ‹_›⟩ i3 kv hkv i hi
    exact ⟨l, by rw [lookup_eq_book]; exact hl⟩
  · intro i j h
    have hm := memOf h
    have hr : (j, i) ∈ s.reverse := m2r (i, j) hm
    obtain ⟨l', hl'⟩ := mapGet_of_mem hr
    have : (l', j) ∈ s.mapping := r2m (j, l') (mapGet_ok_mem hl')
    rw [hl', pair_unique_snd nds this hm]
  · intro i j l _ _ hi hj
    have h1 : (l, i) ∈ s.mapping := r2m (i, l) (mapGet_ok_mem hi)
    have h2 : (l, j) ∈ s.mapping := r2m (j, l) (mapGet_ok_mem hj)
    exact pair_unique_fst ndf h1 h2
  · intro kv hkv
    obtain ⟨d, hd, hle⟩ := i1.2.1 kv hkv
    rw [hd]; exact hle

/-! ### the two clauses of the property in the original labels -/

variable {items : Poly} {m rev : Mapping} {n cdeg : Nat}

/-- the certificate of the implementation model is accepted (T1.0), under `BookOK` -/
theorem refines_of_bookOK (hB : BookOK items m rev n cdeg) {deg : Option Nat} {lam : Lam} {pairs : List Key}
    {o : Out} (h : reduceDegreeC items m n cdeg deg lam pairs = .ok o) :
    ∃ st f, mapSelf m items [] [] = .ok (o.mapped, f) ∧ replay n o.deg o.mapped o.certs = .ok st ∧
      st.D = o.D ∧ st.next = o.next := by
  obtain ⟨st, h1, h2, h3⟩ := reduceDegreeC_refines h hB.keys hB.lt hB.inj (fun _ => hB.deg)
  obtain ⟨d, hc, _⟩ := reduceDegreeC_core h
  obtain ⟨f, hm⟩ := reduceCore_mapped hc
  exact ⟨st, f, hm, h1, h2, h3⟩

theorem mfun_of_lookup {i j : Var} (h : lookup m i = some j) : mfun m i = j := by
  simp [mfun, h]

/-- the assignment of the integer labels that `x` (on the original labels) induces through `reverse_mapping` -/
def pull (rev : Mapping) (x : Var → Rat) : Var → Rat := fun j =>
  match mapGet rev j with
  | .ok l => x l
  | .error _ => 0

theorem pull_bool {x : Var → Rat} (hx : IsBool x) : IsBool (pull rev x) := by
  intro j; unfold pull
  split
  · exact hx _
  · exact Or.inl rfl

theorem eval_pull (hB : BookOK items m rev n cdeg) (x : Var → Rat) :
    eval (fun i => pull rev x (mfun m i)) items = eval x items := by
  apply eval_congr
  intro kv hkv i hi
  obtain ⟨j, hj⟩ := hB.dom kv hkv i hi
  simp only [mfun_of_lookup hj, pull, hB.revOk i j hj]

/-- `convert_solution(s)` read as an assignment agrees, on the labels of the model, with `s ∘ mapping` -/
theorem convert_fn (hB : BookOK items m rev n cdeg) {spinModel : Bool} {sol : Sol} {isDict flag : Bool}
    {a : Assign} (hc : convertSolution spinModel rev n sol isDict flag = .ok a) :
    ∀ kv ∈ items, ∀ i ∈ kv.1,
      a.fn i = ownSol spinModel (isSolutionSpin (sol.map Prod.snd) flag) sol isDict (mfun m i) := by
  intro kv hkv i hi
  obtain ⟨j, hj⟩ := hB.dom kv hkv i hi
  have hlt := hB.lt i j hj
  have hrev := hB.revOk i j hj
  obtain ⟨v, hv, ha⟩ := convertSolution_lookup hc hlt hrev
    (fun j' hj' e => hB.revInj j' j i hj' hlt e hrev)
  simp [Assign.fn, ha, ownSol, hv, mfun_of_lookup hj]

/-! ### the temporary PUBO of `PUSO._create_pubo` inherits the bookkeeping -/

theorem genS2B_mem {k : Key} {kv2 : Key × Rat} (h : kv2 ∈ genS2B k) : ∀ i ∈ kv2.1, i ∈ k := by
  induction k generalizing kv2 with
  | nil => simp [genS2B] at h; subst h; intro i hi; cases hi
  | cons a r ih =>
    simp only [genS2B, List.mem_flatMap] at h
    obtain ⟨kv, hkv, hm⟩ := h
    have := ih hkv
    simp only [List.mem_cons, List.not_mem_nil, or_false] at hm
    rcases hm with rfl | rfl
    · intro i hi
      rcases List.mem_cons.mp hi with rfl | hi
      · exact List.mem_cons_self
      · exact List.mem_cons_of_mem _ (this i hi)
    · intro i hi; exact List.mem_cons_of_mem _ (this i hi)

theorem allKeys_pusoToPubo {P : Key → Prop} {H : Poly}
    (hP : ∀ kv ∈ H, ∀ kv2 ∈ genS2B kv.1, P (squashB kv2.1)) : AllKeys P (pusoToPubo H) := by
  unfold pusoToPubo
  have inner : ∀ (v : Rat) (l acc : Poly), AllKeys P acc → (∀ kv2 ∈ l, P (squashB kv2.1)) →
      AllKeys P (l.foldl (fun P kv2 => addTermB P kv2.1 (kv2.2 * v)) acc) := by
    intro v l
    induction l with
    | nil => intro acc h _; exact h
    | cons kv2 r ih =>
      intro acc h hl
      simp only [List.foldl_cons]
      exact ih _ (allKeys_addTermB h (hl kv2 List.mem_cons_self) _)
        (fun kv' h' => hl kv' (List.mem_cons_of_mem _ h'))
  have outer : ∀ (L acc : Poly), AllKeys P acc → (∀ kv ∈ L, ∀ kv2 ∈ genS2B kv.1, P (squashB kv2.1)) →
      AllKeys P (L.foldl (fun P kv => (genS2B kv.1).foldl
        (fun P kv2 => addTermB P kv2.1 (kv2.2 * kv.2)) P) acc) := by
    intro L
    induction L with
    | nil => intro acc h _; exact h
    | cons kv r ih =>
      intro acc h hL
      simp only [List.foldl_cons]
      exact ih _ (inner kv.2 _ acc h (hL kv List.mem_cons_self))
        (fun kv' h' => hL kv' (List.mem_cons_of_mem _ h'))
  exact outer H [] (allKeys_nil _) hP

theorem degree_ge (p : Poly) : ∀ kv ∈ p, kv.1.length ≤ degree p := by
  unfold degree
  have gen : ∀ (l : Poly) (d : Nat), d ≤ l.foldl (fun d kv => max d kv.1.length) d ∧
      ∀ kv ∈ l, kv.1.length ≤ l.foldl (fun d kv => max d kv.1.length) d := by
    intro l
    induction l with
    | nil => intro d; exact ⟨Nat.le_refl _, fun _ h => by cases h⟩
    | cons a r ih =>
      intro d
      simp only [List.foldl_cons]
      obtain ⟨h1, h2⟩ := ih (max d a.1.length)
      refine ⟨Nat.le_trans (Nat.le_max_left _ _) h1, fun kv hkv => ?_⟩
      rcases List.mem_cons.mp hkv with rfl | hkv
      · exact Nat.le_trans (Nat.le_max_right _ _) h1
      · exact h2 kv hkv
  exact (gen p 0).2

/-- `P = puso_to_pubo(self)` with the PUSO's `mapping`, `reverse_mapping` and `num_binary_variables`
(`_create_pubo`, with upstream fix 77284a9), and its own exact degree -/
theorem bookOK_pubo {H : Poly} {m rev : Mapping} {n cdeg : Nat} (hB : BookOK H m rev n cdeg) :
    BookOK (pusoToPubo H) m rev n (degree (pusoToPubo H)) := by
  have hk : AllKeys (fun k => SSorted k ∧ ∀ i ∈ k, ∃ j, lookup m i = some j) (pusoToPubo H) :=
    allKeys_pusoToPubo (fun kv hkv kv2 hkv2 =>
      ⟨squashB_sorted _, fun i hi => hB.dom kv hkv i (genS2B_mem hkv2 i (mem_squashB hi))⟩)
  exact ⟨fun kv hkv => ss_nodup (hk kv hkv).1, hB.lt, hB.inj, fun kv hkv => (hk kv hkv).2, hB.revOk,
    hB.revInj, degree_ge _⟩

end Qv.Reduce
