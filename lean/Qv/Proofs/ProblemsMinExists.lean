import Qv.Proofs.Basic
/-!
# Every term list has a boolean ground state and a spin ground state

`eval x Q` depends on finitely many labels, and there are finitely many `{a, b}`-valued assignments of them; so a
minimiser exists.  Used to turn "every ground state …" into "the ground energy is attained by …" for the problem classes.
-/
namespace Qv.Prob
open Qv

theorem mon_congr {x y : Var → Rat} (k : Key) (h : ∀ i ∈ k, x i = y i) : mon x k = mon y k := by
  induction k with
  | nil => rfl
  | cons a r ih =>
    simp only [mon_cons]
    rw [h a List.mem_cons_self, ih (fun i hi => h i (List.mem_cons_of_mem _ hi))]

theorem eval_congr_lt {x y : Var → Rat} (Q : Poly) (n : Nat) (hn : ∀ kv ∈ Q, ∀ i ∈ kv.1, i < n)
    (h : ∀ i, i < n → x i = y i) : eval x Q = eval y Q := by
  induction Q with
  | nil => rfl
  | cons kv r ih =>
    obtain ⟨k, v⟩ := kv
    simp only [eval_cons]
    rw [mon_congr k (fun i hi => h i (hn (k, v) List.mem_cons_self i hi)),
      ih (fun kv hkv => hn kv (List.mem_cons_of_mem _ hkv))]

theorem key_bound (k : Key) : ∃ n, ∀ i ∈ k, i < n := by
  induction k with
  | nil => exact ⟨0, fun i hi => by cases hi⟩
  | cons a r ih =>
    obtain ⟨n, hn⟩ := ih
    refine ⟨max (a + 1) n, fun i hi => ?_⟩
    rcases List.mem_cons.mp hi with rfl | hr
    · exact Nat.lt_of_lt_of_le (Nat.lt_succ_self _) (Nat.le_max_left _ _)
    · exact Nat.lt_of_lt_of_le (hn i hr) (Nat.le_max_right _ _)

theorem poly_bound (Q : Poly) : ∃ n, ∀ kv ∈ Q, ∀ i ∈ kv.1, i < n := by
  induction Q with
  | nil => exact ⟨0, fun kv hkv => by cases hkv⟩
  | cons kv r ih =>
    obtain ⟨n, hn⟩ := ih
    obtain ⟨m, hm⟩ := key_bound kv.1
    refine ⟨max m n, fun kv' hkv' i hi => ?_⟩
    rcases List.mem_cons.mp hkv' with rfl | hr
    · exact Nat.lt_of_lt_of_le (hm i hi) (Nat.le_max_left _ _)
    · exact Nat.lt_of_lt_of_le (hn kv' hr i hi) (Nat.le_max_right _ _)

/-- overwrite position `n` -/
def setAt (x : Var → Rat) (n : Nat) (v : Rat) : Var → Rat := fun i => if i = n then v else x i

/-- a function of the first `n` coordinates has a minimiser among the `{a, b}`-valued assignments -/
theorem two_valued_min_exists (a b : Rat) (n : Nat) :
    ∀ (f : (Var → Rat) → Rat), (∀ x y, (∀ i, i < n → x i = y i) → f x = f y) →
      ∃ x, (∀ i, x i = a ∨ x i = b) ∧ ∀ y, (∀ i, y i = a ∨ y i = b) → f x ≤ f y := by
  induction n with
  | zero =>
    intro f hdep
    exact ⟨fun _ => a, fun _ => Or.inl rfl, fun y _ => le_of_eq (hdep _ _ (fun i hi => absurd hi (Nat.not_lt_zero i)))⟩
  | succ n ih =>
    intro f hdep
    have dep : ∀ v, ∀ x y, (∀ i, i < n → x i = y i) → f (setAt x n v) = f (setAt y n v) := by
      intro v x y h
      refine hdep _ _ (fun i hi => ?_)
      unfold setAt
      by_cases hin : i = n
      · simp [hin]
      · simp only [hin, if_false]
        exact h i (Nat.lt_of_le_of_ne (Nat.le_of_lt_succ hi) hin)
    obtain ⟨xa, hxa, mina⟩ := ih (fun x => f (setAt x n a)) (dep a)
    obtain ⟨xb, hxb, minb⟩ := ih (fun x => f (setAt x n b)) (dep b)
    have vals : ∀ (x : Var → Rat) (v : Rat), (∀ i, x i = a ∨ x i = b) → (v = a ∨ v = b) →
        ∀ i, setAt x n v i = a ∨ setAt x n v i = b := by
      intro x v hx hv i
      unfold setAt
      split
      · exact hv
      · exact hx i
    have self : ∀ y : Var → Rat, setAt y n (y n) = y := by
      intro y; funext i; unfold setAt; split
      · rename_i h; rw [h]
      · rfl
    have ea : ∀ y : Var → Rat, y n = a → setAt y n a = y := fun y h => by rw [← h]; exact self y
    have eb : ∀ y : Var → Rat, y n = b → setAt y n b = y := fun y h => by rw [← h]; exact self y
    by_cases hle : f (setAt xa n a) ≤ f (setAt xb n b)
    · refine ⟨setAt xa n a, vals xa a hxa (Or.inl rfl), fun y hy => ?_⟩
      rcases hy n with h | h
      · have := mina y hy
        rw [ea y h] at this
        exact this
      · have := minb y hy
        rw [eb y h] at this
        exact le_trans hle this
    · have hle' : f (setAt xb n b) ≤ f (setAt xa n a) := le_of_lt (not_le.mp hle)
      refine ⟨setAt xb n b, vals xb b hxb (Or.inr rfl), fun y hy => ?_⟩
      rcases hy n with h | h
      · have := mina y hy
        rw [ea y h] at this
        exact le_trans hle' this
      · have := minb y hy
        rw [eb y h] at this
        exact this

/-- every QUBO / PUBO term list has a boolean ground state -/
theorem exists_ground_bool (Q : Poly) : ∃ x, IsBool x ∧ ∀ y, IsBool y → eval x Q ≤ eval y Q := by
  obtain ⟨n, hn⟩ := poly_bound Q
  exact two_valued_min_exists 0 1 n (fun x => eval x Q) (fun x y h => eval_congr_lt Q n hn h)

/-- every QUSO / PUSO term list has a spin ground state -/
theorem exists_ground_spin (L : Poly) : ∃ z, IsSpin z ∧ ∀ y, IsSpin y → eval z L ≤ eval y L := by
  obtain ⟨n, hn⟩ := poly_bound L
  exact two_valued_min_exists 1 (-1) n (fun x => eval x L) (fun x y h => eval_congr_lt L n hn h)

end Qv.Prob
