import Qv.Model.Arith
import Qv.Model.Pcbo
/-!
# Qv.Model.Book — bookkeeping of the ten model types under edit histories (C14)

Mirrors, in the order the MRO executes them,

* `BO.__init__`, `BO.__setitem__`                     (`qubovert/utils/_bo_parentclass.py:44-55, 204-225`)
* `PUBOMatrix.__init__/refresh/clear/__setitem__`, the properties `degree`, `variables`,
  `num_binary_variables`, `max_index`                  (`qubovert/utils/_pubomatrix.py:136-205, 362-386`)
* `DictArithmetic.__init__/__setitem__/copy/update/__iadd__/__isub__/__imul__/__ipow__/__itruediv__`
                                                       (`qubovert/utils/_dict_arithmetic.py:127-147, 246-300, 350-668`)
* `PCBO.__init__/update/_next_ancilla`, `PCSO.add_constraint_*` wrappers, `PUSO._create_pubo`
                                                       (`qubovert/_pcbo.py:410-549`, `_pcso.py`, `_puso.py:159-172`)

`__setitem__` of the six labelled types (`QUBO, QUSO, PUBO, PUSO, PCBO, PCSO`, MRO
`[cls, BO, Conversions, <X>Matrix…, PUBOMatrix, DictArithmetic, dict]`):
`BO.__setitem__` calls `super().__setitem__` = `PUBOMatrix.__setitem__` (squash the key, *if the value is
non-zero* raise the cached degree and register the squashed key's labels in `_variables`), which calls
`DictArithmetic.__setitem__` (store, or pop when the value is zero); back in `BO.__setitem__` **every label of
the raw key** is given the next integer if it has none.  The four `*Matrix` types have no `BO` part.

The model is parameterised by `Fix`: `Fix.current` is the code as it is; the three flags switch on the
repairs proposed for the defects D1 (`BO.__setitem__` registers unstored labels), D2 (`*=` by a dict re-runs
`PCBO.__init__`) and D9 (`PUSO._create_pubo` starts ancillas at the temporary PUBO's variable count).

Core Lean only.  Everything lives in `Qv.Book`.
-/
namespace Qv.Book
open Qv

/-- which of the proposed repairs are switched on -/
structure Fix where
  d1 : Bool := false
  d2 : Bool := false
  d9 : Bool := false
  /-- 0d891c4: `PCBO/PCSO.__round__` copies the ancilla counter -/
  dr : Bool := false
  /-- 1495eb6 (D10): `PCBO/PCSO.update(model)` raises the ancilla counter to the argument's -/
  d10 : Bool := false
  deriving DecidableEq, Repr, Inhabited

/-- the code before all repairs -/
def Fix.current : Fix := {}
/-- **the code as it is now**: 67e6723 (D1), 8d2eba8 (D2), 77284a9 (D9), 0d891c4 (round), 1495eb6 (D10) applied -/
def Fix.fixed : Fix := { d1 := true, d2 := true, d9 := true, dr := true, d10 := true }

structure State where
  kind : Kind
  terms : Poly := []
  mapping : List (Var × Nat) := []        -- `_mapping`, insertion order
  reverse : List (Nat × Var) := []        -- `_reverse_mapping`
  nextLabel : Nat := 0                    -- `_next_label`
  variables : List Var := []              -- `_variables` (a set; here in order of first registration)
  numVars : Nat := 0                      -- `_num_binary_variables`
  degree : Option Nat := none             -- `_degree`; `none` is `-inf`
  ancilla : Nat := 0                      -- `_ancilla`
  constraints : List (Rel × Poly) := []   -- `_constraints`, in append order
  deriving DecidableEq, Repr, Inhabited

/-- the labelled types (those with `BO` in their MRO) -/
def hasBO (κ : Kind) : Bool := !κ.isMatrix && κ != .dict
/-- the constrained types -/
def hasCons (κ : Kind) : Bool := κ == .pcbo || κ == .pcso

/-- `cls()` : all `__init__`s of the MRO on no arguments -/
def init (κ : Kind) : State := { kind := κ }

/-- `max(self._degree, n)` -/
def maxDeg (d : Option Nat) (n : Nat) : Option Nat :=
  match d with
  | none => some n
  | some m => some (max m n)

/-- `if i not in self._variables: self._variables.add(i); self._num_binary_variables += 1` -/
def addVar (s : State) (i : Var) : State :=
  if s.variables.contains i then s
  else { s with variables := s.variables ++ [i], numVars := s.numVars + 1 }

/-- `dom _mapping` -/
def mapDom (s : State) : List Var := s.mapping.map Prod.fst

/-- `if i not in self._mapping: …` of `BO.__setitem__` -/
def regLabel (s : State) (i : Var) : State :=
  if (mapDom s).contains i then s
  else { s with mapping := s.mapping ++ [(i, s.nextLabel)],
                reverse := s.reverse ++ [(s.nextLabel, i)],
                nextLabel := s.nextLabel + 1 }

/-- the loop `for i in key:` of `BO.__setitem__`.  With the D1 repair only labels that are variables of
the model are registered (`if i in self._variables and i not in self._mapping`). -/
def regLabels (fx : Fix) (s : State) (k : Key) : State :=
  k.foldl (fun s i => if fx.d1 && !s.variables.contains i then s else regLabel s i) s

/-- `PUBOMatrix.__setitem__` followed by `DictArithmetic.__setitem__` -/
def matSet (s : State) (k : Key) (v : Rat) : Except Err State := do
  let k' ← squash s.kind k
  let s1 := if v = 0 then s else k'.foldl addVar { s with degree := maxDeg s.degree k'.length }
  pure { s1 with terms := set s1.terms k' v }

/-- `self[k] = v` -/
def setitem (fx : Fix) (s : State) (k : Key) (v : Rat) : Except Err State := do
  let s' ← matSet s k v
  pure (if hasBO s.kind then regLabels fx s' k else s')

inductive Aug | add | sub | mul | div
  deriving DecidableEq, Repr, Inhabited

/-- the arithmetic of `self[k] op= d` (`ZeroDivisionError` for `/= 0`) -/
def augVal (a : Aug) (old d : Rat) : Except Err Rat :=
  match a with
  | .add => .ok (old + d)
  | .sub => .ok (old - d)
  | .mul => .ok (old * d)
  | .div => if d = 0 then .error .zerodiv else .ok (old / d)

/-- `self[k] op= d` : `__getitem__` (squashes, may raise), the arithmetic, `__setitem__` -/
def augitem (fx : Fix) (s : State) (k : Key) (a : Aug) (d : Rat) : Except Err State := do
  let k' ← squash s.kind k
  let new ← augVal a (get s.terms k') d
  setitem fx s k new

/-- a Python `for` loop over mutating calls: the mutations made before an exception persist -/
def loop {α : Type} (f : State → α → Except Err State) : State → List α → State × Option Err
  | s, [] => (s, none)
  | s, a :: r =>
    match f s a with
    | .ok s' => loop f s' r
    | .error e => (s, some e)

/-- `for k, v in other.items(): self[k] += v` -/
def iaddLoop (fx : Fix) (s : State) (q : Poly) : State × Option Err :=
  loop (fun s kv => augitem fx s kv.1 .add kv.2) s q

/-- `for k, v in other.items(): self[k] -= v` -/
def isubLoop (fx : Fix) (s : State) (q : Poly) : State × Option Err :=
  loop (fun s kv => augitem fx s kv.1 .sub kv.2) s q

/-- `self.copy()` = `self.__class__(self)`: a fresh object filled by `self[key] += value` in item order;
`PCBO.__init__` then takes the argument's constraints and ancilla counter. -/
def copy (fx : Fix) (s : State) : State × Option Err :=
  let (t, e) := iaddLoop fx (init s.kind) s.terms
  ({ t with ancilla := s.ancilla, constraints := s.constraints }, e)

/-- `refresh()`: `d = self.copy(); dict.clear(self); self.__init__(d)` -/
def refresh (fx : Fix) (s : State) : State × Option Err :=
  match copy fx s with
  | (d, none) => copy fx d
  | (_, some e) => (s, some e)

/-- `clear()`: `dict.clear(self); self.__init__()` — for PCBO/PCSO this is `PCBO.__init__`, which also
resets `_ancilla` and `_constraints`. -/
def clear (s : State) : State := init s.kind

/-- the `self.clear()` inside `DictArithmetic.__imul__`; the D2 repair keeps the constraint state -/
def clearForMul (fx : Fix) (s : State) : State :=
  if fx.d2 then { init s.kind with ancilla := s.ancilla, constraints := s.constraints } else clear s

/-- the pairs visited by the double loop of `__imul__`, in order -/
def products (items q : Poly) : Poly :=
  items.flatMap (fun kv => q.map (fun kvo => (kv.1 ++ kvo.1, kv.2 * kvo.2)))

/-- `self *= other` for a dict `other` -/
def imulD (fx : Fix) (s : State) (q : Poly) : State × Option Err :=
  iaddLoop fx (clearForMul fx s) (products s.terms q)

/-- `for k in tuple(self.keys()): self[k] op= c` -/
def scaleLoop (fx : Fix) (s : State) (a : Aug) (c : Rat) : State × Option Err :=
  loop (fun s k => augitem fx s k a c) s (s.terms.map Prod.fst)

/-- `for _ in range(exponent-1): self *= old` -/
def powLoop (fx : Fix) (s : State) (old : Poly) : Nat → State × Option Err
  | 0 => (s, none)
  | n + 1 =>
    match imulD fx s old with
    | (s', none) => powLoop fx s' old n
    | r => r

/-- `self **= e` -/
def ipow (fx : Fix) (s : State) (e : Int) : State × Option Err :=
  if e ≤ 0 then (s, some .value)
  else if e = 1 then (s, none)
  else match copy fx s with
    | (old, none) => powLoop fx s old.terms (e.toNat - 1)
    | (_, some er) => (s, some er)

/-! ## constraints -/

def addTermS (p : Poly) (k : Key) (v : Rat) : Poly :=
  let k' := squashS k
  set p k' (get p k' + v)

/-- `generate_new_key_value` of `puso_to_pubo` -/
def genSB : Key → Poly
  | [] => [([], 1)]
  | a :: r => (genSB r).flatMap (fun kv => [(a :: kv.1, -2 * kv.2), (kv.1, kv.2)])

/-- `generate_new_key_value` of `pubo_to_puso` -/
def genBS : Key → Poly
  | [] => [([], 1)]
  | a :: r => (genBS r).flatMap (fun kv => [(a :: kv.1, -kv.2 / 2), (kv.1, kv.2 / 2)])

/-- `puso_to_pubo(H)` for a `PUSO` argument (result: a `PUBO`, in insertion order) -/
def pusoToPubo (h : Poly) : Poly :=
  h.foldl (fun acc kv => (genSB kv.1).foldl (fun acc2 g => addTermB acc2 g.1 (g.2 * kv.2)) acc) []

/-- `pubo_to_puso(P)` for a `PCBO` argument (result: a `PUSO`) -/
def puboToPuso (p : Poly) : Poly :=
  p.foldl (fun acc kv => (genBS kv.1).foldl (fun acc2 g => addTermS acc2 g.1 (g.2 * kv.2)) acc) []

/-- `PUSO(H)` for a raw dict -/
def constructS (d : Poly) : Poly := d.foldl (fun acc kv => addTermS acc kv.1 kv.2) []

/-- The terms a constraint adds, *in the dict order of the Python object* (the order decides the order in
which `BO.__setitem__` enumerates new labels).  `Qv.addConstraint` is order-faithful except in the branch
`le-special-or` of `_special_constraints_le_zero`, where `Qv.specialLe` builds `lam*(1 - OR(x, y))` as
`[(), x, y, xy]` while `1 - OR(x, y)` (`__rsub__`: negate, then add the constant; `OR = x + y*(1-x)`) has the
items `[x, xy, y, ()]` (`[x, ()]` when one operand absorbs the other); likewise `le-special-xley`.
Same dicts, different order. -/
def dictOrder (st : St) : Poly :=
  if st.tags.contains "le-special-or" then
    match st.terms with
    | [c, a, b, ab] => [a, ab, b, c]
    | [c, a] => [a, c]
    | t => t
  else if st.tags.contains "le-special-xley" then
    -- `lam * x * (1 - y)`: `1 - y` has the items `[y, ()]`, so the product is `[xy, x]`, not `[x, xy]`
    match st.terms with
    | [a, b] => [b, a]
    | t => t
  else st.terms

/-- What `add_constraint_<r>_zero(P, lam, log_trick, bounds)` hands to the bookkeeping: the recorded
constraint, the new ancilla counter, and the dict that is `+=`-ed to `self`.
PCBO: `Qv.addConstraint` run on an empty accumulator whose ancilla counter is `anc`
(every path of `_pcbo.py` adds to `self` exactly once, by `self += …` / `self -= …`).
PCSO (`_pcso.py`): `H = PUSO(H)`, `h = _empty_pcbo(self).add_constraint…(puso_to_pubo(H))`,
`self._ancilla = h._ancilla`, `self += pubo_to_puso(h)`. -/
def consDelta (κ : Kind) (anc : Nat) (r : Rel) (P : Poly) (lam : Rat) (lt : Bool)
    (b : Option Rat × Option Rat) : (Rel × Poly) × Nat × Poly :=
  if κ == .pcso then
    let H := constructS P
    if lam = 0 then ((r, H), anc, [])
    else
      let st := addConstraint r { anc := anc } (constructB (pusoToPubo H)) lam lt b true
      ((r, H), st.anc, puboToPuso (dictOrder st))
  else
    let Pc := constructB P
    let st := addConstraint r { anc := anc } Pc lam lt b true
    ((r, Pc), st.anc, dictOrder st)

/-! ## the ancilla discipline of the constraint generator (checked on every constraint of the correspondence) -/

/-- all labels of `k` that have the ancilla form were handed out by a counter `≤ a` -/
def KOK (a : Nat) (k : Key) : Prop := ∀ i ∈ k, ANC ≤ i → i < ANC + a

instance (a : Nat) (k : Key) : Decidable (KOK a k) := by unfold KOK; infer_instance

/-- the constraint's contribution only mentions ancilla labels below the counter it returns, and never
lowers the counter (a property of `Qv.addConstraint`, i.e. of `_pcbo.py`'s `_next_ancilla` discipline) -/
def ConsFresh (κ : Kind) (anc : Nat) (r : Rel) (P : Poly) (lam : Rat) (lt : Bool)
    (b : Option Rat × Option Rat) : Prop :=
  anc ≤ (consDelta κ anc r P lam lt b).2.1 ∧
  ∀ kv ∈ (consDelta κ anc r P lam lt b).2.2, KOK (consDelta κ anc r P lam lt b).2.1 kv.1

instance (κ : Kind) (anc : Nat) (r : Rel) (P : Poly) (lam : Rat) (lt : Bool) (b : Option Rat × Option Rat) :
    Decidable (ConsFresh κ anc r P lam lt b) := by unfold ConsFresh; infer_instance

/-- `ConsFresh` as a program (one evaluation of `consDelta`); `consFreshB_iff` in `Qv.Proofs.Book` -/
def consFreshB (κ : Kind) (anc : Nat) (r : Rel) (P : Poly) (lam : Rat) (lt : Bool)
    (b : Option Rat × Option Rat) : Bool :=
  let d := consDelta κ anc r P lam lt b
  decide (anc ≤ d.2.1) && d.2.2.all (fun kv => kv.1.all (fun i => !decide (ANC ≤ i) || decide (i < ANC + d.2.1)))

/-! ## edits -/

/-- the in-place arithmetic edits, as operands of the copying operators `H = H <op> x` -/
inductive Arith
  | addC (c : Rat) | subC (c : Rat) | mulC (c : Rat) | divC (c : Rat) | pow (e : Int)
  | addD (q : Poly) | subD (q : Poly) | mulD (q : Poly)
  deriving Repr, Inhabited

inductive Op
  | setitem (k : Key) (v : Rat)
  | augitem (k : Key) (a : Aug) (d : Rat)
  | iaddD (q : Poly)
  | isubD (q : Poly)
  | iaddC (c : Rat)
  | isubC (c : Rat)
  | imulD (q : Poly)
  | imulC (c : Rat)
  | idivC (c : Rat)
  | ipow (e : Int)
  | update (q : Poly)
  | clear
  | refresh
  | copy
  | cons (r : Rel) (P : Poly) (lam : Rat) (lt : Bool) (lo hi : Option Rat)
  -- copy-like operations: the history goes on with the *result*
  | round (nd : Option Int)            -- `H = round(H[, ndigits])`
  | subs                               -- `H = H.subs(<substitution of a symbol H does not contain>)`
  | cast (κ : Kind)                    -- `H = T(H)` for a model class `T` (`T = type(H)`: the same as `copy`)
  | bin (a : Arith)                    -- `H = H + c`, `c + H`, `H - c`, `H * c`, `c * H`, `-H`, `H / c`, `H ** e`, `H + d`, `H * d`
  | rsubC (c : Rat)                    -- `H = c - H`
  | updateM (κg : Kind) (q : Poly) (cs : List (Rel × Poly)) (a : Nat)
                                       -- `H.update(G)` for a model `G` of class `κg` with terms `q` (dict order),
                                       -- recorded constraints `cs` and ancilla counter `a`
  | remap                              -- `H.set_mapping(σ ∘ H.mapping)`, σ the reversal of `0..n-1`
  -- self-aliased operands: the other operand is the live object itself
  | iaddSelf                           -- `H += H`
  | isubSelf                           -- `H -= H`
  | imulSelf                           -- `H *= H`
  | updateSelf                         -- `H.update(H)`
  | isubCopy                           -- `H -= H.copy()` (the un-aliased control)
  deriving Repr, Inhabited

def ofExcept (s : State) : Except Err State → State × Option Err
  | .ok s' => (s', none)
  | .error e => (s, some e)

/-! ## copy-like operations -/

/-- `round(x)` of Python for `int`, `Fraction` (and `float` on dyadic values): to the nearest integer, ties to even -/
def roundHE (x : Rat) : Rat :=
  let n := x.floor
  let f := x - (n : Rat)
  if f < 1/2 then (n : Rat) else if 1/2 < f then ((n + 1 : Int) : Rat) else if n % 2 = 0 then (n : Rat) else ((n + 1 : Int) : Rat)

/-- `round(x, ndigits)` (`fractions.py`: `Fraction(round(x * 10**n), 10**n)` for `n > 0`,
`Fraction(round(x / 10**-n) * 10**-n)` otherwise) -/
def roundR (nd : Option Int) (x : Rat) : Rat :=
  match nd with
  | none => roundHE x
  | some d =>
    let sh : Rat := ((10 ^ d.natAbs : Nat) : Rat)
    if 0 < d then roundHE (x * sh) / sh else roundHE (x / sh) * sh

/-- `DictArithmetic.__round__` / `subs` followed by the PCBO overrides: `d = cls(); for k, v in self.items():
d[k] = g(v)` (item *assignment*), then `d._constraints = self.constraints`, and `d._ancilla = self._ancilla`
iff `keepAnc` (`subs` since d1f4dce, `__round__` since 0d891c4). -/
def rebuildSet (fx : Fix) (s : State) (g : Rat → Rat) (keepAnc : Bool) : State × Option Err :=
  match loop (fun st kv => setitem fx st kv.1 (g kv.2)) (init s.kind) s.terms with
  | (t, none) => ({ t with ancilla := if keepAnc then s.ancilla else 0, constraints := s.constraints }, none)
  | (_, some e) => (s, some e)

/-- `T(H)`: `T.__init__(H)` fills a fresh `T` by `self[key] += value`; `PCBO.__init__` takes constraints and
counter only from an argument of its own class.  An exception (degree-3 key into a QUBO) leaves `H` bound. -/
def cast (fx : Fix) (s : State) (κ : Kind) : State × Option Err :=
  match iaddLoop fx (init κ) s.terms with
  | (t, none) =>
    (if κ == s.kind then { t with ancilla := s.ancilla, constraints := s.constraints } else t, none)
  | (_, some e) => (s, some e)

/-- the in-place arithmetic edit `a` on `s` -/
def stepA (fx : Fix) (s : State) : Arith → State × Option Err
  | .addC c => ofExcept s (augitem fx s [] .add c)
  | .subC c => ofExcept s (augitem fx s [] .sub c)
  | .mulC c => scaleLoop fx s .mul c
  | .divC c => scaleLoop fx s .div c
  | .pow e => ipow fx s e
  | .addD q => iaddLoop fx s q
  | .subD q => isubLoop fx s q
  | .mulD q => imulD fx s q

/-- `H = H <op> x` (`__add__`, `__radd__`, `__sub__`, `__mul__`, `__rmul__`, `__neg__`, `__truediv__`, `__pow__`):
`d = self.copy(); d <op>= x; return d`.  An exception leaves `H` bound to the old object. -/
def copyThen (fx : Fix) (s : State) (f : State → State × Option Err) : State × Option Err :=
  match copy fx s with
  | (c, none) =>
    match f c with
    | (r, none) => (r, none)
    | (_, some e) => (s, some e)
  | (_, some e) => (s, some e)

/-- `PCBO.update(G)`: `DictArithmetic.update` (`self[k] = v` for the items of `G`), then — only if `G` is an
instance of `self`'s class — `G`'s recorded constraints are appended.  Before 1495eb6 the counter was left alone (D10);
now it is set to `max(self._ancilla, G._ancilla)`. -/
def updateM (fx : Fix) (s : State) (κg : Kind) (q : Poly) (cs : List (Rel × Poly)) (a : Nat) :
    State × Option Err :=
  match loop (fun st kv => setitem fx st kv.1 kv.2) s q with
  | (t, none) =>
    (if hasCons s.kind && κg == s.kind then
      { t with constraints := t.constraints ++ cs, ancilla := if fx.d10 then max t.ancilla a else t.ancilla }
     else t, none)
  | r => r

/-- `set_mapping({l: n-1-i for l, i in mapping.items()})`: a bijection of exactly the mapped labels onto the same
range; `_next_label` is not touched by `set_mapping`. -/
def remap (s : State) : State :=
  { s with mapping := s.mapping.map (fun p => (p.1, s.nextLabel - 1 - p.2)),
           reverse := s.mapping.map (fun p => (s.nextLabel - 1 - p.2, p.1)) }

/-- one edit on the live object; the second component is the exception it raised, if any -/
def step (fx : Fix) (s : State) : Op → State × Option Err
  | .setitem k v => ofExcept s (setitem fx s k v)
  | .augitem k a d => ofExcept s (augitem fx s k a d)
  | .iaddD q => iaddLoop fx s q
  | .isubD q => isubLoop fx s q
  | .iaddC c => ofExcept s (augitem fx s [] .add c)
  | .isubC c => ofExcept s (augitem fx s [] .sub c)
  | .imulD q => imulD fx s q
  | .imulC c => scaleLoop fx s .mul c
  | .idivC c => scaleLoop fx s .div c
  | .ipow e => ipow fx s e
  | .update q => loop (fun s kv => setitem fx s kv.1 kv.2) s q
  | .clear => (clear s, none)
  | .refresh => refresh fx s
  | .copy =>
    match copy fx s with
    | (c, none) => (c, none)
    | (_, some e) => (s, some e)
  | .cons r P lam lt lo hi =>
    if hasCons s.kind then
      let (rec, anc', delta) := consDelta s.kind s.ancilla r P lam lt (lo, hi)
      iaddLoop fx { s with constraints := s.constraints ++ [rec], ancilla := anc' } delta
    else (s, some .attr)
  | .round nd => rebuildSet fx s (roundR nd) (fx.dr || !hasCons s.kind)
  | .subs => rebuildSet fx s id true
  | .cast κ => cast fx s κ
  | .bin a => copyThen fx s (fun c => stepA fx c a)
  | .rsubC c =>
    match copyThen fx s (fun d => stepA fx d (.mulC (-1))) with
    | (m, none) => copyThen fx m (fun d => stepA fx d (.addC c))
    | r => r
  | .updateM κg q cs a => updateM fx s κg q cs a
  | .remap => if hasBO s.kind then (remap s, none) else (s, some .attr)
  -- `for k, v in other.items(): self[k] += v` with `other is self`: every value is read when its key is visited
  -- and replaced by its double (never zero), so the live iteration visits the items of the snapshot
  | .iaddSelf => iaddLoop fx s s.terms
  -- `for k, v in tuple(other.items()): self[k] -= v` (1dd08ee): every entry cancels and is popped; no `clear()`:
  -- the caches stay as upper bounds, the constraints and the ancilla counter stay
  | .isubSelf => isubLoop fx s s.terms
  -- `items, oitems = tuple(self.items()), tuple(other.items())` are taken before `self.clear()`
  | .imulSelf => imulD fx s s.terms
  -- `self[k] = v` with the own items (no change of the dict), then `PCBO.update` finds an argument of its own class:
  -- `self._constraints[k].extend(self._constraints[k])` doubles the recorded lists, `max(a, a)` keeps the counter
  | .updateSelf => updateM fx s s.kind s.terms s.constraints s.ancilla
  | .isubCopy =>
    match copy fx s with
    | (c, none) => isubLoop fx s c.terms
    | (_, some e) => (s, some e)

/-- a whole history on a fresh model; exceptions are caught by the caller and the history goes on -/
def run (fx : Fix) (κ : Kind) (ops : List Op) : State :=
  ops.foldl (fun s o => (step fx s o).1) (init κ)

/-- the states after each edit, with the exception raised (what the driver prints) -/
def trace (fx : Fix) (s : State) : List Op → List (State × Option Err)
  | [] => []
  | o :: r =>
    let (s', e) := step fx s o
    (s', e) :: trace fx s' r

/-! ## observations -/

/-- labels occurring in the keys of the terms, in order of first occurrence -/
def trueVars (p : Poly) : List Var :=
  p.foldl (fun acc kv => kv.1.foldl (fun a i => if a.contains i then a else a ++ [i]) acc) []

/-- the exact degree: `-inf` for no terms -/
def trueDegree (p : Poly) : Option Nat := if p.isEmpty then none else some (Qv.degree p)

/-- `self._mapping[i]` -/
def lookup (m : List (Var × Nat)) (i : Var) : Option Nat := (m.find? (fun p => p.1 == i)).map Prod.snd

/-- labels of the model variables in every enumerated / reduced form: the mapping's images of the labels
that occur in the terms (`to_qubo/to_quso/to_pubo/to_puso` relabel keys with `self._mapping[i]`, and the
boolean/spin conversions neither create nor lose a variable) -/
def convBase (s : State) : List Nat := (trueVars s.terms).filterMap (lookup s.mapping)

/-- first ancilla label of a degree reduction (`ancilla = self.num_binary_variables`, `_pubo.py:244`).
For PUSO/PCSO `self` is the temporary PUBO of `_create_pubo`, whose count is the exact one. -/
def ancStart (fx : Fix) (s : State) : Nat :=
  if s.kind.isSpin && !fx.d9 then (trueVars s.terms).length else s.numVars

/-- `max_index` : `num_binary_variables - 1` for the labelled types, `max(variables)` or `None` for matrices -/
def maxIndex (s : State) : Option Int :=
  if hasBO s.kind then some ((s.numVars : Int) - 1)
  else match s.variables with
    | [] => none
    | a :: r => some ((r.foldl max a : Nat) : Int)

end Qv.Book
