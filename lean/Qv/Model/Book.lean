import Qv.Model.Arith
import Qv.Model.Pcbo
/-!
# Qv.Model.Book — bookkeeping of the ten model types under edit histories (C14)

Mirrors, in the order the MRO executes them,

* `BO.__init__`, `BO.__setitem__`                     (`qubovert/utils/_bo_parentclass.py:44-55, 204-225`)
* `PUBOMatrix.__init__/refresh/clear/__setitem__`, the properties `degree`, `variables`,
  `num_binary_variables`, `max_index`                  (`qubovert/utils/_pubomatrix.py:136-205, 362-386`)
* `DictArithmetic.__init__/__setitem__/copy/update/__iadd__/__isub__/__imul__/__ipow__/__itruediv__`
                                                       (`qubovert/utils/_dict_arithmetic.py:127-147, 246-300, 350-668`)
* `PCBO.__init__/update/_next_ancilla`, `PCSO.add_constraint_*` wrappers, `PUSO._create_pubo`
                                                       (`qubovert/_pcbo.py:410-549`, `_pcso.py`, `_puso.py:159-172`)

`__setitem__` of the six labelled types (`QUBO, QUSO, PUBO, PUSO, PCBO, PCSO`, MRO
`[cls, BO, Conversions, <X>Matrix…, PUBOMatrix, DictArithmetic, dict]`):
`BO.__setitem__` calls `super().__setitem__` = `PUBOMatrix.__setitem__` (squash the key, *if the value is
non-zero* raise the cached degree and register the squashed key's labels in `_variables`), which calls
`DictArithmetic.__setitem__` (store, or pop when the value is zero); back in `BO.__setitem__` **every label of
the raw key** is given the next integer if it has none.  The four `*Matrix` types have no `BO` part.

The model is parameterised by `Fix`: `Fix.current` is the code as it is; the three flags switch on the
repairs proposed for the defects D1 (`BO.__setitem__` registers unstored labels), D2 (`*=` by a dict re-runs
`PCBO.__init__`) and D9 (`PUSO._create_pubo` starts ancillas at the temporary PUBO's variable count).

Core Lean only.  Everything lives in `Qv.Book`.
-/
namespace Qv.Book
open Qv

/-- which of the proposed repairs are switched on -/
structure Fix where
  d1 : Bool := false
  d2 : Bool := false
  d9 : Bool := false
  deriving DecidableEq, Repr, Inhabited

def Fix.current : Fix := {}
def Fix.fixed : Fix := { d1 := true, d2 := true, d9 := true }

structure State where
  kind : Kind
  terms : Poly := []
  mapping : List (Var × Nat) := []        -- `_mapping`, insertion order
  reverse : List (Nat × Var) := []        -- `_reverse_mapping`
  nextLabel : Nat := 0                    -- `_next_label`
  variables : List Var := []              -- `_variables` (a set; here in order of first registration)
  numVars : Nat := 0                      -- `_num_binary_variables`
  degree : Option Nat := none             -- `_degree`; `none` is `-inf`
  ancilla : Nat := 0                      -- `_ancilla`
  constraints : List (Rel × Poly) := []   -- `_constraints`, in append order
  deriving DecidableEq, Repr, Inhabited

/-- the labelled types (those with `BO` in their MRO) -/
def hasBO (κ : Kind) : Bool := !κ.isMatrix && κ != .dict
/-- the constrained types -/
def hasCons (κ : Kind) : Bool := κ == .pcbo || κ == .pcso

/-- `cls()` : all `__init__`s of the MRO on no arguments -/
def init (κ : Kind) : State := { kind := κ }

/-- `max(self._degree, n)` -/
def maxDeg (d : Option Nat) (n : Nat) : Option Nat :=
  match d with
  | none => some n
  | some m => some (max m n)

/-- `if i not in self._variables: self._variables.add(i); self._num_binary_variables += 1` -/
def addVar (s : State) (i : Var) : State :=
  if s.variables.contains i then s
  else { s with variables := s.variables ++ [i], numVars := s.numVars + 1 }

/-- `dom _mapping` -/
def mapDom (s : State) : List Var := s.mapping.map Prod.fst

/-- `if i not in self._mapping: …` of `BO.__setitem__` -/
def regLabel (s : State) (i : Var) : State :=
  if (mapDom s).contains i then s
  else { s with mapping := s.mapping ++ [(i, s.nextLabel)],
                reverse := s.reverse ++ [(s.nextLabel, i)],
                nextLabel := s.nextLabel + 1 }

/-- the loop `for i in key:` of `BO.__setitem__`.  With the D1 repair only labels that are variables of
the model are registered (`if i in self._variables and i not in self._mapping`). -/
def regLabels (fx : Fix) (s : State) (k : Key) : State :=
  k.foldl (fun s i => if fx.d1 && !s.variables.contains i then s else regLabel s i) s

/-- `PUBOMatrix.__setitem__` followed by `DictArithmetic.__setitem__` -/
def matSet (s : State) (k : Key) (v : Rat) : Except Err State := do
  let k' ← squash s.kind k
  let s1 := if v = 0 then s else k'.foldl addVar { s with degree := maxDeg s.degree k'.length }
  pure { s1 with terms := set s1.terms k' v }

/-- `self[k] = v` -/
def setitem (fx : Fix) (s : State) (k : Key) (v : Rat) : Except Err State := do
  let s' ← matSet s k v
  pure (if hasBO s.kind then regLabels fx s' k else s')

inductive Aug | add | sub | mul | div
  deriving DecidableEq, Repr, Inhabited

/-- the arithmetic of `self[k] op= d` (`ZeroDivisionError` for `/= 0`) -/
def augVal (a : Aug) (old d : Rat) : Except Err Rat :=
  match a with
  | .add => .ok (old + d)
  | .sub => .ok (old - d)
  | .mul => .ok (old * d)
  | .div => if d = 0 then .error .zerodiv else .ok (old / d)

/-- `self[k] op= d` : `__getitem__` (squashes, may raise), the arithmetic, `__setitem__` -/
def augitem (fx : Fix) (s : State) (k : Key) (a : Aug) (d : Rat) : Except Err State := do
  let k' ← squash s.kind k
  let new ← augVal a (get s.terms k') d
  setitem fx s k new

/-- a Python `for` loop over mutating calls: the mutations made before an exception persist -/
def loop {α : Type} (f : State → α → Except Err State) : State → List α → State × Option Err
  | s, [] => (s, none)
  | s, a :: r =>
    match f s a with
    | .ok s' => loop f s' r
    | .error e => (s, some e)

/-- `for k, v in other.items(): self[k] += v` -/
def iaddLoop (fx : Fix) (s : State) (q : Poly) : State × Option Err :=
  loop (fun s kv => augitem fx s kv.1 .add kv.2) s q

/-- `for k, v in other.items(): self[k] -= v` -/
def isubLoop (fx : Fix) (s : State) (q : Poly) : State × Option Err :=
  loop (fun s kv => augitem fx s kv.1 .sub kv.2) s q

/-- `self.copy()` = `self.__class__(self)`: a fresh object filled by `self[key] += value` in item order;
`PCBO.__init__` then takes the argument's constraints and ancilla counter. -/
def copy (fx : Fix) (s : State) : State × Option Err :=
  let (t, e) := iaddLoop fx (init s.kind) s.terms
  ({ t with ancilla := s.ancilla, constraints := s.constraints }, e)

/-- `refresh()`: `d = self.copy(); dict.clear(self); self.__init__(d)` -/
def refresh (fx : Fix) (s : State) : State × Option Err :=
  match copy fx s with
  | (d, none) => copy fx d
  | (_, some e) => (s, some e)

/-- `clear()`: `dict.clear(self); self.__init__()` — for PCBO/PCSO this is `PCBO.__init__`, which also
resets `_ancilla` and `_constraints`. -/
def clear (s : State) : State := init s.kind

/-- the `self.clear()` inside `DictArithmetic.__imul__`; the D2 repair keeps the constraint state -/
def clearForMul (fx : Fix) (s : State) : State :=
  if fx.d2 then { init s.kind with ancilla := s.ancilla, constraints := s.constraints } else clear s

/-- the pairs visited by the double loop of `__imul__`, in order -/
def products (items q : Poly) : Poly :=
  items.flatMap (fun kv => q.map (fun kvo => (kv.1 ++ kvo.1, kv.2 * kvo.2)))

/-- `self *= other` for a dict `other` -/
def imulD (fx : Fix) (s : State) (q : Poly) : State × Option Err :=
  iaddLoop fx (clearForMul fx s) (products s.terms q)

/-- `for k in tuple(self.keys()): self[k] op= c` -/
def scaleLoop (fx : Fix) (s : State) (a : Aug) (c : Rat) : State × Option Err :=
  loop (fun s k => augitem fx s k a c) s (s.terms.map Prod.fst)

/-- `for _ in range(exponent-1): self *= old` -/
def powLoop (fx : Fix) (s : State) (old : Poly) : Nat → State × Option Err
  | 0 => (s, none)
  | n + 1 =>
    match imulD fx s old with
    | (s', none) => powLoop fx s' old n
    | r => r

/-- `self **= e` -/
def ipow (fx : Fix) (s : State) (e : Int) : State × Option Err :=
  if e ≤ 0 then (s, some .value)
  else if e = 1 then (s, none)
  else match copy fx s with
    | (old, none) => powLoop fx s old.terms (e.toNat - 1)
    | (_, some er) => (s, some er)

/-! ## constraints -/

def addTermS (p : Poly) (k : Key) (v : Rat) : Poly :=
  let k' := squashS k
  set p k' (get p k' + v)

/-- `generate_new_key_value` of `puso_to_pubo` -/
def genSB : Key → Poly
  | [] => [([], 1)]
  | a :: r => (genSB r).flatMap (fun kv => [(a :: kv.1, -2 * kv.2), (kv.1, kv.2)])

/-- `generate_new_key_value` of `pubo_to_puso` -/
def genBS : Key → Poly
  | [] => [([], 1)]
  | a :: r => (genBS r).flatMap (fun kv => [(a :: kv.1, -kv.2 / 2), (kv.1, kv.2 / 2)])

/-- `puso_to_pubo(H)` for a `PUSO` argument (result: a `PUBO`, in insertion order) -/
def pusoToPubo (h : Poly) : Poly :=
  h.foldl (fun acc kv => (genSB kv.1).foldl (fun acc2 g => addTermB acc2 g.1 (g.2 * kv.2)) acc) []

/-- `pubo_to_puso(P)` for a `PCBO` argument (result: a `PUSO`) -/
def puboToPuso (p : Poly) : Poly :=
  p.foldl (fun acc kv => (genBS kv.1).foldl (fun acc2 g => addTermS acc2 g.1 (g.2 * kv.2)) acc) []

/-- `PUSO(H)` for a raw dict -/
def constructS (d : Poly) : Poly := d.foldl (fun acc kv => addTermS acc kv.1 kv.2) []

/-- The terms a constraint adds, *in the dict order of the Python object* (the order decides the order in
which `BO.__setitem__` enumerates new labels).  `Qv.addConstraint` is order-faithful except in the branch
`le-special-or` of `_special_constraints_le_zero`, where `Qv.specialLe` builds `lam*(1 - OR(x, y))` as
`[(), x, y, xy]` while `1 - OR(x, y)` (`__rsub__`: negate, then add the constant; `OR = x + y*(1-x)`) has the
items `[x, xy, y, ()]` (`[x, ()]` when one operand absorbs the other); likewise `le-special-xley`.
Same dicts, different order. -/
def dictOrder (st : St) : Poly :=
  if st.tags.contains "le-special-or" then
    match st.terms with
    | [c, a, b, ab] => [a, ab, b, c]
    | [c, a] => [a, c]
    | t => t
  else if st.tags.contains "le-special-xley" then
    -- `lam * x * (1 - y)`: `1 - y` has the items `[y, ()]`, so the product is `[xy, x]`, not `[x, xy]`
    match st.terms with
    | [a, b] => [b, a]
    | t => t
  else st.terms

/-- What `add_constraint_<r>_zero(P, lam, log_trick, bounds)` hands to the bookkeeping: the recorded
constraint, the new ancilla counter, and the dict that is `+=`-ed to `self`.
PCBO: `Qv.addConstraint` run on an empty accumulator whose ancilla counter is `anc`
(every path of `_pcbo.py` adds to `self` exactly once, by `self += …` / `self -= …`).
PCSO (`_pcso.py`): `H = PUSO(H)`, `h = _empty_pcbo(self).add_constraint…(puso_to_pubo(H))`,
`self._ancilla = h._ancilla`, `self += pubo_to_puso(h)`. -/
def consDelta (κ : Kind) (anc : Nat) (r : Rel) (P : Poly) (lam : Rat) (lt : Bool)
    (b : Option Rat × Option Rat) : (Rel × Poly) × Nat × Poly :=
  if κ == .pcso then
    let H := constructS P
    if lam = 0 then ((r, H), anc, [])
    else
      let st := addConstraint r { anc := anc } (constructB (pusoToPubo H)) lam lt b true
      ((r, H), st.anc, puboToPuso (dictOrder st))
  else
    let Pc := constructB P
    let st := addConstraint r { anc := anc } Pc lam lt b true
    ((r, Pc), st.anc, dictOrder st)

/-! ## the ancilla discipline of the constraint generator (checked on every constraint of the correspondence) -/

/-- all labels of `k` that have the ancilla form were handed out by a counter `≤ a` -/
def KOK (a : Nat) (k : Key) : Prop := ∀ i ∈ k, ANC ≤ i → i < ANC + a

instance (a : Nat) (k : Key) : Decidable (KOK a k) := by unfold KOK; infer_instance

/-- the constraint's contribution only mentions ancilla labels below the counter it returns, and never
lowers the counter (a property of `Qv.addConstraint`, i.e. of `_pcbo.py`'s `_next_ancilla` discipline) -/
def ConsFresh (κ : Kind) (anc : Nat) (r : Rel) (P : Poly) (lam : Rat) (lt : Bool)
    (b : Option Rat × Option Rat) : Prop :=
  anc ≤ (consDelta κ anc r P lam lt b).2.1 ∧
  ∀ kv ∈ (consDelta κ anc r P lam lt b).2.2, KOK (consDelta κ anc r P lam lt b).2.1 kv.1

instance (κ : Kind) (anc : Nat) (r : Rel) (P : Poly) (lam : Rat) (lt : Bool) (b : Option Rat × Option Rat) :
    Decidable (ConsFresh κ anc r P lam lt b) := by unfold ConsFresh; infer_instance

/-- `ConsFresh` as a program (one evaluation of `consDelta`); `consFreshB_iff` in `Qv.Proofs.Book` -/
def consFreshB (κ : Kind) (anc : Nat) (r : Rel) (P : Poly) (lam : Rat) (lt : Bool)
    (b : Option Rat × Option Rat) : Bool :=
  let d := consDelta κ anc r P lam lt b
  decide (anc ≤ d.2.1) && d.2.2.all (fun kv => kv.1.all (fun i => !decide (ANC ≤ i) || decide (i < ANC + d.2.1)))

/-! ## edits -/

inductive Op
  | setitem (k : Key) (v : Rat)
  | augitem (k : Key) (a : Aug) (d : Rat)
  | iaddD (q : Poly)
  | isubD (q : Poly)
  | iaddC (c : Rat)
  | isubC (c : Rat)
  | imulD (q : Poly)
  | imulC (c : Rat)
  | idivC (c : Rat)
  | ipow (e : Int)
  | update (q : Poly)
  | clear
  | refresh
  | copy
  | cons (r : Rel) (P : Poly) (lam : Rat) (lt : Bool) (lo hi : Option Rat)
  deriving Repr, Inhabited

def ofExcept (s : State) : Except Err State → State × Option Err
  | .ok s' => (s', none)
  | .error e => (s, some e)

/-- one edit on the live object; the second component is the exception it raised, if any -/
def step (fx : Fix) (s : State) : Op → State × Option Err
  | .setitem k v => ofExcept s (setitem fx s k v)
  | .augitem k a d => ofExcept s (augitem fx s k a d)
  | .iaddD q => iaddLoop fx s q
  | .isubD q => isubLoop fx s q
  | .iaddC c => ofExcept s (augitem fx s [] .add c)
  | .isubC c => ofExcept s (augitem fx s [] .sub c)
  | .imulD q => imulD fx s q
  | .imulC c => scaleLoop fx s .mul c
  | .idivC c => scaleLoop fx s .div c
  | .ipow e => ipow fx s e
  | .update q => loop (fun s kv => setitem fx s kv.1 kv.2) s q
  | .clear => (clear s, none)
  | .refresh => refresh fx s
  | .copy =>
    match copy fx s with
    | (c, none) => (c, none)
    | (_, some e) => (s, some e)
  | .cons r P lam lt lo hi =>
    if hasCons s.kind then
      let (rec, anc', delta) := consDelta s.kind s.ancilla r P lam lt (lo, hi)
      iaddLoop fx { s with constraints := s.constraints ++ [rec], ancilla := anc' } delta
    else (s, some .attr)

/-- a whole history on a fresh model; exceptions are caught by the caller and the history goes on -/
def run (fx : Fix) (κ : Kind) (ops : List Op) : State :=
  ops.foldl (fun s o => (step fx s o).1) (init κ)

/-- the states after each edit, with the exception raised (what the driver prints) -/
def trace (fx : Fix) (s : State) : List Op → List (State × Option Err)
  | [] => []
  | o :: r =>
    let (s', e) := step fx s o
    (s', e) :: trace fx s' r

/-! ## observations -/

/-- labels occurring in the keys of the terms, in order of first occurrence -/
def trueVars (p : Poly) : List Var :=
  p.foldl (fun acc kv => kv.1.foldl (fun a i => if a.contains i then a else a ++ [i]) acc) []

/-- the exact degree: `-inf` for no terms -/
def trueDegree (p : Poly) : Option Nat := if p.isEmpty then none else some (Qv.degree p)

/-- `self._mapping[i]` -/
def lookup (m : List (Var × Nat)) (i : Var) : Option Nat := (m.find? (fun p => p.1 == i)).map Prod.snd

/-- labels of the model variables in every enumerated / reduced form: the mapping's images of the labels
that occur in the terms (`to_qubo/to_quso/to_pubo/to_puso` relabel keys with `self._mapping[i]`, and the
boolean/spin conversions neither create nor lose a variable) -/
def convBase (s : State) : List Nat := (trueVars s.terms).filterMap (lookup s.mapping)

/-- first ancilla label of a degree reduction (`ancilla = self.num_binary_variables`, `_pubo.py:244`).
For PUSO/PCSO `self` is the temporary PUBO of `_create_pubo`, whose count is the exact one. -/
def ancStart (fx : Fix) (s : State) : Nat :=
  if s.kind.isSpin && !fx.d9 then (trueVars s.terms).length else s.numVars

/-- `max_index` : `num_binary_variables - 1` for the labelled types, `max(variables)` or `None` for matrices -/
def maxIndex (s : State) : Option Int :=
  if hasBO s.kind then some ((s.numVars : Int) - 1)
  else match s.variables with
    | [] => none
    | a :: r => some ((r.foldl max a : Nat) : Int)

end Qv.Book
