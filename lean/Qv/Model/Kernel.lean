import Qv.Model.Pcg
/-!
# Qv.Model.Kernel — index-level models of `anneal_quso.c` and `anneal_puso.c`

Mirrors `qubovert/sim/src/anneal_quso.c` and `anneal_puso.c` function by function.

* generic in the **number type** `α` (`[Add α] [Mul α] [OfInt α]`): `Float` in the driver (exact replay
  of the C `double` computation), `Rat` in the theorems;
* generic in the **random source and acceptance test** (`Src ρ α`): the kernels consume randomness in
  exactly three ways — the coin of the random initial state, `rand_int` of the random visiting order,
  and the acceptance test `dE <= 0 || (T > 0 && rand_double(rng) < exp(-dE / T))`.  The theorems of
  C11 hold for every `Src`; C12 reasons about `Src.accept`; `pcgSrc` is the concrete PCG32 source.

A C array is a `List` read with `getD` and written with `List.set` (index-level access; a write out of
bounds is a no-op and a read out of bounds gives the default — the checked-memory reading of the same
loops belongs to C17).  A C `for(i=a; i<a+k; i++)` is `forFrom body a k`.  Core Lean only.
-/
namespace Qv.Kernel

/-- `(double)i` for a C `int` -/
class OfInt (α : Type) where
  ofInt : Int → α
export OfInt (ofInt)

instance : OfInt Float := ⟨Float.ofInt⟩
instance : OfInt Rat := ⟨fun i => (i : Rat)⟩

/-- `for(i = a; i < a + k; i++) s = body i s` -/
def forFrom {σ : Type} (body : Nat → σ → σ) : Nat → Nat → σ → σ
  | _, 0, s => s
  | i, k + 1, s => forFrom body (i + 1) k (body i s)

/-- `for(i = 0; i < n; i++) s = body i s` -/
def forN {σ : Type} (n : Nat) (s : σ) (body : Nat → σ → σ) : σ := forFrom body 0 n s

/-- The three uses of randomness in the kernels, as an abstract source with state `ρ`. -/
structure Src (ρ α : Type) where
  /-- `rand_double(&rng) < 0.5 ? 1 : -1` (true ↦ spin `1`) -/
  coin : ρ → ρ × Bool
  /-- `rand_int(rng, len_state)` -/
  index : ρ → Nat → ρ × Nat
  /-- `dE <= 0 || (T > 0 && rand_double(rng) < exp(-dE / T))` as a function of `dE`, `T` -/
  accept : α → α → ρ → ρ × Bool

/-- `index[0] = 0; index[i] = index[i-1] + num[i-1]` : start offsets of the segments -/
def prefixSums : List Nat → Nat → List Nat
  | [], _ => []
  | x :: r, acc => acc :: prefixSums r (acc + x)

def mkIndex (num : List Nat) : List Nat := prefixSums num 0

section
variable {α ρ : Type} [Add α] [Mul α] [OfInt α]

/-! ## anneal_quso.c -/

/-- the problem arrays of `anneal_quso` -/
structure Quso (α : Type) where
  h : List α
  nn : List Nat        -- num_neighbors
  nb : List Nat        -- neighbors (flat)
  J : List α           -- flat

/-- `compute_flip_dE` -/
def computeFlipDE (q : Quso α) (index : List Nat) (N : Nat) (state : List Int) : List α :=
  (List.range N).map fun i =>
    let e := forN (q.nn.getD i 0) (q.h.getD i (ofInt 0)) fun j e =>
      let n := q.nb.getD (index.getD i 0 + j) 0
      e + q.J.getD (index.getD i 0 + j) (ofInt 0) * ofInt (state.getD n 0)
    ofInt (-2) * ofInt (state.getD i 0) * e

/-- `recompute_flip_dE` (called with the state *before* the flip) -/
def recomputeFlipDE (q : Quso α) (index : List Nat) (spin : Nat) (flip : List α) (state : List Int) :
    List α :=
  let flip := flip.set spin (flip.getD spin (ofInt 0) * ofInt (-1))
  forN (q.nn.getD spin 0) flip fun j f =>
    let n := q.nb.getD (index.getD spin 0 + j) 0
    f.set n (f.getD n (ofInt 0) +
      ofInt 4 * ofInt (state.getD spin 0) * ofInt (state.getD n 0) * q.J.getD (index.getD spin 0 + j) (ofInt 0))

/-- `state[i] *= -1` -/
def flipAt (state : List Int) (i : Nat) : List Int := state.set i (state.getD i 0 * -1)

/-- one visit of the sweep in `single_anneal_quso` -/
def qusoStep (src : Src ρ α) (q : Quso α) (index : List Nat) (N : Nat) (inOrder : Bool) (T : α) (j : Nat)
    (s : List Int × List α × ρ) : List Int × List α × ρ :=
  let (st, flip, r) := s
  let (r, i) := if inOrder then (r, j) else src.index r N
  let dE := flip.getD i (ofInt 0)
  let (r, a) := src.accept dE T r
  if a then (flipAt st i, recomputeFlipDE q index i flip st, r) else (st, flip, r)

/-- `single_anneal_quso` -/
def singleAnnealQuso (src : Src ρ α) (q : Quso α) (index : List Nat) (N : Nat) (Ts : List α)
    (inOrder : Bool) (state : List Int) (rng : ρ) : List Int × ρ :=
  let flip := computeFlipDE q index N state
  let (st, _, r) := Ts.foldl (fun s T => forN N s (qusoStep src q index N inOrder T)) (state, flip, rng)
  (st, r)

/-- `quso_value` : each coupling is read from both adjacency lists and counted where `neighbor >= i` -/
def qusoValueC (q : Quso α) (index : List Nat) (N : Nat) (state : List Int) : α :=
  forN N (ofInt 0) fun i value =>
    let e := forN (q.nn.getD i 0) (q.h.getD i (ofInt 0)) fun j e =>
      let n := q.nb.getD (index.getD i 0 + j) 0
      if n ≥ i then e + q.J.getD (index.getD i 0 + j) (ofInt 0) * ofInt (state.getD n 0) else e
    value + ofInt (state.getD i 0) * e

/-- the initial state of one anneal: copied from the buffer (`initial_state_provided = len(init)`)
or drawn spin by spin -/
def initState (src : Src ρ α) (N : Nat) (init : List Int) (rng : ρ) : List Int × ρ :=
  forN N ([], rng) fun j (st, r) =>
    if init.length ≠ 0 then (st ++ [init.getD j 0], r)
    else
      let (r, c) := src.coin r
      (st ++ [if c then 1 else -1], r)

/-- the `for(i=0; i<num_anneals; i++)` loop of `anneal_quso`/`anneal_puso`, given one anneal -/
def annealLoop (src : Src ρ α) (N : Nat) (init : List Int)
    (single : List Int → ρ → List Int × ρ) (value : List Int → α) : Nat → ρ → List (List Int × α)
  | 0, _ => []
  | k + 1, rng =>
    let (st0, rng) := initState src N init rng
    let (st, rng) := single st0 rng
    (st, value st) :: annealLoop src N init single value k rng

/-- `anneal_quso` : `len_state = N`, returns `(states[i], values[i])` for `i < num_anneals` -/
def annealQuso (src : Src ρ α) (q : Quso α) (N : Nat) (Ts : List α) (inOrder : Bool) (init : List Int)
    (numAnneals : Nat) (rng : ρ) : List (List Int × α) :=
  let index := mkIndex q.nn
  annealLoop src N init (singleAnnealQuso src q index N Ts inOrder) (qusoValueC q index N) numAnneals rng

/-! ## anneal_puso.c -/

/-- the problem arrays of `anneal_puso` (`num_terms = len(couplings)`) -/
structure Puso (α : Type) where
  nc : List Nat        -- num_couplings
  terms : List Nat     -- flat
  cs : List α          -- couplings

/-- `subgraphs[j]` = the terms spin `j` occurs in (`subgraphs[j][0]` is the length) -/
def mkSubgraphs (p : Puso α) (index : List Nat) (N : Nat) : List (List Nat) :=
  forN p.cs.length (List.replicate N []) fun term sg =>
    forN (p.nc.getD term 0) sg fun i sg =>
      let j := p.terms.getD (index.getD term 0 + i) 0
      sg.set j (sg.getD j [] ++ [term])

/-- `product` of the spins of term `term`, read through `index` -/
def termProduct (p : Puso α) (index : List Nat) (state : List Int) (term : Nat) : Int :=
  forN (p.nc.getD term 0) (1 : Int) fun j pr => pr * state.getD (p.terms.getD (index.getD term 0 + j) 0) 0

/-- `puso_subgraph_value` -/
def pusoSubgraphValue (p : Puso α) (index : List Nat) (subgraphs : List (List Nat)) (state : List Int)
    (spin : Nat) : α :=
  (subgraphs.getD spin []).foldl
    (fun value term => value + p.cs.getD term (ofInt 0) * ofInt (termProduct p index state term)) (ofInt 0)

/-- one visit of the sweep in `single_anneal_puso` -/
def pusoStep (src : Src ρ α) (p : Puso α) (index : List Nat) (subgraphs : List (List Nat)) (N : Nat)
    (inOrder : Bool) (T : α) (j : Nat) (s : List Int × ρ) : List Int × ρ :=
  let (st, r) := s
  let (r, i) := if inOrder then (r, j) else src.index r N
  let dE := ofInt (-2) * pusoSubgraphValue p index subgraphs st i
  let (r, a) := src.accept dE T r
  if a then (flipAt st i, r) else (st, r)

/-- `single_anneal_puso` -/
def singleAnnealPuso (src : Src ρ α) (p : Puso α) (index : List Nat) (subgraphs : List (List Nat)) (N : Nat)
    (Ts : List α) (inOrder : Bool) (state : List Int) (rng : ρ) : List Int × ρ :=
  Ts.foldl (fun s T => forN N s (pusoStep src p index subgraphs N inOrder T)) (state, rng)

/-- `puso_value` : running `index` through the flat `terms` array -/
def pusoValueC (p : Puso α) (state : List Int) : α :=
  (forN p.cs.length ((0 : Nat), (ofInt 0 : α)) fun term (s : Nat × α) =>
    let (ix, pr) := forN (p.nc.getD term 0) (s.1, (1 : Int)) fun _ (t : Nat × Int) =>
      (t.1 + 1, t.2 * state.getD (p.terms.getD t.1 0) 0)
    (ix, s.2 + p.cs.getD term (ofInt 0) * ofInt pr)).2

/-- `anneal_puso` -/
def annealPuso (src : Src ρ α) (p : Puso α) (N : Nat) (Ts : List α) (inOrder : Bool) (init : List Int)
    (numAnneals : Nat) (rng : ρ) : List (List Int × α) :=
  let index := mkIndex p.nc
  let subgraphs := mkSubgraphs p index N
  annealLoop src N init (singleAnnealPuso src p index subgraphs N Ts inOrder) (pusoValueC p) numAnneals rng

end

/-! ## the concrete source: PCG32 + libm `exp`, on `Float` -/

/-- `dE <= 0 || (T > 0 && rand_double(rng) < exp(-dE / T))` with C's short-circuit evaluation:
the generator advances only when `dE > 0` and `T > 0` -/
def metropolisFloat (dE T : Float) (r : Rng) : Rng × Bool :=
  if dE ≤ 0 then (r, true)
  else if T > 0 then
    let (r, u) := r.double
    (r, decide (u < Float.exp (-dE / T)))
  else (r, false)

def pcgSrc : Src Rng Float where
  coin r := let (r, u) := r.double; (r, decide (u < 0.5))
  index r n := r.int n
  accept := metropolisFloat

end Qv.Kernel
