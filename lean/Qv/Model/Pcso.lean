import Qv.Model.Pcbo
import Qv.Model.Convert
/-!
# Qv.Model.Pcso — PCSO comparison constraints (`qubovert/_pcso.py:84-101, 234-261, 287-307, 350-796`)

The six `PCSO.add_constraint_{eq,ne,lt,le,gt,ge}_zero` have one body (`eq` has no `log_trick` argument):

```
H = PUSO(H)                                   -- spinCopy
self._append_constraint(rel, H)               -- PSt.append   (the *spin* polynomial is recorded)
if not lam: return self
h = _empty_pcbo(self).add_constraint_R_zero(  -- emptyPcbo: PCBO() with h._ancilla = self._ancilla
    puso_to_pubo(H), lam=lam, log_trick=log_trick, bounds=bounds, suppress_warnings=suppress_warnings)
                                              -- boolImage (puso_to_pubo, then `P = PUBO(P)` inside the PCBO method),
                                              -- helper = Qv.addConstraint on the fresh helper PCBO
self._ancilla = h._ancilla                    -- absorb: counter copied back
self += pubo_to_puso(h)                       -- absorb: *all* terms of the helper, converted (result type PUSO,
return self                                   --   as type(h) is PCBO), added through PCSO.__setitem__
```

The helper PCBO `h` records the boolean image under `rel` (`h._constraints == {rel: [P]}`, everything the inner
calls append is popped again); `h` is a local variable, so these recorded constraints are **not** copied to the PCSO
— `pubo_to_puso(h)` reads `h.items()` only.  `bounds` is handed through unchanged, i.e. it refers to the boolean
image `P` (whose range over boolean assignments is the range of `H` over spin assignments); omitted bounds are
computed by `approximate_pubo_extrema(P)` from the coefficients of the *boolean* image.
`is_solution_valid` is `PCBO.is_solution_valid` applied to the recorded PUSOs with the spin values.
Warnings raised inside the helper call are the call's warnings.
-/
namespace Qv.Pcso
open Qv

structure PSt where
  terms : Poly := []
  anc : Nat := 0                         -- `_ancilla` = `num_ancillas`
  cons : List (Rel × Poly) := []         -- `_constraints`, PUSO objects, in append order
  warns : List String := []
  tags : List String := []               -- branch tags of the helper calls (instrumentation)
  deriving Repr, Inhabited

/-- `_append_constraint(rel, H)` -/
def PSt.append (s : PSt) (r : Rel) (p : Poly) : PSt := { s with cons := s.cons ++ [(r, p)] }

/-- `H = PUSO(H)` -/
def spinCopy (H : Poly) : Except Err Poly := construct (squash .puso) H

/-- `puso_to_pubo(H)` for the PUSO `H` (result type PUBO), then `P = PUBO(P)` at the head of the PCBO method -/
def boolImage (H : Poly) : Except Err Poly := do
  let P ← pusoToPubo .puso H
  pure (constructB P)

/-- `_empty_pcbo(pcso)`: an empty PCBO whose ancilla counter is the PCSO's -/
def emptyPcbo (s : PSt) : St := { anc := s.anc }

/-- the helper PCBO after `_empty_pcbo(self).add_constraint_R_zero(P, …)` -/
def helper (r : Rel) (s : PSt) (P : Poly) (lam : Rat) (lt : Bool) (b : Option Rat × Option Rat) (sup : Bool) : St :=
  Qv.addConstraint r (emptyPcbo s) P lam lt b sup

/-- `self._ancilla = h._ancilla; self += pubo_to_puso(h)` -/
def absorb (s : PSt) (h : St) : Except Err PSt := do
  let F ← puboToPuso .pcbo h.terms
  let terms ← iaddD (squash .pcso) s.terms F
  pure { s with anc := h.anc, terms := terms, warns := s.warns ++ h.warns, tags := s.tags ++ h.tags }

/-- `PCSO.add_constraint_R_zero(H, lam, log_trick, bounds, suppress_warnings)` -/
def addConstraint (r : Rel) (s : PSt) (H : Poly) (lam : Rat) (lt : Bool) (b : Option Rat × Option Rat)
    (sup : Bool) : Except Err PSt := do
  let H' ← spinCopy H
  let s := s.append r H'
  if lam = 0 then pure s else do
  let P ← boolImage H'
  absorb s (helper r s P lam lt b sup)

/-- `is_solution_valid`: `PCBO.is_solution_valid` on the recorded spin constraints -/
def isValid (s : PSt) (z : Var → Rat) : Bool := Qv.isValid { cons := s.cons } z

/-- one call of a history -/
structure Call where
  rel : Rel
  H : Poly
  lam : Rat
  lt : Bool
  bounds : Option Rat × Option Rat
  sup : Bool
  deriving Repr, Inhabited

def Call.run (c : Call) (s : PSt) : Except Err PSt := addConstraint c.rel s c.H c.lam c.lt c.bounds c.sup

/-- a sequence of constraints added one after another to the same PCSO -/
def runHist (s : PSt) : List Call → Except Err PSt
  | [] => .ok s
  | c :: cs => do
    let s' ← c.run s
    runHist s' cs

end Qv.Pcso
