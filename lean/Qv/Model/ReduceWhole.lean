import Qv.Model.ReduceStep
/-!
# Qv.Model.ReduceWhole — the model's `reduceCore` cut at the granularity of the Python statements of
`PUBO._reduce_degree` as a whole

`Qv.Model.Reduce.reduceTerms` threads the certificate list through the loop over `mapped_self.items()` and takes the penalty
from the menu `Lam`.  The generated-source tie of the whole function (`Qv/Gen/SourceReduce2.lean`,
`Qv/Proofs/GenEq/Reduce2*.lean`) has an arbitrary penalty function and no certificates, so the loop is named here in that form
(`reduceTermsF`) and proved to be what `reduceTerms` / `reduceCore` compute (`reduceTerms_fst`, `reduceCore_D`).  Core Lean
only; nothing here changes the model the property theorems use.
-/
namespace Qv.Reduce
open Qv

/-- the loop `for key, v in mapped_self.items():` with the penalty function `f` and without the certificates -/
def reduceTermsF (deg : Nat) (pairs : List Key) (f : Rat → Rat) : Poly → ISt → ISt
  | [], st => st
  | (key, v) :: r, st => reduceTermsF deg pairs f r (reduceTerm deg pairs (f v) v key.length key st []).1

theorem reduceTerms_fst (deg : Nat) (pairs : List Key) (lam : Lam) : ∀ (mapped : Poly) (st : ISt) (cs : List TermCert),
    (reduceTerms deg pairs lam mapped st cs).1 = reduceTermsF deg pairs lam.app mapped st := by
  intro mapped
  induction mapped with
  | nil => intro st cs; rfl
  | cons kv r ih =>
    intro st cs
    obtain ⟨key, v⟩ := kv
    simp only [reduceTerms, reduceTermsF]
    exact ih _ _

/-- the matrix `reduceCore` returns: `mapSelf`, then the loop from the state `(n, {}, counts, {})` -/
theorem reduceCore_D (terms : Poly) (m : Mapping) (n d : Nat) (lam : Lam) (pairs : List Key) :
    (reduceCore terms m n d lam pairs).map (fun o => o.D) =
      (match mapSelf m terms [] [] with
       | .error e => .error e
       | .ok p => .ok (reduceTermsF d (pairs.map (mapPair m)) lam.app p.1
           { next := n, reds := [], freq := p.2, D := [] }).D) := by
  unfold reduceCore
  cases mapSelf m terms [] [] with
  | error e => rfl
  | ok p =>
    show Except.ok _ = Except.ok _
    rw [reduceTerms_fst]

/-- a model all of whose keys have at most `d` labels -/
def shortKeys (d : Nat) (p : Poly) : Prop := ∀ kv, kv ∈ p → kv.1.length ≤ d

end Qv.Reduce
