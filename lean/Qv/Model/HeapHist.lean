import Qv.Model.HeapArith
/-!
# Qv.Model.HeapHist — histories of API calls over the explicit heap, and the canonical sharing graph

A history is a list of `Op`s over an *environment* of named references (the harness's Python variables, in order of
creation).  `stepH` interprets one call with the heap transformers of `Qv.Model.Heap`, returns the new state and the
*write footprint* of the call (the old cells it may write).  `graph` is the sharing graph reachable from the
environment, cells numbered in depth-first discovery order — what the harness computes from the real objects with
`id()`.
-/
namespace Qv.Hp
open Qv

inductive Getter | mapping | rmapping | variables | constraints
  deriving Repr, DecidableEq

/-- one API call (indices refer to the environment) -/
inductive Op
  | new (κ : Kind)                                     -- `κ()`
  | dict                                               -- `{…}` (a plain dict of terms)
  | setitem (i : Nat) (u : Upd)                          -- `env[i][k] += v` / `env[i][k] = v`
  | copy (i : Nat)                                     -- `env[i].copy()`
  | ctor (κ : Kind) (i : Nat)                          -- `κ(env[i])`
  | info (i : Nat)                                     -- `get_info(env[i])`
  | fromInfo (i : Nat)                                 -- `create_from_info(env[i])`
  | roundTrip (i : Nat)                                -- `create_from_info(get_info(env[i]))`
  | get (g : Getter) (i : Nat)                         -- `env[i].mapping` …
  | addc (recv : Nat) (rel : Rel) (arg : Nat) (pen : Option Upd)   -- `env[recv].add_constraint_<rel>_zero(env[arg], lam=…)`
  | update (recv arg : Nat) (u : Upd)                  -- `env[recv].update(env[arg])`
  | conv (i : Nat) (κ : Kind) (pl : Payload)           -- `env[i].to_…()` / `…_to_…(env[i])`
  | solve (i : Nat) (nres : Nat)                       -- `solve_…_bruteforce(env[i])`
  | anneal (i : Nat) (init : Option Nat) (κ : Kind) (pl : Payload) (nres : Nat)   -- `anneal_…(env[i], initial_state=env[init])`
  | client (i : Nat)                                   -- the client changes the *contents* of cells it reaches from `env[i]`
                                                       -- (no new containers: the graph stays; what such writes can do is T19.B)
  | sub (i : Nat) (path : List Nat)                    -- `env[i]…[k]…` : a sub-object picked out of a container
  | set                                                -- `set()` (the `nodes` of `subgraph`)
  | iupd (recv : Nat) (other : Option Nat) (u : Upd)   -- `env[recv] += env[other]`, `-=`, `*= c`, `/= c`, `//= c`, `.normalize()`
  | imulDict (recv other : Nat) (u : Upd)              -- `env[recv] *= env[other]`
  | ipow (recv : Nat) (us : List Upd)                  -- `env[recv] **= us.length + 1`
  | clear (recv : Nat)                                 -- `env[recv].clear()`
  | refresh (recv : Nat)                               -- `env[recv].refresh()`
  | binop (a : Nat) (other : Option Nat) (u : Upd)     -- `env[a] + env[other]`, `-`, `/ c`, `// c`, `* c`, `c * env[a]`, `-env[a]`
  | rsub (a : Nat) (other : Option Nat) (u1 u2 : Upd)  -- `env[other] - env[a]`
  | mulDict (a b : Nat) (u : Upd)                      -- `env[a] * env[b]`
  | pow (a : Nat) (us : List Upd)                      -- `env[a] ** (us.length + 1)`
  | rebuild (a : Nat) (pl : Payload)                   -- `round(env[a], n)`, `env[a].subs(…)`
  | newLike (a : Nat) (extras : List Nat) (pl : Payload)   -- `normalize(env[a])`, `subgraph(env[a], …)`, `subvalue(…, env[a])`
  | readOnly (args : List Nat) (res : Bool)            -- `*_value`, `approximate_*_extrema`, `anneal_temperature_range`; `convert_solution` (`res`)
  | sat (first : Option Nat) (others : List Nat) (u : Upd)   -- a `qubovert.sat` gate

structure HState where
  heap : Heap := []
  env : List Nat := []

/-- follow child positions -/
def follow (h : Heap) : Nat → List Nat → Option Nat
  | r, [] => some r
  | r, k :: p =>
    match h[r]? with
    | some c => (match c.refs[k]? with | some q => follow h q p | none => none)
    | none => none

/-! ### executable reachability -/

def cellRefs (h : Heap) (r : Nat) : List Nat :=
  match h[r]? with
  | some c => c.refs
  | none => []

/-- depth-first discovery order (children in `Cell.refs` order) -/
def dfs (h : Heap) : Nat → List Nat → List Nat → List Nat
  | 0, _, vis => vis
  | _, [], vis => vis
  | f + 1, r :: st, vis =>
    if vis.contains r then dfs h f st vis else dfs h f (cellRefs h r ++ st) (vis ++ [r])

def dfsFuel (h : Heap) (roots : List Nat) : Nat :=
  roots.length + (h.map (fun c => c.refs.length)).sum + 1

def reachList (h : Heap) (roots : List Nat) : List Nat := dfs h (dfsFuel h roots) roots []

def Cell.typeName : Cell → String
  | .obj d _ _ _ _ => d.kind.name
  | .set _ => "set"
  | .list _ => "list"
  | _ => "dict"

/-- position of `r` in the discovery order -/
def indexIn (l : List Nat) (r : Nat) : Nat := l.findIdx (· == r)

/-- the canonical sharing graph: for each discovered cell its type and the numbers of its children -/
def graph (h : Heap) (roots : List Nat) : List (String × List Nat) :=
  let order := reachList h roots
  order.map (fun r =>
    match h[r]? with
    | some c => (c.typeName, c.refs.map (indexIn order))
    | none => ("?", []))

def lookupOpt (env : List Nat) : Option Nat → Option (Option Nat)
  | none => some none
  | some j => (match env[j]? with | some r => some (some r) | none => none)

def lookupAll (env : List Nat) (l : List Nat) : Option (List Nat) := l.mapM (fun j => env[j]?)

/-- a call that changes its receiver in place: new heap, same variables, the given footprint -/
def inPlace (s : HState) (w : List Nat) (r : Option Heap) : Option (HState × List Nat) :=
  match r with
  | none => none
  | some h => some ({ s with heap := h }, w)

def pushRes (s : HState) (r : Option (Heap × Nat)) : Option (HState × List Nat) :=
  match r with
  | none => none
  | some (h, x) => some ({ heap := h, env := s.env ++ [x] }, [])

/-- one call; `none` = outside the modelled domain (the Python call would raise) -/
def stepH (F : Ctor) (s : HState) : Op → Option (HState × List Nat)
  | .new κ =>
    if κ.isConstrained then
      let a := alloc s.heap (.cdict [])
      pushRes s (some (mkObj a.1 κ (F κ []) none 0 (some a.2)))
    else pushRes s (some (mkObj s.heap κ (F κ []) none 0 none))
  | .dict => pushRes s (some (alloc s.heap (.plain [])))
  | .setitem i u =>
    match s.env[i]? with
    | none => none
    | some o =>
      match applyUpd s.heap o u with
      | none => none
      | some h => some ({ s with heap := h }, mutFootprint s.heap o)
  | .copy i => match s.env[i]? with | none => none | some o => pushRes s (copyM F s.heap o)
  | .ctor κ i => match s.env[i]? with | none => none | some o => pushRes s (copyCtor F s.heap κ o)
  | .info i => match s.env[i]? with | none => none | some o => pushRes s (getInfoH F s.heap o)
  | .fromInfo i => match s.env[i]? with | none => none | some o => pushRes s (createFromInfoH F s.heap o)
  | .roundTrip i => match s.env[i]? with | none => none | some o => pushRes s (roundTrip F s.heap o)
  | .get g i =>
    match s.env[i]? with
    | none => none
    | some o =>
      pushRes s (match g with
        | .mapping => getMapping s.heap o
        | .rmapping => getRMapping s.heap o
        | .variables => getVariables s.heap o
        | .constraints => getConstraints F s.heap o)
  | .addc recv rel arg pen =>
    match s.env[recv]?, s.env[arg]? with
    | some r, some a =>
      match addConstraint F s.heap r rel a pen with
      | none => none
      | some h => some ({ s with heap := h }, own s.heap r)
    | _, _ => none
  | .update recv arg u =>
    match s.env[recv]?, s.env[arg]? with
    | some r, some a =>
      match updateH s.heap r a u with
      | none => none
      | some h => some ({ s with heap := h }, own s.heap r)
    | _, _ => none
  | .conv i κ pl => match s.env[i]? with | none => none | some o => pushRes s (convH s.heap o κ pl)
  | .solve i nres =>
    match s.env[i]? with
    | none => none
    | some o =>
      match solveH s.heap o nres with
      | none => none
      | some (h, _) => some ({ s with heap := h }, [o])
  | .anneal i init κ pl nres =>
    match s.env[i]? with
    | none => none
    | some o =>
      let ini : Option (Option Nat) := match init with
        | none => some none
        | some j => (match s.env[j]? with | some r => some (some r) | none => none)
      match ini with
      | none => none
      | some ini =>
        match annealH s.heap o ini κ pl nres with
        | none => none
        | some (h, _) => some ({ s with heap := h }, [])
  | .client i =>
    match s.env[i]? with
    | none => none
    | some o => some (s, reachList s.heap [o])
  | .sub i path =>
    match s.env[i]? with
    | none => none
    | some o =>
      match follow s.heap o path with
      | none => none
      | some q => some ({ s with env := s.env ++ [q] }, [])
  | .set => pushRes s (some (alloc s.heap (.set [])))
  | .iupd recv other u =>
    match s.env[recv]?, lookupOpt s.env other with
    | some r, some o => inPlace s (mutFootprint s.heap r) (iupdH s.heap r o u)
    | _, _ => none
  | .imulDict recv other u =>
    match s.env[recv]?, s.env[other]? with
    | some r, some o => inPlace s [r] (imulDictH s.heap r o u)
    | _, _ => none
  | .ipow recv us => match s.env[recv]? with | none => none | some r => inPlace s [r] (ipowH F s.heap r us)
  | .clear recv => match s.env[recv]? with | none => none | some r => inPlace s [r] (clearH s.heap r)
  | .refresh recv => match s.env[recv]? with | none => none | some r => inPlace s [r] (refreshH F s.heap r)
  | .binop a other u =>
    match s.env[a]?, lookupOpt s.env other with
    | some r, some o => pushRes s (binopH F s.heap r o u)
    | _, _ => none
  | .rsub a other u1 u2 =>
    match s.env[a]?, lookupOpt s.env other with
    | some r, some o => pushRes s (rsubH F s.heap r o u1 u2)
    | _, _ => none
  | .mulDict a b u =>
    match s.env[a]?, s.env[b]? with
    | some r, some o => pushRes s (mulDictH F s.heap r o u)
    | _, _ => none
  | .pow a us => match s.env[a]? with | none => none | some r => pushRes s (powH F s.heap r us)
  | .rebuild a pl => match s.env[a]? with | none => none | some r => pushRes s (rebuildH F s.heap r pl)
  | .newLike a extras pl =>
    match s.env[a]?, lookupAll s.env extras with
    | some r, some ex => pushRes s (newLikeH s.heap r ex pl)
    | _, _ => none
  | .readOnly args res =>
    match lookupAll s.env args with
    | none => none
    | some l =>
      match readOnlyH s.heap l (if res then 1 else 0) with
      | none => none
      | some (h, rs) => some ({ heap := h, env := s.env ++ rs }, [])
  | .sat first others u =>
    match lookupOpt s.env first, lookupAll s.env others with
    | some f, some os => pushRes s (satH F s.heap f os u)
    | _, _ => none

end Qv.Hp
