import Qv.Model.Sat
import Qv.Model.Pcbo
/-!
# Qv.Model.PcboLogic — the sixteen logical constraint methods of `PCBO`
(`qubovert/_pcbo.py:1344-2021`)

`add_constraint_G` and `add_constraint_eq_G` for `G ∈ {AND, OR, XOR, NAND, NOR, XNOR, NOT, BUFFER}`,
written with the operator calls of the source in the order Python evaluates them.  Operands are evaluated
operands `SVal` (a label, a plain dict, a boolean model; a nested sat expression has already been built
with `buildArg`).  A polynomial written in the source as an arithmetic expression (`3 * a + b * c - …`) is the
tree `VE` of the same shape, evaluated left operand first as Python does.  `PCBO()` is the empty state `{}`;
`PCBO().add_constraint_NOR(*vs)` used as a polynomial is the model value `.mdl .pcbo st.terms` of the state
the method returns (with the default `lam = 1`).  Every method ends in
`self.add_constraint_eq_zero(P, lam, bounds=…)`, whose first statement is `P = PUBO(P)`.
-/
namespace Qv

/-- an arithmetic expression over already evaluated values, with the shape it has in the source -/
inductive VE
  | leaf (v : Val)
  | add (a b : VE)
  | sub (a b : VE)
  | mul (a b : VE)
  deriving Repr

instance : Add VE := ⟨VE.add⟩
instance : Sub VE := ⟨VE.sub⟩
instance : Mul VE := ⟨VE.mul⟩
instance : Coe Val VE := ⟨VE.leaf⟩
instance (n : Nat) : OfNat VE n := ⟨VE.leaf (.num (n : Rat))⟩

/-- Python's evaluation of the expression: left operand, right operand, then the operator -/
def VE.run : VE → Except Err Val
  | .leaf v => .ok v
  | .add a b => do let x ← a.run; let y ← b.run; Val.add x y
  | .sub a b => do let x ← a.run; let y ← b.run; Val.sub x y
  | .mul a b => do let x ← a.run; let y ← b.run; Val.mul x y

/-- `self.add_constraint_eq_zero(P, lam=lam, bounds=(lo, hi))`: `P = PUBO(P)` first -/
def eqZeroV (s : St) (P : Val) (lam lo hi : Rat) : Except Err St := do
  match ← Val.cast .pubo P with
  | .mdl _ p => pure (addEqZero s p lam (some lo, some hi) false)
  | _ => .error .type

/-- a PCBO object used as an operand of arithmetic: its terms -/
def St.val (s : St) : Val := .mdl .pcbo s.terms

/-- `PCBO()` -/
def St.fresh : St := {}

/-! ## `add_constraint_G` -/

/-- `add_constraint_NOT(a, lam)`: `add_constraint_eq_zero(BUFFER(a), lam, bounds=(0, 1))` -/
def consNOT (s : St) (a : SVal) (lam : Rat) : Except Err St := do
  let P ← bufferV a
  eqZeroV s P lam 0 1

/-- `add_constraint_BUFFER(a, lam)`: `add_constraint_eq_zero(NOT(a), lam, bounds=(0, 1))` -/
def consBUFFER (s : St) (a : SVal) (lam : Rat) : Except Err St := do
  let P ← notV a
  eqZeroV s P lam 0 1

/-- `add_constraint_AND(*variables, lam)`: `add_constraint_BUFFER(AND(*variables), lam)` -/
def consAND (s : St) (vs : List SVal) (lam : Rat) : Except Err St := do
  let g ← andV vs
  consBUFFER s (.val g) lam

/-- `add_constraint_NAND(*variables, lam)`: `add_constraint_NOT(AND(*variables), lam)` -/
def consNAND (s : St) (vs : List SVal) (lam : Rat) : Except Err St := do
  let g ← andV vs
  consNOT s (.val g) lam

/-- `add_constraint_OR(*variables, lam)`: `P = 1 - OR(*variables)`, bounds `(0, 1)` -/
def consOR (s : St) (vs : List SVal) (lam : Rat) : Except Err St := do
  let g ← orV vs
  let P ← VE.run (1 - g)
  eqZeroV s P lam 0 1

/-- `add_constraint_XOR(*variables, lam)`: `P = 1 - XOR(*variables)`, bounds `(0, 1)` -/
def consXOR (s : St) (vs : List SVal) (lam : Rat) : Except Err St := do
  let g ← xorV vs
  let P ← VE.run (1 - g)
  eqZeroV s P lam 0 1

/-- `add_constraint_NOR(*variables, lam)`: `P = 1 - PCBO().add_constraint_OR(*variables)`, bounds `(0, 1)` -/
def consNOR (s : St) (vs : List SVal) (lam : Rat) : Except Err St := do
  let inner ← consOR St.fresh vs 1
  let P ← VE.run (1 - inner.val)
  eqZeroV s P lam 0 1

/-- `add_constraint_XNOR(*variables, lam)`: `P = 1 - PCBO().add_constraint_XOR(*variables)`, bounds `(0, 1)` -/
def consXNOR (s : St) (vs : List SVal) (lam : Rat) : Except Err St := do
  let inner ← consXOR St.fresh vs 1
  let P ← VE.run (1 - inner.val)
  eqZeroV s P lam 0 1

/-! ## `add_constraint_eq_G` -/

/-- `b = 1; for v in variables[:n // 2]: b *= BUFFER(v)` and the same for the second half -/
def halves (vs : List SVal) : Except Err (Val × Val) := do
  let n := vs.length
  let b ← andLoop (.num 1) (vs.take (n / 2))
  let c ← andLoop (.num 1) (vs.drop (n / 2))
  pure (b, c)

/-- `add_constraint_eq_AND(a, *variables, lam)` -/
def consEqAND (s : St) (a : SVal) (vs : List SVal) (lam : Rat) : Except Err St := do
  if vs.length < 2 then throw .value
  let a ← bufferV a
  let (b, c) ← halves vs
  let P ← VE.run (3 * a + b * c - 2 * a * (b + c))
  eqZeroV s P lam 0 3

/-- `add_constraint_eq_NAND(a, *variables, lam)` (`NOT(a)` is evaluated after the two loops) -/
def consEqNAND (s : St) (a : SVal) (vs : List SVal) (lam : Rat) : Except Err St := do
  if vs.length < 2 then throw .value
  let (b, c) ← halves vs
  let na ← notV a
  let P ← VE.run (na * (3 - 2 * (b + c)) + b * c)
  eqZeroV s P lam 0 3

/-- `add_constraint_eq_OR(a, *variables, lam)` -/
def consEqOR (s : St) (a : SVal) (vs : List SVal) (lam : Rat) : Except Err St := do
  if vs.length < 2 then throw .value
  let a ← bufferV a
  match vs with
  | [v0, v1] =>
    let b ← bufferV v0
    let c ← bufferV v1
    let P ← VE.run (a + b + c + b * c - 2 * a * (b + c))
    eqZeroV s P lam 0 3
  | _ =>
    let inner ← consNOR St.fresh vs 1
    let P ← VE.run (inner.val - a)
    eqZeroV s P lam (-1) 1

/-- `add_constraint_eq_NOR(a, *variables, lam)` -/
def consEqNOR (s : St) (a : SVal) (vs : List SVal) (lam : Rat) : Except Err St := do
  if vs.length < 2 then throw .value
  let a ← bufferV a
  match vs with
  | [v0, v1] =>
    let b ← bufferV v0
    let c ← bufferV v1
    let P ← VE.run (1 - a - b - c + b * c + 2 * a * (b + c))
    eqZeroV s P lam 0 3
  | _ =>
    let inner ← consOR St.fresh vs 1
    let P ← VE.run (inner.val - a)
    eqZeroV s P lam (-1) 1

/-- `add_constraint_eq_XOR(a, *variables, lam)`: `P = PCBO().add_constraint_XNOR(*variables) - BUFFER(a)` -/
def consEqXOR (s : St) (a : SVal) (vs : List SVal) (lam : Rat) : Except Err St := do
  let inner ← consXNOR St.fresh vs 1
  let a ← bufferV a
  let P ← VE.run (inner.val - a)
  eqZeroV s P lam (-1) 1

/-- `add_constraint_eq_XNOR(a, *variables, lam)`: `P = PCBO().add_constraint_XOR(*variables) - BUFFER(a)` -/
def consEqXNOR (s : St) (a : SVal) (vs : List SVal) (lam : Rat) : Except Err St := do
  let inner ← consXOR St.fresh vs 1
  let a ← bufferV a
  let P ← VE.run (inner.val - a)
  eqZeroV s P lam (-1) 1

/-- `add_constraint_eq_BUFFER(a, b, lam)`: `P = BUFFER(a) - BUFFER(b)` -/
def consEqBUFFER (s : St) (a b : SVal) (lam : Rat) : Except Err St := do
  let a ← bufferV a
  let b ← bufferV b
  let P ← VE.run (a - b)
  eqZeroV s P lam (-1) 1

/-- `add_constraint_eq_NOT(a, b, lam)`: `P = PCBO().add_constraint_BUFFER(a) - BUFFER(b)` -/
def consEqNOT (s : St) (a b : SVal) (lam : Rat) : Except Err St := do
  let inner ← consBUFFER St.fresh a 1
  let b ← bufferV b
  let P ← VE.run (inner.val - b)
  eqZeroV s P lam (-1) 1

/-! ## dispatch by name (the call `getattr(H, "add_constraint_" + name)(*operands, lam=lam)`) -/

/-- `eq = false`: `add_constraint_G(*ops)`; `eq = true`: `add_constraint_eq_G(*ops)`.  Python's own arity check
(a `TypeError` for the fixed-arity methods, and for `eq_G()` without the first argument) comes first. -/
def consLogic (eq : Bool) (g : Gate) (s : St) (ops : List SVal) (lam : Rat) : Except Err St :=
  match eq, g, ops with
  | false, .not, [a] => consNOT s a lam
  | false, .not, _ => .error .type
  | false, .buffer, [a] => consBUFFER s a lam
  | false, .buffer, _ => .error .type
  | false, .and, vs => consAND s vs lam
  | false, .nand, vs => consNAND s vs lam
  | false, .or, vs => consOR s vs lam
  | false, .nor, vs => consNOR s vs lam
  | false, .xor, vs => consXOR s vs lam
  | false, .xnor, vs => consXNOR s vs lam
  | true, .not, [a, b] => consEqNOT s a b lam
  | true, .not, _ => .error .type
  | true, .buffer, [a, b] => consEqBUFFER s a b lam
  | true, .buffer, _ => .error .type
  | true, _, [] => .error .type
  | true, .and, a :: vs => consEqAND s a vs lam
  | true, .nand, a :: vs => consEqNAND s a vs lam
  | true, .or, a :: vs => consEqOR s a vs lam
  | true, .nor, a :: vs => consEqNOR s a vs lam
  | true, .xor, a :: vs => consEqXOR s a vs lam
  | true, .xnor, a :: vs => consEqXNOR s a vs lam

end Qv
