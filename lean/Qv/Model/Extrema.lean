import Qv.Model.Basic
/-!
# Qv.Model.Extrema — `qubovert/utils/_approximate_extrema.py`
-/
namespace Qv

/-- `approximate_pubo_extrema` (also `approximate_qubo_extrema`) -/
def puboExtrema (p : Poly) : Rat × Rat :=
  match p with
  | [] => (0, 0)
  | (k, v) :: r =>
    let (lo, hi) := puboExtrema r
    if k = [] then (lo + v, hi + v) else if v < 0 then (lo + v, hi) else (lo, hi + v)

def absR (v : Rat) : Rat := if v < 0 then -v else v

/-- `approximate_puso_extrema` (also `approximate_quso_extrema`) -/
def pusoExtrema (p : Poly) : Rat × Rat :=
  match p with
  | [] => (0, 0)
  | (k, v) :: r =>
    let (lo, hi) := pusoExtrema r
    if k = [] then (lo + v, hi + v) else (lo - absR v, hi + absR v)

end Qv
