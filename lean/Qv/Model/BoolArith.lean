import Qv.Model.Arith
import Qv.Model.Extrema
/-!
# Qv.Model.BoolArith — total arithmetic for the boolean non-degree-limited types (PUBO / PCBO)

For `PUBO`/`PCBO` `squash_key` never raises on tuple keys, so the operators of `Qv.Model.Arith`
specialise to total functions.  (`addTerm (squash .pubo) p k v = .ok (addTermB p k v)` etc.)
-/
namespace Qv

/-- `self[k] += v` on a PUBO -/
def addTermB (p : Poly) (k : Key) (v : Rat) : Poly :=
  let k' := squashB k
  set p k' (get p k' + v)

/-- `self += q` -/
def iaddB (p q : Poly) : Poly := q.foldl (fun acc kv => addTermB acc kv.1 kv.2) p

/-- `self -= q` -/
def isubB (p q : Poly) : Poly := q.foldl (fun acc kv => addTermB acc kv.1 (-kv.2)) p

/-- `PUBO(d)` -/
def constructB (d : Poly) : Poly := iaddB [] d

/-- `c * P` / `P * c` as a new PUBO (for canonical `P`: same order, zero products dropped) -/
def scaleB (c : Rat) (p : Poly) : Poly := p.foldl (fun acc kv => addTermB acc kv.1 (c * kv.2)) []

/-- `P * Q` as a new PUBO -/
def mulB (p q : Poly) : Poly :=
  p.foldl (fun acc kv => q.foldl (fun acc2 kv2 => addTermB acc2 (kv.1 ++ kv2.1) (kv.2 * kv2.2)) acc) []

/-- `P + c` (`self[()] += c`) -/
def addConstB (p : Poly) (c : Rat) : Poly := addTermB p [] c

/-- `P.offset` -/
def offsetOf (p : Poly) : Rat := get p []

/-- sorted list of the labels occurring in the keys (`P.variables` as a sorted list) -/
def varsOf (p : Poly) : List Var := p.foldl (fun acc kv => kv.1.foldl (fun a i => insertU i a) acc) []

/-- the PUBO `{k: 1}` for a (possibly raw) key: `AND(*k)` of labels -/
def monoPoly (k : Key) : Poly := addTermB [] k 1

end Qv
