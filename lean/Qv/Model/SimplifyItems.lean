import Qv.Model.SubsItems
/-!
# Qv.Model.SimplifyItems — `DictArithmetic.simplify` at the granularity of the Python statements

`for k, v in tuple(self.items()): try: self[k] = v.simplify() * 1.  except AttributeError: self[k] *= 1.` —
the dict is rewritten IN PLACE while a snapshot of its items is iterated.  Per item: a sympy expression is simplified
(`simp`, sympy's `simplify`, opaque) and multiplied by the float `1.`; a plain number has no attribute `simplify`, so the
CURRENT value under the key is multiplied by `1.`; the result is stored through `DictArithmetic.__setitem__` (a falsy value
removes the key).  Floats are exact rationals in the model (DESIGN.md §3.2), so `* 1.` is multiplication by `1`.
Bridge "subs after simplify = subs" (`subs_simplifyItems_u2`): `Qv/Proofs/GenEq/Simplify.lean`.  Core Lean only.
-/
namespace Qv.Sym
open Qv

/-- `d[k] = v` of the underlying dict: update in place (position kept) or append -/
def putCoef {R : Type} (d : CoefItems R) (k : Key) (v : PyCoef R) : CoefItems R :=
  match d with
  | [] => [(k, v)]
  | (k', v') :: r => if k' = k then (k, v) :: r else (k', v') :: putCoef r k v

/-- `d.pop(k, 0)` (the remaining dict) -/
def eraseCoef {R : Type} (d : CoefItems R) (k : Key) : CoefItems R :=
  match d with
  | [] => []
  | (k', v) :: r => if k' = k then r else (k', v) :: eraseCoef r k

/-- `d[k]` of a `DictArithmetic` (`__getitem__`: `self.get(k, 0)`) -/
def getCoef {R : Type} (d : CoefItems R) (k : Key) : PyCoef R :=
  match d with
  | [] => .num 0
  | (k', v) :: r => if k' = k then v else getCoef r k

/-- Python truthiness of a coefficient -/
def truthyCoef {R : Type} [Coef R] : PyCoef R → Bool
  | .num r => decide (r ≠ 0)
  | .sym e => !(Coef.isZero e)

/-- `DictArithmetic.__setitem__` on an already squashed key: a falsy value removes the key -/
def setCoef {R : Type} [Coef R] (d : CoefItems R) (k : Key) (v : PyCoef R) : CoefItems R :=
  if truthyCoef v then putCoef d k v else eraseCoef d k

/-- `x * 1.` -/
def mulOneCoef {R : Type} [Coef R] : PyCoef R → PyCoef R
  | .num r => .num (r * 1)
  | .sym e => .sym (Coef.mul e (Coef.ofRat 1))

/-- one iteration of the loop of `simplify` on the current dict `d` for the snapshot item `(k, v)` -/
def simplifyStep {R : Type} [Coef R] (simp : R → R) (d : CoefItems R) (kv : Key × PyCoef R) : CoefItems R :=
  match kv.2 with
  | .sym e => setCoef d kv.1 (.sym (Coef.mul (simp e) (Coef.ofRat 1)))
  | .num _ => setCoef d kv.1 (mulOneCoef (getCoef d kv.1))

/-- `DictArithmetic.simplify`: the dict after the call -/
def simplifyItems {R : Type} [Coef R] (simp : R → R) (items : CoefItems R) : CoefItems R :=
  items.foldl (simplifyStep simp) items

end Qv.Sym
