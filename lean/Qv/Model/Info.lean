import Qv.Model.Pcbo
/-!
# Qv.Model.Info — `get_info` / `create_from_info` (`qubovert/utils/_info.py:27-143`)

The observable state of a model object as `get_info` reads it: type, terms, name, and — when the type
has them — mapping (labelled types), ancilla count and recorded constraints (PCBO / PCSO).
Constraints are kept per relation (the code's `_constraints` dict of lists).
-/
namespace Qv

def Kind.isLabelled : Kind → Bool
  | .qubo | .quso | .pubo | .puso | .pcbo | .pcso => true
  | _ => false

def Kind.isConstrained : Kind → Bool
  | .pcbo | .pcso => true
  | _ => false

/-- what `get_info` returns (absent attributes are `none`) -/
structure Info where
  kind : Kind
  terms : Poly
  name : Option String
  mapping : Option (List (Var × Nat))
  numAncillas : Option Nat
  constraints : Option (List (Rel × List Poly))   -- dict relation ↦ list, in insertion order of relations
  deriving Repr

/-- the part of a model object that `get_info` can see -/
structure MObj where
  kind : Kind
  terms : Poly
  name : Option String := none
  mapping : List (Var × Nat) := []
  anc : Nat := 0
  cons : List (Rel × List Poly) := []
  deriving Repr

def getInfo (m : MObj) : Info :=
  { kind := m.kind, terms := m.terms, name := m.name,
    mapping := if m.kind.isLabelled then some m.mapping else none,
    numAncillas := if m.kind.isConstrained then some m.anc else none,
    constraints := if m.kind.isConstrained then some m.cons else none }

/-- labels of a key not yet in the mapping get the next integers (`BO.__setitem__`) -/
def registerLabels (mp : List (Var × Nat)) : Key → List (Var × Nat)
  | [] => mp
  | i :: r => if (mp.any (fun e => e.1 == i)) then registerLabels mp r
              else registerLabels (mp ++ [(i, mp.length)]) r

/-- mapping produced by the constructor `cls(terms)` -/
def initialMapping (terms : Poly) : List (Var × Nat) :=
  terms.foldl (fun mp kv => registerLabels mp kv.1) []

/-- `self._constraints.setdefault(key, []).append(constraint)` -/
def appendCons (cs : List (Rel × List Poly)) (r : Rel) (p : Poly) : List (Rel × List Poly) :=
  match cs with
  | [] => [(r, [p])]
  | (r', l) :: t => if r' = r then (r', l ++ [p]) :: t else (r', l) :: appendCons t r p

/-- the constraint polynomial as stored by `add_constraint_*_zero(x, lam=0)`: `PUBO(x)` resp. `PUSO(x)` -/
def storeCons (κ : Kind) (x : Poly) : Except Err Poly :=
  construct (squash (if κ.isSpin then .puso else .pubo)) x

/-- `for x in v: method(x, lam=0)` -/
def readdList (κ : Kind) (r : Rel) (cs : List (Rel × List Poly)) : List Poly → Except Err (List (Rel × List Poly))
  | [] => .ok cs
  | x :: t => do
    let p ← storeCons κ x
    readdList κ r (appendCons cs r p) t

/-- `for k, v in info.get("constraints", {}).items(): …` -/
def readdAll (κ : Kind) (cs : List (Rel × List Poly)) : List (Rel × List Poly) → Except Err (List (Rel × List Poly))
  | [] => .ok cs
  | (r, l) :: t => do
    let cs' ← readdList κ r cs l
    readdAll κ cs' t

/-- `create_from_info(info)` -/
def createFromInfo (info : Info) : Except Err MObj := do
  let terms ← construct (squash info.kind) info.terms
  let mapping := match info.mapping with
    | some mp => mp                      -- `set_mapping(info["mapping"])`
    | none => if info.kind.isLabelled then initialMapping info.terms else []
  let anc := match info.numAncillas with
    | some n => n                        -- `if info["num_ancillas"]: model._ancilla = …` (0 stays 0)
    | none => 0
  match info.constraints with
  | none => pure { kind := info.kind, terms, name := info.name, mapping, anc, cons := [] }
  | some cs =>
    if info.kind.isConstrained then do
      let cons ← readdAll info.kind [] cs
      pure { kind := info.kind, terms, name := info.name, mapping, anc, cons }
    else .error .attr                    -- `getattr(model, "add_constraint_…")` on a type without it

end Qv

namespace Qv

/-- `m.copy()` = `type(m)(m)`: terms rebuilt, mapping re-enumerated, name reset by `DictArithmetic.__init__`;
the PCBO/PCSO copy constructor copies the recorded constraints and the ancilla count -/
def copyObj (m : MObj) : Except Err MObj := do
  let terms ← construct (squash m.kind) m.terms
  pure { kind := m.kind, terms, name := none,
         mapping := if m.kind.isLabelled then initialMapping m.terms else [],
         anc := if m.kind.isConstrained then m.anc else 0,
         cons := if m.kind.isConstrained then m.cons else [] }

end Qv
