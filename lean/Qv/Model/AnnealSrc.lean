import Qv.Model.AnnealFront
import Qv.Gen.Prelude
/-!
# Qv.Model.AnnealSrc — the front ends of `qubovert/sim/_anneal.py` at the granularity of the source segments

`harness/tie_ext/anneal.py` cuts `anneal_quso` / `anneal_puso` into five segments of consecutive top-level statements
(`entry`, `dispatch`, `state`, `flatten`, `call`) and generates one Lean definition per segment
(`Qv/Gen/SourceAnneal.lean`).  This file names the parts of the hand-written model `Qv.Anneal.annealQuso` /
`annealPuso` (`Qv/Model/AnnealFront.lean`) at the same granularity; `Qv/Proofs/AnnealSrc.lean` proves that composing
them in source order *is* the model (`annealQuso_eq_segments`, `annealPuso_eq_segments`), so a theorem
"generated segment = `src…`" reaches the property theorems of C11 / C12 / C17.  Core Lean only.
-/
namespace Qv.Anneal
open Qv Qv.Kernel

/-- a segment either makes the function return (`Flow.ret`) or hands its locals to the next segment (`Flow.next`);
`Flow` is the two-constructor type of `Qv/Gen/Prelude.lean` (core Lean) -/
abbrev Step := Qv.Gen.Flow

/-- `entry` : `if num_anneals <= 0: return AnnealResults()` ; `Ts = _create_spin_schedule(…)` -/
def srcEntry {α : Type} (numAnneals : Int) (s : Schedule α) : Except Err (Step (List Res) (List α)) :=
  if numAnneals ≤ 0 then .ok (.ret []) else do
    let Ts ← createSchedule s
    pure (.next Ts)

/-- `state` : the `N == 0` shortcut, then the placement of the initial state -/
def srcState (N : Nat) (model : Poly) (rev : List Var) (numAnneals : Int) (init : Option (List (Var × Int))) :
    Except Err (Step (List Res) (List Int)) :=
  if N = 0 then .ok (.ret (emptyResults numAnneals.toNat (get model []))) else do
    let st ← relabelInit N rev init
    pure (.next st)

/-- `flatten` of `anneal_quso` : the four lists handed to `c_anneal_quso` -/
def srcFlattenQuso {α : Type} (toNum : Rat → α) (N : Nat) (model : Poly) :
    Except Err (List α × List Nat × List Nat × List α) := do
  let (h, adj) ← flattenQuso N model
  let q := qusoArgs toNum h adj
  pure (q.h, q.nn, q.nb, q.J)

/-- `flatten` of `anneal_puso` : the three lists handed to `c_anneal_puso` -/
def srcFlattenPuso {α : Type} (toNum : Rat → α) (model : Poly) : List Nat × List Nat × List α :=
  let p := flattenPuso toNum model
  (p.nc, p.terms, p.cs)

/-- what `c_anneal_quso` / `c_anneal_puso` return to Python: the list of states and the list of values -/
def unzipOut {α : Type} (out : List (List Int × α)) : List (List Int) × List α := (out.map Prod.fst, out.map Prod.snd)

section
variable {ρ α : Type} [Add α] [Mul α] [OfInt α]

/-- the C extension function `c_anneal_quso(h, num_neighbors, neighbors, J, Ts, num_anneals, in_order, init_state, seed)`
as the kernel model: `len_state = len(h)`; `rngOf seed` is the generator state after `rand_init(seed)` -/
def extQuso (src : Src ρ α) (rngOf : Int → ρ) (h : List α) (nn nb : List Nat) (J Ts : List α) (numAnneals inOrder : Int)
    (init : List Int) (seed : Int) : Except Err (List (List Int) × List α) :=
  .ok (unzipOut (Kernel.annealQuso src ⟨h, nn, nb, J⟩ h.length Ts (inOrder ≠ 0) init numAnneals.toNat (rngOf seed)))

/-- the C extension function `c_anneal_puso(N, num_couplings, terms, couplings, Ts, num_anneals, in_order, init_state,
seed)`; a label `>= N` in `terms` is an out-of-bounds access in C — `Err.other`, as in `runPuso` -/
def extPuso (src : Src ρ α) (rngOf : Int → ρ) (N : Nat) (nc terms : List Nat) (cs Ts : List α) (numAnneals inOrder : Int)
    (init : List Int) (seed : Int) : Except Err (List (List Int) × List α) :=
  if terms.any (· ≥ N) then .error Err.other else
  .ok (unzipOut (Kernel.annealPuso src ⟨nc, terms, cs⟩ N Ts (inOrder ≠ 0) init numAnneals.toNat (rngOf seed)))

/-- `seed if seed is not None else -1` -/
def seedArg : Option Int → Int
  | none => -1
  | some s => s

/-- `call` of `anneal_quso` : the extension call and `_package_spin_results` -/
def srcCallQuso (ofNum : α → Rat) (src : Src ρ α) (rngOf : Int → ρ) (h : List α) (nn nb : List Nat) (J Ts : List α)
    (numAnneals : Int) (inOrder : Bool) (init : List Int) (seed : Option Int) (model : Poly) (rev : List Var) :
    Except Err (List Res) :=
  package ofNum rev (get model [])
    (Kernel.annealQuso src ⟨h, nn, nb, J⟩ h.length Ts inOrder init numAnneals.toNat (rngOf (seedArg seed)))

/-- `call` of `anneal_puso` -/
def srcCallPuso (ofNum : α → Rat) (src : Src ρ α) (rngOf : Int → ρ) (N : Nat) (nc terms : List Nat) (cs Ts : List α)
    (numAnneals : Int) (inOrder : Bool) (init : List Int) (seed : Option Int) (model : Poly) (rev : List Var) :
    Except Err (List Res) :=
  if terms.any (· ≥ N) then .error Err.other else
  package ofNum rev (get model [])
    (Kernel.annealPuso src ⟨nc, terms, cs⟩ N Ts inOrder init numAnneals.toNat (rngOf (seedArg seed)))

/-- the five segments of `anneal_quso` composed in source order (locals handed on by name) -/
def segmentsQuso (cfg : Cfg ρ α) (rngOf : Int → ρ) (L : Obj) (numAnneals : Int) (init : Option (List (Var × Int)))
    (s : Schedule α) (inOrder : Bool) (seed : Option Int) : Except Err (List Res) := do
  match ← srcEntry numAnneals s with
  | .ret r => pure r
  | .next Ts =>
    let (N, model, rev) ← dispatchQuso L
    match ← srcState N model rev numAnneals init with
    | .ret r => pure r
    | .next st =>
      let (h, nn, nb, J) ← srcFlattenQuso cfg.toNum N model
      srcCallQuso cfg.ofNum cfg.src rngOf h nn nb J Ts numAnneals inOrder st seed model rev

/-- the five segments of `anneal_puso` composed in source order -/
def segmentsPuso (cfg : Cfg ρ α) (rngOf : Int → ρ) (H : Obj) (numAnneals : Int) (init : Option (List (Var × Int)))
    (s : Schedule α) (inOrder : Bool) (seed : Option Int) : Except Err (List Res) := do
  match ← srcEntry numAnneals s with
  | .ret r => pure r
  | .next Ts =>
    let (N, model, rev) ← dispatchPuso H
    match ← srcState N model rev numAnneals init with
    | .ret r => pure r
    | .next st =>
      let (nc, terms, cs) := srcFlattenPuso cfg.toNum model
      srcCallPuso cfg.ofNum cfg.src rngOf N nc terms cs Ts numAnneals inOrder st seed model rev

end
end Qv.Anneal
