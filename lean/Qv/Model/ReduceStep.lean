import Qv.Model.Reduce
/-!
# Qv.Model.ReduceStep — the model's `reduceTerm` cut at the granularity of the Python statements

`Qv.Model.Reduce.reduceTerm` renders the `while len(key) > deg:` loop of `PUBO._reduce_degree` as one recursion.  The
generated-source tie (`Qv/Gen/SourceReduce.lean`, `Qv/Proofs/GenEq/Reduce*.lean`) proves the source equal to the model
part by part, so the loop body is named here (`stepM`: scan, choice, penalty, key rewrite — one pass) together with the
loop without the certificate bookkeeping (`reduceLoop`), and both are proved to be what `reduceTerm` does
(`reduceTerm_succ`, `reduceTerm_loop`).  Core Lean only; nothing here changes the model the property theorems use.
-/
namespace Qv.Reduce
open Qv

/-- one pass through the body of `while len(key) > deg:`: the new key, the new state and the recorded step
(`none`: the key has no pair) -/
def stepM (pairs : List Key) (lamv : Rat) (key : Key) (st : ISt) : Option (Key × ISt × Step) :=
  match scan st.reds pairs st.freq (pairsOf key) none with
  | none => none
  | some (Choice.used (x, y) z) =>
    some (rekey key x y z, { st with D := addGadget st.D lamv x y z }, { x, y, z, fresh := false })
  | some (Choice.pick (x, y)) =>
    let z := st.next
    some (rekey key x y z,
      { next := z + 1, reds := st.reds ++ [((x, y), z)],
        freq := freqInc (freqInc st.freq (x, z)) (y, z),
        D := addGadget st.D lamv x y z }, { x, y, z, fresh := true })

theorem reduceTerm_succ (deg : Nat) (pairs : List Key) (lamv v : Rat) (fuel : Nat) (key : Key) (st : ISt)
    (steps : List Step) :
    reduceTerm deg pairs lamv v (fuel + 1) key st steps =
      if key.length ≤ deg then ({ st with D := addTermB st.D key v }, steps.reverse, key)
      else match stepM pairs lamv key st with
        | none => ({ st with D := addTermB st.D key v }, steps.reverse, key)
        | some r => reduceTerm deg pairs lamv v fuel r.1 r.2.1 (r.2.2 :: steps) := by
  conv => lhs; rw [reduceTerm]
  unfold stepM
  by_cases h : key.length ≤ deg
  · rw [if_pos h, if_pos h]
  · rw [if_neg h, if_neg h]
    cases scan st.reds pairs st.freq (pairsOf key) none with
    | none => rfl
    | some c =>
      cases c with
      | used p z => obtain ⟨x, y⟩ := p; rfl
      | pick p => obtain ⟨x, y⟩ := p; rfl

/-- the loop alone: the state and key when `while len(key) > deg:` is left (fuel as in `reduceTerm`) -/
def reduceLoop (deg : Nat) (pairs : List Key) (lamv : Rat) : Nat → Key → ISt → ISt × Key
  | 0, key, st => (st, key)
  | fuel + 1, key, st =>
    if key.length ≤ deg then (st, key)
    else match stepM pairs lamv key st with
      | none => (st, key)
      | some r => reduceLoop deg pairs lamv fuel r.1 r.2.1

/-- `reduceTerm` is the loop followed by `D[key] += v` -/
theorem reduceTerm_loop (deg : Nat) (pairs : List Key) (lamv v : Rat) :
    ∀ (fuel : Nat) (key : Key) (st : ISt) (steps : List Step),
      (reduceTerm deg pairs lamv v fuel key st steps).1 =
        { (reduceLoop deg pairs lamv fuel key st).1 with
          D := addTermB (reduceLoop deg pairs lamv fuel key st).1.D (reduceLoop deg pairs lamv fuel key st).2 v } ∧
      (reduceTerm deg pairs lamv v fuel key st steps).2.2 = (reduceLoop deg pairs lamv fuel key st).2 := by
  intro fuel
  induction fuel with
  | zero => intro key st steps; exact ⟨rfl, rfl⟩
  | succ n ih =>
    intro key st steps
    rw [reduceTerm_succ]
    unfold reduceLoop
    by_cases h : key.length ≤ deg
    · rw [if_pos h, if_pos h]; exact ⟨rfl, rfl⟩
    · rw [if_neg h, if_neg h]
      cases stepM pairs lamv key st with
      | none => exact ⟨rfl, rfl⟩
      | some r => exact ih r.1 r.2.1 (r.2.2 :: steps)

end Qv.Reduce
