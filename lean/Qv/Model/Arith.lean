import Qv.Model.Basic
/-!
# Qv.Model.Arith — `DictArithmetic` operators, parameterised by the key squashing function

Mirrors `qubovert/utils/_dict_arithmetic.py:302-743`.  Every operation goes through
`__getitem__`/`__setitem__` of the receiving type, i.e. through `sq = squash κ`.
-/
namespace Qv

abbrev Sq := Key → Except Err Key

/-- `self[k]` -/
def getItem (sq : Sq) (p : Poly) (k : Key) : Except Err Rat := do
  let k' ← sq k
  pure (get p k')

/-- `self[k] = v` (terms only; bookkeeping is modelled in `Qv.Model.Book`) -/
def setItem (sq : Sq) (p : Poly) (k : Key) (v : Rat) : Except Err Poly := do
  let k' ← sq k
  pure (set p k' v)

/-- `self[k] += v` -/
def addTerm (sq : Sq) (p : Poly) (k : Key) (v : Rat) : Except Err Poly := do
  let k' ← sq k
  pure (set p k' (get p k' + v))

/-- `self[k] *= c` -/
def mulItem (sq : Sq) (p : Poly) (k : Key) (c : Rat) : Except Err Poly := do
  let k' ← sq k
  pure (set p k' (get p k' * c))

/-- `for k, v in other.items(): self[k] += v` -/
def iaddD (sq : Sq) (p q : Poly) : Except Err Poly :=
  match q with
  | [] => .ok p
  | (k, v) :: r => do
    let p' ← addTerm sq p k v
    iaddD sq p' r

/-- `for k, v in other.items(): self[k] -= v` -/
def isubD (sq : Sq) (p q : Poly) : Except Err Poly :=
  match q with
  | [] => .ok p
  | (k, v) :: r => do
    let p' ← addTerm sq p k (-v)
    isubD sq p' r

/-- `self[()] += c` -/
def iaddC (sq : Sq) (p : Poly) (c : Rat) : Except Err Poly := addTerm sq p [] c

/-- `cls(d)` : `for key, value in d.items(): self[key] += value` on an empty model -/
def construct (sq : Sq) (d : Poly) : Except Err Poly := iaddD sq [] d

/-- inner loop of `__imul__`: `for ko, vo in oitems: self[kp + kop] += v * vo` -/
def mulRow (sq : Sq) (acc : Poly) (k : Key) (v : Rat) (q : Poly) : Except Err Poly :=
  match q with
  | [] => .ok acc
  | (ko, vo) :: r => do
    let acc' ← addTerm sq acc (k ++ ko) (v * vo)
    mulRow sq acc' k v r

/-- outer loop of `__imul__` -/
def mulRows (sq : Sq) (acc : Poly) (p q : Poly) : Except Err Poly :=
  match p with
  | [] => .ok acc
  | (k, v) :: r => do
    let acc' ← mulRow sq acc k v q
    mulRows sq acc' r q

/-- `self *= other` for a dict `other`: snapshot items, clear, double loop -/
def imulD (sq : Sq) (p q : Poly) : Except Err Poly := mulRows sq [] p q

/-- `for k in tuple(self.keys()): self[k] *= c` -/
def scaleKeys (sq : Sq) (p : Poly) (ks : List Key) (c : Rat) : Except Err Poly :=
  match ks with
  | [] => .ok p
  | k :: r => do
    let p' ← mulItem sq p k c
    scaleKeys sq p' r c

def imulC (sq : Sq) (p : Poly) (c : Rat) : Except Err Poly :=
  scaleKeys sq p (p.map Prod.fst) c

/-- `self /= c` (`ZeroDivisionError` on the first key when `c = 0`) -/
def idivC (sq : Sq) (p : Poly) (c : Rat) : Except Err Poly :=
  if c = 0 then (if p.isEmpty then .ok p else .error .zerodiv) else imulC sq p (1 / c)

/-- `for _ in range(n): self *= old` -/
def powLoop (sq : Sq) (p old : Poly) : Nat → Except Err Poly
  | 0 => .ok p
  | n + 1 => do
    let p' ← imulD sq p old
    powLoop sq p' old n

/-- `self **= e` : `ValueError` unless `e` is a positive integer -/
def ipow (sq : Sq) (p : Poly) (e : Int) : Except Err Poly :=
  if e ≤ 0 then .error .value
  else do
    let old ← construct sq p
    powLoop sq p old (e.toNat - 1)

/-- `-self` = `-1 * self` -/
def negP (sq : Sq) (p : Poly) : Except Err Poly := do
  let d ← construct sq p
  imulC sq d (-1)

end Qv
