/-!
# Qv.Model.Basic — dicts, keys, evaluation

Executable model of the dictionary layer of qubovert
(`qubovert/utils/_dict_arithmetic.py`, `squash_key` of the ten model types in
`_pubomatrix.py`, `_pusomatrix.py`, `_qubomatrix.py`, `_qusomatrix.py`, `_qubo.py`, `_quso.py`,
`_pubo.py`, `_puso.py`).  Core Lean only (no Mathlib) so that the driver links as an executable.

A Python `dict` is an insertion-ordered association list.  Labels are natural numbers
(DESIGN.md §3.1); coefficients are exact rationals (§3.2).
-/
namespace Qv

abbrev Var := Nat
abbrev Key := List Var
abbrev Poly := List (Key × Rat)

/-- The exceptions the modelled code raises, as a small enum. -/
inductive Err
  | key      -- KeyError
  | value    -- ValueError
  | type     -- TypeError
  | index    -- IndexError
  | zerodiv  -- ZeroDivisionError
  | attr     -- AttributeError
  | other
  deriving DecidableEq, Repr, Inhabited

def Err.name : Err → String
  | .key => "KeyError" | .value => "ValueError" | .type => "TypeError"
  | .index => "IndexError" | .zerodiv => "ZeroDivisionError" | .attr => "AttributeError"
  | .other => "other"

/-- `dict.get(key, 0)` -/
def get (p : Poly) (k : Key) : Rat :=
  match p with
  | [] => 0
  | (k', v) :: rest => if k' = k then v else get rest k

/-- `key in dict` -/
def hasKey (p : Poly) (k : Key) : Bool :=
  match p with
  | [] => false
  | (k', _) :: rest => if k' = k then true else hasKey rest k

/-- `dict.pop(key, 0)` (the remaining dict) -/
def erase (p : Poly) (k : Key) : Poly :=
  match p with
  | [] => []
  | (k', v) :: rest => if k' = k then rest else (k', v) :: erase rest k

/-- `dict.__setitem__` : update in place (position kept) or append -/
def put (p : Poly) (k : Key) (v : Rat) : Poly :=
  match p with
  | [] => [(k, v)]
  | (k', v') :: rest => if k' = k then (k, v) :: rest else (k', v') :: put rest k v

/-- `DictArithmetic.__setitem__` on an already squashed key: zero values are removed. -/
def set (p : Poly) (k : Key) (v : Rat) : Poly :=
  if v = 0 then erase p k else put p k v

/-! ## Keys -/

/-- insert into a strictly sorted list, keeping it strictly sorted (set semantics) -/
def insertU (a : Var) : Key → Key
  | [] => [a]
  | b :: bs => if a < b then a :: b :: bs else if a = b then b :: bs else b :: insertU a bs

/-- toggle membership in a strictly sorted list (parity semantics) -/
def toggleU (a : Var) : Key → Key
  | [] => [a]
  | b :: bs => if a < b then a :: b :: bs else if a = b then bs else b :: toggleU a bs

/-- boolean `squash_key`: `tuple(sorted(set(key)))` -/
def squashB (k : Key) : Key := k.foldr insertU []

/-- spin `squash_key`: sorted labels of odd multiplicity -/
def squashS (k : Key) : Key := k.foldr toggleU []

/-- The ten model types, plus the plain `DictArithmetic`/dict whose keys are not squashed. -/
inductive Kind
  | dict | qubo | quso | pubo | puso | pcbo | pcso | qubom | qusom | pubom | pusom
  deriving DecidableEq, Repr, Inhabited

def Kind.isSpin : Kind → Bool
  | .quso | .puso | .pcso | .qusom | .pusom => true
  | _ => false

def Kind.isDeg2 : Kind → Bool
  | .qubo | .quso | .qubom | .qusom => true
  | _ => false

def Kind.isMatrix : Kind → Bool
  | .qubom | .qusom | .pubom | .pusom => true
  | _ => false

def Kind.name : Kind → String
  | .dict => "dict" | .qubo => "QUBO" | .quso => "QUSO" | .pubo => "PUBO" | .puso => "PUSO"
  | .pcbo => "PCBO" | .pcso => "PCSO" | .qubom => "QUBOMatrix" | .qusom => "QUSOMatrix"
  | .pubom => "PUBOMatrix" | .pusom => "PUSOMatrix"

def Kind.ofName? : String → Option Kind
  | "dict" => some .dict | "QUBO" => some .qubo | "QUSO" => some .quso | "PUBO" => some .pubo
  | "PUSO" => some .puso | "PCBO" => some .pcbo | "PCSO" => some .pcso
  | "QUBOMatrix" => some .qubom | "QUSOMatrix" => some .qusom
  | "PUBOMatrix" => some .pubom | "PUSOMatrix" => some .pusom
  | _ => none

/-- `cls.squash_key(key)`; `KeyError` for the degree-2 types when more than two labels remain. -/
def squash (κ : Kind) (k : Key) : Except Err Key :=
  match κ with
  | .dict => .ok k
  | _ =>
    let k' := if κ.isSpin then squashS k else squashB k
    if κ.isDeg2 && decide (k'.length > 2) then .error .key else .ok k'

/-! ## Evaluation -/

/-- product of the variables of a (raw) key: a repeated label multiplies twice -/
def mon (x : Var → Rat) (k : Key) : Rat :=
  match k with
  | [] => 1
  | i :: r => x i * mon x r

/-- value of a term list at an assignment -/
def eval (x : Var → Rat) (p : Poly) : Rat :=
  match p with
  | [] => 0
  | (k, v) :: r => v * mon x k + eval x r

/-- degree of a term list: longest key (0 for empty) -/
def degree (p : Poly) : Nat := p.foldl (fun d kv => max d kv.1.length) 0

end Qv
