import Qv.Model.Basic
import Qv.Model.EVal
/-!
# Qv.Model.Results — `AnnealResult` / `AnnealResults` as a state machine (C13)

Executable model of `qubovert/sim/_anneal_results.py` **as it is**, including the list behaviour
`AnnealResults` inherits from `list` without overriding it (`sort`, `reverse`).  Core Lean only.

* a result is `(state, value, spin)`; a state (`dict` label → int) is an association list in sorted
  label order (the harness canonicalises; equality of such lists is `dict` equality); a value is an
  extended rational `EVal` = ℚ ∪ {+inf, -inf} (`float('inf')` is an ordinary value of a result — the
  usual tag of an infeasible state; NaN is outside the model, see `Qv/Model/EVal.lean`);
* a collection is `(items, best)`; every method returns the new collection, the derived collection,
  or the exception the code raises — `TypeError` / `AttributeError` from comparing with a `None`
  `best` included, and `best` left stale by the inherited mutators;
* the operations that violated C13 before the upstream repair (DESIGN.md §10 D3; `fix:` commits
  98630c1, 99d9853, 0225de2 of `/repo`) are collected in the table `Impl`: `Impl.fixed` mirrors the
  code as it is now, `Impl.beforeFix` the code before those commits (kept as documentation and for
  the relapse counter-histories).  `impl` is the one the driver — and hence the correspondence check
  — uses.
-/
namespace Qv.Res
open Qv

/-- a state dict: label → value, in sorted label order -/
abbrev PState := List (Nat × Int)

/-- `AnnealResult(state, value, spin)`; `__eq__` is structural equality, `__lt__` compares `value` -/
structure Result where
  state : PState
  value : EVal
  spin : Bool
  deriving DecidableEq, Repr, Inhabited

/-- `AnnealResults`: the list and the cached `best` attribute -/
structure Coll where
  items : List Result
  best : Option Result
  deriving DecidableEq, Repr, Inhabited

/-! ## `AnnealResult` methods -/

/-- `spin_to_boolean` on a dict: `{k: {-1: 1, 1: 0}[v]}` (`KeyError` outside `{1,-1}`) -/
def spinToBool : PState → Except Err PState
  | [] => pure []
  | (k, v) :: rest =>
    if v = 1 then do pure ((k, 0) :: (← spinToBool rest))
    else if v = -1 then do pure ((k, 1) :: (← spinToBool rest))
    else throw .key

/-- `boolean_to_spin` on a dict: `{k: {0: 1, 1: -1}[v]}` (`KeyError` outside `{0,1}`) -/
def boolToSpin : PState → Except Err PState
  | [] => pure []
  | (k, v) :: rest =>
    if v = 0 then do pure ((k, 1) :: (← boolToSpin rest))
    else if v = 1 then do pure ((k, -1) :: (← boolToSpin rest))
    else throw .key

/-- `AnnealResult.to_boolean` -/
def Result.toBoolean (r : Result) : Except Err Result :=
  if r.spin then do pure ⟨← spinToBool r.state, r.value, false⟩ else pure r

/-- `AnnealResult.to_spin` -/
def Result.toSpin (r : Result) : Except Err Result :=
  if r.spin then pure r else do pure ⟨← boolToSpin r.state, r.value, true⟩

/-- `[f(r) for r in l]` where `f` may raise: the first exception aborts -/
def mapE (f : Result → Except Err Result) : List Result → Except Err (List Result)
  | [] => pure []
  | x :: xs => do
    let y ← f x
    let ys ← mapE f xs
    pure (y :: ys)

/-! ## `best` bookkeeping -/

/-- `self.best is None or result.value < self.best.value` -/
def better (r : Result) : Option Result → Bool
  | none => true
  | some b => decide (r.value < b.value)

/-- one step of the update in `append` / `insert` / `_recompute_best` -/
def upd (b : Option Result) (r : Result) : Option Result := if better r b then some r else b

/-- `_recompute_best`: the first element of least value -/
def recompute (l : List Result) : Option Result := l.foldl upd none

def Coll.empty : Coll := ⟨[], none⟩

/-- `append` -/
def Coll.append (s : Coll) (r : Result) : Coll := ⟨s.items ++ [r], upd s.best r⟩

/-- `AnnealResults(iterable)`: `best = None`, then `append` every element -/
def construct (l : List Result) : Coll := l.foldl Coll.append Coll.empty

/-! ## Python index arithmetic -/

/-- index normalisation of `l[i]`, `l.pop(i)`, `l[i] = x`, `del l[i]` (`none` = `IndexError`) -/
def normIndex (n : Nat) (i : Int) : Option Nat :=
  let j : Int := if i < 0 then i + n else i
  if 0 ≤ j ∧ j < n then some j.toNat else none

/-- index clamping of `list.insert` -/
def insertPos (n : Nat) (i : Int) : Nat :=
  let j : Int := if i < 0 then i + n else i
  if j < 0 then 0 else if j > n then n else j.toNat

/-- `slice(start, stop, step)` -/
structure Slice where
  start : Option Int
  stop : Option Int
  step : Option Int
  deriving Repr, Inhabited, DecidableEq

/-- `PySlice_Unpack` + `PySlice_AdjustIndices`: `(start, stop, step, slicelength)`;
`ValueError` for step 0 -/
def Slice.indices (sl : Slice) (n : Nat) : Except Err (Int × Int × Int × Nat) :=
  let step : Int := sl.step.getD 1
  if step = 0 then throw .value else
  let n' : Int := n
  let lower : Int := if step < 0 then -1 else 0
  let upper : Int := if step < 0 then n' - 1 else n'
  let clampi (v : Int) : Int := if v < 0 then max (v + n') lower else min v upper
  let start : Int := match sl.start with
    | none => if step < 0 then upper else lower
    | some v => clampi v
  let stop : Int := match sl.stop with
    | none => if step < 0 then lower else upper
    | some v => clampi v
  let len : Int :=
    if step < 0 then (if stop < start then (start - stop - 1) / (-step) + 1 else 0)
    else (if start < stop then (stop - start - 1) / step + 1 else 0)
  pure (start, stop, step, len.toNat)

/-- the list positions a slice selects, in slice order -/
def Slice.positions (sl : Slice) (n : Nat) : Except Err (List Nat) := do
  let (start, _, step, len) ← sl.indices n
  pure ((List.range len).map (fun (k : Nat) => (start + (k : Int) * step).toNat))

/-! ## plain `list` operations (what `super()` does) -/

def insertAt (l : List Result) (k : Nat) (r : Result) : List Result := l.take k ++ r :: l.drop k
def removeAt (l : List Result) (k : Nat) : List Result := l.take k ++ l.drop (k + 1)
def replaceAt (l : List Result) (k : Nat) (r : Result) : List Result := l.take k ++ r :: l.drop (k + 1)

/-- `l * n` -/
def repeatList (l : List Result) : Nat → List Result
  | 0 => []
  | n + 1 => l ++ repeatList l n

def mulList (l : List Result) (n : Int) : List Result := repeatList l n.toNat

/-- `l[slice]` -/
def listGetSlice (l : List Result) (sl : Slice) : Except Err (List Result) := do
  let ps ← sl.positions l.length
  pure (ps.filterMap (fun p => l[p]?))

/-- drop the elements whose position is in `ps` -/
def dropPositions (ps : List Nat) : List Result → Nat → List Result
  | [], _ => []
  | x :: xs, i => if ps.contains i then dropPositions ps xs (i + 1) else x :: dropPositions ps xs (i + 1)

/-- `del l[slice]` -/
def listDelSlice (l : List Result) (sl : Slice) : Except Err (List Result) := do
  let ps ← sl.positions l.length
  pure (dropPositions ps l 0)

/-- `l[slice] = v`: a contiguous slice (step 1) is replaced by `v` (`l[5:2] = v` inserts before 5);
an extended slice needs `len(v)` equal to the slice length (`ValueError` otherwise) -/
def listSetSlice (l : List Result) (sl : Slice) (v : List Result) : Except Err (List Result) := do
  let (start, stop, step, len) ← sl.indices l.length
  if step = 1 then
    let lo := start.toNat
    let hi := max lo stop.toNat
    pure (l.take lo ++ v ++ l.drop hi)
  else if v.length ≠ len then throw .value
  else
    pure ((List.range len).foldl
      (fun acc (k : Nat) => match v[k]? with
        | some r => acc.set (start + (k : Int) * step).toNat r
        | none => acc) l)

/-- stable sort by value (`list.sort()` with `AnnealResult.__lt__`); `reverse=True` keeps the original
order of equal elements (CPython reverses, sorts, reverses) -/
def sortItems (l : List Result) (rev : Bool) : List Result :=
  let le := fun (a b : Result) => decide (a.value ≤ b.value)
  if rev then (l.reverse.mergeSort le).reverse else l.mergeSort le

/-! ## `AnnealResults` methods that the code defines (faithful; work on any state, also on a state
whose `best` is stale) -/

/-- `insert(index, result)` -/
def Coll.insert (s : Coll) (i : Int) (r : Result) : Coll :=
  ⟨insertAt s.items (insertPos s.items.length i) r, upd s.best r⟩

/-- `result == self.best` (`AnnealResult.__eq__` reads `other.state`: `AttributeError` on `None`) -/
def eqBest (r : Result) : Option Result → Except Err Bool
  | none => throw .attr
  | some b => pure (decide (r = b))

/-- `remove(result)`: `ValueError` if absent; otherwise the list is already changed when
`result == self.best` is evaluated — the second component is that late exception -/
def Coll.remove (s : Coll) (r : Result) : Except Err (Coll × Option Err) :=
  if r ∈ s.items then
    let l := s.items.erase r
    match eqBest r s.best with
    | .error e => pure (⟨l, s.best⟩, some e)
    | .ok true => pure (⟨l, recompute l⟩, none)
    | .ok false => pure (⟨l, s.best⟩, none)
  else throw .value

/-- `pop(index)`: `IndexError` if out of range; returns the element -/
def Coll.pop (s : Coll) (i : Int) : Except Err (Coll × Result × Option Err) :=
  match normIndex s.items.length i with
  | none => throw .index
  | some k =>
    match s.items[k]? with
    | none => throw .index
    | some x =>
      let l := removeAt s.items k
      match eqBest x s.best with
      | .error e => pure (⟨l, s.best⟩, x, some e)
      | .ok true => pure (⟨l, recompute l⟩, x, none)
      | .ok false => pure (⟨l, s.best⟩, x, none)

/-- `extend(other)` with an iterable that is not an `AnnealResults`: `append` each -/
def Coll.extendList (s : Coll) (l : List Result) : Coll := l.foldl Coll.append s

/-- `clear()` -/
def Coll.clear (_ : Coll) : Coll := Coll.empty

/-- `sort(reverse=rev)` (inherited; `best` untouched) -/
def Coll.sort (s : Coll) (rev : Bool) : Coll := ⟨sortItems s.items rev, s.best⟩

/-- `reverse()` (inherited; `best` untouched) -/
def Coll.reverse (s : Coll) : Coll := ⟨s.items.reverse, s.best⟩

/-- `self[i]` for an int -/
def Coll.getItem (s : Coll) (i : Int) : Except Err Result :=
  match normIndex s.items.length i with
  | none => throw .index
  | some k => match s.items[k]? with
    | none => throw .index
    | some x => pure x

/-! derived collections: every one goes through the constructor -/

def Coll.copy (s : Coll) : Coll := construct s.items
def Coll.add (s : Coll) (l : List Result) : Coll := construct (s.items ++ l)
def Coll.mul (s : Coll) (n : Int) : Coll := construct (mulList s.items n)
def Coll.getSlice (s : Coll) (sl : Slice) : Except Err Coll := do pure (construct (← listGetSlice s.items sl))
def Coll.filter (s : Coll) (f : Result → Bool) : Coll := construct (s.items.filter f)
def Coll.filterStates (s : Coll) (f : PState → Bool) : Coll := construct (s.items.filter (fun r => f r.state))
def Coll.applyFunction (s : Coll) (f : Result → Result) : Coll := construct (s.items.map f)
def Coll.convertStates (s : Coll) (f : PState → PState) : Coll :=
  s.applyFunction (fun r => ⟨f r.state, r.value, r.spin⟩)
def Coll.toBoolean (s : Coll) : Except Err Coll := do pure (construct (← mapE Result.toBoolean s.items))
def Coll.toSpin (s : Coll) : Except Err Coll := do pure (construct (← mapE Result.toSpin s.items))

/-! ## The operations of D3: the code before the repair and the repaired code -/

/-- recompute `best` from the items (what `__setitem__` / `__delitem__` do after `super()`) -/
def Coll.fixup (s : Coll) : Coll := ⟨s.items, recompute s.items⟩

/-- `extend` / `__iadd__` with an `AnnealResults` operand *before the repair*:
`if other.best < self.best: self.best = other.best` then `super().extend(other)`.
`None < x` is a `TypeError`; `x < None` evaluates `None.value`: `AttributeError`. -/
def extendARBeforeFix (s o : Coll) : Except Err Coll :=
  match o.best, s.best with
  | none, _ => throw .type
  | some _, none => throw .attr
  | some ob, some sb => pure ⟨s.items ++ o.items, if ob.value < sb.value then some ob else some sb⟩

/-- as it is now: `if other.best is not None and (self.best is None or other.best < self.best)` -/
def extendARFixed (s o : Coll) : Except Err Coll :=
  match o.best with
  | none => pure ⟨s.items ++ o.items, s.best⟩
  | some ob => pure ⟨s.items ++ o.items, upd s.best ob⟩

/-- plain `list.__setitem__(int)` (what `super().__setitem__` does): `best` untouched -/
def setItemList (s : Coll) (i : Int) (r : Result) : Except Err Coll :=
  match normIndex s.items.length i with
  | none => throw .index
  | some k => pure ⟨replaceAt s.items k r, s.best⟩

/-- plain `list.__delitem__(int)` (what `super().__delitem__` does): `best` untouched -/
def delItemList (s : Coll) (i : Int) : Except Err Coll :=
  match normIndex s.items.length i with
  | none => throw .index
  | some k => pure ⟨removeAt s.items k, s.best⟩

def setSliceList (s : Coll) (sl : Slice) (v : List Result) : Except Err Coll := do
  pure ⟨← listSetSlice s.items sl v, s.best⟩

def delSliceList (s : Coll) (sl : Slice) : Except Err Coll := do
  pure ⟨← listDelSlice s.items sl, s.best⟩

/-- the table of the operations whose behaviour before the repair violated C13 -/
structure Impl where
  extendAR : Coll → Coll → Except Err Coll
  iaddAR : Coll → Coll → Except Err Coll
  setItem : Coll → Int → Result → Except Err Coll
  delItem : Coll → Int → Except Err Coll
  setSlice : Coll → Slice → List Result → Except Err Coll
  delSlice : Coll → Slice → Except Err Coll
  /-- does `n * res` wrap its result in `AnnealResults`?  (before the repair `list.__rmul__` was inherited) -/
  rmulWraps : Bool

/-- the code before the repair (documentation; not what `/repo` does any more) -/
def Impl.beforeFix : Impl where
  extendAR := extendARBeforeFix
  iaddAR := extendARBeforeFix
  setItem := setItemList
  delItem := delItemList
  setSlice := setSliceList
  delSlice := delSliceList
  rmulWraps := false

/-- the code as it is: `None`-aware comparison in `extend` / `__iadd__`; `__setitem__` /
`__delitem__` overridden to call `_recompute_best`; `__rmul__` wraps like `__mul__` -/
def Impl.fixed : Impl where
  extendAR := extendARFixed
  iaddAR := extendARFixed
  setItem := fun s i r => do pure (← setItemList s i r).fixup
  delItem := fun s i => do pure (← delItemList s i).fixup
  setSlice := fun s sl v => do pure (← setSliceList s sl v).fixup
  delSlice := fun s sl => do pure (← delSliceList s sl).fixup
  rmulWraps := true

/-- **the switch**: the table the driver runs, i.e. the one compared with `/repo` on every run. -/
def impl : Impl := Impl.fixed

/-! ## The machine: two collections (`cur` is the receiver, `aux` a second `AnnealResults` object
that can serve as operand) and the operation alphabet -/

structure M where
  cur : Coll
  aux : Coll
  deriving Repr, Inhabited, DecidableEq

inductive Op
  | construct (l : List Result)            -- cur = AnnealResults(l)
  | append (r : Result)
  | addState (st : PState) (v : EVal) (sp : Bool)
  | insert (i : Int) (r : Result)
  | remove (r : Result)
  | pop (i : Int)
  | getItem (i : Int)                      -- cur[i]
  | extendList (l : List Result)           -- cur.extend(list)
  | extendAR (l : List Result)             -- cur.extend(AnnealResults(l))
  | extendSelf                             -- cur.extend(cur)
  | extendAux                              -- cur.extend(aux)
  | iaddList (l : List Result)             -- cur += list
  | iaddAR (l : List Result)               -- cur += AnnealResults(l)
  | iaddSelf                               -- cur += cur
  | iaddAux                                -- cur += aux
  | add (l : List Result)                  -- cur = cur + l   (l a list or an AnnealResults)
  | addAux                                 -- cur = cur + aux
  | mul (n : Int)                          -- cur = cur * n  (also `cur *= n`, which Python resolves to `__mul__`)
  | rmul (n : Int)                         -- cur = n * cur
  | getSlice (sl : Slice)                  -- cur = cur[sl]
  | setItem (i : Int) (r : Result)         -- cur[i] = r
  | delItem (i : Int)                      -- del cur[i]
  | setSlice (sl : Slice) (l : List Result) -- cur[sl] = l
  | delSlice (sl : Slice)                  -- del cur[sl]
  | clear
  | sort (rev : Bool)
  | reverse
  | copy                                   -- cur = cur.copy()
  | filter (f : Result → Bool)
  | filterStates (f : PState → Bool)
  | applyFunction (f : Result → Result)
  | convertStates (f : PState → PState)
  | toBoolean
  | toSpin
  | swap                                   -- cur, aux = aux, cur
  | stash                                  -- aux = cur.copy()

/-- what a step reports besides the new machine state -/
inductive Outcome
  | ok (ret : Option Result)               -- return value of `pop` / `cur[i]`
  | raised (e : Err)
  | plain (l : List Result)                -- the derived collection is a plain `list`, not an `AnnealResults`
  deriving Repr, DecidableEq, Inhabited

def done (m : M) : M × Outcome := (m, .ok none)

/-- replace `cur` by the result of a mutator that may raise before changing anything -/
def mutate (m : M) (r : Except Err Coll) : M × Outcome :=
  match r with
  | .ok c => done { m with cur := c }
  | .error e => (m, .raised e)

/-- one operation (with table `I` for the D3 operations).  On an exception the state is the one the
code leaves behind (`remove`/`pop` raise after the list has changed when `best` is `None`). -/
def step (I : Impl) (op : Op) (m : M) : M × Outcome :=
  match op with
  | .construct l => done { m with cur := construct l }
  | .append r => done { m with cur := m.cur.append r }
  | .addState st v sp => done { m with cur := m.cur.append ⟨st, v, sp⟩ }
  | .insert i r => done { m with cur := m.cur.insert i r }
  | .remove r =>
    match m.cur.remove r with
    | .error e => (m, .raised e)
    | .ok (c, none) => done { m with cur := c }
    | .ok (c, some e) => ({ m with cur := c }, .raised e)
  | .pop i =>
    match m.cur.pop i with
    | .error e => (m, .raised e)
    | .ok (c, x, none) => ({ m with cur := c }, .ok (some x))
    | .ok (c, _, some e) => ({ m with cur := c }, .raised e)
  | .getItem i =>
    match m.cur.getItem i with
    | .error e => (m, .raised e)
    | .ok x => (m, .ok (some x))
  | .extendList l => done { m with cur := m.cur.extendList l }
  | .extendAR l => mutate m (I.extendAR m.cur (construct l))
  | .extendSelf => mutate m (I.extendAR m.cur m.cur)
  | .extendAux => mutate m (I.extendAR m.cur m.aux)
  | .iaddList l => done { m with cur := m.cur.extendList l }
  | .iaddAR l => mutate m (I.iaddAR m.cur (construct l))
  | .iaddSelf => mutate m (I.iaddAR m.cur m.cur)
  | .iaddAux => mutate m (I.iaddAR m.cur m.aux)
  | .add l => done { m with cur := m.cur.add l }
  | .addAux => done { m with cur := m.cur.add m.aux.items }
  | .mul n => done { m with cur := m.cur.mul n }
  | .rmul n =>
    if I.rmulWraps then done { m with cur := m.cur.mul n } else (m, .plain (mulList m.cur.items n))
  | .getSlice sl => mutate m (m.cur.getSlice sl)
  | .setItem i r => mutate m (I.setItem m.cur i r)
  | .delItem i => mutate m (I.delItem m.cur i)
  | .setSlice sl l => mutate m (I.setSlice m.cur sl l)
  | .delSlice sl => mutate m (I.delSlice m.cur sl)
  | .clear => done { m with cur := m.cur.clear }
  | .sort rev => done { m with cur := m.cur.sort rev }
  | .reverse => done { m with cur := m.cur.reverse }
  | .copy => done { m with cur := m.cur.copy }
  | .filter f => done { m with cur := m.cur.filter f }
  | .filterStates f => done { m with cur := m.cur.filterStates f }
  | .applyFunction f => done { m with cur := m.cur.applyFunction f }
  | .convertStates f => done { m with cur := m.cur.convertStates f }
  | .toBoolean => mutate m m.cur.toBoolean
  | .toSpin => mutate m m.cur.toSpin
  | .swap => done ⟨m.aux, m.cur⟩
  | .stash => done { m with aux := m.cur.copy }

/-- run a sequence of operations; an exception does not stop the history (the caller catches it) -/
def run (I : Impl) (ops : List Op) (m : M) : M := ops.foldl (fun m op => (step I op m).1) m

/-- the machine started from `AnnealResults(init)` with an empty second collection -/
def start (init : List Result) : M := ⟨construct init, Coll.empty⟩

/-- would a plain `list` holding the same elements accept the call?  (`remove` needs the element,
`pop` / `l[i]` / `l[i] = x` / `del l[i]` a valid index, slices a non-zero step and — for an extended
slice assignment — the right length.)  The conversions have no list counterpart; they need states in
the domain of `spin_to_boolean` / `boolean_to_spin`. -/
def listAccepts (op : Op) (m : M) : Bool :=
  let l := m.cur.items
  match op with
  | .remove r => decide (r ∈ l)
  | .pop i | .getItem i | .setItem i _ | .delItem i => (normIndex l.length i).isSome
  | .getSlice sl => (listGetSlice l sl).toBool
  | .setSlice sl v => (listSetSlice l sl v).toBool
  | .delSlice sl => (listDelSlice l sl).toBool
  | .toBoolean => (mapE Result.toBoolean l).toBool
  | .toSpin => (mapE Result.toSpin l).toBool
  | _ => true

end Qv.Res
