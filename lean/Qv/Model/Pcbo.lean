import Qv.Model.BoolArith
/-!
# Qv.Model.Pcbo — PCBO comparison constraints (`qubovert/_pcbo.py:31-180, 489-549, 671-1342`)

A line-by-line rendering of `add_constraint_{eq,ne,lt,le,gt,ge}_zero`, `_special_constraints_eq_zero`,
`_special_constraints_le_zero`, `_get_bounds`, `num_bits`, `_append_constraint` / `_pop_constraint`,
`_next_ancilla`.  The argument `P` is the already constructed `PUBO(P)` (canonical, in the insertion
order of the user's dict).  Ancilla `"__a<k>"` is the label `ANC + k`.  `tags` record the branch taken
(instrumentation for the correspondence's coverage self-check; not part of the modelled state).
-/
namespace Qv

def ANC : Nat := 1048576   -- 2^20

def getBounds (p : Poly) (b : Option Rat × Option Rat) : Rat × Rat :=
  match b with
  | (none, none) => puboExtrema p
  | (none, some hi) => ((puboExtrema p).1, hi)
  | (some lo, none) => (lo, (puboExtrema p).2)
  | (some lo, some hi) => (lo, hi)

/-- `int(ceil(val))` for `val ≥ 0` -/
def ceilNat (r : Rat) : Nat := (Rat.ceil r).toNat
/-- `int.bit_length` -/
def bitLength (n : Nat) : Nat := if n = 0 then 0 else Nat.log2 n + 1
/-- `num_bits(val, log_trick)` (callers guarantee `val ≥ 0`) -/
def numBits (v : Rat) (logTrick : Bool) : Nat := if logTrick then bitLength (ceilNat v) else ceilNat v

inductive Rel | eq | ne | lt | le | gt | ge deriving Repr, DecidableEq, Inhabited

def Rel.name : Rel → String
  | .eq => "eq" | .ne => "ne" | .lt => "lt" | .le => "le" | .gt => "gt" | .ge => "ge"

/-- does the relation hold of the number `v` (against zero)? -/
def Rel.holds : Rel → Rat → Bool
  | .eq, v => v = 0 | .ne, v => v ≠ 0 | .lt, v => v < 0 | .le, v => v ≤ 0 | .gt, v => v > 0 | .ge, v => v ≥ 0

structure St where
  terms : Poly := []
  anc : Nat := 0
  cons : List (Rel × Poly) := []      -- in append order; the per-relation lists of the code are its sublists
  warns : List String := []
  tags : List String := []
  deriving Repr, Inhabited

def St.append (s : St) (r : Rel) (p : Poly) : St := { s with cons := s.cons ++ [(r, p)] }

def popLast (r : Rel) : List (Rel × Poly) → List (Rel × Poly) × Bool
  | [] => ([], false)
  | c :: t =>
    let (t', done) := popLast r t
    if done then (c :: t', true) else if c.1 = r then (t', true) else (c :: t', false)

/-- `_pop_constraint(r)`: remove the last recorded constraint of relation `r` -/
def St.pop (s : St) (r : Rel) : St := { s with cons := (popLast r s.cons).1 }
def St.warn (s : St) (sup : Bool) (w : String) : St := if sup then s else { s with warns := s.warns ++ [w] }
def St.tag (s : St) (t : String) : St := { s with tags := s.tags ++ [t] }
def St.plus (s : St) (p : Poly) : St := { s with terms := iaddB s.terms p }
def St.minus (s : St) (p : Poly) : St := { s with terms := isubB s.terms p }
/-- `_next_ancilla` -/
def St.nextAnc (s : St) : St × Var := ({ s with anc := s.anc + 1 }, ANC + s.anc)

/-- `3a + bc - 2a(b+c)` as built by `add_constraint_eq_AND(a, b, c)` on labels -/
def gadget (a b c : Var) : Poly :=
  [([a], (3 : Rat)), ([b, c], 1), ([a, b], -2), ([a, c], -2)].foldl (fun acc kv => addTermB acc kv.1 kv.2) []

/-- `_special_constraints_eq_zero` -/
def specialEq (s : St) (P : Poly) (lam : Rat) : Option St :=
  match P with
  | [(k0, v0), (k1, v1)] =>
    if offsetOf P = 0 ∧ (varsOf P).length = 3 ∧ v0 = -v1 then
      match k0, k1 with
      | [a], [b, c] => some ((s.plus (scaleB lam (gadget a b c))).tag "eq-special-and")
      | [b, c], [a] => some ((s.plus (scaleB lam (gadget a b c))).tag "eq-special-and")
      | _, _ => none
    else none
  | _ => none

/-- `add_constraint_eq_zero` -/
def addEqZero (s : St) (P : Poly) (lam : Rat) (b : Option Rat × Option Rat) (sup : Bool) : St :=
  let s := s.append .eq P
  if lam = 0 then s else
  match specialEq s P lam with
  | some s' => s'
  | none =>
    let (lo, hi) := getBounds P b
    if lo = 0 ∧ hi = 0 then (s.warn sup "always").tag "eq-always"
    else if lo > 0 then ((s.warn sup "unsat").plus (scaleB lam P)).tag "eq-unsat-pos"
    else if hi < 0 then ((s.warn sup "unsat").minus (scaleB lam P)).tag "eq-unsat-neg"
    else if lo = 0 then (s.plus (scaleB lam P)).tag "eq-min0"
    else if hi = 0 then (s.minus (scaleB lam P)).tag "eq-max0"
    else (s.plus (mulB (scaleB lam P) P)).tag "eq-square"

/-- the unary slack loop of `_special_constraints_le_zero` -/
def unaryAncillas (s : St) : Nat → St × Poly
  | 0 => (s, [])
  | n + 1 =>
    let (s1, ancs) := unaryAncillas s n
    let (s2, a) := s1.nextAnc
    (s2, addTermB ancs [a] 1)

/-- `_special_constraints_le_zero` -/
def specialLe (s : St) (P : Poly) (lam : Rat) (lt : Bool) (bnd : Rat × Rat) : Option St :=
  let off := offsetOf P
  let Pwo := isubB P (addConstB [] off)
  if off = -1 ∧ Pwo.all (fun kv => kv.2 = 1) then
    some ((s.plus (scaleB (1/2) (mulB (scaleB lam P) Pwo))).tag "le-special-sum1")
  else if !lt ∧ bnd.1 - off = 0 ∧ off ≤ 0 ∧ bnd.1 ≠ 0 then
    let (s, ancs) := unaryAncillas s (numBits (-off) false)
    let diff := isubB Pwo ancs
    some ((s.plus (mulB (scaleB lam diff) diff)).tag "le-special-unary")
  else if off = 1 ∧ Pwo.length = 2 ∧ Pwo.all (fun kv => kv.2 = -1) then
    match Pwo with
    | [(k0, _), (k1, _)] =>
      let x := monoPoly k0; let y := monoPoly k1
      -- PCBO().add_constraint_OR(x, y, lam): lam * (1 - (x + y*(1-x)))
      let orp := iaddB x (mulB y (isubB (addConstB [] 1) x))
      let pen := isubB (addConstB [] 1) orp
      some ((s.plus (scaleB lam pen)).tag "le-special-or")
    | _ => none
  else if off = 0 ∧ P.length = 2 ∧ (P.any (fun kv => kv.2 = 1)) ∧ (P.any (fun kv => kv.2 = -1)) then
    match P.find? (fun kv => kv.2 = 1), P.find? (fun kv => kv.2 = -1) with
    | some (kx, _), some (ky, _) =>
      let x := monoPoly kx; let y := monoPoly ky
      some ((s.plus (mulB (scaleB lam x) (isubB (addConstB [] 1) y))).tag "le-special-xley")
    | _, _ => none
  else none

/-- the slack loop of `add_constraint_le_zero`: `P[(next_ancilla,)] += v; max_val += v` -/
def slackLoop (lt : Bool) (s : St) (P : Poly) (hi : Rat) : Nat → Nat → St × Poly × Rat
  | _, 0 => (s, P, hi)
  | i, n + 1 =>
    let v : Rat := if lt then ((2 ^ i : Nat) : Rat) else 1
    let (s', a) := s.nextAnc
    slackLoop lt s' (addTermB P [a] v) (hi + v) (i + 1) n

/-- `add_constraint_le_zero` -/
def addLeZero (s : St) (P : Poly) (lam : Rat) (lt : Bool) (b : Option Rat × Option Rat) (sup : Bool) : St :=
  let s := s.append .le P
  if lam = 0 then s else
  let (lo, hi) := getBounds P b
  match specialLe s P lam lt (lo, hi) with
  | some s' => s'
  | none =>
    if lo > 0 then ((s.warn sup "unsat").plus (scaleB lam P)).tag "le-unsat"
    else if hi ≤ 0 then (s.warn sup "always").tag "le-always"
    else
      let (s, P', hi') :=
        if lo ≠ 0 then slackLoop lt s P hi 0 (numBits (-lo) lt) else (s, P, hi)
      let s := (addEqZero s P' lam (some lo, some hi') true).pop .eq
      s.tag (if lo = 0 then "le-noslack" else if lt then "le-logslack" else "le-unaryslack")

/-- `add_constraint_lt_zero` -/
def addLtZero (s : St) (P : Poly) (lam : Rat) (lt : Bool) (b : Option Rat × Option Rat) (sup : Bool) : St :=
  let s := s.append .lt P
  if lam = 0 then s else
  let (lo, hi) := getBounds P b
  if lo ≥ 0 then ((s.warn sup "unsat").plus (scaleB lam P)).tag "lt-unsat"
  else if hi < 0 then (s.warn sup "always").tag "lt-always"
  else ((addLeZero s (addConstB P 1) lam lt (some (lo + 1), some (hi + 1)) true).pop .le).tag "lt-shift"

/-- `add_constraint_gt_zero` -/
def addGtZero (s : St) (P : Poly) (lam : Rat) (lt : Bool) (b : Option Rat × Option Rat) (sup : Bool) : St :=
  let s := s.append .gt P
  if lam = 0 then s else
  let (lo, hi) := getBounds P b
  (addLtZero s (scaleB (-1) P) lam lt (some (-hi), some (-lo)) sup).pop .lt

/-- `add_constraint_ge_zero` -/
def addGeZero (s : St) (P : Poly) (lam : Rat) (lt : Bool) (b : Option Rat × Option Rat) (sup : Bool) : St :=
  let s := s.append .ge P
  if lam = 0 then s else
  let (lo, hi) := getBounds P b
  (addLeZero s (scaleB (-1) P) lam lt (some (-hi), some (-lo)) sup).pop .le

/-- the slack loop of `add_constraint_ne_zero`: `P += sign * v * boolean_var(next_ancilla)` -/
def neLoop (lt : Bool) (sign : Poly) (s : St) (P : Poly) (lo hi : Rat) : Nat → Nat → St × Poly × Rat × Rat
  | _, 0 => (s, P, lo, hi)
  | i, n + 1 =>
    let v : Rat := if lt then ((2 ^ i : Nat) : Rat) else 1
    let (s', a) := s.nextAnc
    neLoop lt sign s' (iaddB P (mulB (scaleB v sign) (monoPoly [a]))) (lo - v) (hi + v) (i + 1) n

/-- `add_constraint_ne_zero` -/
def addNeZero (s : St) (P : Poly) (lam : Rat) (lt : Bool) (b : Option Rat × Option Rat) (sup : Bool) : St :=
  let s := s.append .ne P
  if lam = 0 then s else
  let (lo, hi) := getBounds P b
  if lo = 0 ∧ hi = 0 then ((s.warn sup "unsat").plus (addConstB [] lam)).tag "ne-unsat"
  else if lo > 0 then (s.warn sup "always").tag "ne-always-pos"
  else if hi < 0 then (s.warn sup "always").tag "ne-always-neg"
  else if lo = 0 then ((addGtZero s P lam true (some lo, some hi) sup).pop .gt).tag "ne-gt"
  else if hi = 0 then ((addLtZero s P lam true (some lo, some hi) sup).pop .lt).tag "ne-lt"
  else
    let (s, a0) := s.nextAnc
    let sign : Poly := addConstB (addTermB [] [a0] 2) (-1)      -- 2*boolean_var(a0) - 1
    let P1 := iaddB P sign
    let hi1 := hi + 1; let lo1 := lo - 1
    let (s, P2, lo2, hi2) := neLoop lt sign s P1 lo1 hi1 0 (numBits (hi1 - lo1 - 1) lt)
    ((addEqZero s P2 lam (some lo2, some hi2) true).pop .eq).tag "ne-twosided"

/-- dispatch on the relation -/
def addConstraint (r : Rel) (s : St) (P : Poly) (lam : Rat) (lt : Bool) (b : Option Rat × Option Rat)
    (sup : Bool) : St :=
  match r with
  | .eq => addEqZero s P lam b sup
  | .ne => addNeZero s P lam lt b sup
  | .lt => addLtZero s P lam lt b sup
  | .le => addLeZero s P lam lt b sup
  | .gt => addGtZero s P lam lt b sup
  | .ge => addGeZero s P lam lt b sup

/-- `is_solution_valid`: every recorded constraint holds at `x` -/
def isValid (s : St) (x : Var → Rat) : Bool := s.cons.all (fun c => c.1.holds (eval x c.2))

end Qv
