/-!
# Qv.Model.Pcg — PCG32 (`qubovert/sim/src/pcg_basic.c`) and its wrapper `random.c`

Fixed-width arithmetic is `UInt64`/`UInt32`, exactly as in C.  Core Lean only.
Measured: reproduces the C build bit for bit (first outputs for several seeds, `rand_double`).
-/
namespace Qv

/-- `pcg32_random_t` -/
structure Rng where
  state : UInt64
  inc : UInt64
  deriving Repr, Inhabited

/-- `pcg32_random_r` -/
def Rng.next (r : Rng) : Rng × UInt32 :=
  let old := r.state
  let st := old * 6364136223846793005 + r.inc
  let xorshifted : UInt32 := (((old >>> 18) ^^^ old) >>> 27).toUInt32
  let rot : UInt32 := (old >>> 59).toUInt32
  ({ r with state := st }, (xorshifted >>> rot) ||| (xorshifted <<< ((0 - rot) &&& 31)))

/-- `pcg32_srandom_r(rng, initstate, initseq)` -/
def Rng.seed (initstate initseq : UInt64) : Rng :=
  let r : Rng := { state := 0, inc := (initseq <<< 1) ||| 1 }
  let r := r.next.1
  let r := { r with state := r.state + initstate }
  r.next.1

/-- `rand_init(seed)` for `seed >= 0`: `pcg32_srandom_r(rng, (unsigned)seed, 54u)`.
(`seed < 0` seeds from the clock and the address of `rng`; that branch is outside the model.) -/
def Rng.init (seed : Nat) : Rng := Rng.seed seed.toUInt32.toUInt64 54

/-- the 32 random bits behind `rand_double`: `ldexp((double)pcg32_random_r(rng), -32)`;
the value is `u / 2^32` exactly -/
def Rng.double (r : Rng) : Rng × Float :=
  let (r, u) := r.next
  (r, Float.ofNat u.toNat / 4294967296.0)

/-- `pcg32_boundedrand_r(rng, bound)`: rejection loop `for(;;)`, bounded by `fuel` in the model.
When the fuel runs out (probability < 2^-fuel) the model returns 0. -/
def Rng.bounded (r : Rng) (bound : UInt32) : Nat → Rng × UInt32
  | 0 => (r, 0)
  | fuel + 1 =>
    let threshold : UInt32 := (0 - bound) % bound
    let (r', x) := r.next
    if x ≥ threshold then (r', x % bound) else Rng.bounded r' bound fuel

/-- `rand_int(rng, stop)` -/
def Rng.int (r : Rng) (stop : Nat) (fuel : Nat := 64) : Rng × Nat :=
  let (r, x) := r.bounded stop.toUInt32 fuel
  (r, x.toNat)

end Qv
