import Qv.Model.Problems
/-!
# Qv.Model.Problems2 — `GraphPartitioning`, `SetCover`, `JobSequencing`

Mirrors `np/partitioning/_graph_partitioning.py`, `np/covering/_set_cover.py`,
`np/coloring/_job_sequencing.py` and the one PCSO call they use
(`qubovert/_pcso.py:380-411` `PCSO.add_constraint_eq_zero`, modelled locally as `pcsoEqZeroTerms` on top of
`Qv.Model.Pcbo.addEqZero` and the conversions of `Qv.Model.Convert`).
-/
namespace Qv.Prob
open Qv

/-! ## `PCSO().add_constraint_eq_zero(H, lam)` on a fresh PCSO: the terms it ends with

```
H = PUSO(H); self._append_constraint('eq', H)
if not lam: return self
h = _empty_pcbo(self).add_constraint_eq_zero(puso_to_pubo(H), lam=lam, bounds=None)
self._ancilla = h._ancilla; self += pubo_to_puso(h)
```
`puso_to_pubo` of a `PUSO` is a `PUBO`; `PCBO.add_constraint_eq_zero` starts with `P = PUBO(P)`;
`pubo_to_puso` of a `PCBO` is a `PUSO`. -/
def pcsoEqZeroTerms (H : Poly) (lam : Rat) : Except Err Poly := do
  let Hs ← construct (squash .puso) H
  if lam = 0 then pure [] else do
    let P ← pusoToPubo .puso Hs
    let P' ← construct (squash .pubo) P
    let h := addEqZero {} P' lam (none, none) false
    let T ← puboToPuso .pcbo h.terms
    iaddD (squash .pcso) [] T

/-! ## GraphPartitioning -/

structure GP where
  /-- the items of `edges` (a set: weight 1) in iteration order, self-loops included -/
  input : List ((Var × Var) × Rat)
  /-- iteration order of the set `self._vertices` -/
  order : List Var
  deriving Repr, Inhabited

/-- `self._edges`: the items with `k[0] != k[1]` -/
def GP.edges (p : GP) : List ((Var × Var) × Rat) := p.input.filter (fun e => e.1.1 != e.1.2)

/-- `{y for x in edges for y in x}` as a sorted list -/
def GP.vertexSet (p : GP) : List Var := squashB (p.input.flatMap (fun e => [e.1.1, e.1.2]))

def GP.numVars (p : GP) : Nat := p.order.length

/-- number of occurrences of `q` among the endpoints of all input edges -/
def GP.degOf (p : GP) (q : Var) : Nat :=
  ((p.input.flatMap (fun e => [e.1.1, e.1.2])).filter (fun y => y == q)).length

/-- `max(all_degs.values()) if all_degs else 0` -/
def GP.degree (p : GP) : Nat := (p.vertexSet.map p.degOf).foldl max 0

/-- `for (u, v), w in self._edges.items(): L[(iu, iv)] -= w * B / 2` -/
def GP.cutLoop (order : List Var) (B : Rat) (L : Poly) : List ((Var × Var) × Rat) → Except Err Poly
  | [] => .ok L
  | ((u, v), w) :: r => do
    let iu ← indexIn order u
    let iv ← indexIn order v
    let L' ← addTerm (squash .qusom) L [iu, iv] (-(w * B / 2))
    GP.cutLoop order B L' r

/-- `to_quso(A, B)`; `A = None` means `min(2 * degree, N) * B / 8` -/
def GP.toQuso (p : GP) (A : Option Rat) (B : Rat) : Except Err Poly := do
  let N := p.numVars
  let A := match A with | some a => a | none => ((min (2 * p.degree) N : Nat) : Rat) * B / 8
  let pen ← pcsoEqZeroTerms ((List.range N).map (fun i => ([i], (1 : Rat)))) A
  let L ← iaddD (squash .qusom) [] pen
  let L ← addTerm (squash .qusom) L [] (B * sumL (p.edges.map Prod.snd) / 2)
  GP.cutLoop p.order B L p.edges

def GP.toQubo (p : GP) (A : Option Rat) (B : Rat) : Except Err Poly := do
  let L ← p.toQuso A B
  qusoToQubo .qusom L

/-- `set(self._index_to_vertex[i] for i, v in solution.items() if pred v)` as a sorted list -/
def GP.pick (order : List Var) (pred : Rat → Bool) : Sol → Except Err (List Var)
  | [] => .ok []
  | (i, v) :: r =>
    if pred v then do
      let a ← vertexAt order i
      let rest ← GP.pick order pred r
      pure (insertU a rest)
    else GP.pick order pred r

def GP.convert (p : GP) (s : Sol) : Except Err (List Var × List Var) := do
  let p1 ← GP.pick p.order isOne s
  let p2 ← GP.pick p.order notOne s
  pure (p1, p2)

/-- `len(solution[0]) == len(solution[1])` -/
def GP.validConv (c : List Var × List Var) : Bool := c.1.length == c.2.length

def GP.valid (p : GP) (s : Sol) : Except Err Bool := do
  let c ← p.convert s
  pure (GP.validConv c)

def GP.solveBruteforce (p : GP) (A : Option Rat) (B : Rat) (allS : Bool) (order : List Var)
    (fill : Bool := true) : Except Err (List (List Var × List Var)) :=
  solveVia (p.toQubo A B) p.convert allS order fill p.numVars

/-! ## SetCover -/

structure SC where
  /-- the set `U` in its iteration order (`_alpha_to_index` enumerates it) -/
  U : List Var
  V : List (List Var)
  weights : List Rat
  logTrick : Bool
  M : Nat
  deriving Repr, Inhabited

/-- `int(log2(M)) + 1` (`ValueError` for `M = 0`: math domain error) -/
def logM (M : Nat) : Except Err Nat := if M = 0 then .error .value else .ok (Nat.log2 M + 1)

/-- `__init__(U, V, weights, log_trick, M)`.  `weights = None` means all `1`; `M = None` means
`max(sum(int(alpha in v) for v in V) for alpha in U)` (`ValueError` on an empty `U`).  The
normalisation test `allclose(max(weights), 1)` is modelled as exact equality. -/
def SC.new (U : List Var) (V : List (List Var)) (weights : Option (List Rat)) (logTrick : Bool)
    (M : Option Nat) : Except Err SC := do
  let w ← match weights with
    | none => pure (V.map (fun _ => (1 : Rat)))
    | some w =>
      if w.length ≠ V.length then throw Err.value
      else match w with
        | [] => throw Err.value
        | a :: r => if r.foldl max a ≠ 1 then throw Err.value else pure w
  let M ← match M with
    | some m => pure m
    | none => match U.map (fun a => (V.filter (fun v => v.contains a)).length) with
      | [] => throw Err.value
      | a :: r => pure (r.foldl max a)
  let _ ← logM M
  pure ⟨U, V, w, logTrick, M⟩

def SC.N (p : SC) : Nat := p.V.length
def SC.n (p : SC) : Nat := p.U.length
def SC.logM (p : SC) : Nat := Nat.log2 p.M + 1

def SC.numVars (p : SC) : Nat :=
  if p.logTrick then p.N + p.n * (p.logM + 1) else p.N + p.n * p.M

/-- `_x(alpha, m)` for the element of `U` with index `ia` -/
def SC.x (p : SC) (ia : Nat) (m : Nat) : Nat :=
  p.N + ia + p.n * (if p.logTrick then m else m - 1)

/-- `_filtered_range(alpha, start)` -/
def SC.filtered (p : SC) (alpha : Var) (start : Nat) : List Nat :=
  (List.range p.N).filter (fun k => decide (start ≤ k) && (p.V.getD k []).contains alpha)

/-- `for a in l: head a; for b in (the elements after a): pair a b` — the statements in program order -/
def triOps {α : Type} (head : α → Ops) (pair : α → α → Ops) : List α → Ops
  | [] => []
  | a :: r => head a ++ r.flatMap (pair a) ++ triOps head pair r

/-- the statements of one pass of `for alpha in self._U` -/
def SC.alphaOps (p : SC) (A : Rat) (alpha : Var) (ia : Nat) : Ops :=
  let F := p.filtered alpha 0
  let counter : Ops :=
    if !p.logTrick then
      let ms := (List.range p.M).map (· + 1)
      triOps (fun m => [([p.x ia m, p.x ia m], -A)]) (fun m mp => [([p.x ia m, p.x ia mp], 2 * A)]) ms ++
      ms.flatMap (fun m =>
        [([p.x ia m, p.x ia m], A * m * m)] ++
        (ms.filter (fun mp => decide (m < mp))).map (fun mp => ([p.x ia m, p.x ia mp], 2 * A * m * mp)) ++
        F.map (fun j => ([j, p.x ia m], -(2 * A * m))))
    else
      let ms := List.range (p.logM + 1)
      ms.flatMap (fun m =>
        [([p.x ia m, p.x ia m], A * ((2 : Rat) ^ (2 * m) + 2 * (2 : Rat) ^ m))] ++
        (ms.filter (fun mp => decide (m < mp))).map (fun mp => ([p.x ia m, p.x ia mp], 2 * A * (2 : Rat) ^ (m + mp))) ++
        F.map (fun j => ([j, p.x ia m], -(2 * A * (2 : Rat) ^ m))))
  counter ++ triOps (fun i => [([i], if !p.logTrick then A else -A)]) (fun i j => [([i, j], 2 * A)]) F

/-- `for alpha in self._U` with the running index of `alpha` -/
def SC.allAlphaOps (p : SC) (A : Rat) : List Var → Nat → Ops
  | [], _ => []
  | a :: r, ia => p.alphaOps A a ia ++ SC.allAlphaOps p A r (ia + 1)

/-- all statements of `to_qubo(A, B)` -/
def SC.ops (p : SC) (A B : Rat) : Ops :=
  [([], (p.n : Rat) * A)] ++ linOps (p.weights.map (fun w => w * B)) 0 ++ p.allAlphaOps A p.U 0

def SC.toQubo (p : SC) (A B : Rat) : Except Err Poly := build .qubom [] (p.ops A B)

def SC.toQuso (p : SC) (A B : Rat) : Except Err Poly := do
  let Q ← p.toQubo A B
  quboToQuso .qubom Q

/-- `set(i for i in range(N) if solution[i])` as a sorted list -/
def SC.pick (s : Sol) (isDict : Bool) : List Nat → Except Err (List Nat)
  | [] => .ok []
  | i :: r => do
    let v ← solGet s isDict i
    let rest ← SC.pick s isDict r
    pure (if v ≠ 0 then i :: rest else rest)

def SC.convert (p : SC) (s : Sol) (isDict : Bool) (flag : Bool) : Except Err (List Nat) := do
  let s' ← toBoolSol s flag
  SC.pick s' isDict (List.range p.N)

/-- `covered = set(x for i in solution for x in self._V[i]); covered == self._U` -/
def SC.validConv (p : SC) (c : List Nat) : Bool :=
  squashB (c.flatMap (fun i => p.V.getD i [])) == squashB p.U

def SC.valid (p : SC) (s : Sol) (isDict : Bool) (flag : Bool) : Except Err Bool := do
  let c ← p.convert s isDict flag
  pure (p.validConv c)

/-- `solve_bruteforce(all_solutions)`: `solve_qubo_bruteforce({(i,): w_i}, all_solutions, valid)` on a
plain dict; `ValueError` when nothing is valid -/
def SC.solveBruteforce (p : SC) (allS : Bool) (order : List Var) : Except Err (List (List Nat)) := do
  let Q : Poly := linOps p.weights 0
  let valid := fun (x : Brute.Assign) =>
    match p.valid x true false with | .ok b => b | .error _ => false
  let out ← Brute.solve .qubo ⟨.dict, Q, none⟩ allS valid order
  match out.obj with
  | none => throw .value
  | some _ =>
    match out.sol with
    | .one x => do let r ← p.convert x true false; pure [r]
    | .many xs => xs.mapM (fun x => p.convert x true false)

/-! ## JobSequencing -/

structure JS where
  /-- `self._lengths.items()` in insertion order: job label, length -/
  lengths : List (Var × Rat)
  m : Nat
  logTrick : Bool
  M : Nat
  deriving Repr, Inhabited

/-- `__init__(job_lengths, num_workers, log_trick, M)`; `M = None` means `N * max(lengths)` (lengths are
integers here); `max()` of no lengths and `log2(0)` are `ValueError`s -/
def JS.new (lengths : List (Var × Rat)) (m : Nat) (logTrick : Bool) (M : Option Nat) : Except Err JS := do
  let maxL ← match lengths.map Prod.snd with
    | [] => throw Err.value
    | a :: r => pure (r.foldl max a)
  let M := match M with | some v => v | none => lengths.length * maxL.floor.toNat
  let _ ← logM M
  pure ⟨lengths, m, logTrick, M⟩

def JS.N (p : JS) : Nat := p.lengths.length
def JS.maxL (p : JS) : Rat := match p.lengths.map Prod.snd with | [] => 0 | a :: r => r.foldl max a
def JS.logM (p : JS) : Nat := Nat.log2 p.M + 1
def JS.maxM (p : JS) : Nat := if p.logTrick then p.logM else p.M

def JS.numVars (p : JS) : Nat := p.m * p.N + (p.m - 1) * p.maxM

/-- `_x(job, worker)` for the job with index `ij` -/
def JS.x (p : JS) (ij : Nat) (worker : Nat) : Nat := ij * p.m + worker
/-- `_y(i, worker)` -/
def JS.y (p : JS) (i : Nat) (worker : Nat) : Nat := p.N * p.m + i * (p.m - 1) + worker - 1

/-- the jobs as `(index, length)` in dict order -/
def JS.jobs (p : JS) : List (Nat × Rat) := (List.range p.N).zip (p.lengths.map Prod.snd)

/-- coefficient of slack bit `n`: `pow(2, n)` or `n + 1` -/
def JS.coef (p : JS) (n : Nat) : Rat := if p.logTrick then (2 : Rat) ^ n else (n : Rat) + 1

/-- all statements of `to_qubo(A, B)` after `A` has been resolved -/
def JS.ops (p : JS) (A B : Rat) : Ops :=
  let jobs := p.jobs
  let workers := List.range p.m
  let bits := List.range p.maxM
  [([], (p.N : Rat) * A)] ++
  jobs.map (fun jl => ([p.x jl.1 0], B * jl.2)) ++
  jobs.flatMap (fun jl => workers.flatMap (fun w =>
    [([p.x jl.1 w], -(2 * A))] ++ workers.map (fun wp => ([p.x jl.1 w, p.x jl.1 wp], A)))) ++
  (workers.drop 1).flatMap (fun w =>
    bits.flatMap (fun n =>
      bits.map (fun np => ([p.y n w, p.y np w],
        if p.logTrick then A * (2 : Rat) ^ (n + np) else A * ((n : Rat) + 1) * ((np : Rat) + 1))) ++
      jobs.flatMap (fun jl =>
        [([p.y n w, p.x jl.1 w], 2 * A * jl.2 * p.coef n), ([p.y n w, p.x jl.1 0], -(2 * A * jl.2 * p.coef n))])) ++
    jobs.flatMap (fun jl => jobs.flatMap (fun jlp =>
      [([p.x jl.1 w, p.x jlp.1 w], A * jl.2 * jlp.2), ([p.x jl.1 0, p.x jlp.1 0], A * jl.2 * jlp.2),
       ([p.x jl.1 0, p.x jlp.1 w], -(A * jl.2 * jlp.2)), ([p.x jl.1 w, p.x jlp.1 0], -(A * jl.2 * jlp.2))])))

/-- `to_qubo(A, B)`; `A = None` means `B * max(lengths)` -/
def JS.toQubo (p : JS) (A : Option Rat) (B : Rat) : Except Err Poly :=
  let A := match A with | some a => a | none => B * p.maxL
  build .qubom [] (p.ops A B)

def JS.toQuso (p : JS) (A : Option Rat) (B : Rat) : Except Err Poly := do
  let Q ← p.toQubo A B
  quboToQuso .qubom Q

/-- the jobs `job` (labels, sorted) with `solution[_x(job, worker)] == 1` -/
def JS.pickWorker (p : JS) (s : Sol) (isDict : Bool) (worker : Nat) : List (Nat × Var) → Except Err (List Var)
  | [] => .ok []
  | (ij, job) :: r => do
    let v ← solGet s isDict (p.x ij worker)
    let rest ← JS.pickWorker p s isDict worker r
    pure (if v = 1 then insertU job rest else rest)

/-- `convert_solution(solution, spin)`: one sorted job list per worker -/
def JS.convert (p : JS) (s : Sol) (isDict : Bool) (flag : Bool) : Except Err (List (List Var)) := do
  let s' ← toBoolSol s flag
  (List.range p.m).mapM (fun w => JS.pickWorker p s' isDict w ((List.range p.N).zip (p.lengths.map Prod.fst)))

/-- the loop of `is_solution_valid` over the flattened job lists: `none` = early `return False` -/
def JS.scan (completed : List Var) : List Var → Option (List Var)
  | [] => some completed
  | j :: r => if completed.contains j then none else JS.scan (insertU j completed) r

def JS.validConv (p : JS) (c : List (List Var)) : Bool :=
  match JS.scan [] (c.flatMap id) with
  | none => false
  | some done => done == squashB (p.lengths.map Prod.fst)

def JS.valid (p : JS) (s : Sol) (isDict : Bool) (flag : Bool) : Except Err Bool := do
  let c ← p.convert s isDict flag
  pure (p.validConv c)

/-- length of a job label -/
def JS.lenOf (p : JS) (job : Var) : Rat :=
  match p.lengths.find? (fun jl => jl.1 == job) with | some jl => jl.2 | none => 0

/-- `max(sum(self._lengths[job] for job in cluster) for cluster in sol)` (`m ≥ 1`) -/
def JS.objective (p : JS) (c : List (List Var)) : Rat :=
  match c.map (fun cl => sumL (cl.map p.lenOf)) with
  | [] => 0
  | a :: r => r.foldl max a

structure JSBest where
  best : Option (Rat × List (List Var)) := none
  all : List (Rat × List (List (List Var))) := []

/-- `all_sols.setdefault(obj, []).append(sol)` -/
def jsAppend (m : List (Rat × List (List (List Var)))) (k : Rat) (x : List (List Var)) :
    List (Rat × List (List (List Var))) :=
  match m with
  | [] => [(k, [x])]
  | (k', l) :: r => if k' = k then (k', l ++ [x]) :: r else (k', l) :: jsAppend r k x

/-- the body of the loop of `JobSequencing.solve_bruteforce` -/
def JS.step (p : JS) (allS : Bool) (st : JSBest) (bits : List Rat) : Except Err JSBest := do
  let sol ← p.convert ((List.range bits.length).zip bits) false false
  if p.validConv sol then
    let obj := p.objective sol
    if !allS && (match st.best with | none => true | some b => decide (obj < b.1)) then
      pure { st with best := some (obj, sol) }
    else if allS && (match st.best with | none => true | some b => decide (obj ≤ b.1)) then
      pure { best := some (obj, sol), all := jsAppend st.all obj sol }
    else pure st
  else pure st

def JS.loop (p : JS) (allS : Bool) : JSBest → List (List Rat) → Except Err JSBest
  | st, [] => .ok st
  | st, b :: r => do
    let st' ← p.step allS st b
    JS.loop p allS st' r

/-- `solve_bruteforce(all_solutions)`: `None` (here: the empty list) when nothing is valid and
`all_solutions` is off, `KeyError` (`all_sols[None]`) when it is on -/
def JS.solveBruteforce (p : JS) (allS : Bool) : Except Err (List (List (List Var))) := do
  let st ← JS.loop p allS {} (Brute.product [0, 1] (p.m * p.N))
  match st.best with
  | none => if allS then throw .key else pure []
  | some b =>
    if allS then
      match st.all.find? (fun kv => kv.1 == b.1) with
      | some kv => pure kv.2
      | none => throw .key
    else pure [b.2]

end Qv.Prob
