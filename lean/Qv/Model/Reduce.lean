import Qv.Model.Pcbo
/-!
# Qv.Model.Reduce — degree reduction (`qubovert/_pubo.py:141-311, 313-419`, `qubovert/_puso.py:136-377`,
`qubovert/utils/_conversions.py:214-277, 345-490, 492-640`)

Two layers (DESIGN.md §4/C01).

* **Specification** (`specStep`, `specSteps`, `specTerm`, `replay`): a *checker* for reduction certificates.
  A certificate lists, per processed term, the mapped key, the coefficient `v`, the penalty value `λ`, the
  ordered steps `(x, y, z, fresh)` and the final key.  The checker validates every step
  (`x ≠ y`, both in the current key; `fresh` ⇒ `z = next`, `next += 1`, `((x,y),z)` appended to `red`;
  otherwise `((x,y),z) ∈ red`), recomputes `D` (`D += λ·(3z + xy − 2xz − 2yz)` per step, `D[final] += v` per
  term) and checks that the final key is the current key (as a set) and has at most `deg` labels.  *Any*
  choice of pairs is allowed: the theorems of `Qv.Props.C01` are about every certificate this checker accepts.
* **Implementation model** (`reduceDegree`): the deterministic algorithm of `PUBO._reduce_degree` — mapped
  `pairs`, `mapped_self` merge, pair frequencies, the scan order (first pair already in `reductions`, else
  first pair in `pairs`, else first pair of maximal frequency), frequency bumps, sorted re-insertion of `z`,
  `default_lam`, constant / callable `lam`, `deg = None`, `ValueError` for `deg < 2`.  It emits its own
  certificate.
* **Routes** (`route`): `PUBO.to_pubo/to_qubo`, the `Conversions` defaults `to_puso/to_quso`, and
  `PUSO._create_pubo → to_pubo/to_puso/to_qubo/to_quso` with their shortcuts.

Labels: the model `M` has labels that are abstract ids (`Var`, order = `ordering_key` order); `mapping` sends
them to integer labels; `n = num_binary_variables` and (in the `…C` forms) `cdeg = degree`, the cached values,
are inputs — the bookkeeping state of the object, refreshed or stale.  For the PUSO routes `_create_pubo` hands
the temporary PUBO the PUSO's own mapping and (upstream fix 77284a9) its `num_binary_variables`.
`reduceDegree / routeBool / routeSpin / route` are the refreshed-state forms (`cdeg` = the exact degree of the
terms); `reduceDegreeC / routeBoolC / routeSpinC / routeC` take the cached degree as it is.
-/
namespace Qv.Reduce
open Qv

abbrev Pair := Var × Var
/-- the `reductions` dict `(x, y) ↦ z`, in insertion order -/
abbrev Reds := List (Pair × Var)
/-- `pair_frequencies` (a `defaultdict(int)`) -/
abbrev Freq := List (Pair × Nat)
/-- `self._mapping` restricted to what is read: label id ↦ integer label -/
abbrev Mapping := List (Var × Var)

structure Step where
  x : Var
  y : Var
  z : Var
  fresh : Bool
  deriving Repr, DecidableEq, Inhabited

/-- certificate of one processed term of `mapped_self` -/
structure TermCert where
  key : Key
  v : Rat
  lam : Rat
  steps : List Step
  final : Key
  deriving Repr, DecidableEq, Inhabited

/-- state of the specification: next free label, the reductions made so far, the output so far -/
structure RSt where
  next : Nat
  red : Reds
  D : Poly
  deriving Repr, DecidableEq, Inhabited

/-- `D += qv.PCBO().add_constraint_eq_AND(z, x, y, lam=λ)`:
`add_constraint_eq_zero(3z + xy − 2z(x+y), λ, bounds=(0,3))` returns the empty PCBO when `not λ`, otherwise
(no special form: four terms; `min_val == 0`) `PCBO() += λ * P`; then `D += that`. -/
def addGadget (D : Poly) (lam : Rat) (x y z : Var) : Poly :=
  if lam = 0 then D else iaddB D (iaddB [] (scaleB lam (gadget z x y)))

/-! ## Specification: the certificate checker -/

/-- `key` without the labels `x` and `y` -/
def remove2 (key : Key) (x y : Var) : Key := key.filter (fun i => !(i == x || i == y))

/-- one reduction step of the specification -/
def specStep (lam : Rat) (st : RSt) (key : Key) (s : Step) : Except String (RSt × Key) :=
  if s.x = s.y then .error "step with x = y"
  else if !(key.contains s.x && key.contains s.y) then .error "x or y not in the current key"
  else
    let D' := addGadget st.D lam s.x s.y s.z
    let key' := insertU s.z (remove2 key s.x s.y)
    if s.fresh then
      if s.z = st.next then
        .ok ({ next := st.next + 1, red := st.red ++ [((s.x, s.y), s.z)], D := D' }, key')
      else .error "fresh ancilla is not the next free label"
    else if st.red.contains ((s.x, s.y), s.z) then .ok ({ st with D := D' }, key')
    else .error "reused pair is not in the reductions"

def specSteps (lam : Rat) : RSt → Key → List Step → Except String (RSt × Key)
  | st, key, [] => .ok (st, key)
  | st, key, s :: r =>
    match specStep lam st key s with
    | .error e => .error e
    | .ok p => specSteps lam p.1 p.2 r

/-- one term: labels of the mapped key are `< n`; the steps are valid; the recorded final key is the current
key (as a set: `D[final] += v` squashes) and has at most `deg` labels; a term that was reduced needs
`deg ≥ 2` (the gadget has degree 2). -/
def specTerm (n deg : Nat) (st : RSt) (c : TermCert) : Except String RSt :=
  if !(c.key.all (fun i => decide (i < n))) then .error "mapped key uses a label >= n"
  else if !c.steps.isEmpty && decide (deg < 2) then .error "reduction step with deg < 2"
  else
    match specSteps c.lam st c.key c.steps with
    | .error e => .error e
    | .ok p =>
      if squashB c.final ≠ squashB p.2 then .error "final key is not the reduced key"
      else if deg < c.final.length then .error "final key longer than deg"
      else .ok { p.1 with D := addTermB p.1.D c.final c.v }

def specTerms (n deg : Nat) : RSt → List TermCert → Except String RSt
  | st, [] => .ok st
  | st, c :: r =>
    match specTerm n deg st c with
    | .error e => .error e
    | .ok st' => specTerms n deg st' r

/-- the certificate's terms are exactly the model's mapped terms, and every term replays -/
def replay (n deg : Nat) (terms : Poly) (certs : List TermCert) : Except String RSt :=
  if certs.map (fun c => (c.key, c.v)) ≠ terms then
    .error "certificate terms differ from the model's mapped terms"
  else specTerms n deg { next := n, red := [], D := [] } certs

/-! ## Implementation model: `PUBO._reduce_degree` -/

def freqGet (f : Freq) (p : Pair) : Nat :=
  match f with
  | [] => 0
  | (q, c) :: r => if q = p then c else freqGet r p

def freqInc (f : Freq) (p : Pair) : Freq :=
  match f with
  | [] => [(p, 1)]
  | (q, c) :: r => if q = p then (q, c + 1) :: r else (q, c) :: freqInc r p

def redGet (r : Reds) (p : Pair) : Option Var :=
  match r with
  | [] => none
  | (q, z) :: t => if q = p then some z else redGet t p

/-- all pairs `(key[i], key[j])`, `i < j`, in the scan order of lines 254-255 -/
def pairsOf : Key → List Pair
  | [] => []
  | x :: rest => rest.map (fun y => (x, y)) ++ pairsOf rest

inductive Choice
  | used (p : Pair) (z : Var)      -- pair already in `reductions`
  | pick (p : Pair)                -- new pair (user pair or maximal frequency)
  deriving Repr

/-- the nested `for`/`break` of lines 254-269: the first pair in `reductions` wins; else the first pair in
`pairs`; else the first pair of maximal frequency -/
def scan (reds : Reds) (pairs : List Key) (freq : Freq) (ps : List Pair)
    (best : Option (Nat × Pair)) : Option Choice :=
  match ps with
  | [] => best.map (fun b => Choice.pick b.2)
  | p :: rest =>
    match redGet reds p with
    | some z => some (Choice.used p z)
    | none =>
      if pairs.contains [p.1, p.2] then some (Choice.pick p)
      else
        let c := freqGet freq p
        let best' := match best with
          | none => some (c, p)
          | some (bc, bp) => if c > bc then some (c, p) else some (bc, bp)
        scan reds pairs freq rest best'

def rekeyGo (x y z : Var) : Key → Bool → Key
  | [], ins => if ins then [] else [z]
  | i :: r, ins =>
    if i = x ∨ i = y then rekeyGo x y z r ins
    else if !ins && decide (z < i) then z :: i :: rekeyGo x y z r true
    else i :: rekeyGo x y z r ins

/-- lines 299-309: drop `x`, `y`, insert `z` before the first larger label -/
def rekey (key : Key) (x y z : Var) : Key := rekeyGo x y z key false

structure ISt where
  next : Nat
  reds : Reds
  freq : Freq
  D : Poly
  deriving Repr, Inhabited

/-- the `while len(key) > deg` loop and `D[key] += v` for one term; fuel = key length -/
def reduceTerm (deg : Nat) (pairs : List Key) (lamv v : Rat) :
    Nat → Key → ISt → List Step → ISt × List Step × Key
  | 0, key, st, steps => ({ st with D := addTermB st.D key v }, steps.reverse, key)
  | fuel + 1, key, st, steps =>
    if key.length ≤ deg then ({ st with D := addTermB st.D key v }, steps.reverse, key)
    else
      match scan st.reds pairs st.freq (pairsOf key) none with
      | none => ({ st with D := addTermB st.D key v }, steps.reverse, key)  -- only for keys shorter than 2
      | some (Choice.used (x, y) z) =>
        let st' := { st with D := addGadget st.D lamv x y z }
        reduceTerm deg pairs lamv v fuel (rekey key x y z) st' ({ x, y, z, fresh := false } :: steps)
      | some (Choice.pick (x, y)) =>
        let z := st.next
        let st' : ISt :=
          { next := z + 1, reds := st.reds ++ [((x, y), z)],
            freq := freqInc (freqInc st.freq (x, z)) (y, z),
            D := addGadget st.D lamv x y z }
        reduceTerm deg pairs lamv v fuel (rekey key x y z) st' ({ x, y, z, fresh := true } :: steps)

/-- the penalty settings: `None`, a constant, and the callables of the fixed menu the harness uses -/
inductive Lam
  | default                  -- `PUBO.default_lam`: `1 + abs(v)`
  | const (c : Rat)          -- a number: `lam(v) = c`
  | absTimes (c : Rat)       -- `lambda v: c * abs(v)`
  | affine (a b : Rat)       -- `lambda v: a * v + b`
  | sqPlus (c : Rat)         -- `lambda v: v * v + c`
  deriving Repr, Inhabited

def absR (v : Rat) : Rat := if v < 0 then -v else v

/-- `PUBO.default_lam` -/
def defaultLam (v : Rat) : Rat := 1 + absR v

def Lam.app : Lam → Rat → Rat
  | .default, v => defaultLam v
  | .const c, _ => c
  | .absTimes c, v => c * absR v
  | .affine a b, v => a * v + b
  | .sqPlus c, v => v * v + c

def lookup (m : Mapping) (i : Var) : Option Var :=
  match m with
  | [] => none
  | (a, b) :: r => if a = i then some b else lookup r i

/-- insertion into a sorted list, duplicates kept (`sorted(...)`) -/
def insertS (a : Var) : Key → Key
  | [] => [a]
  | b :: bs => if a ≤ b then a :: b :: bs else b :: insertS a bs

def isort (k : Key) : Key := k.foldr insertS []

def mapLabels (m : Mapping) : Key → Except Err Key
  | [] => .ok []
  | i :: r =>
    match lookup m i with
    | none => .error .key
    | some j =>
      match mapLabels m r with
      | .error e => .error e
      | .ok l => .ok (j :: l)

/-- `tuple(sorted(self._mapping[i] for i in k))` (`KeyError` for an unknown label) -/
def mapKey (m : Mapping) (k : Key) : Except Err Key :=
  match mapLabels m k with
  | .error e => .error e
  | .ok l => .ok (isort l)

/-- lines 226-230: a hint with an unknown label becomes `()` -/
def mapPair (m : Mapping) (p : Key) : Key :=
  match mapLabels m p with
  | .error _ => []
  | .ok l => isort l

/-- lines 233-241: `mapped_self` (a plain dict: merged with `get(key, 0) + v`, zeros kept) and the pair
frequencies (one count per original term) -/
def mapSelf (m : Mapping) : Poly → Poly → Freq → Except Err (Poly × Freq)
  | [], acc, f => .ok (acc, f)
  | (k, v) :: r, acc, f =>
    match mapKey m k with
    | .error e => .error e
    | .ok key => mapSelf m r (put acc key (get acc key + v)) ((pairsOf key).foldl freqInc f)

/-- lines 248-311 -/
def reduceTerms (deg : Nat) (pairs : List Key) (lam : Lam) :
    Poly → ISt → List TermCert → ISt × List TermCert
  | [], st, cs => (st, cs.reverse)
  | (key, v) :: r, st, cs =>
    let lamv := lam.app v
    let res := reduceTerm deg pairs lamv v key.length key st []
    reduceTerms deg pairs lam r res.1
      ({ key := key, v := v, lam := lamv, steps := res.2.1, final := res.2.2 } :: cs)

structure Out where
  D : Poly
  certs : List TermCert
  deg : Nat          -- the effective target degree (`self.degree` for `deg = None`)
  mapped : Poly      -- `mapped_self`
  next : Nat
  deriving Repr, Inhabited

/-- lines 225-311 for an effective target degree `d` -/
def reduceCore (terms : Poly) (m : Mapping) (n d : Nat) (lam : Lam) (pairs : List Key) : Except Err Out :=
  match mapSelf m terms [] [] with
  | .error e => .error e
  | .ok p =>
    let res := reduceTerms d (pairs.map (mapPair m)) lam p.1 { next := n, reds := [], freq := p.2, D := [] } []
    .ok { D := res.1.D, certs := res.2, deg := d, mapped := p.1, next := res.1.next }

/-- `PUBO._reduce_degree(D, deg, lam, pairs)` on an empty `D`: `ValueError` for `deg < 2`; `deg = None` means
`self.degree` -/
def reduceDegree (terms : Poly) (m : Mapping) (n : Nat) (deg : Option Nat) (lam : Lam)
    (pairs : List Key) : Except Err Out :=
  match deg with
  | some d => if d < 2 then .error .value else reduceCore terms m n d lam pairs
  | none => reduceCore terms m n (degree terms) lam pairs

/-! ## Boolean ↔ spin maps (minimal local mirrors of `qubovert/utils/_conversions.py`) -/

/-- `self[k] += v` on a PUSOMatrix / QUSOMatrix with at most two labels left -/
def addTermS (p : Poly) (k : Key) (v : Rat) : Poly :=
  let k' := squashS k
  set p k' (get p k' + v)

/-- `generate_new_key_value` of `pubo_to_puso`: `Π x_i = Π (1 - z_i)/2` -/
def genB2S : Key → List (Key × Rat)
  | [] => [([], 1)]
  | i :: k => (genB2S k).flatMap (fun kv => [(i :: kv.1, -kv.2 / 2), (kv.1, kv.2 / 2)])

/-- `generate_new_key_value` of `puso_to_pubo`: `Π z_i = Π (1 - 2 x_i)` -/
def genS2B : Key → List (Key × Rat)
  | [] => [([], 1)]
  | i :: k => (genS2B k).flatMap (fun kv => [(i :: kv.1, -2 * kv.2), (kv.1, kv.2)])

/-- `pubo_to_puso(P)` -/
def puboToPuso (P : Poly) : Poly :=
  P.foldl (fun H kv => (genB2S kv.1).foldl (fun H kv2 => addTermS H kv2.1 (kv2.2 * kv.2)) H) []

/-- `puso_to_pubo(H)` -/
def pusoToPubo (H : Poly) : Poly :=
  H.foldl (fun P kv => (genS2B kv.1).foldl (fun P kv2 => addTermB P kv2.1 (kv2.2 * kv.2)) P) []

/-- one term of `qubo_to_quso` on a QUBOMatrix (keys already squashed; a key with more than two labels makes
`i, j = k` raise `ValueError`) -/
def q2sTerm (L : Poly) (k : Key) (v : Rat) : Except Err Poly :=
  match k with
  | [] => .ok (addTermS L [] v)
  | [i] => .ok (addTermS (addTermS L [i] (-(v / 2))) [] (v / 2))
  | [i, j] =>
    .ok (addTermS (addTermS (addTermS (addTermS L [i, j] (v / 4)) [i] (-(v / 4))) [j] (-(v / 4))) [] (v / 4))
  | _ => .error .value

/-- `qubo_to_quso(Q)` for a QUBOMatrix -/
def quboToQuso : Poly → Poly → Except Err Poly
  | [], L => .ok L
  | (k, v) :: r, L =>
    match q2sTerm L k v with
    | .error e => .error e
    | .ok L' => quboToQuso r L'

/-- `PUSO._to_puso`: `H[sorted mapped key] += v` on a PUSOMatrix -/
def toPusoPlain (m : Mapping) : Poly → Poly → Except Err Poly
  | [], H => .ok H
  | (k, v) :: r, H =>
    match mapKey m k with
    | .error e => .error e
    | .ok key => toPusoPlain m r (addTermS H key v)

/-! ## Routes -/

inductive Target | qubo | quso | pubo | puso
  deriving Repr, DecidableEq, Inhabited

structure RouteOut where
  res : Poly                       -- the returned matrix
  red : Option Out                 -- the boolean reduction behind it (`none` on the PUSO shortcuts)
  pubo : Poly                      -- the boolean model that was reduced (the model itself, or `puso_to_pubo(self)`)
  deriving Repr, Inhabited

/-- `PUBO.to_pubo / to_qubo` and the `Conversions` defaults `to_puso / to_quso` (`deg` is ignored by the
degree-2 targets, as in the signatures) -/
def routeBool (t : Target) (terms : Poly) (m : Mapping) (n : Nat) (deg : Option Nat) (lam : Lam)
    (pairs : List Key) : Except Err RouteOut :=
  match t with
  | .pubo =>
    match reduceDegree terms m n deg lam pairs with
    | .error e => .error e
    | .ok o => .ok { res := o.D, red := some o, pubo := terms }
  | .qubo =>
    match reduceDegree terms m n (some 2) lam pairs with
    | .error e => .error e
    | .ok o => .ok { res := o.D, red := some o, pubo := terms }
  | .puso =>
    match reduceDegree terms m n deg lam pairs with
    | .error e => .error e
    | .ok o => .ok { res := puboToPuso o.D, red := some o, pubo := terms }
  | .quso =>
    match reduceDegree terms m n (some 2) lam pairs with
    | .error e => .error e
    | .ok o =>
      match quboToQuso o.D [] with
      | .error e => .error e
      | .ok L => .ok { res := L, red := some o, pubo := terms }

/-- `PUSO.to_pubo / to_puso / to_qubo / to_quso` -/
def routeSpin (t : Target) (terms : Poly) (m : Mapping) (n : Nat) (deg : Option Nat) (lam : Lam)
    (pairs : List Key) : Except Err RouteOut :=
  let P := pusoToPubo terms
  match t with
  | .pubo => routeBool .pubo P m n deg lam pairs
  | .qubo => routeBool .qubo P m n deg lam pairs
  | .puso =>
    if (match deg with | none => true | some d => decide (degree terms ≤ d)) then
      match toPusoPlain m terms [] with
      | .error e => .error e
      | .ok H => .ok { res := H, red := none, pubo := P }
    else routeBool .puso P m n deg lam pairs
  | .quso =>
    if degree terms ≤ 2 then
      match toPusoPlain m terms [] with
      | .error e => .error e
      | .ok H => .ok { res := H, red := none, pubo := P }
    else routeBool .quso P m n deg lam pairs

def route (spin : Bool) := if spin then routeSpin else routeBool

/-! ## The same with the cached `degree` as an input (models in any bookkeeping state) -/

/-- `PUBO._reduce_degree(D, deg, lam, pairs)` on an empty `D`: `ValueError` for `deg < 2`; `deg = None` means
the cached `self.degree` (`cdeg`; the `-inf` of a model that never had a term is passed as 0) -/
def reduceDegreeC (terms : Poly) (m : Mapping) (n cdeg : Nat) (deg : Option Nat) (lam : Lam)
    (pairs : List Key) : Except Err Out :=
  match deg with
  | some d => if d < 2 then .error .value else reduceCore terms m n d lam pairs
  | none => reduceCore terms m n cdeg lam pairs

def routeBoolC (t : Target) (terms : Poly) (m : Mapping) (n cdeg : Nat) (deg : Option Nat) (lam : Lam)
    (pairs : List Key) : Except Err RouteOut :=
  match t with
  | .pubo =>
    match reduceDegreeC terms m n cdeg deg lam pairs with
    | .error e => .error e
    | .ok o => .ok { res := o.D, red := some o, pubo := terms }
  | .qubo =>
    match reduceDegreeC terms m n cdeg (some 2) lam pairs with
    | .error e => .error e
    | .ok o => .ok { res := o.D, red := some o, pubo := terms }
  | .puso =>
    match reduceDegreeC terms m n cdeg deg lam pairs with
    | .error e => .error e
    | .ok o => .ok { res := puboToPuso o.D, red := some o, pubo := terms }
  | .quso =>
    match reduceDegreeC terms m n cdeg (some 2) lam pairs with
    | .error e => .error e
    | .ok o =>
      match quboToQuso o.D [] with
      | .error e => .error e
      | .ok L => .ok { res := L, red := some o, pubo := terms }

/-- `PUSO.to_pubo / to_puso / to_qubo / to_quso`.  The shortcuts read the PUSO's cached `degree` (`cdeg`); the
temporary PUBO `P = puso_to_pubo(self)` is a fresh object, so its own cached degree is the exact degree of its
terms (its top-degree keys never cancel), while `_create_pubo` hands it the PUSO's `mapping` and — since
upstream fix 77284a9 — the PUSO's `num_binary_variables` (`n`). -/
def routeSpinC (t : Target) (terms : Poly) (m : Mapping) (n cdeg : Nat) (deg : Option Nat) (lam : Lam)
    (pairs : List Key) : Except Err RouteOut :=
  let P := pusoToPubo terms
  match t with
  | .pubo => routeBoolC .pubo P m n (degree P) deg lam pairs
  | .qubo => routeBoolC .qubo P m n (degree P) deg lam pairs
  | .puso =>
    if (match deg with | none => true | some d => decide (cdeg ≤ d)) then
      match toPusoPlain m terms [] with
      | .error e => .error e
      | .ok H => .ok { res := H, red := none, pubo := P }
    else routeBoolC .puso P m n (degree P) deg lam pairs
  | .quso =>
    if cdeg ≤ 2 then
      match toPusoPlain m terms [] with
      | .error e => .error e
      | .ok H => .ok { res := H, red := none, pubo := P }
    else routeBoolC .quso P m n (degree P) deg lam pairs

def routeC (spin : Bool) := if spin then routeSpinC else routeBoolC

end Qv.Reduce
