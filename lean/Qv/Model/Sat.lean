import Qv.Model.Expr
/-!
# Qv.Model.Sat — `qubovert/sat/_satisfiability.py`

`BUFFER`, `NOT`, `AND`, `NAND`, `OR`, `NOR`, `XOR`, `XNOR` written with the same operator calls as the
Python source, on evaluated operands (`Val`): a label, a plain dict, or a boolean model.
-/
namespace Qv

inductive Gate
  | buffer | not | and | nand | or | nor | xor | xnor
  deriving DecidableEq, Repr, Inhabited

def Gate.name : Gate → String
  | .buffer => "BUFFER" | .not => "NOT" | .and => "AND" | .nand => "NAND"
  | .or => "OR" | .nor => "NOR" | .xor => "XOR" | .xnor => "XNOR"

def Gate.ofName? : String → Option Gate
  | "BUFFER" => some .buffer | "NOT" => some .not | "AND" => some .and | "NAND" => some .nand
  | "OR" => some .or | "NOR" => some .nor | "XOR" => some .xor | "XNOR" => some .xnor
  | _ => none

/-- an operand of a gate: a label, a plain dict, a model object, or a nested gate expression -/
inductive SExpr
  | lbl (i : Var)
  | raw (p : Poly)
  | mdl (κ : Kind) (p : Poly)
  | gate (g : Gate) (args : List SExpr)
  deriving Repr

/-- an evaluated operand: `lbl i` stays a label; everything else is a `Val` -/
inductive SVal
  | lbl (i : Var)
  | val (v : Val)
  deriving Repr

/-- `qv.PUBO() + 1` -/
def satOne : Except Err Val := Val.add (.mdl .pubo []) (.num 1)

/-- `BUFFER(x)`: copy of a boolean model, `PUBO(x)` of a dict, `PUBO({(x,): 1})` of a label -/
def bufferV : SVal → Except Err Val
  | .lbl i => do pure (.mdl .pubo (← construct (squash .pubo) [([i], 1)]))
  | .val (.mdl κ p) => Val.pos (.mdl κ p)
  | .val (.raw p) => Val.cast .pubo (.raw p)
  | .val (.num _) => .error .type

/-- `1 - BUFFER(x)` -/
def notV (x : SVal) : Except Err Val := do Val.sub (.num 1) (← bufferV x)

/-- `P = 1; for v in variables: P *= BUFFER(v)` -/
def andLoop (acc : Val) : List SVal → Except Err Val
  | [] => .ok acc
  | v :: r => do andLoop (← Val.mul acc (← bufferV v)) r

def andV (vs : List SVal) : Except Err Val :=
  match vs with
  | [] => satOne
  | _ => andLoop (.num 1) vs

/-- one unfolding of `OR`: `x + v * (1 - x)` -/
def orStep (x : Val) (v : SVal) : Except Err Val := do
  let b ← bufferV v
  Val.add x (← Val.mul b (← Val.sub (.num 1) x))

/-- one unfolding of `XOR`: `(x - v) ** 2` -/
def xorStep (x : Val) (v : SVal) : Except Err Val := do
  let b ← bufferV v
  Val.pow (← Val.sub x b) 2

def foldSteps (step : Val → SVal → Except Err Val) (x : Val) : List SVal → Except Err Val
  | [] => .ok x
  | v :: r => do foldSteps step (← step x v) r

/-- `OR(*variables)`: the recursion on `variables[:-1]` is this left fold -/
def orV (vs : List SVal) : Except Err Val :=
  match vs with
  | [] => satOne
  | v :: r => do foldSteps orStep (← bufferV v) r

def xorV (vs : List SVal) : Except Err Val :=
  match vs with
  | [] => satOne
  | v :: r => do foldSteps xorStep (← bufferV v) r

/-- apply a gate to evaluated operands; `BUFFER`/`NOT` take exactly one argument (`TypeError` otherwise) -/
def applyGate (g : Gate) (vs : List SVal) : Except Err Val :=
  match g, vs with
  | .buffer, [v] => bufferV v
  | .buffer, _ => .error .type
  | .not, [v] => notV v
  | .not, _ => .error .type
  | .and, vs => andV vs
  | .nand, vs => do notV (.val (← andV vs))
  | .or, vs => orV vs
  | .nor, vs => do notV (.val (← orV vs))
  | .xor, vs => xorV vs
  | .xnor, vs => do notV (.val (← xorV vs))

mutual
/-- evaluate an operand -/
def buildArg : SExpr → Except Err SVal
  | .lbl i => .ok (.lbl i)
  | .raw p => .ok (.val (.raw p))
  | .mdl κ p => do pure (.val (.mdl κ (← construct (squash κ) p)))
  | .gate g args => do pure (.val (← applyGate g (← buildArgs args)))
def buildArgs : List SExpr → Except Err (List SVal)
  | [] => .ok []
  | a :: r => do pure ((← buildArg a) :: (← buildArgs r))
end

/-- build a gate expression (top level must be a gate or a model) -/
def build (e : SExpr) : Except Err Val := do
  match ← buildArg e with
  | .val v => pure v
  | .lbl _ => .error .type

mutual
/-- truth value of an operand at a boolean assignment; a model / dict leaf is true iff its value ≠ 0 -/
def truth (x : Var → Rat) : SExpr → Bool
  | .lbl i => decide (x i ≠ 0)
  | .raw p => decide (eval x p ≠ 0)
  | .mdl _ p => decide (eval x p ≠ 0)
  | .gate g args =>
    let ts := truths x args
    match g with
    | .buffer => ts.all id
    | .not => !(ts.all id)
    | .and => ts.all id
    | .nand => !(ts.all id)
    | .or => ts.any id
    | .nor => !(ts.any id)
    | .xor => (ts.filter id).length % 2 == 1
    | .xnor => (ts.filter id).length % 2 == 0
def truths (x : Var → Rat) : List SExpr → List Bool
  | [] => []
  | a :: r => truth x a :: truths x r
end

end Qv
