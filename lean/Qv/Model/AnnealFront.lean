import Qv.Model.Basic
import Qv.Model.Arith
import Qv.Model.Convert
import Qv.Model.Kernel
/-!
# Qv.Model.AnnealFront — the Python front ends of `qubovert/sim/_anneal.py`

`anneal_quso`, `anneal_puso` (lines 158-488), `anneal_qubo`, `anneal_pubo` (603-607, 714-718),
`_create_spin_schedule`, `_package_spin_results`, with the pieces of the model classes they read:

* `Obj` — what the annealers read from a model object: its items, `_variables`
  (`num_binary_variables`, `max_index`), and for the labelled types `_mapping`/`_reverse_mapping`;
  `Obj.setItem` mirrors `BO.__setitem__` → `PUBOMatrix.__setitem__` → `DictArithmetic.__setitem__`
  (`utils/_bo_parentclass.py:204-225`, `utils/_pubomatrix.py:362-386`);
* `toQuso` / `toPuso` (`QUSO.to_quso`, `QUSO.to_puso`, `PUSO._to_puso`), `quboToQuso`, `puboToPuso`
  (`utils/_conversions.py:214-277, 345-417`), `boolean_to_spin`, `AnnealResults.to_boolean`,
  `AnnealResults.add_state` (`best`).

The front end works on exact rationals; `Cfg.toNum` is Python's `float(v)` on the way into the kernel and
`Cfg.ofNum` reads a C `double` back (both the identity for `α = Rat`).  The `'linear'`/`'geometric'`
grids come from numpy and enter as data (`Schedule.named`).  Core Lean only.
-/
namespace Qv.Anneal
open Qv Qv.Kernel

/-! ## model objects -/

def isLabelled : Kind → Bool
  | .qubo | .quso | .pubo | .puso | .pcbo | .pcso => true
  | _ => false

/-- What the annealers read from a model object.  `vars` is `_variables` in order of registration
(`num_binary_variables = vars.length`); `mapping[i]` is the label with `_mapping[label] = i`, i.e.
`mapping` read as a list *is* `reverse_mapping`. -/
structure Obj where
  kind : Kind
  terms : Poly := []
  vars : List Var := []
  mapping : List Var := []
  deriving Repr

def addNew (l : List Var) (i : Var) : List Var := if l.contains i then l else l ++ [i]

/-- `self[key]` -/
def Obj.getItem (o : Obj) (key : Key) : Except Err Rat := do
  let k ← squash o.kind key
  pure (get o.terms k)

/-- `self[key] = value` : squash; if `value` is nonzero register the labels of the *squashed* key in
`_variables`; store (zero removes); then (labelled types) register those labels of the *raw* key that are
variables by now in `_mapping` (`if i in self._variables and i not in self._mapping`). -/
def Obj.setItem (o : Obj) (key : Key) (value : Rat) : Except Err Obj := do
  let k ← squash o.kind key
  let vars := if value ≠ 0 then k.foldl addNew o.vars else o.vars
  let mapping := if isLabelled o.kind then
      key.foldl (fun m i => if vars.contains i then addNew m i else m) o.mapping else o.mapping
  pure { o with terms := set o.terms k value, vars := vars, mapping := mapping }

/-- `self[key] += v` -/
def Obj.iadd (o : Obj) (key : Key) (v : Rat) : Except Err Obj := do
  let x ← o.getItem key
  o.setItem key (x + v)

/-- `cls()` followed by `self[k] += v` for each `(k, v)`; this is also `cls(d)` for a dict `d` -/
def Obj.build (κ : Kind) (ops : Poly) : Except Err Obj :=
  ops.foldlM (fun o kv => o.iadd kv.1 kv.2) { kind := κ }

/-- a plain Python dict: no squashing, no bookkeeping -/
def Obj.ofDict (items : Poly) : Obj := { kind := .dict, terms := items }

/-- `max_index` : `max(self._variables) if self._variables else None` -/
def Obj.maxIndex (o : Obj) : Option Nat :=
  match o.vars with
  | [] => none
  | v :: r => some (r.foldl max v)

/-- `self._mapping[l]` -/
def idxOf (m : List Var) (l : Var) : Except Err Nat :=
  match m.findIdx? (· == l) with
  | some i => .ok i
  | none => .error .key

/-- `QUSO.to_quso` : `L = QUSOMatrix(); for k, v in self.items(): L[tuple(mapping[i] for i in k)] += v` -/
def toQuso (o : Obj) : Except Err Poly := do
  let ops ← o.terms.mapM (fun kv => do pure ((← kv.1.mapM (idxOf o.mapping)), kv.2))
  construct (squash .qusom) ops

/-- `to_puso()` of the labelled spin types: `PUSOMatrix(self.to_quso())` for `QUSO`;
`PUSO._to_puso` for `PUSO`/`PCSO` (its `sorted(...)` before the squashing `H[key] += v` does not change
the squashed key). -/
def toPuso (o : Obj) : Except Err Poly := do
  if o.kind = .quso then
    construct (squash .pusom) (← toQuso o)
  else
    let ops ← o.terms.mapM (fun kv => do pure ((← kv.1.mapM (idxOf o.mapping)), kv.2))
    construct (squash .pusom) ops

/-- `qubo_to_quso` -/
def quboToQuso (Q : Obj) : Except Err Obj :=
  let sq : Key → Except Err Key := srcSquashQubo Q.kind
  let target : Kind := kindQuboToQuso Q.kind   -- Matrix type in ⇒ `QUSOMatrix()`, else `QUSO()`
  Q.terms.foldlM (fun L kv => do
    let k ← sq kv.1
    let v := kv.2
    match k with
    | [] => L.iadd k v
    | [_] => do
      let L ← L.iadd k (-(v / 2))
      L.iadd [] (v / 2)
    | [i, j] => do
      let L ← L.iadd k (v / 4)
      let L ← L.iadd [i] (-(v / 4))
      let L ← L.iadd [j] (-(v / 4))
      L.iadd [] (v / 4)
    | _ => .error .value) { kind := target }

/-- `generate_new_key_value` of `pubo_to_puso` -/
def genKV : Key → List (Key × Rat)
  | [] => [([], 1)]
  | a :: r => (genKV r).flatMap (fun kv => [(a :: kv.1, -kv.2 / 2), (kv.1, kv.2 / 2)])

/-- `pubo_to_puso` -/
def puboToPuso (P : Obj) : Except Err Obj :=
  let target : Kind := kindPuboToPuso P.kind    -- Matrix type in ⇒ `PUSOMatrix()`, else `PUSO()`
  P.terms.foldlM (fun H kv =>
    (genKV kv.1).foldlM (fun H kv' => H.iadd kv'.1 (kv'.2 * kv.2)) H) { kind := target }

/-! ## schedules, parameters, results -/

inductive Schedule (α : Type)
  /-- any non-string iterable: `list(schedule)` -/
  | explicit (Ts : List α)
  /-- a string: must be in `SCHEDULES`; the numpy grid (or the error raised while computing it:
  `anneal_temperature_range`, `T0 < Tf`) is data -/
  | named (name : String) (grid : Except Err (List α))

/-- `_create_spin_schedule` -/
def createSchedule {α : Type} : Schedule α → Except Err (List α)
  | .explicit Ts => .ok Ts
  | .named n g => if n = "linear" ∨ n = "geometric" then g else .error .value

structure Cfg (ρ α : Type) where
  src : Src ρ α
  /-- `float(v)` -/
  toNum : Rat → α
  /-- the rational value of a C `double` -/
  ofNum : α → Rat

structure Params (ρ α : Type) where
  numAnneals : Int
  schedule : Schedule α
  init : Option (List (Var × Int))
  inOrder : Bool
  /-- generator state after `rand_init(seed)` -/
  rng : ρ

structure Res where
  state : List (Var × Int)
  value : Rat
  spin : Bool
  deriving Repr, DecidableEq

/-- `initial_state[v]` -/
def lookupInit (d : List (Var × Int)) (l : Var) : Except Err Int :=
  match d.find? (·.1 == l) with
  | some p => .ok p.2
  | none => .error .key

/-- `init_state = [1] * N; for k, v in reverse_mapping.items(): init_state[k] = initial_state[v]`
(`[]` when no initial state is given) -/
def relabelInit (N : Nat) (rev : List Var) : Option (List (Var × Int)) → Except Err (List Int)
  | none => .ok []
  | some d =>
    (List.range rev.length).foldlM (fun st k => do
      let x ← lookupInit d (rev.getD k 0)
      if k < N then pure (st.set k x) else .error .index) (List.replicate N 1)

/-- the loop of `anneal_quso` over `model.items()` building `h`, and per spin the adjacency list of
`(neighbor, J)` pairs (`neighbors[i]`, `J[i]` are appended in lock step and `num_neighbors[i]` counts the
appends, so it is the length) -/
def flattenQuso (N : Nat) (model : Poly) : Except Err (List Rat × List (List (Nat × Rat))) :=
  model.foldlM (fun (s : List Rat × List (List (Nat × Rat))) kv =>
    match kv.1 with
    | [a] => if a < N then .ok (s.1.set a kv.2, s.2) else .error .index
    | [i, j] =>
      if i < N ∧ j < N then
        let adj := s.2.set i (s.2.getD i [] ++ [(j, kv.2)])
        let adj := adj.set j (adj.getD j [] ++ [(i, kv.2)])
        .ok (s.1, adj)
      else .error .index
    | _ => .ok s) (List.replicate N 0, List.replicate N [])

/-- `J, neighbors = list(chain(*J)), list(chain(*neighbors))` -/
def qusoArgs {α : Type} (toNum : Rat → α) (h : List Rat) (adj : List (List (Nat × Rat))) : Quso α :=
  { h := h.map toNum, nn := adj.map List.length,
    nb := adj.flatten.map Prod.fst, J := adj.flatten.map (fun p => toNum p.2) }

/-- the loop of `anneal_puso` over `model.items()`: terms with an empty key are skipped -/
def flattenPuso {α : Type} (toNum : Rat → α) (model : Poly) : Puso α :=
  let items := model.filter (fun kv => !kv.1.isEmpty)
  { nc := items.map (fun kv => kv.1.length), terms := (items.map Prod.fst).flatten,
    cs := items.map (fun kv => toNum kv.2) }

/-- `_package_spin_results` -/
def package {α : Type} (ofNum : α → Rat) (rev : List Var) (offset : Rat) (out : List (List Int × α)) :
    Except Err (List Res) :=
  out.mapM (fun sv => do
    let state ← (List.range sv.1.length).mapM (fun k =>
      if k < rev.length then .ok (rev.getD k 0, sv.1.getD k 0) else .error .key)
    pure { state := state, value := ofNum sv.2 + offset, spin := true })

/-- the `N == 0` shortcut -/
def emptyResults (n : Nat) (offset : Rat) : List Res := List.replicate n { state := [], value := offset, spin := true }

/-! ## the four functions -/

section
variable {ρ α : Type} [Add α] [Mul α] [OfInt α]

/-- the type dispatch of `anneal_quso` after the `PUSOMatrix` step: `(N, model, reverse_mapping)` -/
def dispatchQusoCore (L : Obj) : Except Err (Nat × Poly × List Var) :=
  if L.kind = .qusom then do
    let N ← match L.maxIndex with
      | some m => pure (m + 1)
      | none => pure 0                    -- `N = 0 if L.max_index is None else L.max_index + 1`
    pure (N, L.terms, List.range N)
  else do
    let L' ← if L.kind = .quso then pure L else Obj.build .quso L.terms
    pure (L'.vars.length, ← toQuso L', L'.mapping)

/-- the type dispatch of `anneal_quso`, with its first step: `if type(L) == PUSOMatrix: L = QUSOMatrix(L)`
("a Matrix input stays a Matrix input"; `KeyError` when a key has more than two labels).  Every other type
goes on as it is: `QUSOMatrix` directly, `QUSO` through its mapping, anything else (dict, `PUSO`, `PCSO`, …)
through `QUSO(L)`. -/
def dispatchQuso (L : Obj) : Except Err (Nat × Poly × List Var) :=
  if L.kind = .pusom then do
    let M ← Obj.build .qusom L.terms
    dispatchQusoCore M
  else dispatchQusoCore L

/-- the type dispatch of `anneal_puso` -/
def dispatchPuso (H : Obj) : Except Err (Nat × Poly × List Var) :=
  if H.kind = .qusom ∨ H.kind = .pusom then do
    let N ← match H.maxIndex with
      | some m => pure (m + 1)
      | none => pure 0                    -- `N = 0 if H.max_index is None else H.max_index + 1`
    pure (N, H.terms, List.range N)
  else do
    let H' ← if H.kind = .quso ∨ H.kind = .puso ∨ H.kind = .pcso then pure H else Obj.build .puso H.terms
    pure (H'.vars.length, ← toPuso H', H'.mapping)

/-- everything the front end has computed when it reaches the C call -/
structure Call (α : Type) where
  N : Nat
  model : Poly
  rev : List Var
  Ts : List α
  init : List Int

/-- the front end up to the C call: either it returns early (`num_anneals <= 0`, `N == 0`) or it
reaches the kernel -/
inductive Prep (α : Type)
  | done (rs : List Res)
  | call (c : Call α)

def prep (dispatch : Obj → Except Err (Nat × Poly × List Var)) (L : Obj) (P : Params ρ α) :
    Except Err (Prep α) := do
  if P.numAnneals ≤ 0 then return .done []
  let Ts ← createSchedule P.schedule
  let (N, model, rev) ← dispatch L
  if N = 0 then return .done (emptyResults P.numAnneals.toNat (get model []))
  let init ← relabelInit N rev P.init
  return .call { N := N, model := model, rev := rev, Ts := Ts, init := init }

/-- the C call of `anneal_quso` and the packaging -/
def runQuso (cfg : Cfg ρ α) (P : Params ρ α) (c : Call α) : Except Err (List Res) := do
  let (h, adj) ← flattenQuso c.N c.model
  let out := Kernel.annealQuso cfg.src (qusoArgs cfg.toNum h adj) c.N c.Ts P.inOrder c.init
    P.numAnneals.toNat P.rng
  package cfg.ofNum c.rev (get c.model []) out

/-- the C call of `anneal_puso` and the packaging.  A label `>= N` in the flattened terms would be an
out-of-bounds access in C (undefined behaviour, C17); the model stops with `Err.other` there. -/
def runPuso (cfg : Cfg ρ α) (P : Params ρ α) (c : Call α) : Except Err (List Res) := do
  let p : Puso α := flattenPuso cfg.toNum c.model
  if p.terms.any (· ≥ c.N) then throw Err.other
  let out := Kernel.annealPuso cfg.src p c.N c.Ts P.inOrder c.init P.numAnneals.toNat P.rng
  package cfg.ofNum c.rev (get c.model []) out

/-- `anneal_quso` -/
def annealQuso (cfg : Cfg ρ α) (L : Obj) (P : Params ρ α) : Except Err (List Res) := do
  match ← prep dispatchQuso L P with
  | .done rs => pure rs
  | .call c => runQuso cfg P c

/-- `anneal_puso` -/
def annealPuso (cfg : Cfg ρ α) (H : Obj) (P : Params ρ α) : Except Err (List Res) := do
  match ← prep dispatchPuso H P with
  | .done rs => pure rs
  | .call c => runPuso cfg P c

/-- `boolean_to_spin(initial_state) if initial_state is not None else None` -/
def booleanToSpinInit : Option (List (Var × Int)) → Except Err (Option (List (Var × Int)))
  | none => .ok none
  | some d => do
    let d' ← d.mapM (fun p => if p.2 = 0 then .ok (p.1, (1 : Int)) else if p.2 = 1 then .ok (p.1, (-1 : Int))
      else .error Err.key)
    pure (some d')

/-- `AnnealResults.to_boolean` : `spin_to_boolean` on every state, value kept, `spin = False` -/
def toBoolean (rs : List Res) : Except Err (List Res) :=
  rs.mapM (fun r => do
    let st ← r.state.mapM (fun p => if p.2 = 1 then .ok (p.1, (0 : Int)) else if p.2 = -1 then .ok (p.1, (1 : Int))
      else .error Err.key)
    pure { state := st, value := r.value, spin := false })

/-- `anneal_qubo` -/
def annealQubo (cfg : Cfg ρ α) (Q : Obj) (P : Params ρ α) : Except Err (List Res) := do
  let L ← quboToQuso Q
  let init ← booleanToSpinInit P.init
  let r ← annealQuso cfg L { P with init := init }
  toBoolean r

/-- `anneal_pubo` -/
def annealPubo (cfg : Cfg ρ α) (Pm : Obj) (P : Params ρ α) : Except Err (List Res) := do
  let H ← puboToPuso Pm
  let init ← booleanToSpinInit P.init
  let r ← annealPuso cfg H { P with init := init }
  toBoolean r

end

/-- `AnnealResults.best` after construction by `add_state`/`append`:
`if self.best is None or result.value < self.best.value: self.best = result` -/
def best (rs : List Res) : Option Res :=
  rs.foldl (fun b r => match b with
    | none => some r
    | some b' => if r.value < b'.value then some r else some b') none

end Qv.Anneal
