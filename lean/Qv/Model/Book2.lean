import Qv.Model.Book
/-!
# Qv.Model.Book2 — the bookkeeping model at the granularity of the Python constructors (C14, C19)

`Qv.Model.Book` describes `clear`, `copy`, `refresh`, `T(H)` by what they amount to *on a fresh object*
(`init κ`, `iaddLoop fx (init κ) …`).  The Python does it by running the `__init__` chain of the object's class **on
the object itself** (`self.__init__()` in `clear`, `self.__init__(d)` in `refresh`) or on a new one (`self.__class__(self)`
in `copy`).  This file models that chain on an arbitrary starting state, which is what the text generated from the
source computes (`Qv/Gen/SourceBook2.lean`, tied in `Qv/Proofs/GenEq/Book2.lean`); `Qv/Proofs/Book2.lean` proves the
functions here equal to `Book.clear / copy / refresh / cast / remap` on the states of C14's histories.

Core Lean only.
-/
namespace Qv.Book2
open Qv Qv.Book

/-- what a caller sees of a call that ends in the state `r.1` having raised `r.2`: the exception propagates -/
def toExcept : State × Option Err → Except Err State
  | (s, none) => .ok s
  | (_, some e) => .error e

/-- the attributes the `__init__` chain of the object's class assigns before it inserts the items:
`BO.__init__` (labelled classes only) `_mapping, _reverse_mapping, _next_label = {}, {}, 0`;
`PUBOMatrix.__init__` `_degree = -inf`, `_variables, _num_binary_variables = set(), 0`. -/
def resetCaches (s : State) : State :=
  let s1 : State := if hasBO s.kind then { s with mapping := [], reverse := [], nextLabel := 0 } else s
  { s1 with degree := none, variables := [], numVars := 0 }

/-- the items of the constructor's argument (none without an argument) -/
def argTerms : Option State → Poly
  | none => []
  | some d => d.terms

/-- the tail of `PCBO.__init__` (also run for a PCSO): constraints and ancilla counter are taken over from an argument
that is an instance of the object's own class, and reset otherwise; the other classes have no such attributes -/
def takeCons (s : State) (arg : Option State) : State :=
  if hasCons s.kind then
    match arg with
    | some d =>
      if d.kind = s.kind then { s with constraints := d.constraints, ancilla := d.ancilla }
      else { s with ancilla := 0, constraints := [] }
    | none => { s with ancilla := 0, constraints := [] }
  else s

/-- `self.__init__(*args)` run on the object `s` (whatever its dict holds): reset the caches, `self[key] += value` for the
items of the argument in order, then `PCBO.__init__`'s tail -/
def initWith (fx : Fix) (s : State) (arg : Option State) : State × Option Err :=
  match iaddLoop fx (resetCaches s) (argTerms arg) with
  | (t, none) => (takeCons t arg, none)
  | (t, some e) => (t, some e)

/-- `dict.clear(self)` -/
def dictClear (s : State) : State := { s with terms := [] }

/-- `PUBOMatrix.clear`: `super().clear(); self.__init__()` -/
def clear (fx : Fix) (s : State) : State × Option Err := initWith fx (dictClear s) none

/-- `DictArithmetic.copy`: `self.__class__(self)` -/
def copy (fx : Fix) (s : State) : State × Option Err := initWith fx (Book.init s.kind) (some s)

/-- `PUBOMatrix.refresh`: `d = self.copy(); super().clear(); self.__init__(d)` -/
def refresh (fx : Fix) (s : State) : State × Option Err :=
  match copy fx s with
  | (d, none) => initWith fx (dictClear s) (some d)
  | (_, some e) => (s, some e)

/-- the attributes a class does not have are never written: in the record they keep their defaults -/
def Shape (s : State) : Prop :=
  (hasBO s.kind = false → s.mapping = [] ∧ s.reverse = [] ∧ s.nextLabel = 0) ∧
  (hasCons s.kind = false → s.ancilla = 0 ∧ s.constraints = [])

/-- `set_mapping(m)` for a dict `m` (distinct keys) with distinct values: `m` becomes the mapping, its converse the
reverse mapping; `_next_label` is not touched -/
def setMapping (s : State) (m : List (Var × Nat)) : State :=
  { s with mapping := m, reverse := m.map (fun p => (p.2, p.1)) }

/-- `set_reverse_mapping(r)` -/
def setReverseMapping (s : State) (r : List (Nat × Var)) : State :=
  { s with mapping := r.map (fun p => (p.2, p.1)), reverse := r }

/-- the dict `set_mapping` is called with in C14's `remap` edit: `{l: n-1-i for l, i in mapping.items()}` -/
def remapArg (s : State) : List (Var × Nat) := s.mapping.map (fun p => (p.1, s.nextLabel - 1 - p.2))

end Qv.Book2
