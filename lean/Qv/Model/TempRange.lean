import Qv.Model.Basic
import Qv.Model.Arith
import Qv.Model.Extrema
/-!
# Qv.Model.TempRange — `qubovert/sim/_anneal_temperature_range.py:30-112` (rational part)

`anneal_temperature_range(model, start_flip_prob, end_flip_prob, spin)` mirrored line by line up to the
two quantities `max_del_energy`, `min_del_energy`.  The final `-dE / log(p)` uses `math.log` and is
outside the exact model: the result records *which* of the two shapes (`0` / `-dE/log p`) each returned
temperature has, together with the rational `dE`.

The function reads the variables that actually appear in the model on every path:
`variables = set(v for k in model for v in k)` (since the repair of defect D6; before it read the
**cached** `model._variables` of a model object, which can be stale after terms cancelled).  The cache
(`qubovert/utils/_pubomatrix.py:148, 380-386`: every label of a squashed key ever stored with a non-zero
value; never shrinks) is still modelled along the object's history (`MState`, `Edit`): the correspondence
compares it, and it shows that the terms the function iterates are independent of it.
-/
namespace Qv

/-! ## the `_variables` cache of the ten model types -/

/-- `for i in filter(lambda x: x not in self._variables, k): self._variables.add(i)` -/
def addVars (vars : List Var) : Key → List Var
  | [] => vars
  | i :: r => addVars (if i ∈ vars then vars else i :: vars) r

/-- terms and the cached `_variables` of a model object -/
structure MState where
  p : Poly
  vars : List Var
  deriving Repr, Inhabited, DecidableEq

/-- `self[key] = value` : `PUBOMatrix.__setitem__` (cache update only `if value`) then
`DictArithmetic.__setitem__` -/
def setItemV (sq : Sq) (s : MState) (k : Key) (v : Rat) : Except Err MState := do
  let k' ← sq k
  pure ⟨set s.p k' v, if v = 0 then s.vars else addVars s.vars k'⟩

/-- `self[key] += value` : `__getitem__` then `__setitem__` -/
def addTermV (sq : Sq) (s : MState) (k : Key) (v : Rat) : Except Err MState := do
  let k' ← sq k
  setItemV sq s k (get s.p k' + v)

/-- `cls(d)` : `for key, value in d.items(): self[key] += value` (`DictArithmetic.__init__`) -/
def iaddV (sq : Sq) (s : MState) : Poly → Except Err MState
  | [] => .ok s
  | (k, v) :: r => do
    let s' ← addTermV sq s k v
    iaddV sq s' r

/-- an item edit applied to an existing object -/
inductive Edit
  | setE (k : Key) (v : Rat)   -- `H[k] = v`
  | addE (k : Key) (v : Rat)   -- `H[k] += v`  (`H[k] -= v` is `addE k (-v)`)
  deriving Repr, Inhabited

def applyEdits (sq : Sq) (s : MState) : List Edit → Except Err MState
  | [] => .ok s
  | .setE k v :: r => do
    let s' ← setItemV sq s k v
    applyEdits sq s' r
  | .addE k v :: r => do
    let s' ← addTermV sq s k v
    applyEdits sq s' r

/-- the object `cls(d)` after the item edits -/
def buildObj (κ : Kind) (d : Poly) (edits : List Edit) : Except Err MState := do
  let s ← iaddV (squash κ) ⟨[], []⟩ d
  applyEdits (squash κ) s edits

/-! ## `pubo_to_puso` (`qubovert/utils/_conversions.py:345-412`) with the cache of the `PUSO` it builds -/

/-- `generate_new_key_value(k)` in yield order -/
def genKV : Key → List (Key × Rat)
  | [] => [([], 1)]
  | i :: r => (genKV r).flatMap (fun kv => [(i :: kv.1, -kv.2 / 2), (kv.1, kv.2 / 2)])

/-- `for key, value in generate_new_key_value(k): H[key] += value * v` -/
def p2sRow (s : MState) (v : Rat) : List (Key × Rat) → Except Err MState
  | [] => .ok s
  | (key, value) :: r => do
    let s' ← addTermV (squash .puso) s key (value * v)
    p2sRow s' v r

/-- `for k, v in P.items(): …` on a fresh `PUSO()` / `PUSOMatrix()` (same `squash_key`, same cache) -/
def p2sRows (s : MState) : Poly → Except Err MState
  | [] => .ok s
  | (k, v) :: r => do
    let s' ← p2sRow s v (genKV k)
    p2sRows s' r

def puboToPusoV (d : Poly) : Except Err MState := p2sRows ⟨[], []⟩ d

/-! ## the function -/

/-- `min(...)` of a generator: `none` = `ValueError` (empty sequence) -/
def minList : List Rat → Option Rat
  | [] => none
  | a :: r => match minList r with
    | none => some a
    | some b => some (if b < a then b else a)

def maxList : List Rat → Option Rat
  | [] => none
  | a :: r => match maxList r with
    | none => some a
    | some b => some (if a < b then b else a)

/-- `[abs(c) for k, c in model.items() if k]` -/
def absNonconst : Poly → List Rat
  | [] => []
  | (k, c) :: r => if k = [] then absNonconst r else absR c :: absNonconst r

/-- `sum(abs(c) for k, c in model.items() if v in k)` -/
def absSum (v : Var) : Poly → Rat
  | [] => 0
  | (k, c) :: r => if v ∈ k then absR c + absSum v r else absSum v r

/-- `set(v for k in model for v in k)` -/
def keysVars (vars : List Var) : Poly → List Var
  | [] => vars
  | (k, _) :: r => keysVars (addVars vars k) r

/-- a returned temperature: the literal `0` / `0.`, or `-dE / log(prob)` with the rational `dE` -/
inductive Temp
  | zero
  | ofDelta (dE : Rat)
  deriving Repr, DecidableEq, Inhabited

/-- the input as the caller holds it: a plain `dict`, or an object of one of the ten model types built
by its constructor from `d` and then edited item-wise -/
inductive Input
  | raw (d : Poly)
  | obj (κ : Kind) (d : Poly) (edits : List Edit)
  deriving Repr, Inhabited

/-- lines 91-111, given the (spin) terms and the variable set the code reads -/
def tempRangeCore (p : Poly) (vars : List Var) (ps pe : Rat) : Except Err (Temp × Temp) :=
  -- `if not variables: return 0, 0`
  if vars = [] then .ok (.zero, .zero) else
  -- `min_del_energy = factor * min(abs(c) for k, c in model.items() if k)`
  match minList (absNonconst p) with
  | none => .error .value
  | some m =>
    -- `max_del_energy = factor * max(sum(...) for v in variables)`
    match maxList (vars.map (fun v => absSum v p)) with
    | none => .error .value
    | some M =>
      .ok (if ps = 0 then .zero else .ofDelta (2 * M), if pe = 0 then .zero else .ofDelta (2 * m))

/-- terms after `if not spin: model = pubo_to_puso(model)` and the variable set
`set(v for k in model for v in k)` computed from the keys of those terms (the cache of a model object is
not read) -/
def readModel (inp : Input) (spin : Bool) : Except Err MState :=
  match inp, spin with
  | .raw d, true => .ok ⟨d, keysVars [] d⟩
  | .raw d, false => do
    let h ← puboToPusoV d
    pure ⟨h.p, keysVars [] h.p⟩
  | .obj κ d es, true => do
    let s ← buildObj κ d es
    pure ⟨s.p, keysVars [] s.p⟩
  | .obj κ d es, false => do
    let s ← buildObj κ d es
    let h ← puboToPusoV s.p
    pure ⟨h.p, keysVars [] h.p⟩

/-- `anneal_temperature_range(model, start_flip_prob = ps, end_flip_prob = pe, spin)` -/
def tempRange (inp : Input) (ps pe : Rat) (spin : Bool) : Except Err (Temp × Temp) :=
  if ps < 0 ∨ 1 ≤ ps ∨ pe < 0 ∨ 1 ≤ pe then .error .value
  else if ps < pe then .error .value
  else do
    let s ← readModel inp spin
    tempRangeCore s.p s.vars ps pe

end Qv
