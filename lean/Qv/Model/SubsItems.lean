import Qv.Model.Symbolic
/-!
# Qv.Model.SubsItems — `DictArithmetic.subs` / `PCBO.subs` at the granularity of the Python statements

`Qv.Model.Symbolic` models `subs` on a dict whose coefficients all live in one coefficient ring `R` (`subsR φ`), with
`φ : R → Rat` the substitution.  The Python loop distinguishes, per item, a *number* (no attribute `subs`: kept as it is)
from a *sympy expression* (`.subs` applied, then `float(…)` when no symbol is left).  This file adds that distinction
(`PyCoef`), the per-item model `subsItems`, and the object-level `SymObj` (terms, ancilla counter, recorded constraints
per relation) that `PCBO.subs` maps over.  Bridge lemmas to `subsR` / `SymSt.subs`: `Qv/Proofs/GenEq/Subs.lean`.
Core Lean only.
-/
namespace Qv.Sym
open Qv

/-- a coefficient as Python holds it: a plain number, or a sympy expression -/
inductive PyCoef (R : Type) where
  | num (r : Rat)
  | sym (e : R)
  deriving Repr

/-- a dict whose values are such coefficients (insertion order) -/
abbrev CoefItems (R : Type) := List (Key × PyCoef R)

/-- what `expr.subs(…)` returns: a number-valued expression (then `float(…)` succeeds) or one that still has symbols -/
inductive SubsRes (R : Type) where
  | numeric (r : Rat)
  | symbolic (e : R)
  deriving Repr

/-- a symbolic dict all of whose values are sympy expressions -/
def CoefItems.ofPolyR {R : Type} (p : List (Key × R)) : CoefItems R := p.map (fun kv => (kv.1, PyCoef.sym kv.2))

/-- a numeric dict -/
def CoefItems.ofPoly {R : Type} (p : Poly) : CoefItems R := p.map (fun kv => (kv.1, PyCoef.num kv.2))

/-- the value a coefficient takes under a substitution `φ` that leaves no symbol -/
def coefVal {R : Type} (φ : R → Rat) : PyCoef R → Rat
  | .num r => r
  | .sym e => φ e

/-- `DictArithmetic.subs`, item by item: `d = cls(); for k, v in self.items(): d[k] = val` with `val` the number the
coefficient becomes (a zero value is not stored) -/
def subsItems {R : Type} (ψ : PyCoef R → Rat) (items : CoefItems R) : Poly :=
  items.foldl (fun d kv => set d kv.1 (ψ kv.2)) []

/-- what `DictArithmetic.subs` stores for one coefficient under an arbitrary substitution `σ`: a number is kept
(`AttributeError` branch), an expression is substituted and, when no symbol is left, converted with `float`
(otherwise the substituted expression is stored: `TypeError` branch) -/
def subsCoef {R : Type} (σ : R → SubsRes R) : PyCoef R → PyCoef R
  | .num r => .num r
  | .sym e => match σ e with
    | .numeric r => .num r
    | .symbolic e' => .sym e'

/-- a `PCBO` / `PCSO` with symbolic coefficients as `PCBO.subs` reads it: terms, `_ancilla`, and `_constraints`
(a dict relation → list of constraint polynomials) -/
structure SymObj (R : Type) where
  terms : CoefItems R
  anc : Nat
  cons : List (Rel × List (CoefItems R))

/-- `PCBO.subs`: the terms through `DictArithmetic.subs`, the ancilla counter kept, every recorded constraint
substituted into a fresh list under the same relation -/
def subsObj {R : Type} (ψ : PyCoef R → Rat) (S : SymObj R) : Poly × Nat × List (Rel × List Poly) :=
  (subsItems ψ S.terms, S.anc, S.cons.map (fun rc => (rc.1, rc.2.map (subsItems ψ))))

end Qv.Sym
