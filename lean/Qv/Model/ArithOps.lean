import Qv.Model.Book
import Qv.Model.Expr
/-!
# Qv.Model.ArithOps — the `DictArithmetic` operator methods as whole functions on the object state

Thin layer over `Qv/Model/Book.lean` at the granularity of the Python methods
(`qubovert/utils/_dict_arithmetic.py:302-745`, `_pcbo.py:470-490`, `_pcso.py:214-229`): one function per operator method,
taking the right operand as the Python method does (a number, a dict that is another object, or the receiver itself), and
returning the object or the exception (`Except`), which is what a caller of the method observes.  Every clause is a function
of `Qv.Book` (`augitem`, `iaddLoop`, `isubLoop`, `imulD`, `scaleLoop`, `ipow`, `copy`, `copyThen`), i.e. what `Book.step`
runs for the corresponding `Op`; `Qv/Proofs/ArithOpsBridge.lean` proves the term lists equal to the operators of
`Qv/Model/Arith.lean` / `Val.add … Val.pow` of `Qv/Model/Expr.lean`, which C05's theorems are about.

Core Lean only.
-/
namespace Qv.ArithOps
open Qv Qv.Book

/-- what the caller of a method sees: the object, or the exception (the partially updated object is then unreachable
through the result; `Book.step` keeps it for the *live* object of an in-place edit) -/
def toExcept (r : State × Option Err) : Except Err State :=
  match r with
  | (s, none) => .ok s
  | (_, some e) => .error e

/-- the right operand of an operator method -/
inductive Operand where
  | num (c : Rat)          -- a number
  | dict (q : Poly)        -- a dict / model object other than the receiver, by its items in dict order
  | self                   -- the receiver itself (`d -= d`, `a *= a`)
  deriving Repr, Inhabited

/-- `self += other` -/
def iadd (fx : Fix) (s : State) : Operand → Except Err State
  | .num c => augitem fx s [] .add c
  | .dict q => toExcept (iaddLoop fx s q)
  | .self => toExcept (iaddLoop fx s s.terms)

/-- `self -= other` (1dd08ee: the items of `other` are snapshotted, so `d -= d` empties `d`) -/
def isub (fx : Fix) (s : State) : Operand → Except Err State
  | .num c => augitem fx s [] .sub c
  | .dict q => toExcept (isubLoop fx s q)
  | .self => toExcept (isubLoop fx s s.terms)

/-- `DictArithmetic.__imul__` itself (before `PCBO.__imul__` restores the constraint state): both item tuples are taken
before `self.clear()`, which for every model class resets all caches, the constraints and the ancilla counter -/
def imulBase (fx : Fix) (s : State) : Operand → Except Err State
  | .num c => toExcept (scaleLoop fx s .mul c)
  | .dict q => toExcept (iaddLoop fx (Book.clear s) (products s.terms q))
  | .self => toExcept (iaddLoop fx (Book.clear s) (products s.terms s.terms))

/-- `self *= other` on an object of any model class (for PCBO / PCSO: `PCBO.__imul__`, which keeps `_ancilla` and
`_constraints`; 8d2eba8) -/
def imul (fx : Fix) (s : State) : Operand → Except Err State
  | .num c => toExcept (scaleLoop fx s .mul c)
  | .dict q => toExcept (Book.imulD fx s q)
  | .self => toExcept (Book.imulD fx s s.terms)

/-- `self /= c` -/
def idiv (fx : Fix) (s : State) (c : Rat) : Except Err State := toExcept (scaleLoop fx s .div c)

/-- `self **= e` for an `int` exponent `e`; any other exponent type raises `ValueError` -/
def ipow (fx : Fix) (s : State) (e : Option Int) : Except Err State :=
  match e with
  | none => .error .value
  | some n => toExcept (Book.ipow fx s n)

/-- `self.copy()` as a method call -/
def copy (fx : Fix) (s : State) : Except Err State := toExcept (Book.copy fx s)

/-- an operand as seen by a method of another object (`d = self.copy(); d += other`) -/
def Operand.resolve (s : State) : Operand → Operand
  | .self => .dict s.terms
  | o => o

/-- the copying operators `self + other`, `self - other`, `self * other`, `self / c`, `self ** e`:
`d = self.copy(); d <op>= other; return d` -/
def add (fx : Fix) (s : State) (o : Operand) : Except Err State := copy fx s >>= fun d => iadd fx d (o.resolve s)
def sub (fx : Fix) (s : State) (o : Operand) : Except Err State := copy fx s >>= fun d => isub fx d (o.resolve s)
def mul (fx : Fix) (s : State) (o : Operand) : Except Err State := copy fx s >>= fun d => imul fx d (o.resolve s)
def div (fx : Fix) (s : State) (c : Rat) : Except Err State := copy fx s >>= fun d => idiv fx d c
def pow (fx : Fix) (s : State) (e : Option Int) : Except Err State := copy fx s >>= fun d => ipow fx d e

/-- `other + self` = `self + other`; `other * self` = `self * other`; `-self` = `-1 * self` = `self * -1`;
`other - self` = `-1*self + other`; `+self` = `self.copy()` -/
def radd (fx : Fix) (s : State) (o : Operand) : Except Err State := add fx s o
def rmul (fx : Fix) (s : State) (o : Operand) : Except Err State := mul fx s o
def neg (fx : Fix) (s : State) : Except Err State := rmul fx s (.num (-1))
def rsub (fx : Fix) (s : State) (o : Operand) : Except Err State := rmul fx s (.num (-1)) >>= fun t => add fx t (o.resolve s)
def pos (fx : Fix) (s : State) : Except Err State := copy fx s

end Qv.ArithOps
