import Qv.Model.Basic
import Qv.Model.Values
/-!
# Qv.Model.Brute — `_solve_bruteforce` and the four public brute-force solvers
(`qubovert/utils/_solve_bruteforce.py:30-119, 184, 254, 319, 387`; the `solve_bruteforce` methods of the
model types call these with `valid = self.is_solution_valid` and keep element `[1]` of the result).

Core Lean only.  Conventions (DESIGN.md §3): a Python `dict` is an insertion-ordered association list;
labels are naturals; numbers are exact rationals; an exception is an `Except Err`.

* The model object `D` is its term list, its type (`Kind`, which decides whether `D[()] = offset` is the
  plain `dict.__setitem__` or `DictArithmetic.__setitem__`), and — for the `BO` subclasses, which are the
  only objects that have `_reverse_mapping` — the bookkeeping the code reads: `num_binary_variables`
  and `_reverse_mapping`.  For plain dicts and the Matrix types `D._reverse_mapping` raises
  `AttributeError` and the variables are collected from the keys into a Python `set`; the iteration
  order of that set is abstracted: it is the parameter `order`.
* `valid` is a parameter: any predicate on assignments (Python dicts label → value).
* `value(x, D)` indexes the assignment dict `x`; a label of a key that is missing from `x` is a
  `KeyError` (this is what happens on stale bookkeeping, DESIGN.md §10 D1), with the short-circuits of
  `all(...)` / `and` in the boolean value functions.
-/
namespace Qv.Brute
open Qv

/-- an assignment: a Python dict label → value, in insertion order -/
abbrev Assign := List (Var × Rat)

/-- `x.get(i)` -/
def aget? (x : Assign) (i : Var) : Option Rat :=
  match x with
  | [] => none
  | (j, v) :: r => if j = i then some v else aget? r i

/-- `x[i]` — `KeyError` when absent -/
def alookup (x : Assign) (i : Var) : Except Err Rat :=
  match aget? x i with
  | some v => .ok v
  | none => .error .key

/-- `x[i] = v` of a plain dict: update in place or append -/
def aput (x : Assign) (i : Var) (v : Rat) : Assign :=
  match x with
  | [] => [(i, v)]
  | (j, w) :: r => if j = i then (i, v) :: r else (j, w) :: aput r i v

/-! ## The value functions on an assignment *dict* (`_values.py`), with `KeyError` -/

/-- `all(map(lambda i: x[i], k))` — stops at the first falsy value -/
def allTruthyP (x : Assign) : Key → Except Err Bool
  | [] => .ok true
  | i :: r => do
    let a ← alookup x i
    if a ≠ 0 then allTruthyP x r else pure false

/-- `pubo_value`: `sum(v for k, v in P.items() if all(map(lambda i: x[i], k)))` -/
def puboValueP (x : Assign) : Poly → Except Err Rat
  | [] => .ok 0
  | (k, v) :: r => do
    let b ← allTruthyP x k
    let s ← puboValueP x r
    pure ((if b then v else 0) + s)

/-- `not k or (len(k) == 1 and x[k[0]]) or (len(k) == 2 and x[k[0]] and x[k[1]])` -/
def quboTermP (x : Assign) (k : Key) (v : Rat) : Except Err Rat :=
  match k with
  | [] => pure v
  | [i] => do
    let a ← alookup x i
    pure (if a ≠ 0 then v else 0)
  | [i, j] => do
    let a ← alookup x i
    if a ≠ 0 then do
      let b ← alookup x j
      pure (if b ≠ 0 then v else 0)
    else pure 0
  | _ => pure 0

/-- `qubo_value` -/
def quboValueP (x : Assign) : Poly → Except Err Rat
  | [] => .ok 0
  | (k, v) :: r => do
    let t ← quboTermP x k v
    let s ← quboValueP x r
    pure (t + s)

/-- `[z[i] for i in k].count(-1)` -/
def countNegP (z : Assign) : Key → Except Err Nat
  | [] => .ok 0
  | i :: r => do
    let a ← alookup z i
    let c ← countNegP z r
    pure ((if a = -1 then 1 else 0) + c)

/-- `puso_value`: `sum(v * pow(-1, [z[i] for i in k].count(-1) % 2) ...)` -/
def pusoValueP (z : Assign) : Poly → Except Err Rat
  | [] => .ok 0
  | (k, v) :: r => do
    let c ← countNegP z k
    let s ← pusoValueP z r
    pure (v * (if c % 2 = 0 then 1 else -1) + s)

/-- `v * (z[k[0]] if k else 1) * (z[k[1]] if len(k) > 1 else 1)` -/
def qusoTermP (z : Assign) (k : Key) (v : Rat) : Except Err Rat :=
  match k with
  | [] => pure (v * 1 * 1)
  | [i] => do
    let a ← alookup z i
    pure (v * a * 1)
  | i :: j :: _ => do
    let a ← alookup z i
    let b ← alookup z j
    pure (v * a * b)

/-- `quso_value` -/
def qusoValueP (z : Assign) : Poly → Except Err Rat
  | [] => .ok 0
  | (k, v) :: r => do
    let t ← qusoTermP z k v
    let s ← qusoValueP z r
    pure (t + s)

/-- which public solver: fixes the `(spin, value)` pair passed to `_solve_bruteforce` -/
inductive Fn
  | pubo | qubo | puso | quso
  deriving DecidableEq, Repr, Inhabited

def Fn.spin : Fn → Bool
  | .pubo | .qubo => false
  | .puso | .quso => true

def Fn.valueP : Fn → Assign → Poly → Except Err Rat
  | .pubo => puboValueP
  | .qubo => quboValueP
  | .puso => pusoValueP
  | .quso => qusoValueP

def Fn.ofName? : String → Option Fn
  | "pubo" => some .pubo | "qubo" => some .qubo | "puso" => some .puso | "quso" => some .quso
  | _ => none

/-! ## The object passed in -/

/-- the bookkeeping a `BO` subclass carries and `_solve_bruteforce` reads -/
structure Book where
  /-- `D.num_binary_variables` -/
  n : Nat
  /-- `D._reverse_mapping` (a dict int → label) -/
  rm : List (Nat × Var)
  deriving Repr, Inhabited

structure Model where
  kind : Kind
  terms : Poly
  /-- `none`: `D._reverse_mapping` raises `AttributeError` (plain dict, Matrix types) -/
  book : Option Book
  deriving Inhabited

/-- `mapping[i]` on `_reverse_mapping` -/
def rmLookup (rm : List (Nat × Var)) (i : Nat) : Except Err Var :=
  match rm with
  | [] => .error .key
  | (j, l) :: r => if j = i then .ok l else rmLookup r i

/-- `D[()] = offset`: `dict.__setitem__` for a plain dict; for every model type the key `()` squashes
to itself, `DictArithmetic.__setitem__` removes a zero value, and the bookkeeping of `()` is empty. -/
def store (κ : Kind) (p : Poly) (k : Key) (v : Rat) : Poly :=
  match κ with
  | .dict => put p k v
  | _ => set p k v

/-- the labels of all keys, first appearance first (one particular listing of
`var = set(); for x in D: var.update(set(x))`) -/
def keyLabels (p : Poly) : List Var :=
  p.foldl (fun acc kv => kv.1.foldl (fun a i => if a.contains i then a else a ++ [i]) acc) []

/-- The variable list `[mapping[0], …, mapping[N-1]]` the enumeration runs over.
`try: N = D.num_binary_variables; mapping = D._reverse_mapping` — the lookups `mapping[i]` happen in the
dict comprehension of the first loop iteration; a missing index is a `KeyError`.
`except AttributeError:` the labels of the keys in the iteration order of a Python set (= `order`). -/
def Model.vars (D : Model) (order : List Var) : Except Err (List Var) :=
  match D.book with
  | some b => (List.range b.n).mapM (rmLookup b.rm)
  | none => .ok order

/-! ## Enumeration -/

/-- `itertools.product(dom, repeat=n)` as a list: the first coordinate varies slowest -/
def product (dom : List Rat) : Nat → List (List Rat)
  | 0 => [[]]
  | n + 1 => dom.flatMap (fun a => (product dom n).map (fun t => a :: t))

/-- `(1, -1) if spin else (0, 1)` -/
def domOf (spin : Bool) : List Rat := if spin then [1, -1] else [0, 1]

/-- `{mapping[i]: v for i, v in enumerate(test_sol)}` (a dict comprehension: a repeated label keeps its
first position and its last value) -/
def mkAssign (vars : List Var) (vals : List Rat) : Assign :=
  (vars.zip vals).foldl (fun x p => aput x p.1 p.2) []

/-- all assignments the loop visits, in order -/
def enumerate (spin : Bool) (vars : List Var) : List Assign :=
  (product (domOf spin) vars.length).map (mkAssign vars)

/-! ## The loop -/

/-- `all_sols`: a dict keyed by the objective value (or `None`) -/
abbrev AllSols := List (Option Rat × List Assign)

/-- `all_sols.setdefault(k, []).append(x)` -/
def sdAppend (m : AllSols) (k : Option Rat) (x : Assign) : AllSols :=
  match m with
  | [] => [(k, [x])]
  | (k', l) :: r => if k' = k then (k', l ++ [x]) :: r else (k', l) :: sdAppend r k x

/-- `all_sols.get(k)` -/
def lookupA (m : AllSols) (k : Option Rat) : Option (List Assign) :=
  match m with
  | [] => none
  | (k', l) :: r => if k' = k then some l else lookupA r k

structure St where
  /-- `best[0]` -/
  bestV : Option Rat
  /-- `best[1]` -/
  bestX : Assign
  allSols : AllSols
  deriving Inhabited

/-- `best = None, {}` ; `all_sols = {None: [{}]}` -/
def St.init : St := ⟨none, [], [(none, [[]])]⟩

/-- `best[0] is None or v <= best[0]` -/
def leBest (v : Rat) : Option Rat → Bool
  | none => true
  | some b => decide (v ≤ b)

/-- `best[0] is None or v < best[0]` -/
def ltBest (v : Rat) : Option Rat → Bool
  | none => true
  | some b => decide (v < b)

/-- the body of the loop after `v = value(x, D)`:
```
if all_solutions and (best[0] is None or v <= best[0]):
    best = v, x
    all_sols.setdefault(v, []).append(x)
elif best[0] is None or v < best[0]:
    best = v, x
``` -/
def update (allS : Bool) (st : St) (x : Assign) (v : Rat) : St :=
  if allS && leBest v st.bestV then
    ⟨some v, x, sdAppend st.allSols (some v) x⟩
  else if ltBest v st.bestV then
    ⟨some v, x, st.allSols⟩
  else st

/-- the `for test_sol in itertools.product(...)` loop over the already built assignments -/
def loopM (value : Assign → Except Err Rat) (allS : Bool) (valid : Assign → Bool) :
    List Assign → St → Except Err St
  | [], st => .ok st
  | x :: r, st =>
    if valid x then do
      let v ← value x
      loopM value allS valid r (update allS st x v)
    else loopM value allS valid r st      -- `continue`

/-! ## Results -/

/-- second component of the result: a dict, or with `all_solutions` a list of dicts -/
inductive Sol
  | one (x : Assign)
  | many (xs : List Assign)
  deriving Repr, Inhabited, DecidableEq

structure Out where
  /-- first component: `None` or a number -/
  obj : Option Rat
  sol : Sol
  /-- the terms of `D` after the call (insertion order) -/
  after : Poly
  deriving Inhabited

/-- `{} if not all_solutions else [{}]` -/
def emptySol (allS : Bool) : Sol := if allS then .many [[]] else .one []

/-- `_solve_bruteforce(D, all_solutions, valid, spin, value)` -/
def solveCore (D : Model) (allS : Bool) (valid : Assign → Bool) (spin : Bool)
    (value : Assign → Poly → Except Err Rat) (order : List Var) : Except Err Out :=
  -- if not D: return 0, ({} if not all_solutions else [{}])
  if D.terms.isEmpty then .ok ⟨some 0, emptySol allS, D.terms⟩
  -- elif () in D:
  else if hasKey D.terms [] then
    let offset := get D.terms []                  -- offset = D.pop(())
    let popped := erase D.terms []
    let restored := store D.kind popped [] offset -- D[()] = offset   (on both paths)
    if popped.isEmpty then .ok ⟨some offset, emptySol allS, restored⟩
    else solveMain D restored allS valid spin value order
  else solveMain D D.terms allS valid spin value order
where
  /-- from `try: N = D.num_binary_variables` to the end; `terms` are the terms of `D` at that point -/
  solveMain (D : Model) (terms : Poly) (allS : Bool) (valid : Assign → Bool) (spin : Bool)
      (value : Assign → Poly → Except Err Rat) (order : List Var) : Except Err Out := do
    let vars ← D.vars order
    let st ← loopM (fun x => value x terms) allS valid (enumerate spin vars) St.init
    if allS then
      -- best = best[0], all_sols[best[0]]
      match lookupA st.allSols st.bestV with
      | some l => pure ⟨st.bestV, .many l, terms⟩
      | none => throw .key
    else pure ⟨st.bestV, .one st.bestX, terms⟩

/-- `solve_pubo_bruteforce`, `solve_qubo_bruteforce`, `solve_puso_bruteforce`, `solve_quso_bruteforce` -/
def solve (fn : Fn) (D : Model) (allS : Bool) (valid : Assign → Bool) (order : List Var) :
    Except Err Out :=
  solveCore D allS valid fn.spin fn.valueP order

/-- the `solve_bruteforce` methods: `solve_*_bruteforce(self, all_solutions, self.is_solution_valid)[1]` -/
def solveMethod (fn : Fn) (D : Model) (allS : Bool) (isSolutionValid : Assign → Bool)
    (order : List Var) : Except Err Sol :=
  (solve fn D allS isSolutionValid order).map (·.sol)

end Qv.Brute
