import Qv.Model.Arith
/-!
# Qv.Model.Expr — expression trees over the arithmetic operators

`run` evaluates a tree the way Python's operator dispatch does: a model operand decides the
result type; a number or plain dict on the left of a model goes through the reflected method
(`__radd__ = self + other`, `__rsub__ = -1*self + other`, `__rmul__ = self * other`).
`den` is the denotation of the same tree as a function of the assignment.
-/
namespace Qv

inductive Val
  | num (c : Rat)
  | raw (p : Poly)              -- plain `dict`
  | mdl (κ : Kind) (p : Poly)   -- model object of type κ
  deriving Repr

inductive Expr
  | num (c : Rat)
  | raw (p : Poly)
  | mdl (κ : Kind) (p : Poly)        -- `κ(p)` : constructor applied to a dict
  | cast (κ : Kind) (a : Expr)       -- `κ(a)` : copy constructor applied to a model / dict
  | add (a b : Expr)
  | sub (a b : Expr)
  | mul (a b : Expr)
  | pow (a : Expr) (e : Int)
  | neg (a : Expr)
  | pos (a : Expr)
  | div (a : Expr) (c : Rat)
  deriving Repr

/-- `a + b` -/
def Val.add : Val → Val → Except Err Val
  | .mdl κ p, .num c => do pure (.mdl κ (← iaddC (squash κ) (← construct (squash κ) p) c))
  | .mdl κ p, .raw q => do pure (.mdl κ (← iaddD (squash κ) (← construct (squash κ) p) q))
  | .mdl κ p, .mdl _ q => do pure (.mdl κ (← iaddD (squash κ) (← construct (squash κ) p) q))
  | .num c, .mdl κ p => do pure (.mdl κ (← iaddC (squash κ) (← construct (squash κ) p) c))
  | .raw q, .mdl κ p => do pure (.mdl κ (← iaddD (squash κ) (← construct (squash κ) p) q))
  | .num a, .num b => .ok (.num (a + b))
  | _, _ => .error .type

/-- `self * other` for a model `self` -/
def mulModel (κ : Kind) (p : Poly) : Val → Except Err Val
  | .num c => do pure (.mdl κ (← imulC (squash κ) (← construct (squash κ) p) c))
  | .raw q => do pure (.mdl κ (← imulD (squash κ) (← construct (squash κ) p) q))
  | .mdl _ q => do pure (.mdl κ (← imulD (squash κ) (← construct (squash κ) p) q))

/-- `a * b` -/
def Val.mul : Val → Val → Except Err Val
  | .mdl κ p, b => mulModel κ p b
  | .num c, .mdl κ p => mulModel κ p (.num c)
  | .raw q, .mdl κ p => mulModel κ p (.raw q)
  | .num a, .num b => .ok (.num (a * b))
  | _, _ => .error .type

/-- `a - b` -/
def Val.sub : Val → Val → Except Err Val
  | .mdl κ p, .num c => do pure (.mdl κ (← iaddC (squash κ) (← construct (squash κ) p) (-c)))
  | .mdl κ p, .raw q => do pure (.mdl κ (← isubD (squash κ) (← construct (squash κ) p) q))
  | .mdl κ p, .mdl _ q => do pure (.mdl κ (← isubD (squash κ) (← construct (squash κ) p) q))
  | .num c, .mdl κ p => do          -- `-1*self + other`
      let m ← mulModel κ p (.num (-1))
      Val.add m (.num c)
  | .raw q, .mdl κ p => do
      let m ← mulModel κ p (.num (-1))
      Val.add m (.raw q)
  | .num a, .num b => .ok (.num (a - b))
  | _, _ => .error .type

def Val.neg : Val → Except Err Val
  | .mdl κ p => mulModel κ p (.num (-1))
  | .num c => .ok (.num (-c))
  | .raw _ => .error .type

def Val.pos : Val → Except Err Val
  | .mdl κ p => do pure (.mdl κ (← construct (squash κ) p))
  | .num c => .ok (.num c)
  | .raw _ => .error .type

def Val.pow : Val → Int → Except Err Val
  | .mdl κ p, e => do pure (.mdl κ (← ipow (squash κ) (← construct (squash κ) p) e))
  | _, _ => .error .type

def Val.div : Val → Rat → Except Err Val
  | .mdl κ p, c => do pure (.mdl κ (← idivC (squash κ) (← construct (squash κ) p) c))
  | .num a, c => if c = 0 then .error .zerodiv else .ok (.num (a / c))
  | .raw _, _ => .error .type

/-- `κ(v)` -/
def Val.cast (κ : Kind) : Val → Except Err Val
  | .mdl _ p => do pure (.mdl κ (← construct (squash κ) p))
  | .raw p => do pure (.mdl κ (← construct (squash κ) p))
  | .num _ => .error .type

def run : Expr → Except Err Val
  | .num c => .ok (.num c)
  | .raw p => .ok (.raw p)
  | .mdl κ p => do pure (.mdl κ (← construct (squash κ) p))
  | .cast κ a => do Val.cast κ (← run a)
  | .add a b => do Val.add (← run a) (← run b)
  | .sub a b => do Val.sub (← run a) (← run b)
  | .mul a b => do Val.mul (← run a) (← run b)
  | .pow a e => do Val.pow (← run a) e
  | .neg a => do Val.neg (← run a)
  | .pos a => do Val.pos (← run a)
  | .div a c => do Val.div (← run a) c

/-- value of a `Val` at an assignment -/
def Val.eval (x : Var → Rat) : Val → Rat
  | .num c => c
  | .raw p => Qv.eval x p
  | .mdl _ p => Qv.eval x p

/-- the function an expression denotes -/
def den (x : Var → Rat) : Expr → Rat
  | .num c => c
  | .raw p => eval x p
  | .mdl _ p => eval x p
  | .cast _ a => den x a
  | .add a b => den x a + den x b
  | .sub a b => den x a - den x b
  | .mul a b => den x a * den x b
  | .pow a e => den x a ^ e.toNat
  | .neg a => - den x a
  | .pos a => den x a
  | .div a c => den x a / c

/-- every model node of the tree is of the spin family (`true`) / boolean family (`false`);
plain `dict` model nodes belong to neither family -/
def Expr.family (s : Bool) : Expr → Bool
  | .num _ => true
  | .raw _ => true
  | .mdl κ _ => κ != .dict && κ.isSpin == s
  | .cast κ a => κ != .dict && κ.isSpin == s && a.family s
  | .add a b => a.family s && b.family s
  | .sub a b => a.family s && b.family s
  | .mul a b => a.family s && b.family s
  | .pow a _ => a.family s
  | .neg a => a.family s
  | .pos a => a.family s
  | .div a _ => a.family s

end Qv
