import Qv.Model.Basic
import Qv.Model.Arith
import Qv.Model.Convert
import Qv.Model.Brute
import Qv.Model.PcboLogic
/-!
# Qv.Model.Problems — the problem classes of `qubovert/problems` (part 1: common layer,
`NumberPartitioning`, `AlternatingSectorsChain`, `VertexCover`, `BILP`)

Mirrors (line by line; core Lean only)

* `qubovert/problems/_problem_parentclass.py:213-248` `Problem.solve_bruteforce`, and the defaults of
  `qubovert/utils/_conversions.py` `Conversions.to_qubo = quso_to_qubo(self.to_quso())`,
  `Conversions.to_quso = qubo_to_quso(self.to_qubo())`;
* `np/partitioning/_number_partitioning.py`, `benchmarking/_alternating_sectors_chain.py`,
  `np/covering/_vertex_cover.py`, `np/bilp/_bilp.py`.

Conventions.  A statement `M[k] += v` on a `QUBOMatrix`/`QUSOMatrix` is `addTerm (squash κ) M k v`
(`Qv.Model.Arith`); a straight-line sequence of such statements is the list `Ops` of its `(k, v)` pairs in
program order, executed by `iaddD`.  A solution container handed to `convert_solution` /
`is_solution_valid` is `Qv.Sol` (the `(index, value)` items in iteration order) with the flag `isDict`;
Python `set` results are returned as sorted duplicate-free lists; `set` iteration orders that influence a
result (`GraphPartitioning._vertices`, `SetCover._U`, the variable set of `_solve_bruteforce`) are data.
-/
namespace Qv.Prob
open Qv

/-- a straight-line sequence of `M[k] += v` statements -/
abbrev Ops := List (Key × Rat)

/-- run the statements on `acc` (a Matrix of type `κ`) -/
def build (κ : Kind) (acc : Poly) (ops : Ops) : Except Err Poly := iaddD (squash κ) acc ops

/-- `[([off], c₀), ([off+1], c₁), …]` : the statements `M[(off + i,)] += c[i]` for `i = 0, 1, …` -/
def linOps : List Rat → Nat → Ops
  | [], _ => []
  | a :: r, off => ([off], a) :: linOps r (off + 1)

/-- `dict(enumerate(solution))` when `solution` is not a dict: nothing to do on `Sol` -/
def solValues (s : Sol) : List Rat := s.map Prod.snd

/-- `l[i]` on a list / tuple / numpy row: `IndexError` when out of range -/
def listGet (l : List Rat) (i : Nat) : Except Err Rat :=
  match l[i]? with
  | some v => .ok v
  | none => .error .index

/-- sum of a list (Python `sum`) -/
def sumL : List Rat → Rat
  | [] => 0
  | a :: r => a + sumL r

/-- `if is_solution_spin(solution, spin): solution = spin_to_boolean(solution)` -/
def toBoolSol (s : Sol) (flag : Bool) : Except Err Sol :=
  if isSolutionSpin (solValues s) flag then solMap s2bVal s else .ok s

/-! ## `Problem.solve_bruteforce`

`qubo = self.to_qubo(*args); sol = qubo.solve_bruteforce(all_solutions)` — `qubo` is a `QUBOMatrix`
(no `_reverse_mapping`: the variables are the labels that occur in its keys, in the iteration order
`order` of a Python set) and `QUBOMatrix.solve_bruteforce` is
`solve_qubo_bruteforce(self, all_solutions, self.is_solution_valid)[1]` with the trivial
`is_solution_valid` of a Matrix.  The solution dict(s) go through `convert_solution` (`spin = False`). -/
/-- `Problem.solve_bruteforce` since the repair of DESIGN.md §10 D7 (upstream 9a5d806; `fill = true`, the default):
`Q = dict(qubo); for i in range(self.num_binary_variables): Q.setdefault((i,), 0)` followed by
`solve_qubo_bruteforce(Q, all_solutions)[1]` on that plain dict, so that every label is enumerated.
`fill = false` is the code before the repair (`qubo.solve_bruteforce(all_solutions)` on the `QUBOMatrix`, which
drops the labels whose coefficients vanish), kept for the regression record. -/
def fillZeros (Q : Poly) (n : Nat) : Poly :=
  (List.range n).foldl (fun acc i => if hasKey acc [i] then acc else acc ++ [([i], 0)]) Q

def solveVia {α : Type} (qubo : Except Err Poly) (convert : Sol → Except Err α) (allS : Bool)
    (order : List Var) (fill : Bool := true) (n : Nat := 0) : Except Err (List α) := do
  let Q ← qubo
  let sol ← if fill then
      Brute.solveMethod .qubo ⟨.dict, fillZeros Q n, none⟩ allS (fun _ => true) order
    else Brute.solveMethod .qubo ⟨.qubom, Q, none⟩ allS (fun _ => true) order
  match sol with
  | .one x => do let r ← convert x; pure [r]
  | .many xs => xs.mapM convert

/-! ## NumberPartitioning -/

structure NP where
  S : List Rat
  deriving Repr, Inhabited

/-- `__init__`: `if not all(S): raise ValueError` -/
def NP.new (S : List Rat) : Except Err NP :=
  if S.all (fun v => decide (v ≠ 0)) then .ok ⟨S⟩ else .error .value

def NP.numVars (p : NP) : Nat := p.S.length

/-- `L = QUSOMatrix({(i,): S[i] for i in range(N)}); return A * L * L`
(`A * L` is `L.copy()` then `*= A`; `(A * L) * L` is a copy then `*= L`) -/
def NP.toQuso (p : NP) (A : Rat) : Except Err Poly := do
  let sq := squash .qusom
  let L ← construct sq (linOps p.S 0)
  let c ← construct sq L
  let AL ← imulC sq c A
  let c2 ← construct sq AL
  imulD sq c2 L

/-- `Conversions.to_qubo` -/
def NP.toQubo (p : NP) (A : Rat) : Except Err Poly := do
  let L ← p.toQuso A
  qusoToQubo .qusom L

/-- `tuple/list(self._S[i] for i, v in solution.items() if pred v)` -/
def NP.pick (S : List Rat) (pred : Rat → Bool) : Sol → Except Err (List Rat)
  | [] => .ok []
  | (i, v) :: r =>
    if pred v then do
      let a ← listGet S i
      let rest ← NP.pick S pred r
      pure (a :: rest)
    else NP.pick S pred r

/-- `v == 1` / `v != 1` -/
def isOne (v : Rat) : Bool := decide (v = 1)
def notOne (v : Rat) : Bool := !decide (v = 1)

/-- `convert_solution(solution, spin)` (the flag is not used) -/
def NP.convert (p : NP) (s : Sol) : Except Err (List Rat × List Rat) := do
  let p1 ← NP.pick p.S isOne s
  let p2 ← NP.pick p.S notOne s
  pure (p1, p2)

/-- `is_solution_valid` on an already converted solution -/
def NP.validConv (c : List Rat × List Rat) : Bool := decide (sumL c.1 = sumL c.2)

/-- `is_solution_valid(solution, spin)` on a solver output -/
def NP.valid (p : NP) (s : Sol) : Except Err Bool := do
  let c ← p.convert s
  pure (NP.validConv c)

def NP.solveBruteforce (p : NP) (A : Rat) (allS : Bool) (order : List Var) (fill : Bool := true) :
    Except Err (List (List Rat × List Rat)) :=
  solveVia (p.toQubo A) p.convert allS order fill p.numVars

/-! ## AlternatingSectorsChain -/

structure ASC where
  N : Nat
  len : Nat
  /-- `self._min_strength = -min_strength`, `self._max_strength = -max_strength` -/
  negMin : Rat
  negMax : Rat
  deriving Repr, Inhabited

/-- `__init__(num_binary_variables, chain_length, min_strength, max_strength)` -/
def ASC.new (n : Int) (len : Int) (minS maxS : Rat) : Except Err ASC :=
  if minS < 0 ∨ maxS < 0 then .error .value
  else if n < 1 then .error .value
  else if len < 2 then .error .value
  else .ok ⟨n.toNat, len.toNat, -minS, -maxS⟩

def ASC.numVars (p : ASC) : Nat := p.N

/-- `self._min_strength if (q // self._chain_length) % 2 else self._max_strength` -/
def ASC.coupling (p : ASC) (q : Nat) : Rat := if (q / p.len) % 2 ≠ 0 then p.negMin else p.negMax

/-- `for q in range(N - 1): L[(q, q+1)] = …` from `q = start` -/
def ASC.chain (p : ASC) (L : Poly) : List Nat → Except Err Poly
  | [] => .ok L
  | q :: r => do
    let L' ← setItem (squash .qusom) L [q, q + 1] (p.coupling q)
    ASC.chain p L' r

/-- `to_quso(pbc)` -/
def ASC.toQuso (p : ASC) (pbc : Bool) : Except Err Poly := do
  let L ← ASC.chain p [] (List.range (p.N - 1))
  if pbc then setItem (squash .qusom) L [p.N - 1, 0] (p.coupling (p.N - 1)) else pure L

def ASC.toQubo (p : ASC) (pbc : Bool) : Except Err Poly := do
  let L ← p.toQuso pbc
  qusoToQubo .qusom L

/-- insertion of an item into a list sorted by key (`sorted(solution.items())`; keys are distinct) -/
def insItem (a : Nat × Rat) : Sol → Sol
  | [] => [a]
  | b :: r => if a.1 ≤ b.1 then a :: b :: r else b :: insItem a r

def sortItems (s : Sol) : Sol := s.foldr insItem []

/-- `convert_solution(solution, spin)`: a dict becomes the tuple of its values in key order; a boolean
solution is mapped through `boolean_to_spin` -/
def ASC.convert (_p : ASC) (s : Sol) (isDict : Bool) (flag : Bool) : Except Err (List Rat) := do
  let s' := if isDict then sortItems s else s
  if !isSolutionSpin (solValues s') flag then do
    let t ← solMap b2sVal s'
    pure (solValues t)
  else pure (solValues s')

/-- `all(x == 1 for x in solution) or all(x != 1 for x in solution)` -/
def ASC.validConv (l : List Rat) : Bool := l.all (fun v => decide (v = 1)) || l.all (fun v => decide (v ≠ 1))

/-- `is_solution_valid(solution, spin)`: only a dict is converted first -/
def ASC.valid (p : ASC) (s : Sol) (isDict : Bool) (flag : Bool) : Except Err Bool :=
  if isDict then do
    let l ← p.convert s isDict flag
    pure (ASC.validConv l)
  else pure (ASC.validConv (solValues s))

def ASC.solveBruteforce (p : ASC) (pbc : Bool) (allS : Bool) (order : List Var) (fill : Bool := true) :
    Except Err (List (List Rat)) :=
  solveVia (p.toQubo pbc) (fun x => p.convert x true false) allS order fill p.numVars

/-! ## VertexCover -/

structure VC where
  /-- the edge set in its iteration order -/
  edges : List (Var × Var)
  deriving Repr, Inhabited

/-- `sorted({y for x in edges for y in x}, key=ordering_key)` -/
def VC.vertices (p : VC) : List Var := squashB (p.edges.flatMap (fun e => [e.1, e.2]))

def VC.numVars (p : VC) : Nat := p.vertices.length

/-- position in a list: `self._vertex_to_index[v]` (`KeyError` when absent) -/
def indexIn (l : List Var) (v : Var) : Except Err Nat :=
  match l with
  | [] => .error .key
  | a :: r => if a = v then .ok 0 else do
    let i ← indexIn r v
    pure (i + 1)

/-- `self._index_to_vertex[i]` -/
def vertexAt (l : List Var) (i : Nat) : Except Err Var :=
  match l[i]? with
  | some v => .ok v
  | none => .error .key

/-- `for u, v in self._edges: Q += PCBO().add_constraint_OR(iu, iv, lam=A)` -/
def VC.edgeLoop (vs : List Var) (A : Rat) (Q : Poly) : List (Var × Var) → Except Err Poly
  | [] => .ok Q
  | (u, v) :: r => do
    let iu ← indexIn vs u
    let iv ← indexIn vs v
    let st ← consOR St.fresh [.lbl iu, .lbl iv] A
    let Q' ← iaddD (squash .qubom) Q st.terms
    VC.edgeLoop vs A Q' r

/-- `to_qubo(A, B)` -/
def VC.toQubo (p : VC) (A B : Rat) : Except Err Poly := do
  let Q ← build .qubom [] ((List.range p.numVars).map (fun i => ([i], B)))
  VC.edgeLoop p.vertices A Q p.edges

/-- `Conversions.to_quso` -/
def VC.toQuso (p : VC) (A B : Rat) : Except Err Poly := do
  let Q ← p.toQubo A B
  quboToQuso .qubom Q

/-- `set(self._index_to_vertex[i] for i, x in solution.items() if x)` as a sorted list -/
def VC.pick (vs : List Var) : Sol → Except Err (List Var)
  | [] => .ok []
  | (i, x) :: r =>
    if x ≠ 0 then do
      let v ← vertexAt vs i
      let rest ← VC.pick vs r
      pure (insertU v rest)
    else VC.pick vs r

/-- `convert_solution(solution, spin)` -/
def VC.convert (p : VC) (s : Sol) (flag : Bool) : Except Err (List Var) := do
  let s' ← toBoolSol s flag
  VC.pick p.vertices s'

/-- `all(i in solution or j in solution for i, j in self._edges)` -/
def VC.validConv (p : VC) (c : List Var) : Bool := p.edges.all (fun e => c.contains e.1 || c.contains e.2)

def VC.valid (p : VC) (s : Sol) (flag : Bool) : Except Err Bool := do
  let c ← p.convert s flag
  pure (p.validConv c)

def VC.solveBruteforce (p : VC) (A B : Rat) (allS : Bool) (order : List Var) (fill : Bool := true) :
    Except Err (List (List Var)) :=
  solveVia (p.toQubo A B) (fun x => p.convert x false) allS order fill p.numVars

/-! ## BILP -/

structure BILP where
  c : List Rat
  S : List (List Rat)
  b : List Rat
  /-- `self._N` (number of columns) -/
  N : Nat
  deriving Repr, Inhabited

/-- `__init__`: `m, N = np.array(S).shape` needs a two-dimensional (rectangular, non-empty) `S`;
`ValueError("Incorrect dimensions")` otherwise -/
def BILP.new (c : List Rat) (S : List (List Rat)) (b : List Rat) : Except Err BILP :=
  match S with
  | [] => .error .value
  | row :: _ =>
    if S.any (fun r => r.length != row.length) then .error .value
    else if c.length ≠ row.length ∨ b.length ≠ S.length then .error .value
    else .ok ⟨c, S, b, row.length⟩

def BILP.numVars (p : BILP) : Nat := p.N

/-- one pass of `for j in range(m)`:
`Qtemp = QUBOMatrix(); Qtemp += b[j]; for i: Qtemp[(i,)] -= S[j][i]; Qtemp *= A * Qtemp; Q += Qtemp` -/
def BILP.rowStep (A : Rat) (Q : Poly) (row : List Rat) (bj : Rat) : Except Err Poly := do
  let sq := squash .qubom
  let T0 ← addTerm sq [] [] bj
  let T1 ← build .qubom T0 (linOps (row.map (fun v => -v)) 0)
  let cp ← construct sq T1
  let AT ← imulC sq cp A
  let T2 ← imulD sq T1 AT
  iaddD sq Q T2

def BILP.rows (A : Rat) (Q : Poly) : List (List Rat) → List Rat → Except Err Poly
  | row :: rs, bj :: bs => do
    let Q' ← BILP.rowStep A Q row bj
    BILP.rows A Q' rs bs
  | _, _ => .ok Q

/-- `to_qubo(A, B)`; `A = None` means `B * N` -/
def BILP.toQubo (p : BILP) (A : Option Rat) (B : Rat) : Except Err Poly := do
  let A := match A with | some a => a | none => B * (p.N : Rat)
  let Q ← build .qubom [] (linOps (p.c.map (fun v => B * v)) 0)
  BILP.rows A Q p.S p.b

def BILP.toQuso (p : BILP) (A : Option Rat) (B : Rat) : Except Err Poly := do
  let Q ← p.toQubo A B
  quboToQuso .qubom Q

/-- `np.array([int(bool(solution[i])) for i in range(N)])` -/
def BILP.bits (s : Sol) (isDict : Bool) : List Nat → Except Err (List Rat)
  | [] => .ok []
  | i :: r => do
    let v ← solGet s isDict i
    let rest ← BILP.bits s isDict r
    pure ((if v ≠ 0 then 1 else 0) :: rest)

def BILP.convert (p : BILP) (s : Sol) (isDict : Bool) (flag : Bool) : Except Err (List Rat) := do
  let s' ← toBoolSol s flag
  BILP.bits s' isDict (List.range p.N)

/-- dot product of a row with the solution vector -/
def dot : List Rat → List Rat → Rat
  | a :: r, x :: xs => a * x + dot r xs
  | _, _ => 0

/-- one entry of `np.allclose(a, b)` with the default `rtol = 1e-5`, `atol = 1e-8`:
`|a - b| <= atol + rtol * |b|` -/
def closeTo (a b : Rat) : Bool :=
  decide (absR (a - b) ≤ (1 : Rat) / 100000000 + (1 : Rat) / 100000 * absR b)

/-- `is_solution_valid` on a converted solution.  `exact = true`: both arrays have an integer dtype and are compared
with `np.array_equal` (upstream 131e8ef); `exact = false`: any other dtype, `np.allclose(self._S @ x, self._b)`
(before the repair: every dtype). -/
def BILP.validConv (p : BILP) (x : List Rat) (exact : Bool := false) : Bool :=
  (p.S.zip p.b).all (fun rb => if exact then decide (dot rb.1 x = rb.2) else closeTo (dot rb.1 x) rb.2)

def BILP.valid (p : BILP) (s : Sol) (isDict : Bool) (flag : Bool) (exact : Bool := false) : Except Err Bool := do
  let x ← p.convert s isDict flag
  pure (p.validConv x exact)

def BILP.solveBruteforce (p : BILP) (A : Option Rat) (B : Rat) (allS : Bool) (order : List Var)
    (fill : Bool := true) : Except Err (List (List Rat)) :=
  solveVia (p.toQubo A B) (fun x => p.convert x true false) allS order fill p.numVars

end Qv.Prob
