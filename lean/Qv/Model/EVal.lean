/-!
# Qv.Model.EVal — values of annealing results: the rationals extended by `+inf` and `-inf`

`AnnealResult.value` is any Python number.  `float('inf')` / `-float('inf')` are ordinary values there
(the usual tag for an infeasible state) and compare with every `int` / `Fraction` / `float` the way the
extended rational line does: `-inf < q < +inf` for every finite `q`, `inf == inf`, `-inf == -inf`.
`EVal` is that line.  NaN is deliberately **not** a value of the model: `x < nan` and `nan < x` are both
false, so "an element with the smallest value" has no meaning on a collection holding a NaN (C13 makes no
statement there; the harness never generates one).

Core Lean only.  The order is defined by cases; its linear-order laws are proved in
`Qv/Proofs/Results.lean` (`instance : LinearOrder EVal`).
-/
namespace Qv

/-- an extended rational: `-inf`, a finite rational, or `+inf` -/
inductive EVal
  | ninf
  | fin (q : Rat)
  | pinf
  deriving DecidableEq, Repr, Inhabited

namespace EVal

instance : Coe Rat EVal := ⟨fin⟩
instance (n : Nat) : OfNat EVal n := ⟨fin (OfNat.ofNat n)⟩

/-- `a <= b` of Python numbers (no NaN) -/
def le : EVal → EVal → Bool
  | ninf, _ => true
  | _, pinf => true
  | fin a, fin b => decide (a ≤ b)
  | _, _ => false

/-- `a < b` of Python numbers (no NaN) -/
def lt : EVal → EVal → Bool
  | pinf, _ => false
  | _, ninf => false
  | fin a, fin b => decide (a < b)
  | _, _ => true

instance : LE EVal := ⟨fun a b => le a b = true⟩
instance : LT EVal := ⟨fun a b => lt a b = true⟩
instance (a b : EVal) : Decidable (a ≤ b) := inferInstanceAs (Decidable (le a b = true))
instance (a b : EVal) : Decidable (a < b) := inferInstanceAs (Decidable (lt a b = true))

/-- `-a` -/
def neg : EVal → EVal
  | ninf => pinf
  | fin q => fin (-q)
  | pinf => ninf

instance : Neg EVal := ⟨neg⟩

/-- `a + c` for a **finite** `c` (IEEE: `±inf + c = ±inf`) — the only sum the driver's named user
functions form; `inf + (-inf)` (NaN) cannot be expressed -/
def addFin : EVal → Rat → EVal
  | fin q, c => fin (q + c)
  | v, _ => v

/-- `a * a` (IEEE: `(±inf) * (±inf) = +inf`) -/
def square : EVal → EVal
  | fin q => fin (q * q)
  | _ => pinf

/-- the value of `float(v)` / exact printing: `inf`, `-inf`, or `num/den` -/
def isFinite : EVal → Bool
  | fin _ => true
  | _ => false

end EVal
end Qv
