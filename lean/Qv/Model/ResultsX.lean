import Qv.Model.Results
/-!
# Qv.Model.ResultsX — `AnnealResult` / `AnnealResults` at the granularity of the Python methods, with
values that may be `±inf` (model side of the generated-source tie of C13)

`Qv.Model.Results` (namespace `Qv.Res`, the model the theorems of `Qv/Props/C13.lean` are about) keeps values in
`EVal` (ℚ ∪ {±inf}; it was `Rat` when this file was written — `Num` below is the same line, and `emb` is now a bijection).  The Python code compares `value`s with `<`, and a `float` value may be `inf` (the annealers return
Python floats) — the seeded change C13-8 (`float('inf')` sentinel in `_recompute_best`) differs from the code
only there.  This file repeats the definitions of `Qv.Res` over `Num` (a rational or `±inf`; `nan` is not
modelled), one function per Python method, so that the definitions generated from
`qubovert/sim/_anneal_results.py` (`Qv/Gen/SourceResults.lean`) can be proved *equal* to them on every input
(`Qv/Proofs/GenEq/Results.lean`).  `Qv/Proofs/ResultsX.lean` proves that through `emb` every function
here is the function of `Qv.Res` (`ResX.f (emb x) = emb (Res.f x)`), which carries the tie to the theorems of C13.
Core Lean only.
-/
namespace Qv.ResX
open Qv
open Qv.Res (PState Slice normIndex insertPos spinToBool boolToSpin)

/-- a Python number as far as `<`, `<=`, `==` see it: a rational, or the floats `-inf` / `inf` -/
inductive Num
  | ninf
  | fin (q : Rat)
  | pinf
  deriving DecidableEq, Repr, Inhabited

/-- `a < b` -/
def Num.lt : Num → Num → Bool
  | .fin a, .fin b => decide (a < b)
  | .ninf, .ninf => false
  | .ninf, _ => true
  | _, .ninf => false
  | .pinf, _ => false
  | .fin _, .pinf => true

/-- `a <= b` -/
def Num.le (a b : Num) : Bool := !(Num.lt b a)

/-- `AnnealResult(state, value, spin)` -/
structure Result where
  state : PState
  value : Num
  spin : Bool
  deriving DecidableEq, Repr, Inhabited

/-- `AnnealResults`: the list and the cached `best` attribute -/
structure Coll where
  items : List Result
  best : Option Result
  deriving DecidableEq, Repr, Inhabited

/-! ## `AnnealResult` methods (the operand of a comparison may be `None`: reading its attribute raises) -/

/-- `AnnealResult.__eq__(self, other)` -/
def Result.eq (r : Result) : Option Result → Except Err Bool
  | none => throw .attr
  | some b => pure (decide (r = b))

/-- `AnnealResult.__lt__(self, other)` -/
def Result.lt (r : Result) : Option Result → Except Err Bool
  | none => throw .attr
  | some b => pure (Num.lt r.value b.value)

/-- `AnnealResult.__le__(self, other)` -/
def Result.le (r : Result) : Option Result → Except Err Bool
  | none => throw .attr
  | some b => pure (Num.le r.value b.value)

/-- `AnnealResult.copy` -/
def Result.copy (r : Result) : Result := r

/-- `AnnealResult.to_boolean` -/
def Result.toBoolean (r : Result) : Except Err Result :=
  if r.spin then do pure ⟨← spinToBool r.state, r.value, false⟩ else pure r

/-- `AnnealResult.to_spin` -/
def Result.toSpin (r : Result) : Except Err Result :=
  if r.spin then pure r else do pure ⟨← boolToSpin r.state, r.value, true⟩

/-- `[f(r) for r in l]` where `f` may raise: the first exception aborts -/
def mapE {α β : Type} (f : α → Except Err β) : List α → Except Err (List β)
  | [] => pure []
  | x :: xs => do
    let y ← f x
    let ys ← mapE f xs
    pure (y :: ys)

/-! ## `best` bookkeeping -/

/-- `self.best is None or result.value < self.best.value` -/
def better (r : Result) : Option Result → Bool
  | none => true
  | some b => Num.lt r.value b.value

/-- one step of the update in `append` / `insert` / `_recompute_best` -/
def upd (b : Option Result) (r : Result) : Option Result := if better r b then some r else b

/-- `_recompute_best`: the first element of least value -/
def recompute (l : List Result) : Option Result := l.foldl upd none

def Coll.empty : Coll := ⟨[], none⟩

/-- `append` -/
def Coll.append (s : Coll) (r : Result) : Coll := ⟨s.items ++ [r], upd s.best r⟩

/-- `AnnealResults(iterable)`: `best = None`, then `append` every element -/
def construct (l : List Result) : Coll := l.foldl Coll.append Coll.empty

/-! ## plain `list` operations (what `super()` does), for any element type -/

def insertAt {α : Type} (l : List α) (k : Nat) (r : α) : List α := l.take k ++ r :: l.drop k
def removeAt {α : Type} (l : List α) (k : Nat) : List α := l.take k ++ l.drop (k + 1)
def replaceAt {α : Type} (l : List α) (k : Nat) (r : α) : List α := l.take k ++ r :: l.drop (k + 1)

/-- `l * n` -/
def repeatList {α : Type} (l : List α) : Nat → List α
  | 0 => []
  | n + 1 => l ++ repeatList l n

def mulList {α : Type} (l : List α) (n : Int) : List α := repeatList l n.toNat

/-- `l[slice]` -/
def listGetSlice {α : Type} (l : List α) (sl : Slice) : Except Err (List α) := do
  let ps ← sl.positions l.length
  pure (ps.filterMap (fun p => l[p]?))

/-- drop the elements whose position is in `ps` -/
def dropPositions {α : Type} (ps : List Nat) : List α → Nat → List α
  | [], _ => []
  | x :: xs, i => if ps.contains i then dropPositions ps xs (i + 1) else x :: dropPositions ps xs (i + 1)

/-- `del l[slice]` -/
def listDelSlice {α : Type} (l : List α) (sl : Slice) : Except Err (List α) := do
  let ps ← sl.positions l.length
  pure (dropPositions ps l 0)

/-- `l[slice] = v` (see `Qv.Res.listSetSlice`) -/
def listSetSlice {α : Type} (l : List α) (sl : Slice) (v : List α) : Except Err (List α) := do
  let (start, stop, step, len) ← sl.indices l.length
  if step = 1 then
    let lo := start.toNat
    let hi := max lo stop.toNat
    pure (l.take lo ++ v ++ l.drop hi)
  else if v.length ≠ len then throw .value
  else
    pure ((List.range len).foldl
      (fun acc (k : Nat) => match v[k]? with
        | some r => acc.set (start + (k : Int) * step).toNat r
        | none => acc) l)

/-! ## `AnnealResults` methods.  A mutator returns the receiver after the call; `remove` / `pop` may raise
*after* the list has changed (`result == self.best` on a `None` best): the `Option Err` component. -/

/-- `insert(index, result)` -/
def Coll.insert (s : Coll) (i : Int) (r : Result) : Coll :=
  ⟨insertAt s.items (insertPos s.items.length i) r, upd s.best r⟩

/-- `remove(result)` -/
def Coll.remove (s : Coll) (r : Result) : Except Err (Coll × Option Err) :=
  if r ∈ s.items then
    let l := s.items.erase r
    match r.eq s.best with
    | .error e => pure (⟨l, s.best⟩, some e)
    | .ok true => pure (⟨l, recompute l⟩, none)
    | .ok false => pure (⟨l, s.best⟩, none)
  else throw .value

/-- `pop(index)` -/
def Coll.pop (s : Coll) (i : Int) : Except Err (Coll × Result × Option Err) :=
  match normIndex s.items.length i with
  | none => throw .index
  | some k =>
    match s.items[k]? with
    | none => throw .index
    | some x =>
      let l := removeAt s.items k
      match x.eq s.best with
      | .error e => pure (⟨l, s.best⟩, x, some e)
      | .ok true => pure (⟨l, recompute l⟩, x, none)
      | .ok false => pure (⟨l, s.best⟩, x, none)

/-- `extend(other)` / `+=` with an iterable that is not an `AnnealResults`: `append` each -/
def Coll.extendList (s : Coll) (l : List Result) : Coll := l.foldl Coll.append s

/-- `extend(other)` / `+=` with an `AnnealResults` operand -/
def Coll.extendAR (s o : Coll) : Coll :=
  match o.best with
  | none => ⟨s.items ++ o.items, s.best⟩
  | some ob => ⟨s.items ++ o.items, upd s.best ob⟩

/-- `clear()` -/
def Coll.clear (_ : Coll) : Coll := Coll.empty

/-- recompute `best` from the items (what `__setitem__` / `__delitem__` do after `super()`) -/
def Coll.fixup (s : Coll) : Coll := ⟨s.items, recompute s.items⟩

/-- `self[i] = r` -/
def Coll.setItem (s : Coll) (i : Int) (r : Result) : Except Err Coll :=
  match normIndex s.items.length i with
  | none => throw .index
  | some k => pure (Coll.fixup ⟨replaceAt s.items k r, s.best⟩)

/-- `del self[i]` -/
def Coll.delItem (s : Coll) (i : Int) : Except Err Coll :=
  match normIndex s.items.length i with
  | none => throw .index
  | some k => pure (Coll.fixup ⟨removeAt s.items k, s.best⟩)

/-- `self[sl] = v` -/
def Coll.setSlice (s : Coll) (sl : Slice) (v : List Result) : Except Err Coll := do
  pure (Coll.fixup ⟨← listSetSlice s.items sl v, s.best⟩)

/-- `del self[sl]` -/
def Coll.delSlice (s : Coll) (sl : Slice) : Except Err Coll := do
  pure (Coll.fixup ⟨← listDelSlice s.items sl, s.best⟩)

/-- `self[i]` for an int -/
def Coll.getItem (s : Coll) (i : Int) : Except Err Result :=
  match normIndex s.items.length i with
  | none => throw .index
  | some k => match s.items[k]? with
    | none => throw .index
    | some x => pure x

/-! derived collections: every one goes through the constructor -/

def Coll.copy (s : Coll) : Coll := construct s.items
def Coll.add (s : Coll) (l : List Result) : Coll := construct (s.items ++ l)
def Coll.mul (s : Coll) (n : Int) : Coll := construct (mulList s.items n)
def Coll.getSlice (s : Coll) (sl : Slice) : Except Err Coll := do pure (construct (← listGetSlice s.items sl))
def Coll.filter (s : Coll) (f : Result → Bool) : Coll := construct (s.items.filter f)
def Coll.filterStates (s : Coll) (f : PState → Bool) : Coll := construct (s.items.filter (fun r => f r.state))
def Coll.applyFunction (s : Coll) (f : Result → Result) : Coll := construct (s.items.map f)
def Coll.convertStates (s : Coll) (f : PState → PState) : Coll :=
  s.applyFunction (fun r => ⟨f r.state, r.value, r.spin⟩)
def Coll.toBoolean (s : Coll) : Except Err Coll := do pure (construct (← mapE Result.toBoolean s.items))
def Coll.toSpin (s : Coll) : Except Err Coll := do pure (construct (← mapE Result.toSpin s.items))

/-! ## the embedding of `Qv.Res` (all values: `Res.Result.value : EVal` is ℚ ∪ {±inf}, the same line as `Num`) -/

/-- the order isomorphism `EVal → Num` (`Qv/Model/EVal.lean` is the value type of `Qv.Res`) -/
def ofEVal : EVal → Num
  | .ninf => .ninf
  | .fin q => .fin q
  | .pinf => .pinf

def emb (r : Res.Result) : Result := ⟨r.state, ofEVal r.value, r.spin⟩
def embC (s : Res.Coll) : Coll := ⟨s.items.map emb, s.best.map emb⟩

end Qv.ResX
