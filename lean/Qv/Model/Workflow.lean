import Qv.Model.PcboLogic
import Qv.Model.Reduce
import Qv.Model.Convert
import Qv.Model.Brute
/-!
# Qv.Model.Workflow — the README workflow as a composition of the modelled pieces

```
H = PCBO(objective)                       -- start
H.add_constraint_…(…, lam=…)              -- addCon, one call after the other on the same object (build)
x = H.solve_bruteforce()                  -- solveBruteforce: solve_pubo_bruteforce(H, all, H.is_solution_valid)[1]
D = H.to_qubo() / to_quso() / to_pubo() / to_puso()   -- form
x = H.convert_solution(s)                 -- Qv.convertSolution (model of C04, used as it is)
x = H.remove_ancilla_from_solution(x)     -- removeAncilla
```

Core Lean only; nothing here is new arithmetic: `addCon` dispatches to `Qv.addConstraint` (C02) and
`Qv.consLogic` (C06), `form` is `Qv.Reduce.route` (C01), the brute force is `Qv.Brute.solveMethod` (C09).

New in this file:
* `removeAncilla` (`qubovert/_pcbo.py:552-573`): `{k: v for k, v in solution.items() if str(k)[:3] != "__a"}`;
  ancilla `"__a<k>"` is the label `ANC + k`, user labels are `< ANC` (DESIGN.md §3.1), so the prefix test is `≥ ANC`.
* `isSolutionValidP` (`qubovert/_pcbo.py:575-619`): `is_solution_valid` on an assignment **dict** — it evaluates
  `v.value(solution)` for the recorded constraints relation by relation (`eq, ne, lt, le, gt, ge`), stops at the
  first violated one (`any(...)`), and raises `KeyError` when an evaluated constraint mentions a label the dict
  does not have (`pubo_value` / `puso_value` index the dict; `all(...)` short-circuits inside a key).
* `solveBruteforce`: the loop of `_solve_bruteforce` calls `valid(x)` on *every* enumerated assignment, so the call
  raises `KeyError` exactly when `is_solution_valid` raises on some enumerated assignment (a model without
  variables returns before the loop and never consults `valid`).
-/
namespace Qv.Workflow
open Qv

/-- one constraint call -/
inductive Con
  | cmp (rel : Rel) (P : Poly) (lam : Rat) (lt : Bool) (b : Option Rat × Option Rat) (sup : Bool)
  | logic (eq : Bool) (g : Gate) (ops : List SVal) (lam : Rat)

/-- `H.add_constraint_R_zero(P, lam, log_trick, bounds, suppress_warnings)` (`P` is the already constructed
`PUBO(P)`) resp. `H.add_constraint_[eq_]G(*ops, lam=lam)` (operands already built) -/
def addCon (st : St) : Con → Except Err St
  | .cmp rel P lam lt b sup => .ok (addConstraint rel st P lam lt b sup)
  | .logic eq g ops lam => consLogic eq g st ops lam

/-- `PCBO(objective)`: the terms of the dict stored one after the other; no constraint, no ancilla -/
def start (obj : Poly) : St := { terms := constructB obj }

/-- the calls one after the other on the same object; an exception leaves the loop -/
def addCons (st : St) : List Con → Except Err St
  | [] => .ok st
  | c :: r => do
    let st' ← addCon st c
    addCons st' r

/-- objective, then the constraints -/
def build (obj : Poly) (cs : List Con) : Except Err St := addCons (start obj) cs

/-- `remove_ancilla_from_solution` -/
def removeAncilla (s : Brute.Assign) : Brute.Assign := s.filter (fun p => decide (p.1 < ANC))

/-! ## `is_solution_valid` on a dict, and the validity-filtered brute force -/

/-- `any(not (v.value(solution) rel 0) for v in self._constraints.get(rel, []))` over the recorded constraints of
relation `r` in order: `.ok true` = none of them is violated -/
def relOK (value : Brute.Assign → Poly → Except Err Rat) (r : Rel) (a : Brute.Assign) :
    List (Rel × Poly) → Except Err Bool
  | [] => .ok true
  | (r', P) :: rest =>
    if r' = r then do
      let v ← value a P
      if r.holds v then relOK value r a rest else pure false
    else relOK value r a rest

/-- the six `if any(...): return False` blocks in their order -/
def validLoop (value : Brute.Assign → Poly → Except Err Rat) (cons : List (Rel × Poly)) (a : Brute.Assign) :
    List Rel → Except Err Bool
  | [] => .ok true
  | r :: rest => do
    let ok ← relOK value r a cons
    if ok then validLoop value cons a rest else pure false

def relOrder : List Rel := [.eq, .ne, .lt, .le, .gt, .ge]

/-- `H.is_solution_valid(a)` for a PCBO (`spin = false`, `pubo_value`) or a PCSO (`spin = true`, `puso_value`) -/
def isSolutionValidP (spin : Bool) (st : St) (a : Brute.Assign) : Except Err Bool :=
  validLoop (if spin then Brute.pusoValueP else Brute.puboValueP) st.cons a relOrder

/-- the total assignment read from a dict (labels outside it get 0) -/
def afn (a : Brute.Assign) : Var → Rat := fun i => (Brute.aget? a i).getD 0

/-- `solve_pubo_bruteforce` for a PCBO, `solve_puso_bruteforce` for a PCSO -/
def wfFn (spin : Bool) : Brute.Fn := if spin then .puso else .pubo

/-- the object handed to the solver: the model's terms with the bookkeeping the code reads
(`num_binary_variables`, `_reverse_mapping`) -/
def wfModel (spin : Bool) (st : St) (book : Brute.Book) : Brute.Model :=
  ⟨if spin then .pcso else .pcbo, st.terms, some book⟩

/-- `self.is_solution_valid` as the `valid` argument (only reached when it does not raise) -/
def wfValid (spin : Bool) (st : St) : Brute.Assign → Bool := fun a =>
  match isSolutionValidP spin st a with | .ok b => b | .error _ => false

/-- does `is_solution_valid(a)` return (rather than raise)? -/
def validReturns (spin : Bool) (st : St) (a : Brute.Assign) : Bool :=
  match isSolutionValidP spin st a with | .ok _ => true | .error _ => false

/-- `H.solve_bruteforce(all_solutions)` -/
def solveBruteforce (spin : Bool) (st : St) (book : Brute.Book) (allS : Bool) : Except Err Brute.Sol :=
  let D := wfModel spin st book
  if D.terms.isEmpty || (hasKey D.terms [] && (erase D.terms []).isEmpty) then
    Brute.solveMethod (wfFn spin) D allS (wfValid spin st) []          -- returns before the loop
  else do
    let vars ← D.vars []
    if (Brute.enumerate spin vars).all (validReturns spin st)
    then Brute.solveMethod (wfFn spin) D allS (wfValid spin st) []
    else .error .key

/-! ## Target forms and solution conversion -/

/-- `H.to_qubo()`, `H.to_quso()`, `H.to_pubo()`, `H.to_puso()` with the default arguments; `m`, `n` are
`H.mapping`, `H.num_binary_variables` -/
def form (spin : Bool) (t : Reduce.Target) (st : St) (m : Reduce.Mapping) (n : Nat) : Except Err Reduce.RouteOut :=
  Reduce.route spin t st.terms m n none .default []

/-- `H.convert_solution(s, spin)` is `Qv.convertSolution` of C04 -/
def convert (spinModel : Bool) (rev : Qv.Mapping) (n : Nat) (s : Qv.Sol) (isDict flag : Bool) :
    Except Err Qv.Assign :=
  convertSolution spinModel rev n s isDict flag

end Qv.Workflow
