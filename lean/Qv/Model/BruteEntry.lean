import Qv.Model.Brute
import Qv.Model.Book
import Qv.Model.Workflow
/-!
# Qv.Model.BruteEntry — the concrete entry points of the brute-force solvers

`Qv.Model.Brute` models `_solve_bruteforce` on an abstract object `Model = (kind, terms, bookkeeping the code
reads)`.  This file says which `Model` each *public entry point* hands to it, in terms of the objects the other
models already describe:

* a plain `dict`                                        → `ofDict P`
* a model object in bookkeeping state `s : Book.State` (the state machine of C14: `QUBOMatrix`, `QUSOMatrix`,
  `PUBOMatrix`, `PUSOMatrix`, `QUBO`, `QUSO`, `PUBO`, `PUSO`, `PCBO`, `PCSO` after any history of edits)
                                                        → `ofState s`
  (`_solve_bruteforce` reads `D.num_binary_variables` and `D._reverse_mapping`; the four Matrix types have no
  `_reverse_mapping`, the `AttributeError` sends them to the key scan like a plain dict)
* `solve_pubo_bruteforce`, `solve_qubo_bruteforce`, `solve_puso_bruteforce`, `solve_quso_bruteforce`
                                                        → `solve .pubo`, `solve .qubo`, `solve .puso`, `solve .quso`
* `obj.solve_bruteforce(all_solutions)` (`_pubomatrix.py:406`, `_qubomatrix.py:200`, `_pusomatrix.py:167`,
  `_qusomatrix.py:190`; the labelled types inherit it unchanged — there is **no** `to_pubo`/`convert_solution`
  round trip: the enumeration runs over `_reverse_mapping[0..N-1]`, i.e. directly over the user's labels)
  = `solve_<fnOfKind>_bruteforce(self, all_solutions, self.is_solution_valid)[1]`
    - `is_solution_valid` of the eight unconstrained types is `return True`      → `methodPlain`
    - `PCBO.is_solution_valid` / `PCSO.is_solution_valid` evaluate the recorded constraints on the assignment
      dict and may raise `KeyError`                                               → `methodCons`
      (= `Qv.Workflow.solveBruteforce`, the model C08 uses).

Core Lean only.
-/
namespace Qv.Brute
open Qv

/-- a plain `dict` argument -/
def ofDict (P : Poly) : Model := ⟨.dict, P, none⟩

/-- a model object in bookkeeping state `s`: its type, its stored terms, and — for the six labelled types, the
only ones with a `_reverse_mapping` — the two attributes `_solve_bruteforce` reads -/
def ofState (s : Book.State) : Model :=
  ⟨s.kind, s.terms, if Book.hasBO s.kind then some ⟨s.numVars, s.reverse⟩ else none⟩

/-- `[D._reverse_mapping[0], …, D._reverse_mapping[N-1]]` with `N = D.num_binary_variables`, as a total function
of the state (label 0 where the lookup would raise; `bookVars_ok` shows it does not raise under the C14 invariant) -/
def bookVars (s : Book.State) : List Var :=
  (List.range s.numVars).map (fun j => match rmLookup s.reverse j with | .ok l => l | .error _ => 0)

/-- the four public free functions -/
abbrev solvePuboBruteforce := solve .pubo
abbrev solveQuboBruteforce := solve .qubo
abbrev solvePusoBruteforce := solve .puso
abbrev solveQusoBruteforce := solve .quso

/-- which free function `solve_bruteforce` of each model type calls -/
def fnOfKind : Kind → Fn
  | .qubo | .qubom => .qubo
  | .quso | .qusom => .quso
  | .puso | .pusom | .pcso => .puso
  | .pubo | .pubom | .pcbo | .dict => .pubo

/-- `obj.solve_bruteforce(all_solutions)` of `QUBOMatrix, QUSOMatrix, PUBOMatrix, PUSOMatrix, QUBO, QUSO, PUBO,
PUSO`, whose `is_solution_valid` is `return True` -/
def methodPlain (s : Book.State) (allS : Bool) (order : List Var) : Except Err Sol :=
  solveMethod (fnOfKind s.kind) (ofState s) allS (fun _ => true) order

/-- what `is_solution_valid` of a `PCBO` / `PCSO` reads: the terms are irrelevant, the recorded constraints count -/
def consSt (s : Book.State) : Qv.St := { terms := s.terms, anc := s.ancilla, cons := s.constraints }

/-- `obj.solve_bruteforce(all_solutions)` of `PCBO` / `PCSO`: `valid = self.is_solution_valid`, which raises
`KeyError` on an assignment that lacks a label of an evaluated constraint -/
def methodCons (s : Book.State) (allS : Bool) : Except Err Sol :=
  Workflow.solveBruteforce s.kind.isSpin (consSt s) ⟨s.numVars, s.reverse⟩ allS

/-! ## `Problem.solve_bruteforce` (`qubovert/problems/_problem_parentclass.py:215-260`)

```
qubo = self.to_qubo(*args, **kwargs)
Q = dict(qubo)
for i in range(self.num_binary_variables): Q.setdefault((i,), 0)
sol = solve_qubo_bruteforce(Q, all_solutions)[1]
return self.convert_solution(sol)            # resp. [self.convert_solution(x) for x in sol]
```
`to_qubo` and `convert_solution` belong to the problem class (C10); what is modelled here is the part in between:
the plain dict handed to `solve_qubo_bruteforce` and the assignment(s) that come back. -/

/-- `Q.setdefault(k, 0)` -/
def setdefault0 (p : Poly) (k : Key) : Poly := if hasKey p k then p else p ++ [(k, 0)]

/-- `Q = dict(qubo); for i in range(N): Q.setdefault((i,), 0)` -/
def padQ (Q : Poly) (N : Nat) : Poly := (List.range N).foldl (fun p i => setdefault0 p [i]) Q

/-- `solve_qubo_bruteforce(Q, all_solutions)[1]` on the padded dict (default `valid`: always true) -/
def problemSolve (Q : Poly) (N : Nat) (allS : Bool) (order : List Var) : Except Err Sol :=
  solveMethod .qubo (ofDict (padQ Q N)) allS (fun _ => true) order

end Qv.Brute
