import Qv.Model.Heap
/-!
# Qv.Model.HeapArith — the arithmetic operators, the sat gates and the free utilities as heap transformers

Mirrors `qubovert/utils/_dict_arithmetic.py` (`__add__` … `__ifloordiv__`, `__pos__`, `__neg__`, `normalize`,
`__round__`, `subs`), the overrides `PUBOMatrix.clear` / `refresh` (`_pubomatrix.py:151-206`), `PCBO.__imul__` /
`__round__` / `subs` (`_pcbo.py:470-489, 646-695`), `qubovert/sat/_satisfiability.py`, `utils/_subgraph.py`,
`utils/_normalize.py`, `utils/_values.py`, `utils/_approximate_extrema.py`, `sim/_anneal_temperature_range.py`,
`convert_solution`.  As in `Qv.Model.Heap`, what the *data* of a result is, is a parameter (`Ctor`, `Upd`, `Payload`).

The one structural surprise of the source: `self.clear()` is `dict.clear(self); self.__init__()`, and `__init__`
*rebinds* `_mapping`, `_reverse_mapping`, `_variables` (and `_constraints`, `_ancilla`, `name`) to new objects.  So
`a *= d` (d a dict), `a **= n` (n ≥ 2), `a.clear()` and `a.refresh()` do not write the receiver's bookkeeping cells:
they replace them by fresh ones (`PCBO.__imul__` puts the old `_constraints` dict and ancilla counter back; the name
stays reset).
-/
namespace Qv.Hp
open Qv

/-- the bookkeeping cells a class's `__init__` binds: `_mapping`, `_reverse_mapping` (`BO.__init__`, labelled types),
`_variables` (`PUBOMatrix.__init__`) -/
structure Attrs where
  heap : Heap
  m : Option Nat
  rm : Option Nat
  v : Nat

def allocAttrs (h : Heap) (κ : Kind) (pl : Payload) : Attrs :=
  let a1 := allocIf h κ.isLabelled (.map pl.mapping)
  let a2 := allocIf a1.1 κ.isLabelled (.map pl.rmapping)
  let a3 := alloc a2.1 (.set pl.vars)
  ⟨a3.1, a1.2, a2.2, a3.2⟩

/-- the other operand of a binary operator: a dict (model object or plain dict) or a number (`none`) -/
def operandOk (h : Heap) : Option Nat → Bool
  | none => true
  | some b => (termsOf h b).isSome

def isObj (h : Heap) (r : Nat) : Bool :=
  match h[r]? with
  | some (.obj _ _ _ _ _) => true
  | _ => false

/-! ### in place -/

/-- the cells `self[k] = v` may write: the object, `_mapping`, `_reverse_mapping`, `_variables` -/
def mutFootprint (h : Heap) (o : Nat) : List Nat :=
  match h[o]? with
  | some (.obj _ m rm v _) => o :: (m.toList ++ rm.toList ++ [v])
  | _ => [o]

/-- `a += b`, `a -= b` (b a dict, a model — also `a` itself — or a number), `a *= c`, `a /= c`, `a //= c` (c a number),
`a.normalize()`, `a.simplify()`, `a[k] = v`: a loop of `self[k] = …` — the writes of `applyUpd`
(`for k, v in tuple(other.items())` / `other.items()`: the other operand is only read) -/
def iupdH (h : Heap) (recv : Nat) (other : Option Nat) (u : Upd) : Option Heap :=
  if isObj h recv && operandOk h other then applyUpd h recv u else none

/-- `a.clear()`: `super().clear(); self.__init__()` -/
def clearH (h : Heap) (recv : Nat) : Option Heap :=
  match h[recv]? with
  | some (.obj d _ _ _ c) =>
    let a := allocAttrs h d.kind {}
    let g := allocIf a.heap d.kind.isConstrained (.cdict [])       -- `self._ancilla, self._constraints = 0, {}`
    some (write g.1 recv (.obj { kind := d.kind } a.m a.rm a.v (if d.kind.isConstrained then g.2 else c)))
  | _ => none

/-- `a *= b` for a dict `b` (possibly `a` itself): `items, oitems = tuple(self.items()), tuple(other.items())`,
`self.clear()`, `self[kp + kop] += v * vo`; `PCBO.__imul__` saves `_ancilla, _constraints` before and puts them back -/
def imulDictH (h : Heap) (recv other : Nat) (u : Upd) : Option Heap :=
  match h[recv]? with
  | some (.obj d _ _ _ c) =>
    if (termsOf h other).isSome then
      let a := allocAttrs h d.kind { mapping := u.mapping, rmapping := u.rmapping, vars := u.vars }
      let g := allocIf a.heap d.kind.isConstrained (.cdict [])     -- bound by `__init__()`, dropped again by `PCBO.__imul__`
      some (write g.1 recv (.obj { d with terms := u.terms, name := none } a.m a.rm a.v c))
    else none
  | _ => none

/-- `for _ in range(exponent-1): self *= old` -/
def imulIter (h : Heap) (recv old : Nat) : List Upd → Option Heap
  | [] => some h
  | u :: us =>
    match imulDictH h recv old u with
    | none => none
    | some h1 => imulIter h1 recv old us

/-- `a **= n` with `n = us.length + 1 ≥ 1`: nothing for `n = 1`; else `old = self.copy()` and `n - 1` times `self *= old` -/
def ipowH (F : Ctor) (h : Heap) (recv : Nat) (us : List Upd) : Option Heap :=
  match us with
  | [] => if isObj h recv then some h else none
  | _ =>
    match copyM F h recv with
    | none => none
    | some (h1, old) => imulIter h1 recv old us

/-- `a.refresh()`: `d = self.copy(); super().clear(); self.__init__(d)` — new bookkeeping cells, and for PCBO / PCSO
`self._constraints = d.constraints` (a copy of the copy), `self._ancilla = d.num_ancillas` -/
def refreshH (F : Ctor) (h : Heap) (recv : Nat) : Option Heap :=
  match h[recv]? with
  | some (.obj d _ _ _ c) =>
    match copyM F h recv with
    | none => none
    | some (h1, dref) =>
      let pl := F d.kind d.terms
      if d.kind.isConstrained then
        match getConstraints F h1 dref with
        | none => none
        | some (h2, c') =>
          let a := allocAttrs h2 d.kind pl
          some (write a.heap recv (.obj { kind := d.kind, terms := pl.terms, anc := ancOf h1 dref } a.m a.rm a.v (some c')))
      else
        let a := allocAttrs h1 d.kind pl
        some (write a.heap recv (.obj { kind := d.kind, terms := pl.terms } a.m a.rm a.v c))
  | _ => none

/-! ### not in place: `d = self.copy(); d <op>= other; return d` -/

/-- `a + b`, `a - b`, `a / c`, `a // c`, `a * c` (c a number), `b + a`, `c * a`, `-a` (`-1 * self`) -/
def binopH (F : Ctor) (h : Heap) (a : Nat) (other : Option Nat) (u : Upd) : Option (Heap × Nat) :=
  match copyM F h a with
  | none => none
  | some (h1, d) =>
    match iupdH h1 d other u with
    | none => none
    | some h2 => some (h2, d)

/-- `b - a` = `-1*self + other`: two copies -/
def rsubH (F : Ctor) (h : Heap) (a : Nat) (other : Option Nat) (u1 u2 : Upd) : Option (Heap × Nat) :=
  match binopH F h a none u1 with
  | none => none
  | some (h1, d1) => binopH F h1 d1 other u2

/-- `a * b` for a dict `b` (also `a * a`) -/
def mulDictH (F : Ctor) (h : Heap) (a b : Nat) (u : Upd) : Option (Heap × Nat) :=
  match copyM F h a with
  | none => none
  | some (h1, d) =>
    match imulDictH h1 d b u with
    | none => none
    | some h2 => some (h2, d)

/-- `a ** n` -/
def powH (F : Ctor) (h : Heap) (a : Nat) (us : List Upd) : Option (Heap × Nat) :=
  match copyM F h a with
  | none => none
  | some (h1, d) =>
    match ipowH F h1 d us with
    | none => none
    | some h2 => some (h2, d)

/-- `round(a, n)` and `a.subs(…)`: `d = self.__class__()`, `d[k] = …`; for PCBO / PCSO `d._constraints = self.constraints`
resp. `{k: [P.subs(…) for P in v] …}` (a fresh dict, fresh lists, a fresh object per constraint either way) and
`d._ancilla = self._ancilla` -/
def rebuildH (F : Ctor) (h : Heap) (a : Nat) (pl : Payload) : Option (Heap × Nat) :=
  match h[a]? with
  | some (.obj d _ _ _ _) =>
    if d.kind.isConstrained then
      let g := alloc h (.cdict [])                                 -- the `{}` of `self.__class__()`, replaced
      match getConstraints F g.1 a with
      | none => none
      | some (h1, c') => some (mkObj h1 d.kind pl none d.anc (some c'))
    else some (mkObj h d.kind pl none 0 none)
  | _ => none

def allCells (h : Heap) (l : List Nat) : Bool := l.all (fun r => r < h.length)

/-- `normalize(D)`, `subgraph(G, nodes, connections)`, `subvalue(values, G)` and the methods of the same names:
`res = type(D)()` filled item by item; the other arguments (`extras`) are read -/
def newLikeH (h : Heap) (a : Nat) (extras : List Nat) (pl : Payload) : Option (Heap × Nat) :=
  if allCells h extras then
    match h[a]? with
    | some (.obj d _ _ _ _) =>
      if d.kind.isConstrained then
        let g := alloc h (.cdict [])
        some (mkObj g.1 d.kind pl none 0 (some g.2))
      else some (mkObj h d.kind pl none 0 none)
    | some (.plain _) => some (alloc h (.plain pl.terms))
    | _ => none
  else none

/-- `pubo_value` / `qubo_value` / `puso_value` / `quso_value`, `approximate_*_extrema`, `anneal_temperature_range`
(`nres = 0`: the result is a number or a tuple of numbers; temporaries are not reachable), `convert_solution`
(`nres = 1`: a fresh dict): every argument is only read -/
def readOnlyH (h : Heap) (args : List Nat) (nres : Nat) : Option (Heap × List Nat) :=
  if allCells h args then some (allocPlains h nres) else none

/-! ### sat gates -/

/-- `BUFFER(x)`: `x.copy()` for a model object (`isinstance(x, BOOLEAN_MODELS)` holds for every model type, the spin
types derive from `PUBOMatrix`), `PUBO(x)` for a plain dict -/
def bufferH (F : Ctor) (h : Heap) (x : Nat) : Option (Heap × Nat) :=
  match h[x]? with
  | some (.obj _ _ _ _ _) => copyM F h x
  | some (.plain _) => copyCtor F h .pubo x
  | _ => none

/-- the `BUFFER(v)` temporaries of the remaining operands -/
def bufferAll (F : Ctor) (h : Heap) : List Nat → Option Heap
  | [] => some h
  | x :: t =>
    match bufferH F h x with
    | none => none
    | some (h1, _) => bufferAll F h1 t

/-- `NOT`, `AND`, `NAND`, `OR`, `NOR`, `XOR`, `XNOR` (and `BUFFER`): every operand that is not a label goes through
`BUFFER`; the result is the `BUFFER` of the first operand (`first`; a fresh `PUBO` when that is a label) updated in
place by the arithmetic of the gate (`P *= …`, `1 - x`, `x + v * (1 - x)`, `(x - v) ** 2` — each builds on a copy of
its left operand).  Further temporaries of that arithmetic are unreachable and not modelled. -/
def satH (F : Ctor) (h : Heap) (first : Option Nat) (others : List Nat) (u : Upd) : Option (Heap × Nat) :=
  match bufferAll F h others with
  | none => none
  | some h1 =>
    let res := match first with
      | none => some (mkObj h1 .pubo {} none 0 none)
      | some x => bufferH F h1 x
    match res with
    | none => none
    | some (h2, r) =>
      match applyUpd h2 r u with
      | none => none
      | some h3 => some (h3, r)

end Qv.Hp
