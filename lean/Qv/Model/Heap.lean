import Qv.Model.Info
/-!
# Qv.Model.Heap — an explicit heap of mutable cells for the aliasing half of C19

Python object identity is not expressible in the pure models; here it is made explicit.  A heap is a list of
*cells* (the mutable containers of the Python object graph), a reference is an index.

| Python object                                            | cell                                   |
|----------------------------------------------------------|----------------------------------------|
| a model object (`QUBO`, …, `PCSO`, the `*Matrix` types): the dict itself with its `__dict__`   | `.obj d mapping rmapping vars cons` — own terms and scalars `d`, references to `_mapping`, `_reverse_mapping` (labelled types), `_variables`, `_constraints` (PCBO / PCSO) |
| a plain `dict` of terms (user input, `dict(model)`, solver / annealer states)                  | `.plain terms` |
| `_mapping` / `_reverse_mapping` (and their copies)        | `.map m` |
| `_variables` (and its copy)                               | `.set s` |
| `_constraints` (and the dict the `constraints` property builds) | `.cdict [(rel, list cell)]` |
| a per-relation constraint list                            | `.list [constraint polynomial object]` |
| the dict `get_info` returns                               | `.info kind name anc terms mapping cons` |

Tuples, numbers, strings and `None` are immutable and are not cells.  Every API entry of C19 is a *heap
transformer* written after the Python source statement by statement: which cells it reads, which it allocates,
which it writes, which references the result holds.  What the *data* in a freshly built object is (what
`cls(terms)` computes, what `self += penalty` leaves in the receiver) is a parameter (`Ctor`, `Upd`): the
aliasing theorems hold for every such data-level behaviour; the data level itself is `Qv.Model.Info` / C14 / C02.

Structures built by a call in fresh containers that are filled in place by the Python code
(`self._mapping = {}` … `self._mapping[i] = n`) are allocated here with their final content: the intermediate
states of a container nobody else can reach are not observable.
-/
namespace Qv.Hp
open Qv

/-! a reference is an index into the heap (written `Nat` throughout: `omega` does not see through an `abbrev`) -/

/-- own dict content and scalar attributes of a model object -/
structure ObjData where
  kind : Kind
  terms : Poly := []
  name : Option String := none
  anc : Nat := 0
  deriving Repr

inductive Cell
  | obj (d : ObjData) (mapping rmapping : Option Nat) (vars : Nat) (cons : Option Nat)
  | plain (terms : Poly)
  | map (m : List (Nat × Nat))
  | set (s : List Nat)
  | cdict (m : List (Rel × Nat))
  | list (l : List Nat)
  | info (kind : Kind) (name : Option String) (anc : Nat) (terms : Nat) (mapping cons : Option Nat)
  deriving Repr

/-- the references a cell holds, in the order the harness walks them
(`_mapping`, `_reverse_mapping`, `_variables`, `_constraints`; dict values / list elements in order) -/
def Cell.refs : Cell → List Nat
  | .obj _ m rm v c => m.toList ++ rm.toList ++ [v] ++ c.toList
  | .info _ _ _ t m c => [t] ++ m.toList ++ c.toList
  | .cdict g => g.map (·.2)
  | .list l => l
  | _ => []

abbrev Heap := List Cell

/-- allocation: the new cell gets the next index -/
def alloc (h : Heap) (c : Cell) : Heap × Nat := (h ++ [c], h.length)

/-- in-place update of a cell -/
def write (h : Heap) (r : Nat) (c : Cell) : Heap := h.set r c

/-- `c` is reachable from `a` by following references -/
inductive Reach (h : Heap) : Nat → Nat → Prop
  | refl (a : Nat) : Reach h a a
  | step {a b c : Nat} {cell : Cell} : Reach h a b → h[b]? = some cell → c ∈ cell.refs → Reach h a c

/-- no dangling references -/
def Closed (h : Heap) : Prop := ∀ (c : Nat) (cell : Cell), h[c]? = some cell → ∀ r ∈ cell.refs, r < h.length

/-! ### the abstract value of an object (what `get_info` can see) -/

def absList (h : Heap) (l : List Nat) : Option (List Poly) :=
  l.mapM (fun r => match (h[r]? : Option Cell) with | some (.obj d _ _ _ _) => some d.terms | _ => none)

def absGroups (h : Heap) (g : List (Rel × Nat)) : Option (List (Rel × List Poly)) :=
  g.mapM (fun e => match (h[e.2]? : Option Cell) with
    | some (.list l) => (absList h l).map (fun ps => (e.1, ps))
    | _ => none)

def absMapping (h : Heap) : Option Nat → Option (List (Nat × Nat))
  | none => some []
  | some mr => (match h[mr]? with | some (.map l) => some l | _ => none)

def absCons (h : Heap) : Option Nat → Option (List (Rel × List Poly))
  | none => some []
  | some cr => (match h[cr]? with | some (.cdict g) => absGroups h g | _ => none)

/-- terms, name, mapping, ancilla count and recorded constraints of the object at `r` -/
def absVal (h : Heap) (r : Nat) : Option MObj :=
  match h[r]? with
  | some (.obj d m _ _ c) =>
    match absMapping h m, absCons h c with
    | some mapping, some cons =>
      some { kind := d.kind, terms := d.terms, name := d.name, mapping, anc := d.anc, cons }
    | _, _ => none
  | some (.plain t) => some { kind := .dict, terms := t }
  | _ => none

/-! ### data-level parameters -/

/-- what a constructor stores for given terms -/
structure Payload where
  terms : Poly := []
  mapping : List (Nat × Nat) := []
  rmapping : List (Nat × Nat) := []
  vars : List Nat := []
  deriving Repr

/-- the data-level behaviour of `cls(terms)` -/
abbrev Ctor := Kind → Poly → Payload

/-- the data an in-place update (`self[k] += v`, `self += penalty`, `self.update(d)`) leaves in the receiver -/
structure Upd where
  terms : Poly := []
  anc : Nat := 0
  mapping : List (Nat × Nat) := []
  rmapping : List (Nat × Nat) := []
  vars : List Nat := []
  deriving Repr

/-! ### construction -/

def allocIf (h : Heap) (b : Bool) (c : Cell) : Heap × Option Nat :=
  if b then (h ++ [c], some h.length) else (h, none)

/-- `BO.__init__` (`_mapping, _reverse_mapping = {}, {}`), `PUBOMatrix.__init__` (`_variables = set()`),
`DictArithmetic.__init__` (fill, `name = None`); `cons` is the already built `_constraints` -/
def mkObj (h : Heap) (κ : Kind) (pl : Payload) (name : Option String) (anc : Nat) (cons : Option Nat) : Heap × Nat :=
  let a1 := allocIf h κ.isLabelled (.map pl.mapping)
  let a2 := allocIf a1.1 κ.isLabelled (.map pl.rmapping)
  let a3 := alloc a2.1 (.set pl.vars)
  alloc a3.1 (.obj { kind := κ, terms := pl.terms, name, anc } a1.2 a2.2 a3.2 cons)

/-- the terms an argument offers to a constructor (`for k, v in arg.items()`): a model object or a plain dict -/
def termsOf (h : Heap) (a : Nat) : Option (Kind × Poly) :=
  match h[a]? with
  | some (.obj d _ _ _ _) => some (d.kind, d.terms)
  | some (.plain t) => some (.dict, t)
  | _ => none

/-- a recorded constraint polynomial: a `PUBO` / `PUSO` object (no `_constraints` of its own) -/
def consPolyOf (h : Heap) (a : Nat) : Option (Kind × Poly) :=
  match h[a]? with
  | some (.obj d _ _ _ none) => some (d.kind, d.terms)
  | _ => none

/-! ### `constraints` : `{k: [x.copy() for x in v] for k, v in self._constraints.items()}` -/

/-- `[x.copy() for x in v]` — one fresh object (with its own `_mapping`, `_reverse_mapping`, `_variables`) per constraint -/
def copyList (F : Ctor) (h : Heap) : List Nat → Option (Heap × List Nat)
  | [] => some (h, [])
  | x :: t =>
    match consPolyOf h x with
    | none => none
    | some (κ, ts) =>
      let a := mkObj h κ (F κ ts) none 0 none
      match copyList F a.1 t with
      | none => none
      | some (h2, rs) => some (h2, a.2 :: rs)

/-- one fresh list cell per relation -/
def copyGroups (F : Ctor) (h : Heap) : List (Rel × Nat) → Option (Heap × List (Rel × Nat))
  | [] => some (h, [])
  | e :: t =>
    match h[e.2]? with
    | some (.list xs) =>
      match copyList F h xs with
      | none => none
      | some (h1, rs) =>
        let a := alloc h1 (.list rs)
        match copyGroups F a.1 t with
        | none => none
        | some (h3, gs) => some (h3, (e.1, a.2) :: gs)
    | _ => none

/-- the `constraints` property (`_pcbo.py:490-509`, `_pcso.py:231-249`): one fresh dict cell for the result -/
def getConstraints (F : Ctor) (h : Heap) (o : Nat) : Option (Heap × Nat) :=
  match h[o]? with
  | some (.obj _ _ _ _ (some c)) =>
    match h[c]? with
    | some (.cdict g) =>
      match copyGroups F h g with
      | none => none
      | some (h1, g') => some (alloc h1 (.cdict g'))
    | _ => none
  | _ => none

/-! ### the other three properties -/

/-- `return self._mapping.copy()` -/
def getMapping (h : Heap) (o : Nat) : Option (Heap × Nat) :=
  match h[o]? with
  | some (.obj _ (some m) _ _ _) =>
    match h[m]? with
    | some (.map l) => some (alloc h (.map l))
    | _ => none
  | _ => none

/-- `return self._reverse_mapping.copy()` -/
def getRMapping (h : Heap) (o : Nat) : Option (Heap × Nat) :=
  match h[o]? with
  | some (.obj _ _ (some m) _ _) =>
    match h[m]? with
    | some (.map l) => some (alloc h (.map l))
    | _ => none
  | _ => none

/-- `return self._variables.copy()` -/
def getVariables (h : Heap) (o : Nat) : Option (Heap × Nat) :=
  match h[o]? with
  | some (.obj _ _ _ v _) =>
    match h[v]? with
    | some (.set s) => some (alloc h (.set s))
    | _ => none
  | _ => none

/-! ### copy constructors and `copy()` -/

def ancOf (h : Heap) (o : Nat) : Nat :=
  match h[o]? with
  | some (.obj d _ _ _ _) => d.anc
  | _ => 0

/-- `κ(a)` for a model object or plain dict `a` (`DictArithmetic.__init__`; `PCBO.__init__`, `_pcbo.py:441-447`:
`if isinstance(args[0], self.__class__): self._constraints = args[0].constraints; self._ancilla = args[0].num_ancillas
else: self._ancilla, self._constraints = 0, {}`) -/
def copyCtor (F : Ctor) (h : Heap) (κ : Kind) (a : Nat) : Option (Heap × Nat) :=
  match termsOf h a with
  | none => none
  | some (κa, ts) =>
    if κ.isConstrained then
      if κa = κ then
        match getConstraints F h a with
        | none => none
        | some (h1, c) => some (mkObj h1 κ (F κ ts) none (ancOf h a) (some c))
      else
        let a1 := alloc h (.cdict [])
        some (mkObj a1.1 κ (F κ ts) none 0 (some a1.2))
    else some (mkObj h κ (F κ ts) none 0 none)

/-- `M.copy()` = `M.__class__(M)` (`_dict_arithmetic.py:273-285`) -/
def copyM (F : Ctor) (h : Heap) (o : Nat) : Option (Heap × Nat) :=
  match h[o]? with
  | some (.obj d _ _ _ _) => copyCtor F h d.kind o
  | _ => none

/-! ### `get_info` / `create_from_info` (`utils/_info.py`) -/

def copyMapIf (h : Heap) : Option Nat → Option (Heap × Option Nat)
  | none => some (h, none)
  | some m =>
    match h[m]? with
    | some (.map l) => some (h ++ [.map l], some h.length)
    | _ => none

def consIf (F : Ctor) (h : Heap) (o : Nat) : Option Nat → Option (Heap × Option Nat)
  | none => some (h, none)
  | some _ =>
    match getConstraints F h o with
    | none => none
    | some (h1, c) => some (h1, some c)

/-- `res = dict(type=…, terms=dict(model), name=model.name)`; `res[attr] = getattr(model, attr)` for
`mapping`, `num_ancillas`, `constraints` -/
def getInfoH (F : Ctor) (h : Heap) (o : Nat) : Option (Heap × Nat) :=
  match h[o]? with
  | some (.obj d m _ _ c) =>
    let a1 := alloc h (.plain d.terms)
    match copyMapIf a1.1 m with
    | none => none
    | some (h2, m') =>
      match consIf F h2 o c with
      | none => none
      | some (h3, c') => some (alloc h3 (.info d.kind d.name d.anc a1.2 m' c'))
  | _ => none

/-- `self._constraints.setdefault(rel, []).append(p)` on the association list under construction -/
def appendRef (acc : List (Rel × List Nat)) (rel : Rel) (p : Nat) : List (Rel × List Nat) :=
  match acc with
  | [] => [(rel, [p])]
  | e :: t => if e.1 = rel then (e.1, e.2 ++ [p]) :: t else e :: appendRef t rel p

/-- `for x in v: method(x, lam=0)` — `P = PUBO(x)` (a fresh object), `_append_constraint(rel, P)` -/
def readdList (F : Ctor) (κp : Kind) (rel : Rel) (h : Heap) (acc : List (Rel × List Nat)) :
    List Nat → Option (Heap × List (Rel × List Nat))
  | [] => some (h, acc)
  | x :: t =>
    match termsOf h x with
    | none => none
    | some (_, ts) =>
      let a := mkObj h κp (F κp ts) none 0 none
      readdList F κp rel a.1 (appendRef acc rel a.2) t

/-- `for k, v in info.get("constraints", {}).items(): …` -/
def readdGroups (F : Ctor) (κp : Kind) (h : Heap) (acc : List (Rel × List Nat)) :
    List (Rel × Nat) → Option (Heap × List (Rel × List Nat))
  | [] => some (h, acc)
  | e :: t =>
    match h[e.2]? with
    | some (.list xs) =>
      match readdList F κp e.1 h acc xs with
      | none => none
      | some (h1, acc1) => readdGroups F κp h1 acc1 t
    | _ => none

/-- the list cells of the new object's `_constraints` -/
def allocLists (h : Heap) : List (Rel × List Nat) → Heap × List (Rel × Nat)
  | [] => (h, [])
  | e :: t =>
    let a := alloc h (.list e.2)
    let b := allocLists a.1 t
    (b.1, (e.1, a.2) :: b.2)

def consKind (κ : Kind) : Kind := if κ.isSpin then .puso else .pubo

/-- `create_from_info(info)`: `model = cls(info["terms"])`, `model.name = …`, `model.set_mapping(info["mapping"])`
(two fresh dicts), `model._ancilla = …`, every recorded constraint re-added with `lam=0` -/
def createFromInfoH (F : Ctor) (h : Heap) (i : Nat) : Option (Heap × Nat) :=
  match h[i]? with
  | some (.info κ name anc t m c) =>
    match termsOf h t with
    | none => none
    | some (_, ts) =>
      let pl := F κ ts
      let plm : Option Payload := match m with
        | none => some pl
        | some mr =>
          if κ.isLabelled then
            (match h[mr]? with
             | some (.map l) => some { pl with mapping := l, rmapping := l.map (fun e => (e.2, e.1)) }
             | _ => none)
          else none                       -- `set_mapping` on a Matrix type: AttributeError
      match plm with
      | none => none
      | some pl' =>
        if κ.isConstrained then
          let g := match c with
            | none => some []
            | some cr => (match h[cr]? with | some (.cdict g) => some g | _ => none)
          match g with
          | none => none
          | some g =>
            match readdGroups F (consKind κ) h [] g with
            | none => none
            | some (h1, acc) =>
              let ls := allocLists h1 acc
              let cd := alloc ls.1 (.cdict ls.2)
              some (mkObj cd.1 κ pl' name anc (some cd.2))
        else
          match c with
          | some _ => none                -- `getattr(model, "add_constraint_…")`: AttributeError
          | none => some (mkObj h κ pl' name 0 none)
  | _ => none

/-- `create_from_info(get_info(M))` -/
def roundTrip (F : Ctor) (h : Heap) (o : Nat) : Option (Heap × Nat) :=
  match getInfoH F h o with
  | none => none
  | some (h1, i) => createFromInfoH F h1 i

/-! ### operations that take a model / dict argument -/

/-- the cells a method call may write in its receiver: the object, `_mapping`, `_reverse_mapping`, `_variables`,
`_constraints` and the per-relation lists — **not** the recorded constraint polynomials -/
def own (h : Heap) (o : Nat) : List Nat :=
  match h[o]? with
  | some (.obj _ m rm v c) =>
    o :: (m.toList ++ rm.toList ++ [v] ++
      (match c with
       | none => []
       | some cr => cr :: (match h[cr]? with | some (.cdict g) => g.map (·.2) | _ => [])))
  | some (.plain _) => [o]
  | _ => []

def writeIf (h : Heap) : Option Nat → Cell → Heap
  | none, _ => h
  | some r, c => write h r c

/-- the writes of `self[k] = v` for all `k, v` (`PUBOMatrix.__setitem__`, `BO.__setitem__`): the object's own dict
and scalars, `_variables`, `_mapping`, `_reverse_mapping` -/
def applyUpd (h : Heap) (o : Nat) (u : Upd) : Option Heap :=
  match h[o]? with
  | some (.obj d m rm v c) =>
    let h1 := write h o (.obj { d with terms := u.terms, anc := u.anc } m rm v c)
    let h2 := write h1 v (.set u.vars)
    let h3 := writeIf h2 m (.map u.mapping)
    some (writeIf h3 rm (.map u.rmapping))
  | some (.plain _) => some (write h o (.plain u.terms))
  | _ => none

def lookupRel (g : List (Rel × Nat)) (rel : Rel) : Option Nat :=
  match g with
  | [] => none
  | e :: t => if e.1 = rel then some e.2 else lookupRel t rel

/-- `self._constraints.setdefault(rel, []).extend(ps)` on the receiver's `_constraints` cell `c` -/
def extendRel (h : Heap) (c : Nat) (rel : Rel) (ps : List Nat) : Option Heap :=
  match h[c]? with
  | some (.cdict g) =>
    match lookupRel g rel with
    | some l =>
      match h[l]? with
      | some (.list xs) => some (write h l (.list (xs ++ ps)))
      | _ => none
    | none =>
      let a := alloc h (.list ps)
      some (write a.1 c (.cdict (g ++ [(rel, a.2)])))
  | _ => none

/-- `add_constraint_<rel>_zero(P, lam=…)` (`_pcbo.py:731…`, `_pcso.py:405…`): `P = PUBO(P)` — a fresh object even
when `P` is the receiver itself —, `self._append_constraint(rel, P)`, and, when `lam` is non-zero,
`self += penalty` (`pen`).  (`add_constraint_ne_zero` additionally appends to and pops from the list of another
relation — also a cell of `own`; the net effect on the graph is this one.) -/
def addConstraint (F : Ctor) (h : Heap) (recv : Nat) (rel : Rel) (arg : Nat) (pen : Option Upd) : Option Heap :=
  match h[recv]? with
  | some (.obj d _ _ _ (some c)) =>
    match termsOf h arg with
    | none => none
    | some (_, ts) =>
      let κp := consKind d.kind
      let a := mkObj h κp (F κp ts) none 0 none
      match extendRel a.1 c rel [a.2] with
      | none => none
      | some h2 =>
        match pen with
        | none => some h2
        | some u => applyUpd h2 recv u
  | _ => none

/-- `for k, v in args[0]._constraints.items(): self._constraints.setdefault(k, []).extend(v)` — the lists are the
receiver's own, their *elements* are the argument's constraint objects (shared afterwards) -/
def extendGroups (h : Heap) (c : Nat) : List (Rel × Nat) → Option Heap
  | [] => some h
  | e :: t =>
    match h[e.2]? with
    | some (.list xs) =>
      match extendRel h c e.1 xs with
      | none => none
      | some h1 => extendGroups h1 c t
    | _ => none

/-- `self._ancilla = max(self._ancilla, args[0]._ancilla)` -/
def maxAnc (h : Heap) (recv arg : Nat) : Heap :=
  match h[recv]? with
  | some (.obj d m rm v c) => write h recv (.obj { d with anc := max d.anc (ancOf h arg) } m rm v c)
  | _ => h

/-- `recv.update(arg)` (`_dict_arithmetic.py:287-300`, `_pcbo.py:449-468`): `self[k] = v` for every item of the
argument; when the argument is a model of the receiver's own constrained class, its recorded constraints are
appended to the receiver's lists and its ancilla counter is taken over -/
def updateH (h : Heap) (recv arg : Nat) (u : Upd) : Option Heap :=
  match termsOf h arg with
  | none => none
  | some (κa, _) =>
    match h[recv]? with
    | some (.obj d _ _ _ c) =>
      match applyUpd h recv u with
      | none => none
      | some h1 =>
        match c, h1[arg]? with
        | some cr, some (.obj _ _ _ _ (some ca)) =>
          if κa = d.kind then
            match h1[ca]? with
            | some (.cdict ga) =>
              match extendGroups h1 cr ga with
              | none => none
              | some h2 => some (maxAnc h2 recv arg)
            | _ => none
          else some h1
        | _, _ => some h1
    | _ => none

/-- `offset = D.pop(()); D[()] = offset` on a plain dict -/
def popReinsert : Poly → Poly
  | [] => []
  | e :: t => if e.1 = [] then t ++ [e] else e :: popReinsert t

/-- the same through a model object's `__setitem__`, which stores nothing for a zero value -/
def popReinsertObj : Poly → Poly
  | [] => []
  | e :: t => if e.1 = [] then (if e.2 = 0 then t else t ++ [e]) else e :: popReinsertObj t

def allocPlains (h : Heap) : Nat → Heap × List Nat
  | 0 => (h, [])
  | n + 1 =>
    let a := alloc h (.plain [])
    let b := allocPlains a.1 n
    (b.1, a.2 :: b.2)

/-- `solve_*_bruteforce(D)` / `D.solve_bruteforce()` (`_solve_bruteforce.py:30-119`): the only write is the
pop / re-insert of the offset key of `D` itself; `D._reverse_mapping` is read, not copied; the `nres` solution
dicts are fresh -/
def solveH (h : Heap) (a : Nat) (nres : Nat) : Option (Heap × List Nat) :=
  match h[a]? with
  | some (.obj d m rm v c) =>
    some (allocPlains (write h a (.obj { d with terms := popReinsertObj d.terms } m rm v c)) nres)
  | some (.plain t) => some (allocPlains (write h a (.plain (popReinsert t))) nres)
  | _ => none

/-- the four free conversions and the `to_*` methods: read the argument / receiver (its terms and `_mapping`),
build the result in a fresh object of kind `κres` -/
def convH (h : Heap) (a : Nat) (κres : Kind) (pl : Payload) : Option (Heap × Nat) :=
  match termsOf h a with
  | none => none
  | some _ => if κres.isConstrained then none else some (mkObj h κres pl none 0 none)

/-- the `initial_state` argument, when given, is a plain dict -/
def initOk (h : Heap) : Option Nat → Bool
  | none => true
  | some i => (match h[i]? with | some (.plain _) => true | _ => false)

/-- the annealers' Python front end (`sim/_anneal.py`): the model is converted (`to_puso()` / `pubo_to_puso`, a
fresh temporary of kind `κtmp`), `reverse_mapping` is a copy, the initial state is read; the result is a fresh
list of `nres` fresh state dicts -/
def annealH (h : Heap) (a : Nat) (init : Option Nat) (κtmp : Kind) (pl : Payload) (nres : Nat) : Option (Heap × Nat) :=
  match termsOf h a with
  | none => none
  | some _ =>
    if initOk h init && !κtmp.isConstrained then
      let a1 := mkObj h κtmp pl none 0 none
      let a2 := allocPlains a1.1 nres
      some (alloc a2.1 (.list a2.2))
    else none

/-! ### what a client can do with a reference -/

inductive Step
  | alloc (c : Cell)
  | write (r : Nat) (c : Cell)

def runStep (h : Heap) : Step → Heap
  | .alloc c => h ++ [c]
  | .write r c => write h r c

def runSteps (h : Heap) (s : List Step) : Heap := s.foldl runStep h

/-- the cells the steps write -/
def Step.target : Step → Option Nat
  | .alloc _ => none
  | .write r _ => some r

end Qv.Hp
