import Qv.Model.PcboLogic
import Qv.Model.Reduce
/-!
# Qv.Model.Symbolic — symbolic weights (`sympy.Symbol`) and `subs`  (DESIGN.md §4/C16)

Mirrors `DictArithmetic.subs` (`qubovert/utils/_dict_arithmetic.py:914-941`), `PCBO.subs`
(`qubovert/_pcbo.py:646-669`), and the way a weight `lam` flows through `add_constraint_*`
(`qubovert/_pcbo.py`), `PCSO.add_constraint_*` (`qubovert/_pcso.py`) and `PUBO._reduce_degree`
(`qubovert/_pubo.py:218-223`).  Core Lean only.

Only the *weight* is ever symbolic.  The code inspects it through `not lam` alone and every builder adds
`lam` times a polynomial that does not depend on `lam`.  So the model has two parts.

(a) **`lam`-free cores in the rational model.**  `penaltyCore rel P lt bounds sup anc` is the rational model
`Qv.addConstraint` run with weight `1` on an empty PCBO whose ancilla counter is `anc`: it returns the `lam`-free
polynomial `G`, the new ancilla counter, the recorded constraint and the warning flags.  `logicCore` is the same
for the sixteen logical methods, `reduceParts` (the `reduceCore` of DESIGN.md) runs the rational reduction model
with the constant penalty `1` and reads off the reduced objective part `D₀` and the list `(v_t, gadget_t)`.
That the rational model at *every* weight `lam ≠ 0` is `st + lam • G` is theorem T16.0 (`Qv/Props/C16.lean`).

(b) **A small coefficient-generic dict layer** — `getR/setR`, `iaddR`, `scaleR`, `subsR` — over a class `Coef R`
with the instances `Rat` and `RatPoly` (univariate polynomials in the one symbol, as normalised coefficient lists,
lowest degree first, with `+`, `*`, evaluation at `c`).  The symbolic state after a constraint with weight `w` is
`st_sym + w • G`; after a reduction `D₀ + Σ_t lamSym(v_t) • gadget_t`.  `subsR φ` rebuilds the dict with
`d[k] = φ v`, dropping zeros, exactly as `DictArithmetic.subs` does.

What ties "Python run on a sympy symbol" to `st_sym + w • G` is the correspondence check `harness/c16.py`
(sympy's normal form of polynomial expressions in one symbol is trusted to be that of ℚ[λ]).
-/
namespace Qv.Sym
open Qv

/-! ## (a) `lam`-free cores -/

/-- what a constraint call contributes apart from the weight -/
structure Core where
  G : Poly                          -- the `lam`-free polynomial: the terms added are `lam • G`
  anc : Nat                         -- ancilla counter after the call
  cons : List (Rel × Poly)          -- constraints recorded by the call
  warns : List String               -- warnings issued by the call
  tags : List String                -- branch tags (instrumentation)
  deriving Repr, Inhabited

def Core.ofSt (s : St) : Core := ⟨s.terms, s.anc, s.cons, s.warns, s.tags⟩

/-- the comparison builders at weight `1` on an empty PCBO with ancilla counter `anc` -/
def penaltyCore (rel : Rel) (P : Poly) (lt : Bool) (b : Option Rat × Option Rat) (sup : Bool) (anc : Nat) : Core :=
  Core.ofSt (addConstraint rel { anc := anc } P 1 lt b sup)

/-- the sixteen logical methods at weight `1` on an empty PCBO with ancilla counter `anc` -/
def logicCore (eq : Bool) (g : Gate) (ops : List SVal) (anc : Nat) : Except Err Core :=
  match consLogic eq g { anc := anc } ops 1 with
  | .ok s => .ok (Core.ofSt s)
  | .error e => .error e

/-- `lam`-free parts of a reduction -/
structure Parts where
  D0 : Poly                         -- `D[final_t] += v_t` over all terms
  gadgets : List (Rat × Poly)       -- `(v_t, 3z + xy - 2xz - 2yz)` for every reduction step, in order
  next : Nat
  deriving Repr, Inhabited

def certD0 (certs : List Reduce.TermCert) : Poly := certs.foldl (fun D c => addTermB D c.final c.v) []

def certGadgets (certs : List Reduce.TermCert) : List (Rat × Poly) :=
  certs.flatMap (fun c => c.steps.map (fun s => (c.v, gadget s.z s.x s.y)))

/-- `reduceCore` of DESIGN.md §4/C16: the rational reduction model with the constant penalty `1` -/
def reduceParts (terms : Poly) (m : Reduce.Mapping) (n d : Nat) (pairs : List Key) : Except Err Parts :=
  match Reduce.reduceCore terms m n d (.const 1) pairs with
  | .error e => .error e
  | .ok o => .ok ⟨certD0 o.certs, certGadgets o.certs, o.next⟩

/-! ## (b) coefficients -/

class Coef (R : Type) where
  zero : R
  add : R → R → R
  mul : R → R → R
  /-- Python truthiness `not v` -/
  isZero : R → Bool
  ofRat : Rat → R

instance : Coef Rat := ⟨0, (· + ·), (· * ·), fun v => decide (v = 0), id⟩

/-- strip trailing zeros -/
def normL : List Rat → List Rat
  | [] => []
  | a :: r => if (normL r).isEmpty && decide (a = 0) then [] else a :: normL r

def addL : List Rat → List Rat → List Rat
  | [], b => b
  | a :: as, [] => a :: as
  | a :: as, b :: bs => (a + b) :: addL as bs

def scaleL (c : Rat) (l : List Rat) : List Rat := l.map (fun a => c * a)

def mulL : List Rat → List Rat → List Rat
  | [], _ => []
  | a :: as, b => addL (scaleL a b) (0 :: mulL as b)

/-- Horner evaluation -/
def evalL (c : Rat) : List Rat → Rat
  | [] => 0
  | a :: r => a + c * evalL c r

/-- a polynomial in the one symbol: coefficient list, lowest degree first, no trailing zero -/
structure RatPoly where
  c : List Rat
  deriving DecidableEq, Repr, Inhabited

namespace RatPoly
def ofList (l : List Rat) : RatPoly := ⟨normL l⟩
def add (p q : RatPoly) : RatPoly := ofList (addL p.c q.c)
def mul (p q : RatPoly) : RatPoly := ofList (mulL p.c q.c)
def isZero (p : RatPoly) : Bool := (normL p.c).isEmpty
def ofRat (r : Rat) : RatPoly := ofList [r]
/-- the symbol -/
def X : RatPoly := ⟨[0, 1]⟩
/-- `expr.subs({lam: c})` -/
def evalAt (c : Rat) (p : RatPoly) : Rat := evalL c p.c
end RatPoly

instance : Coef RatPoly := ⟨⟨[]⟩, RatPoly.add, RatPoly.mul, RatPoly.isZero, RatPoly.ofRat⟩

/-! ## (b) the generic dict layer: `get/set`, `iadd`, `scale`, `subs` -/

abbrev PolyR (R : Type) := List (Key × R)

section generic
variable {R : Type} [Coef R]

/-- `dict.get(key, 0)` -/
def getR (p : PolyR R) (k : Key) : R :=
  match p with
  | [] => Coef.zero
  | (k', v) :: rest => if k' = k then v else getR rest k

def eraseR (p : PolyR R) (k : Key) : PolyR R :=
  match p with
  | [] => []
  | (k', v) :: rest => if k' = k then rest else (k', v) :: eraseR rest k

def putR (p : PolyR R) (k : Key) (v : R) : PolyR R :=
  match p with
  | [] => [(k, v)]
  | (k', v') :: rest => if k' = k then (k, v) :: rest else (k', v') :: putR rest k v

/-- `DictArithmetic.__setitem__` on a squashed key: `if value: store else: pop` -/
def setR (p : PolyR R) (k : Key) (v : R) : PolyR R :=
  if Coef.isZero v then eraseR p k else putR p k v

/-- `self[k] += v` with the receiving type's `squash_key` -/
def addTermR (sq : Key → Key) (p : PolyR R) (k : Key) (v : R) : PolyR R :=
  let k' := sq k
  setR p k' (Coef.add (getR p k') v)

/-- `self += q` -/
def iaddR (sq : Key → Key) (p q : PolyR R) : PolyR R := q.foldl (fun acc kv => addTermR sq acc kv.1 kv.2) p

/-- `c * q` as a new model -/
def scaleR (sq : Key → Key) (c : R) (q : PolyR R) : PolyR R :=
  q.foldl (fun acc kv => addTermR sq acc kv.1 (Coef.mul c kv.2)) []

/-- a numeric model as a model with coefficients in `R` -/
def lift (p : Poly) : PolyR R := p.map (fun kv => (kv.1, Coef.ofRat kv.2))

/-- `DictArithmetic.subs`: `d = cls(); for k, v in self.items(): d[k] = val` (keys of a model are already
squashed); `φ` is the substitution on coefficients -/
def subsR (φ : R → Rat) (p : PolyR R) : Poly := p.foldl (fun d kv => set d kv.1 (φ kv.2)) []

/-- `st_sym + w • G` -/
def symAdd (sq : Key → Key) (S : PolyR R) (w : R) (G : Poly) : PolyR R := iaddR sq S (scaleR sq w (lift G))

/-! ### symbolic PCBO state -/

structure SymSt (R : Type) where
  terms : PolyR R := []
  anc : Nat := 0
  cons : List (Rel × Poly) := []
  warns : List String := []
  tags : List String := []

/-- one comparison constraint with weight `w` on a symbolic PCBO (`not lam` returns right after recording) -/
def symConstraint (S : SymSt R) (w : R) (rel : Rel) (P : Poly) (lt : Bool) (b : Option Rat × Option Rat)
    (sup : Bool) : SymSt R :=
  if Coef.isZero w then { S with cons := S.cons ++ [(rel, P)] }
  else
    let core := penaltyCore rel P lt b sup S.anc
    { terms := symAdd squashB S.terms w core.G, anc := core.anc, cons := S.cons ++ core.cons,
      warns := S.warns ++ core.warns, tags := S.tags ++ core.tags }

/-- one logical constraint with weight `w` on a symbolic PCBO -/
def symLogic (S : SymSt R) (w : R) (eq : Bool) (g : Gate) (ops : List SVal) : Except Err (SymSt R) :=
  if Coef.isZero w then
    -- the model at weight 0 records the constraint and returns (errors of the operand arithmetic come first)
    match consLogic eq g { anc := S.anc } ops 0 with
    | .error e => .error e
    | .ok s => .ok { S with cons := S.cons ++ s.cons }
  else
    match logicCore eq g ops S.anc with
    | .error e => .error e
    | .ok core =>
      .ok { terms := symAdd squashB S.terms w core.G, anc := core.anc, cons := S.cons ++ core.cons,
            warns := S.warns ++ core.warns, tags := S.tags ++ core.tags }

/-- `PCBO.subs` on the state: terms through `DictArithmetic.subs`; the recorded constraints are numeric and
unchanged by `P.subs`; the ancilla counter is kept (`d._ancilla = self._ancilla`; its omission was a defect
found by this check, signature `C16:subs-drops-num-ancillas`, regression input in `corpus/C16/`) -/
def SymSt.subs (φ : R → Rat) (S : SymSt R) : St :=
  { terms := subsR φ S.terms, anc := S.anc, cons := S.cons, warns := S.warns, tags := S.tags }

/-! ### boolean → spin maps on symbolic coefficients (linear in the coefficients) -/

/-- `pubo_to_puso` -/
def puboToPusoR (P : PolyR R) : PolyR R :=
  P.foldl (fun H kv => (Reduce.genB2S kv.1).foldl
    (fun H kv2 => addTermR squashS H kv2.1 (Coef.mul (Coef.ofRat kv2.2) kv.2)) H) []

def smulR (r : Rat) (v : R) : R := Coef.mul (Coef.ofRat r) v

/-- one term of `qubo_to_quso` -/
def q2sTermR (L : PolyR R) (k : Key) (v : R) : Except Err (PolyR R) :=
  match k with
  | [] => .ok (addTermR squashS L [] v)
  | [i] => .ok (addTermR squashS (addTermR squashS L [i] (smulR (-(1 / 2)) v)) [] (smulR (1 / 2) v))
  | [i, j] =>
    .ok (addTermR squashS (addTermR squashS (addTermR squashS (addTermR squashS L [i, j] (smulR (1 / 4) v))
      [i] (smulR (-(1 / 4)) v)) [j] (smulR (-(1 / 4)) v)) [] (smulR (1 / 4) v))
  | _ => .error .value

/-- `qubo_to_quso` -/
def quboToQusoR : PolyR R → PolyR R → Except Err (PolyR R)
  | [], L => .ok L
  | (k, v) :: r, L =>
    match q2sTermR L k v with
    | .error e => .error e
    | .ok L' => quboToQusoR r L'

/-! ### symbolic PCSO constraint (minimal local model of `PCSO.add_constraint_R_zero`; the numeric side is
`Qv.Pcso.addConstraint` of `Qv/Model/Pcso.lean`, against which the driver compares it after substitution) -/

/-- `PUSO(H)` -/
def constructS (d : Poly) : Poly := d.foldl (fun acc kv => Reduce.addTermS acc kv.1 kv.2) []

/-- `H = PUSO(H)`; record; `h = _empty_pcbo(self).add_constraint_R_zero(puso_to_pubo(H), lam, …)`;
`self._ancilla = h._ancilla`; `self += pubo_to_puso(h)` -/
def symConstraintSpin (S : SymSt R) (w : R) (rel : Rel) (H : Poly) (lt : Bool) (b : Option Rat × Option Rat)
    (sup : Bool) : SymSt R :=
  if Coef.isZero w then { S with cons := S.cons ++ [(rel, H)] }
  else
    let core := penaltyCore rel (Reduce.pusoToPubo H) lt b sup S.anc
    let h : PolyR R := symAdd squashB [] w core.G
    { terms := iaddR squashS S.terms (puboToPusoR h), anc := core.anc, cons := S.cons ++ [(rel, H)],
      warns := S.warns ++ core.warns, tags := S.tags ++ core.tags }

/-! ### symbolic reduction -/

/-- the fixed menu of penalty arguments: the symbol itself (a constant penalty), `v ↦ |v|·X`, `v ↦ v·X` -/
inductive LamMenu | const | absv | linv
  deriving Repr, DecidableEq, Inhabited

/-- the symbolic penalty of a term with coefficient `v`, for the weight `w` (usually the symbol) -/
def LamMenu.sym (m : LamMenu) (w : R) (v : Rat) : R :=
  match m with
  | .const => w
  | .absv => Coef.mul (Coef.ofRat (Reduce.absR v)) w
  | .linv => Coef.mul (Coef.ofRat v) w

/-- the same menu entry with the number `c` in place of the symbol -/
def LamMenu.num (m : LamMenu) (c : Rat) : Reduce.Lam :=
  match m with
  | .const => .const c
  | .absv => .absTimes c
  | .linv => .affine c 0

/-- `D₀ + Σ_t lamSym(v_t) • gadget_t`; a step whose penalty is (identically) zero adds nothing (`not lam`) -/
def symD (p : Parts) (m : LamMenu) (w : R) : PolyR R :=
  p.gadgets.foldl (fun D vg =>
    let l := m.sym w vg.1
    if Coef.isZero l then D else iaddR squashB D (iaddR squashB [] (scaleR squashB l (lift vg.2)))) (lift p.D0)

/-- `_reduce_degree` with a symbolic penalty: `ValueError` for `deg < 2`, `deg = None` is the model's degree -/
def symReduceDegree (terms : Poly) (mp : Reduce.Mapping) (n : Nat) (deg : Option Nat) (m : LamMenu) (w : R)
    (pairs : List Key) : Except Err (PolyR R) :=
  let go (d : Nat) : Except Err (PolyR R) :=
    match reduceParts terms mp n d pairs with
    | .error e => .error e
    | .ok p => .ok (symD p m w)
  match deg with
  | some d => if d < 2 then .error .value else go d
  | none => go (degree terms)

open Reduce in
/-- `PUBO.to_pubo / to_qubo / to_puso / to_quso` with a symbolic penalty (mirrors `Reduce.routeBool`) -/
def symRouteBool (t : Target) (terms : Poly) (mp : Mapping) (n : Nat) (deg : Option Nat) (m : LamMenu) (w : R)
    (pairs : List Key) : Except Err (PolyR R) :=
  match t with
  | .pubo => symReduceDegree terms mp n deg m w pairs
  | .qubo => symReduceDegree terms mp n (some 2) m w pairs
  | .puso =>
    match symReduceDegree terms mp n deg m w pairs with
    | .error e => .error e
    | .ok D => .ok (puboToPusoR D)
  | .quso =>
    match symReduceDegree terms mp n (some 2) m w pairs with
    | .error e => .error e
    | .ok D => quboToQusoR D []

open Reduce in
/-- `PUSO.to_*` with a symbolic penalty (mirrors `Reduce.routeSpin`; the shortcuts involve no penalty) -/
def symRouteSpin (t : Target) (terms : Poly) (mp : Mapping) (n : Nat) (deg : Option Nat) (m : LamMenu) (w : R)
    (pairs : List Key) : Except Err (PolyR R) :=
  let P := pusoToPubo terms
  match t with
  | .pubo => symRouteBool .pubo P mp n deg m w pairs
  | .qubo => symRouteBool .qubo P mp n deg m w pairs
  | .puso =>
    if (match deg with | none => true | some d => decide (degree terms ≤ d)) then
      match toPusoPlain mp terms [] with
      | .error e => .error e
      | .ok H => .ok (lift H)
    else symRouteBool .puso P mp n deg m w pairs
  | .quso =>
    if degree terms ≤ 2 then
      match toPusoPlain mp terms [] with
      | .error e => .error e
      | .ok H => .ok (lift H)
    else symRouteBool .quso P mp n deg m w pairs

def symRoute (spin : Bool) := if spin then symRouteSpin (R := R) else symRouteBool (R := R)

end generic

end Qv.Sym
