import Qv.Model.Kernel
/-!
# Qv.Model.KernelMem — checked-memory rendering of the C annealing kernels and of their wrapper (C17)

Mirrors, statement by statement, `qubovert/sim/_canneal.c` (`c_anneal_quso`, `c_anneal_puso`,
`build_py_states_values`), `qubovert/sim/src/anneal_quso.c` and `anneal_puso.c`, with the same control flow
as the unchecked `Qv.Model.Kernel` (C11/C12) but with *every* memory access and every integer operation
the C code performs made explicit and checked:

* a C array is a `Buf α` : `Array (Option α)` (`none` = uninitialised cell) plus a `live` flag.
  `malloc count elemSize` (the C expression `malloc(count * sizeof(T))`) yields `count` cells, all `none`
  (`malloc 0` yields the zero-length buffer); a negative `count` — which C converts to a gigantic `size_t` —
  is `MemErr.badSize`, a product beyond `SIZE_MAX` is `MemErr.overflow`;
* `Buf.rd` fails with `useAfterFree` / `oob` / `uninit`; `Buf.wr` with `useAfterFree` / `oob`;
  `Buf.free` fails with `doubleFree`; `Buf.realloc` copies the common prefix into a fresh buffer (the rest
  uninitialised) and consumes the old one; every function checks at its return that the buffers it allocated
  are dead (`noLeak`, `MemErr.leak`);
* C `int` / `long` values are `Int`; every `int`/`long` sum or product the C code forms goes through
  `iadd`/`imul` (range of `int`) or `ladd`/`lmul` (range of `long`) and fails with `MemErr.overflow` outside
  the type's range.  The narrowing conversions `(int)PyList_Size(..)`, `(int)PyLong_AsLong(..)` and
  `k = subgraphs[j][0]` (`long` to `int`) are implementation-defined rather than undefined in C; the model is
  conservative and flags a value that does not fit (`toInt`, `MemErr.overflow`);
* `PyList_GetItem(list, i)` beyond the list is `MemErr.pyIndex` (C gets `NULL` and passes it on).

Simplifications (none affects whether an access happens): a loop bound that C re-reads from an unchanged
memory cell at every test (`j < num_neighbors[i]`, `i <= subgraphs[spin][0]`, `index[i] + j` computed
twice) is read once; loop counters are naturals (`i < n <= INT_MAX`, so `i++` cannot overflow); a wrapper loop
that fills two buffers per iteration (`h[i]`/`num_neighbors[i]`, `neighbors[i]`/`J[i]`,
`num_couplings[i]`/`couplings[i]`) is two `marshal` loops; `rand_init(seed)` enters as the generator state.
`double` values are the abstract number type `α`; the functions are generic in the random source `Src ρ α`
exactly like `Qv.Model.Kernel`, whose control flow they repeat function by function (the driver reports, for
every call, whether the checked result equals the unchecked one).

`cAnnealPuso`/`annealPuso`/`mkIndexSubgraphs` take a flag `guard`: `true` is `anneal_puso.c` as it is now
(`if(num_terms) index[0] = 0;`, /repo 958732b); `false` is the code before that repair (`index[0] = 0;`
unconditionally — defect D5 when `num_terms == 0`), kept as documentation of the defect.  Core Lean only.
-/
namespace Qv.KMem
open Qv.Kernel (Src OfInt ofInt)

inductive MemErr
  | oob | uninit | useAfterFree | doubleFree | leak | overflow | badSize | pyIndex
  deriving Repr, DecidableEq, Inhabited

def MemErr.name : MemErr → String
  | .oob => "oob" | .uninit => "uninit" | .useAfterFree => "useAfterFree" | .doubleFree => "doubleFree"
  | .leak => "leak" | .overflow => "overflow" | .badSize => "badSize" | .pyIndex => "pyIndex"

abbrev M := Except MemErr

/-! ## C integer arithmetic (LP64: `int` 32 bit, `long` 64 bit, `size_t` 64 bit) -/

def INT_MAX : Int := 2147483647
def INT_MIN : Int := -2147483648
def LONG_MAX : Int := 9223372036854775807
def LONG_MIN : Int := -9223372036854775808
def SIZE_MAX : Nat := 18446744073709551615

def chkInt (x : Int) : M Int := if INT_MIN ≤ x ∧ x ≤ INT_MAX then .ok x else .error .overflow
def chkLong (x : Int) : M Int := if LONG_MIN ≤ x ∧ x ≤ LONG_MAX then .ok x else .error .overflow
/-- `a + b` in `int` -/
def iadd (a b : Int) : M Int := chkInt (a + b)
/-- `a * b` in `int` -/
def imul (a b : Int) : M Int := chkInt (a * b)
/-- `a + b` in `long` -/
def ladd (a b : Int) : M Int := chkLong (a + b)
/-- `a * b` in `long` -/
def lmul (a b : Int) : M Int := chkLong (a * b)
/-- `(int)x` for a `long`/`Py_ssize_t` `x`, and `(int)PyLong_AsLong(o)` for a Python int `o` -/
def toInt (x : Int) : M Int := chkInt x

/-! ## buffers -/

structure Buf (α : Type) where
  cells : Array (Option α)
  live : Bool
  deriving Inhabited

/-- `(T*)malloc(count * sizeof(T))` with `sizeof(T) = elemSize` -/
def malloc {α : Type} (count : Int) (elemSize : Nat) : M (Buf α) :=
  if count < 0 then .error .badSize
  else if count.toNat * elemSize > SIZE_MAX then .error .overflow
  else .ok { cells := Array.replicate count.toNat none, live := true }

/-- `b[i]` as an rvalue -/
def Buf.rd {α : Type} (b : Buf α) (i : Int) : M α :=
  if b.live = false then .error .useAfterFree
  else if i < 0 then .error .oob
  else match b.cells[i.toNat]? with
    | none => .error .oob
    | some none => .error .uninit
    | some (some v) => .ok v

/-- `b[i] = v` -/
def Buf.wr {α : Type} (b : Buf α) (i : Int) (v : α) : M (Buf α) :=
  if b.live = false then .error .useAfterFree
  else if i < 0 then .error .oob
  else if h : i.toNat < b.cells.size then .ok { b with cells := b.cells.set i.toNat (some v) h }
  else .error .oob

/-- `free(b)` -/
def Buf.free {α : Type} (b : Buf α) : M (Buf α) :=
  if b.live = false then .error .doubleFree else .ok { b with live := false }

/-- `(T*)realloc(b, count * sizeof(T))`: a fresh live buffer of `count` cells whose common prefix with `b` is
copied; `b` itself is consumed (the model stores the result over the only pointer to it, as the C code does) -/
def Buf.realloc {α : Type} (b : Buf α) (count : Int) (elemSize : Nat) : M (Buf α) :=
  if b.live = false then .error .useAfterFree
  else if count < 0 then .error .badSize
  else if count.toNat * elemSize > SIZE_MAX then .error .overflow
  else .ok { cells := Array.ofFn (n := count.toNat) (fun i => (b.cells[i.val]?).getD none), live := true }

/-- at a function's return: every buffer the function allocated has been freed -/
def noLeak (flags : List Bool) : M Unit :=
  if flags.any (fun b => b) then .error .leak else .ok ()

/-- `PyList_GetItem(l, i)` -/
def pyGet {β : Type} (l : List β) (i : Nat) : M β :=
  match l[i]? with
  | some v => .ok v
  | none => .error .pyIndex

/-! ## loops -/

/-- `for(i = a; i < a + k; i++) s = body i s` -/
def forFromM {σ : Type} (body : Nat → σ → M σ) : Nat → Nat → σ → M σ
  | _, 0, s => .ok s
  | i, k + 1, s => body i s >>= forFromM body (i + 1) k

/-- `for(i = 0; i < n; i++) s = body i s` -/
def forNM {σ : Type} (n : Nat) (s : σ) (body : Nat → σ → M σ) : M σ := forFromM body 0 n s

section
variable {α ρ : Type} [Add α] [Mul α] [OfInt α]

/-- `in_order ? j : rand_int(rng, len_state)` -/
def visit (src : Src ρ α) (inOrder : Bool) (r : ρ) (j N : Nat) : ρ × Nat :=
  if inOrder then (r, j) else src.index r N

/-! ## anneal_quso.c -/

/-- the problem arrays of `anneal_quso` as C buffers -/
structure QusoB (α : Type) where
  h : Buf α
  nn : Buf Int
  nb : Buf Int
  J : Buf α

/-- `subgraph_energy = h[i]; for(j..) { neighbor = neighbors[index[i]+j]; subgraph_energy += J[index[i]+j] *
state[neighbor]; }` — shared by `compute_flip_dE` (`upper = false`) and `quso_value`
(`upper = true`: only `if(neighbor >= i)`) -/
def subgraphEnergy (q : QusoB α) (index state : Buf Int) (i : Nat) (upper : Bool) : M α := do
  let e0 ← q.h.rd i
  let cnt ← q.nn.rd i
  let base ← index.rd i
  forNM cnt.toNat e0 fun j e => do
    let ix ← ladd base j
    let n ← q.nb.rd ix
    if upper && decide (n < (i : Int)) then pure e
    else do
      let Jv ← q.J.rd ix
      let sn ← state.rd n
      pure (e + Jv * ofInt sn)

/-- `compute_flip_dE` -/
def computeFlipDE (q : QusoB α) (index : Buf Int) (N : Nat) (state : Buf Int) (flip : Buf α) : M (Buf α) :=
  forNM N flip fun i flip => do
    let e ← subgraphEnergy q index state i false
    let si ← state.rd i
    flip.wr i (ofInt (-2) * ofInt si * e)

/-- `recompute_flip_dE` (called with the state *before* the flip) -/
def recomputeFlipDE (q : QusoB α) (index : Buf Int) (spin : Nat) (flip : Buf α) (state : Buf Int) :
    M (Buf α) := do
  let f ← flip.rd spin
  let flip ← flip.wr spin (f * ofInt (-1))
  let cnt ← q.nn.rd spin
  let base ← index.rd spin
  forNM cnt.toNat flip fun j flip => do
    let ix ← ladd base j
    let n ← q.nb.rd ix
    let fn ← flip.rd n
    let ss ← state.rd spin
    let sn ← state.rd n
    let Jv ← q.J.rd ix
    flip.wr n (fn + ofInt 4 * ofInt ss * ofInt sn * Jv)

/-- `state[i] *= -1` -/
def flipAt (state : Buf Int) (i : Nat) : M (Buf Int) := do
  let v ← state.rd i
  let v' ← imul v (-1)
  state.wr i v'

/-- one visit of the sweep in `single_anneal_quso` -/
def qusoStep (src : Src ρ α) (q : QusoB α) (index : Buf Int) (N : Nat) (inOrder : Bool) (T : α) (j : Nat)
    (s : Buf Int × Buf α × ρ) : M (Buf Int × Buf α × ρ) := do
  let v := visit src inOrder s.2.2 j N
  let dE ← s.2.1.rd v.2
  let a := src.accept dE T v.1
  if a.2 then do
    let flip ← recomputeFlipDE q index v.2 s.2.1 s.1
    let st ← flipAt s.1 v.2
    pure (st, flip, a.1)
  else pure (s.1, s.2.1, a.1)

/-- `single_anneal_quso` -/
def singleAnnealQuso (src : Src ρ α) (q : QusoB α) (index : Buf Int) (N : Nat) (lenTs : Nat) (Ts : Buf α)
    (inOrder : Bool) (state : Buf Int) (rng : ρ) : M (Buf Int × ρ) := do
  let flip ← malloc (N : Int) 8
  let flip ← computeFlipDE q index N state flip
  let s ← forNM lenTs (state, flip, rng) fun t s => do
    let T ← Ts.rd t
    forNM N s (qusoStep src q index N inOrder T)
  let flip ← s.2.1.free
  noLeak [flip.live]
  pure (s.1, s.2.2)

/-- `quso_value` -/
def qusoValue (q : QusoB α) (index : Buf Int) (N : Nat) (state : Buf Int) : M α :=
  forNM N (ofInt 0) fun i value => do
    let e ← subgraphEnergy q index state i true
    let si ← state.rd i
    pure (value + ofInt si * e)

/-- the `for(j..)` loop drawing or copying the initial state of anneal `i` (both kernels) -/
def initState (src : Src ρ α) (N : Nat) (provided : Bool) (states : Buf Int) (i : Nat) (state : Buf Int)
    (rng : ρ) : M (Buf Int × ρ) :=
  forNM N (state, rng) fun j s => do
    if provided then do
      let p ← imul i N
      let ix ← iadd p j
      let v ← states.rd ix
      let st ← s.1.wr j v
      pure (st, s.2)
    else do
      let c := src.coin s.2
      let st ← s.1.wr j (if c.2 then 1 else -1)
      pure (st, c.1)

/-- `for(j..) states[i * len_state + j] = state[j];` (both kernels) -/
def storeState (N : Nat) (states : Buf Int) (i : Nat) (state : Buf Int) : M (Buf Int) :=
  forNM N states fun j states => do
    let p ← imul i N
    let ix ← iadd p j
    let v ← state.rd j
    states.wr ix v

/-- `index[0] = 0; for(i=1; i<n; i++) index[i] = index[i-1] + num[i-1];` of `anneal_quso` -/
def mkIndexQuso (N : Nat) (nn : Buf Int) : M (Buf Int) := do
  let index ← malloc (N : Int) 8
  let index ← index.wr 0 0
  forFromM (fun i index => do
    let a ← index.rd ((i : Int) - 1)
    let b ← nn.rd ((i : Int) - 1)
    let c ← ladd a b
    index.wr i c) 1 (N - 1) index

/-- `anneal_quso` : updates `states` and `values` in place -/
def annealQuso (src : Src ρ α) (numAnneals : Int) (states : Buf Int) (values : Buf α) (N : Nat) (q : QusoB α)
    (lenTs : Nat) (Ts : Buf α) (inOrder : Bool) (provided : Bool) (rng : ρ) : M (Buf Int × Buf α) := do
  let index ← mkIndexQuso N q.nn
  let state ← malloc (N : Int) 4
  let s ← forNM numAnneals.toNat (states, values, state, rng) fun i s => do
    let sr ← initState src N provided s.1 i s.2.2.1 s.2.2.2
    let sr ← singleAnnealQuso src q index N lenTs Ts inOrder sr.1 sr.2
    let v ← qusoValue q index N sr.1
    let values ← s.2.1.wr i v
    let states ← storeState N s.1 i sr.1
    pure (states, values, sr.1, sr.2)
  let index ← index.free
  let state ← s.2.2.1.free
  noLeak [index.live, state.live]
  pure (s.1, s.2.1)

/-! ## anneal_puso.c -/

/-- the problem arrays of `anneal_puso` as C buffers -/
structure PusoB (α : Type) where
  nc : Buf Int
  terms : Buf Int
  cs : Buf α

/-- `product = 1; for(j=0; j<num_couplings[term]; j++) product *= state[terms[start + j]];` -/
def termProduct (p : PusoB α) (state : Buf Int) (term : Int) (start : Int) : M Int := do
  let cnt ← p.nc.rd term
  forNM cnt.toNat (1 : Int) fun j pr => do
    let ix ← ladd start j
    let sp ← p.terms.rd ix
    let sv ← state.rd sp
    imul pr sv

/-- `puso_subgraph_value` -/
def pusoSubgraphValue (p : PusoB α) (index : Buf Int) (subgraphs : Buf (Buf Int)) (state : Buf Int)
    (spin : Nat) : M α := do
  let row ← subgraphs.rd spin
  let cnt ← row.rd 0
  forFromM (fun i value => do
    let term ← row.rd i
    let start ← index.rd term
    let pr ← termProduct p state term start
    let c ← p.cs.rd term
    pure (value + c * ofInt pr)) 1 cnt.toNat (ofInt 0)

/-- one visit of the sweep in `single_anneal_puso` -/
def pusoStep (src : Src ρ α) (p : PusoB α) (index : Buf Int) (subgraphs : Buf (Buf Int)) (N : Nat)
    (inOrder : Bool) (T : α) (j : Nat) (s : Buf Int × ρ) : M (Buf Int × ρ) := do
  let v := visit src inOrder s.2 j N
  let e ← pusoSubgraphValue p index subgraphs s.1 v.2
  let a := src.accept (ofInt (-2) * e) T v.1
  if a.2 then do
    let st ← flipAt s.1 v.2
    pure (st, a.1)
  else pure (s.1, a.1)

/-- `single_anneal_puso` -/
def singleAnnealPuso (src : Src ρ α) (p : PusoB α) (index : Buf Int) (subgraphs : Buf (Buf Int)) (N : Nat)
    (lenTs : Nat) (Ts : Buf α) (inOrder : Bool) (state : Buf Int) (rng : ρ) : M (Buf Int × ρ) :=
  forNM lenTs (state, rng) fun t s => do
    let T ← Ts.rd t
    forNM N s (pusoStep src p index subgraphs N inOrder T)

/-- `puso_value` : a running `long index` through the flat `terms` array -/
def pusoValue (p : PusoB α) (numTerms : Nat) (state : Buf Int) : M α := do
  let s ← forNM numTerms ((0 : Int), (ofInt 0 : α)) fun term s => do
    let cnt ← p.nc.rd term
    let t ← forNM cnt.toNat (s.1, (1 : Int)) fun _ t => do
      let sp ← p.terms.rd t.1
      let sv ← state.rd sp
      let pr ← imul t.2 sv
      let ix ← ladd t.1 1
      pure (ix, pr)
    let c ← p.cs.rd term
    pure (t.1, s.2 + c * ofInt t.2)
  pure s.2

/-- `subgraphs = malloc(len_state * sizeof(long*)); for(i..) { subgraphs[i] = malloc(sizeof(long));
subgraphs[i][0] = 0; }` -/
def initSubgraphs (N : Nat) : M (Buf (Buf Int)) := do
  let sg ← malloc (N : Int) 8
  forNM N sg fun i sg => do
    let row ← malloc 1 8
    let row ← row.wr 0 0
    sg.wr i row

/-- `j = terms[index[term] + i]; subgraphs[j][0]++; k = subgraphs[j][0];
subgraphs[j] = realloc(subgraphs[j], (k+1) * sizeof(long)); subgraphs[j][k] = term;` -/
def addToSubgraph (p : PusoB α) (sg : Buf (Buf Int)) (term : Nat) (start : Int) (i : Nat) :
    M (Buf (Buf Int)) := do
  let ix ← ladd start i
  let j ← p.terms.rd ix
  let row ← sg.rd j
  let c ← row.rd 0
  let c' ← ladd c 1
  let row ← row.wr 0 c'
  let k ← toInt c'
  let k1 ← iadd k 1
  let row ← row.realloc k1 8
  let row ← row.wr k term
  sg.wr j row

/-- `if(term) index[term] = index[term-1] + num_couplings[term-1];` -/
def nextIndex (p : PusoB α) (index : Buf Int) (term : Nat) : M (Buf Int) :=
  if term ≠ 0 then do
    let a ← index.rd ((term : Int) - 1)
    let b ← p.nc.rd ((term : Int) - 1)
    let c ← ladd a b
    index.wr term c
  else pure index

/-- `index = malloc(num_terms * sizeof(long)); index[0] = 0; for(term..) { if(term) index[term] =
index[term-1] + num_couplings[term-1]; for(i..) addToSubgraph }`.
`guard = true` is the code as it is now (`if(num_terms) index[0] = 0;`, /repo 958732b);
`guard = false` is the code before the repair (`index[0] = 0;` unconditionally: defect D5 when `num_terms == 0`). -/
def mkIndexSubgraphs (guard : Bool) (p : PusoB α) (numTerms : Nat) (sg : Buf (Buf Int)) :
    M (Buf Int × Buf (Buf Int)) := do
  let index ← malloc (numTerms : Int) 8
  let index ← if guard && numTerms == 0 then pure index else index.wr 0 0
  forNM numTerms (index, sg) fun term s => do
    let index ← nextIndex p s.1 term
    let cnt ← p.nc.rd term
    let start ← index.rd term
    let sg ← forNM cnt.toNat s.2 fun i sg => addToSubgraph p sg term start i
    pure (index, sg)

/-- `for(i..) free(subgraphs[i]);` (the freed row is written back: pointer and pointee are one object here) -/
def freeRows (N : Nat) (sg : Buf (Buf Int)) : M (Buf (Buf Int)) :=
  forNM N sg fun i sg => do
    let row ← sg.rd i
    let row ← row.free
    sg.wr i row

/-- some row of `subgraphs` is still allocated -/
def rowsLive (sg : Buf (Buf Int)) : Bool :=
  sg.cells.any fun c => match c with
    | some row => row.live
    | none => false

/-- `anneal_puso` : updates `states` and `values` in place -/
def annealPuso (guard : Bool) (src : Src ρ α) (numAnneals : Int) (states : Buf Int) (values : Buf α) (lenState : Int)
    (numTerms : Nat) (p : PusoB α) (lenTs : Nat) (Ts : Buf α) (inOrder : Bool) (provided : Bool) (rng : ρ) :
    M (Buf Int × Buf α) := do
  let state ← malloc lenState 4
  let N := lenState.toNat
  let sg ← initSubgraphs N
  let is ← mkIndexSubgraphs guard p numTerms sg
  let s ← forNM numAnneals.toNat (states, values, state, rng) fun i s => do
    let sr ← initState src N provided s.1 i s.2.2.1 s.2.2.2
    let sr ← singleAnnealPuso src p is.1 is.2 N lenTs Ts inOrder sr.1 sr.2
    let v ← pusoValue p numTerms sr.1
    let values ← s.2.1.wr i v
    let states ← storeState N s.1 i sr.1
    pure (states, values, sr.1, sr.2)
  let state ← s.2.2.1.free
  let index ← is.1.free
  let sg ← freeRows N is.2
  let sg ← sg.free
  noLeak [state.live, index.live, sg.live, rowsLive sg]
  pure (s.1, s.2.1)

/-! ## _canneal.c -/

/-- `for(i=0; i<n; i++) buf[i] = conv(PyList_GetItem(list, i));` -/
def marshal {β : Type} (conv : β → M β) (l : List β) (n : Nat) (buf : Buf β) : M (Buf β) :=
  forNM n buf fun i buf => do
    let o ← pyGet l i
    let v ← conv o
    buf.wr i v

/-- `i * len_state + j` with `int i, j` (`c_anneal_quso`) or `long i; int j` (`c_anneal_puso`) -/
def flatIndex (long : Bool) (i N j : Nat) : M Int :=
  if long then do
    let p ← lmul i N
    ladd p j
  else do
    let p ← imul i N
    iadd p j

/-- the `if(initial_state_provided)` block of `c_anneal_quso` (`int i, j`: the index is formed in `int`)
and of `c_anneal_puso` (`long i; int j`: formed in `long`) -/
def encodeInit (long : Bool) (numAnneals : Int) (N : Nat) (init : List Int) (states : Buf Int) : M (Buf Int) :=
  forNM numAnneals.toNat states fun i states =>
    forNM N states fun j states => do
      let ix ← flatIndex long i N j
      let o ← pyGet init j
      let v ← toInt o
      states.wr ix v

/-- `build_py_states_values` -/
def buildPy (numAnneals : Int) (N : Nat) (states : Buf Int) (values : Buf α) : M (List (List Int × α)) :=
  forNM numAnneals.toNat ([] : List (List Int × α)) fun i out => do
    let st ← forNM N ([] : List Int) fun j st => do
      let p ← imul i N
      let ix ← iadd p j
      let v ← states.rd ix
      pure (st ++ [v])
    let v ← values.rd i
    pure (out ++ [(st, v)])

/-- `c_anneal_quso(h, num_neighbors, neighbors, J, Ts, num_anneals, in_order, initial_state, seed)` :
the Python lists are `List`s, Python ints are `Int`s; returns `(states[i], values[i])` for `i < num_anneals` -/
def cAnnealQuso (src : Src ρ α) (h : List α) (nn nb : List Int) (J Ts : List α) (numAnneals : Int)
    (inOrder : Bool) (init : List Int) (rng : ρ) : M (List (List Int × α)) := do
  let lenState ← toInt h.length
  let lenJ ← toInt J.length
  let lenTs ← toInt Ts.length
  let hB ← malloc lenState 8
  let nnB ← malloc lenState 4
  let nbB ← malloc lenJ 4
  let JB ← malloc lenJ 8
  let TsB ← malloc lenTs 8
  let N := lenState.toNat
  let hB ← marshal pure h N hB
  let nnB ← marshal toInt nn N nnB
  let nbB ← marshal toInt nb lenJ.toNat nbB
  let JB ← marshal pure J lenJ.toNat JB
  let TsB ← marshal pure Ts lenTs.toNat TsB
  let values ← malloc numAnneals 8
  let total ← imul numAnneals lenState
  let states ← malloc total 4
  let provided ← toInt init.length
  let states ← if provided ≠ 0 then encodeInit false numAnneals N init states else pure states
  let sv ← annealQuso src numAnneals states values N { h := hB, nn := nnB, nb := nbB, J := JB } lenTs.toNat TsB
    inOrder (provided ≠ 0) rng
  let out ← buildPy numAnneals N sv.1 sv.2
  let hB ← hB.free
  let nnB ← nnB.free
  let nbB ← nbB.free
  let JB ← JB.free
  let TsB ← TsB.free
  let states ← sv.1.free
  let values ← sv.2.free
  noLeak [hB.live, nnB.live, nbB.live, JB.live, TsB.live, states.live, values.live]
  pure out

/-- `c_anneal_puso(len_state, num_couplings, terms, couplings, Ts, num_anneals, in_order, initial_state, seed)`
(`guard`: see `mkIndexSubgraphs`; `true` = the code as it is now) -/
def cAnnealPuso (guard : Bool) (src : Src ρ α) (lenState : Int) (nc terms : List Int) (cs Ts : List α) (numAnneals : Int)
    (inOrder : Bool) (init : List Int) (rng : ρ) : M (List (List Int × α)) := do
  let lenState ← toInt lenState          -- the `i` format of PyArg_ParseTuple
  let lenTs ← toInt Ts.length
  let TsB ← malloc lenTs 8
  let numTerms ← chkLong cs.length
  let ncB ← malloc numTerms 4
  let lenTerms ← chkLong terms.length
  let termsB ← malloc lenTerms 4
  let csB ← malloc numTerms 8
  let termsB ← marshal toInt terms lenTerms.toNat termsB
  let ncB ← marshal toInt nc numTerms.toNat ncB
  let csB ← marshal pure cs numTerms.toNat csB
  let TsB ← marshal pure Ts lenTs.toNat TsB
  let values ← malloc numAnneals 8
  let total ← imul numAnneals lenState
  let states ← malloc total 4
  let provided ← toInt init.length
  let N := lenState.toNat
  let states ← if provided ≠ 0 then encodeInit true numAnneals N init states else pure states
  let sv ← annealPuso guard src numAnneals states values lenState numTerms.toNat { nc := ncB, terms := termsB, cs := csB }
    lenTs.toNat TsB inOrder (provided ≠ 0) rng
  let out ← buildPy numAnneals N sv.1 sv.2
  let ncB ← ncB.free
  let termsB ← termsB.free
  let csB ← csB.free
  let TsB ← TsB.free
  let states ← sv.1.free
  let values ← sv.2.free
  noLeak [ncB.live, termsB.live, csB.live, TsB.live, states.live, values.live]
  pure out

end

/-! ## what the Python front end hands to the extension (`WF`) -/

/-- the arguments `anneal_quso` of `sim/_anneal.py` produces for `c_anneal_quso` : `N = |h| >= 1` (the `N == 0`
case returns before the C call), one `num_neighbors` entry per spin, the flat `neighbors`/`J` arrays have
`Σ num_neighbors` entries, neighbours are spins, the initial state is absent or one spin value per variable,
`num_anneals >= 1`, and the sizes fit the C `int`s they are converted to -/
def WFQuso {α : Type} (h : List α) (nn nb : List Int) (J Ts : List α) (numAnneals : Int) (init : List Int) : Prop :=
  1 ≤ h.length ∧ nn.length = h.length ∧ (∀ x ∈ nn, 0 ≤ x) ∧ nn.sum = (J.length : Int) ∧ nb.length = J.length ∧
  (∀ x ∈ nb, 0 ≤ x ∧ x < (h.length : Int)) ∧
  (init = [] ∨ (init.length = h.length ∧ ∀ x ∈ init, x = 1 ∨ x = -1)) ∧
  1 ≤ numAnneals ∧ numAnneals * (h.length : Int) ≤ INT_MAX ∧ (J.length : Int) ≤ INT_MAX ∧ (Ts.length : Int) ≤ INT_MAX

instance {α : Type} (h : List α) (nn nb : List Int) (J Ts : List α) (numAnneals : Int) (init : List Int) :
    Decidable (WFQuso h nn nb J Ts numAnneals init) := by unfold WFQuso; infer_instance

/-- the arguments `anneal_puso` produces for `c_anneal_puso`, *except* that it does not guarantee a term
(`1 <= |couplings|` is a separate hypothesis of the theorems: D5): one `num_couplings` entry (`>= 1`: empty keys
are skipped) per coupling, `Σ num_couplings = |terms|`, term entries are spins -/
def WFPuso {α : Type} (lenState : Int) (nc terms : List Int) (cs Ts : List α) (numAnneals : Int) (init : List Int) :
    Prop :=
  1 ≤ lenState ∧ nc.length = cs.length ∧ (∀ x ∈ nc, 1 ≤ x) ∧ nc.sum = (terms.length : Int) ∧
  (∀ x ∈ terms, 0 ≤ x ∧ x < lenState) ∧
  (init = [] ∨ ((init.length : Int) = lenState ∧ ∀ x ∈ init, x = 1 ∨ x = -1)) ∧
  1 ≤ numAnneals ∧ numAnneals * lenState ≤ INT_MAX ∧ (terms.length : Int) < INT_MAX ∧ (Ts.length : Int) ≤ INT_MAX

instance {α : Type} (lenState : Int) (nc terms : List Int) (cs Ts : List α) (numAnneals : Int) (init : List Int) :
    Decidable (WFPuso lenState nc terms cs Ts numAnneals init) := by unfold WFPuso; infer_instance

end Qv.KMem
