import Qv.Model.Basic
/-!
# Qv.Model.Values — `pubo_value`, `qubo_value`, `puso_value`, `quso_value`
(`qubovert/utils/_values.py:26-167`).  An assignment container (dict / list / tuple) is a
function `Var → Rat`; indexing is the only thing the code does with it.
-/
namespace Qv

/-- `all(map(lambda i: x[i], k))` -/
def allTruthy (x : Var → Rat) : Key → Bool
  | [] => true
  | i :: r => decide (x i ≠ 0) && allTruthy x r

/-- `sum(v for k, v in P.items() if all(x[i] for i in k))` -/
def puboValue (x : Var → Rat) (p : Poly) : Rat :=
  match p with
  | [] => 0
  | (k, v) :: r => (if allTruthy x k then v else 0) + puboValue x r

/-- the three-way case split of `qubo_value`; keys longer than two contribute nothing -/
def quboTerm (x : Var → Rat) (k : Key) (v : Rat) : Rat :=
  match k with
  | [] => v
  | [i] => if x i ≠ 0 then v else 0
  | [i, j] => if x i ≠ 0 ∧ x j ≠ 0 then v else 0
  | _ => 0

def quboValue (x : Var → Rat) (p : Poly) : Rat :=
  match p with
  | [] => 0
  | (k, v) :: r => quboTerm x k v + quboValue x r

/-- number of entries equal to `-1` among `[z[i] for i in k]` -/
def countNeg (z : Var → Rat) (k : Key) : Nat :=
  match k with
  | [] => 0
  | i :: r => (if z i = -1 then 1 else 0) + countNeg z r

/-- `v * pow(-1, count(-1) % 2)` -/
def pusoValue (z : Var → Rat) (p : Poly) : Rat :=
  match p with
  | [] => 0
  | (k, v) :: r => v * (if countNeg z k % 2 = 0 then 1 else -1) + pusoValue z r

/-- `v * (z[k[0]] if k else 1) * (z[k[1]] if len(k) > 1 else 1)` -/
def qusoTerm (z : Var → Rat) (k : Key) (v : Rat) : Rat :=
  match k with
  | [] => v * 1 * 1
  | [i] => v * z i * 1
  | i :: j :: _ => v * z i * z j

def qusoValue (z : Var → Rat) (p : Poly) : Rat :=
  match p with
  | [] => 0
  | (k, v) :: r => qusoTerm z k v + qusoValue z r

end Qv
