import Qv.Model.Convert
/-!
# Qv.Model.Convert3 — conversion / export functions at the granularity of the Python functions tied by
`harness/tie_ext/conv3.py` (second-wave tie of C04; core Lean only)

Additions to `Qv/Model/Convert.lean`, each proved consistent with the function the theorems of `Qv/Props/C04.lean` use
(`Qv/Proofs/GenEq/Conv3*.lean`):

* `quboToMatrixObj` — `qubo_to_matrix` on a `QUBOMatrix` *object* given by its terms and its `max_index` (the model's
  `quboToMatrixFn` takes the dict the object was built from and re-runs the constructor);
* `fillStep` — one iteration of the fill loop of `qubo_to_matrix` (`fillMatrix` is its iteration);
* `bits`, `decimalToBoolean`, `booleanToDecimal`, `decimalToSpin`, `spinToDecimal` — the decimal ↔ bit / spin tuple helpers
  (NOT mentioned by `Qv/Props/C04.lean`; round trips in `Qv/Proofs/DecimalRT.lean`).
-/
namespace Qv

/-- one iteration of the fill loop: `matrix[k[0]][k[0]] = v` for a single label; `i, j = k` (`ValueError` unless two
labels) and the two halves / the one upper-triangular entry otherwise -/
def fillStep (symmetric : Bool) (acc : Poly) (k : Key) (v : Rat) : Except Err Poly :=
  match k with
  | [i] => .ok (put acc [i, i] v)
  | [i, j] => if symmetric then .ok (put (put acc [i, j] (v / 2)) [j, i] (v / 2)) else .ok (put acc [i, j] v)
  | _ => .error .value

/-- `qubo_to_matrix(Q, symmetric)` after `Q` has become a `QUBOMatrix` with terms `items` and `max_index = mx`:
`ValueError` on a non-zero offset, `None + 1` is a `TypeError`, then the fill loop; returns `(n, entries)` -/
def quboToMatrixObj (items : Poly) (mx : Option Nat) (symmetric : Bool) : Except Err (Nat × Poly) :=
  if get items [] ≠ 0 then .error .value else
  match mx with
  | none => .error .type
  | some m => fillMatrix symmetric [] items >>= fun e => .ok (m + 1, e)

/-! ## decimal ↔ boolean / spin tuples (`decimal_to_boolean`, `boolean_to_decimal`, `decimal_to_spin`,
`spin_to_decimal` of `qubovert/utils/_conversions.py`).  Beyond `Qv/Props/C04.lean`: the property theorems of C04 do not
mention these helpers; their round-trip theorems are in `Qv/Proofs/DecimalRT.lean`. -/

/-- the binary digits of `n`, most significant first — the digits of `bin(n)[2:]`; `[0]` for `0` -/
def bits (n : Nat) : List Nat :=
  if _h : n < 2 then [n] else bits (n / 2) ++ [n % 2]
decreasing_by omega

/-- `decimal_to_boolean(d, num_bits)`: `ValueError` for a negative `d` or too few bits; otherwise the digits, padded
with zeros on the left to `num_bits` -/
def decimalToBoolean (d : Int) (numBits : Option Int) : Except Err (List Int) :=
  if d < 0 then .error .value else
  let b : List Int := (bits d.toNat).map Int.ofNat
  match numBits with
  | none => .ok b
  | some m => if m < (b.length : Int) then .error .value else .ok (List.replicate (m - (b.length : Int)).toNat 0 ++ b)

/-- the number a bit string (most significant first) denotes -/
def fromBits (l : List Int) : Int := l.foldl (fun acc b => 2 * acc + b) 0

/-- `boolean_to_decimal(b)` on a tuple / list of 0s and 1s (`0` for the empty one) -/
def booleanToDecimal (l : List Int) : Int := fromBits l

/-- `decimal_to_spin(d, num_spins)`: the bits as spins (`0 ↦ 1`, `1 ↦ -1`) -/
def decimalToSpin (d : Int) (numSpins : Option Int) : Except Err (List Int) :=
  decimalToBoolean d numSpins >>= fun l => .ok (l.map (fun b => 1 - 2 * b))

/-- `spin_to_decimal(z)` on a tuple / list of 1s and -1s -/
def spinToDecimal (l : List Int) : Int := booleanToDecimal (l.map (fun z => (1 - z) / 2))

end Qv
