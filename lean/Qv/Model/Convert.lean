import Qv.Model.Basic
import Qv.Model.Arith
/-!
# Qv.Model.Convert — boolean/spin conversions, enumerations, solution conversion, exports

Mirrors (line by line; core Lean only)

* `qubovert/utils/_conversions.py:214-489` `qubo_to_quso`, `quso_to_qubo`, `pubo_to_puso`,
  `puso_to_pubo` and `:492-622` the default chains of `Conversions`;
* `qubovert/_qubo.py:121-217`, `_quso.py:121-217` `to_qubo` / `to_quso` relabelling, `to_pubo`,
  `to_puso`, `convert_solution`;
* `qubovert/_pubo.py:160-420` `_reduce_degree` **restricted to the case that no key is longer than
  `deg`** (the `while len(key) > deg` loop is never entered; the reduction itself is property C01),
  `to_pubo`, `to_qubo`;
* `qubovert/_puso.py:136-380` `_to_puso`, `_create_pubo`, `to_pubo`, `to_puso`, `to_qubo`, `to_quso`;
* `qubovert/utils/_bo_parentclass.py` `to_enumerated`;
* `qubovert/utils/_binary_helpers.py:26` `is_solution_spin`; `_conversions.py:37-96`
  `boolean_to_spin`, `spin_to_boolean` on containers;
* `qubovert/utils/_qubomatrix.py:224-324` `Q`, `matrix_to_qubo`, `qubo_to_matrix`;
  `qubovert/utils/_qusomatrix.py:214-241` `h`, `J`.

A model object is its term list in `dict` iteration order (`self.items()`); the bookkeeping the
conversions read (`_mapping`, `_reverse_mapping`, `num_binary_variables`, `degree`) enters as data.
-/
namespace Qv

/-! ## `pubo_to_puso` / `puso_to_pubo` -/

/-- `generate_new_key_value` of `pubo_to_puso`, in the order of the `yield`s:
`for key, value in gen(k[1:]): yield (k[0],) + key, -value / 2; yield key, value / 2` -/
def genB2S : Key → List (Key × Rat)
  | [] => [([], 1)]
  | i :: r => (genB2S r).flatMap (fun kv => [(i :: kv.1, -kv.2 / 2), (kv.1, kv.2 / 2)])

/-- `generate_new_key_value` of `puso_to_pubo`:
`yield (k[0],) + key, -2 * value; yield key, value` -/
def genS2B : Key → List (Key × Rat)
  | [] => [([], 1)]
  | i :: r => (genS2B r).flatMap (fun kv => [(i :: kv.1, -2 * kv.2), (kv.1, kv.2)])

/-- `for key, value in generate_new_key_value(k): H[key] += value * v` -/
def addGen (sq : Sq) (acc : Poly) (g : List (Key × Rat)) (v : Rat) : Except Err Poly :=
  match g with
  | [] => .ok acc
  | (key, value) :: r => do
    let acc' ← addTerm sq acc key (value * v)
    addGen sq acc' r v

/-- `for k, v in P.items(): for key, value in generate_new_key_value(k): H[key] += value * v` -/
def convLoop (gen : Key → List (Key × Rat)) (sq : Sq) (acc : Poly) (p : Poly) : Except Err Poly :=
  match p with
  | [] => .ok acc
  | (k, v) :: r => do
    let acc' ← addGen sq acc (gen k) v
    convLoop gen sq acc' r

/-- `PUSOMatrix() if type(P) in (PUBOMatrix, QUBOMatrix) else qv.PUSO()` -/
def kindPuboToPuso (κ : Kind) : Kind := if κ = .pubom ∨ κ = .qubom then .pusom else .puso
/-- `PUBOMatrix() if type(H) in (PUSOMatrix, QUSOMatrix) else qv.PUBO()` -/
def kindPusoToPubo (κ : Kind) : Kind := if κ = .pusom ∨ κ = .qusom then .pubom else .pubo
/-- `QUSOMatrix() if type(Q) in (QUBOMatrix, PUBOMatrix) else qv.QUSO()` -/
def kindQuboToQuso (κ : Kind) : Kind := if κ = .qubom ∨ κ = .pubom then .qusom else .quso
/-- `QUBOMatrix() if type(L) in (QUSOMatrix, PUSOMatrix) else qv.QUBO()` -/
def kindQusoToQubo (κ : Kind) : Kind := if κ = .qusom ∨ κ = .pusom then .qubom else .qubo

/-- `pubo_to_puso(P)` where `P.items()` is `p` and `type(P)` is `κ` -/
def puboToPuso (κ : Kind) (p : Poly) : Except Err Poly :=
  convLoop genB2S (squash (kindPuboToPuso κ)) [] p

/-- `puso_to_pubo(H)` -/
def pusoToPubo (κ : Kind) (p : Poly) : Except Err Poly :=
  convLoop genS2B (squash (kindPusoToPubo κ)) [] p

/-! ## `qubo_to_quso` / `quso_to_qubo` (closed forms) -/

/-- `squash_key` chosen by `qubo_to_quso`: identity ("key will already be squashed") when
`type(Q) in (QUBOMatrix, qv.QUBO)`, else `qv.QUBO.squash_key` (KeyError on more than two labels) -/
def srcSquashQubo (κ : Kind) : Sq := if κ = .qubom ∨ κ = .qubo then pure else squash .qubo
/-- same for `quso_to_qubo` -/
def srcSquashQuso (κ : Kind) : Sq := if κ = .qusom ∨ κ = .quso then pure else squash .quso

/-- body of the loop of `qubo_to_quso` for an already squashed key `k`.  `i, j = k` on a longer key
is a `ValueError` in Python (never reached: squashed keys have at most two labels). -/
def quboToQusoTerm (sq : Sq) (L : Poly) (k : Key) (v : Rat) : Except Err Poly :=
  match k with
  | [] => addTerm sq L [] v
  | [i] => do
    let L ← addTerm sq L [i] (-(v / 2))
    addTerm sq L [] (v / 2)
  | [i, j] => do
    let L ← addTerm sq L [i, j] (v / 4)
    let L ← addTerm sq L [i] (-(v / 4))
    let L ← addTerm sq L [j] (-(v / 4))
    addTerm sq L [] (v / 4)
  | _ => .error .value

/-- body of the loop of `quso_to_qubo` -/
def qusoToQuboTerm (sq : Sq) (Q : Poly) (k : Key) (v : Rat) : Except Err Poly :=
  match k with
  | [] => addTerm sq Q [] v
  | [i] => do
    let Q ← addTerm sq Q [i] (-(2 * v))
    addTerm sq Q [] v
  | [i, j] => do
    let Q ← addTerm sq Q [i, j] (4 * v)
    let Q ← addTerm sq Q [i] (-(2 * v))
    let Q ← addTerm sq Q [j] (-(2 * v))
    addTerm sq Q [] v
  | _ => .error .value

/-- `for kp, v in Q.items(): k = squash_key(kp); ...` -/
def closedLoop (term : Sq → Poly → Key → Rat → Except Err Poly) (src sq : Sq) (acc : Poly) (p : Poly) :
    Except Err Poly :=
  match p with
  | [] => .ok acc
  | (kp, v) :: r => do
    let k ← src kp
    let acc' ← term sq acc k v
    closedLoop term src sq acc' r

def quboToQuso (κ : Kind) (p : Poly) : Except Err Poly :=
  closedLoop quboToQusoTerm (srcSquashQubo κ) (squash (kindQuboToQuso κ)) [] p

def qusoToQubo (κ : Kind) (p : Poly) : Except Err Poly :=
  closedLoop qusoToQuboTerm (srcSquashQuso κ) (squash (kindQusoToQubo κ)) [] p

/-! ## Relabelling through `_mapping` -/

/-- a Python dict from labels to labels (`_mapping`: label → integer; `_reverse_mapping`: integer → label) -/
abbrev Mapping := List (Var × Var)

/-- `mapping[i]` (`KeyError` when absent) -/
def mapGet (m : Mapping) (i : Var) : Except Err Var :=
  match m with
  | [] => .error .key
  | (a, b) :: r => if a = i then .ok b else mapGet r i

/-- `tuple(self._mapping[i] for i in k)` -/
def mapKey (m : Mapping) (k : Key) : Except Err Key :=
  match k with
  | [] => .ok []
  | i :: r => do
    let a ← mapGet m i
    let r' ← mapKey m r
    pure (a :: r')

/-- insertion into a sorted list keeping duplicates (`sorted` on integers) -/
def insSorted (a : Var) : Key → Key
  | [] => [a]
  | b :: bs => if a ≤ b then a :: b :: bs else b :: insSorted a bs

/-- `sorted(key)` -/
def sortKey (k : Key) : Key := k.foldr insSorted []

/-- `QUBO.to_qubo` / `QUSO.to_quso` (`sorted = false`), `PUSO._to_puso` (`sorted = true`):
`D = cls(); for k, v in self.items(): key = tuple([sorted](self._mapping[i] for i in k)); D[key] += v` -/
def relabel (sq : Sq) (m : Mapping) (srt : Bool) (acc : Poly) (p : Poly) : Except Err Poly :=
  match p with
  | [] => .ok acc
  | (k, v) :: r => do
    let key ← mapKey m k
    let acc' ← addTerm sq acc (if srt then sortKey key else key) v
    relabel sq m srt acc' r

/-- first loop of `_reduce_degree`: `mapped_self[key] = mapped_self.get(key, 0) + v` on a plain dict
(zeros are kept) with `key = tuple(sorted(self._mapping[i] for i in k))` -/
def mappedSelf (m : Mapping) (acc : Poly) (p : Poly) : Except Err Poly :=
  match p with
  | [] => .ok acc
  | (k, v) :: r => do
    let key ← mapKey m k
    let key := sortKey key
    mappedSelf m (put acc key (get acc key + v)) r

/-- some key of `mapped_self` is longer than `deg`: the `while len(key) > deg` loop would run -/
def needsReduction (deg : Nat) (ms : Poly) : Bool := ms.any (fun kv => decide (kv.1.length > deg))

/-- `_reduce_degree(D, deg, lam, pairs)` when `needsReduction = false`:
`if deg is not None and deg < 2: raise ValueError`; `if deg is None: deg = self.degree`;
`for key, v in mapped_self.items(): D[key] += v`.  `lam` and `pairs` are not used on this path.
(`deg = none` never reduces: `self.degree` bounds every key.) -/
def reduceNoop (sqD : Sq) (m : Mapping) (deg : Option Int) (p : Poly) : Except Err Poly :=
  match deg with
  | some d => if d < 2 then .error .value else do
      let ms ← mappedSelf m [] p
      iaddD sqD [] ms
  | none => do
      let ms ← mappedSelf m [] p
      iaddD sqD [] ms

/-- whether `reduceNoop` is the whole of `_reduce_degree` on this input -/
def reduceIsNoop (m : Mapping) (deg : Option Int) (p : Poly) : Bool :=
  match deg with
  | none => true
  | some d => if d < 2 then true else
    match mappedSelf m [] p with
    | .ok ms => !needsReduction d.toNat ms
    | .error _ => true

/-! ## The `to_*` methods of the six labelled types -/

inductive Target | qubo | quso | pubo | puso
  deriving DecidableEq, Repr, Inhabited

/-- type of the object returned by `to_<target>` (always a Matrix type) -/
def Target.kind : Target → Kind
  | .qubo => .qubom | .quso => .qusom | .pubo => .pubom | .puso => .pusom

/-- `self.degree` of a refreshed model compared with a number: `deg >= self.degree`
(`self.degree` is `-inf` for a model without terms) -/
def degGe (d : Int) (p : Poly) : Bool := p.isEmpty || decide (d ≥ (degree p : Int))

/-- `QUBO.to_<t>()` : `to_qubo` relabels; `to_pubo = PUBOMatrix(self.to_qubo())`;
`to_quso = qubo_to_quso(self.to_qubo())`; `to_puso = pubo_to_puso(self.to_pubo())` -/
def quboTo (t : Target) (m : Mapping) (p : Poly) : Except Err Poly := do
  let Q ← relabel (squash .qubom) m false [] p
  match t with
  | .qubo => pure Q
  | .pubo => construct (squash .pubom) Q
  | .quso => quboToQuso .qubom Q
  | .puso => do
    let P ← construct (squash .pubom) Q
    puboToPuso .pubom P

/-- `QUSO.to_<t>()` -/
def qusoTo (t : Target) (m : Mapping) (p : Poly) : Except Err Poly := do
  let L ← relabel (squash .qusom) m false [] p
  match t with
  | .quso => pure L
  | .puso => construct (squash .pusom) L
  | .qubo => qusoToQubo .qusom L
  | .pubo => do
    let H ← construct (squash .pusom) L
    pusoToPubo .pusom H

/-- `PUBO.to_<t>(deg)` (also PCBO) on inputs where no reduction happens:
`to_pubo(deg)`: `_reduce_degree(PUBOMatrix(), deg)`; `to_qubo()`: `_reduce_degree(QUBOMatrix(), 2)`;
`to_puso(deg) = pubo_to_puso(self.to_pubo(deg))`; `to_quso() = qubo_to_quso(self.to_qubo())` -/
def puboTo (t : Target) (m : Mapping) (deg : Option Int) (p : Poly) : Except Err Poly :=
  match t with
  | .pubo => reduceNoop (squash .pubom) m deg p
  | .qubo => reduceNoop (squash .qubom) m (some 2) p
  | .puso => do
    let P ← reduceNoop (squash .pubom) m deg p
    puboToPuso .pubom P
  | .quso => do
    let Q ← reduceNoop (squash .qubom) m (some 2) p
    quboToQuso .qubom Q

/-- whether `puboTo` needs no degree reduction on this input -/
def puboToIsNoop (t : Target) (m : Mapping) (deg : Option Int) (p : Poly) : Bool :=
  match t with
  | .pubo | .puso => reduceIsNoop m deg p
  | .qubo | .quso => reduceIsNoop m (some 2) p

/-- `PUSO.to_<t>(deg)` (also PCSO), `κ = type(self)`:
`_create_pubo()` is `puso_to_pubo(self)` (a labelled `PUBO`, since `type(self)` is not `PUSOMatrix`)
carrying `self`'s mapping. -/
def pusoTo (κ : Kind) (t : Target) (m : Mapping) (deg : Option Int) (p : Poly) : Except Err Poly :=
  match t with
  | .puso =>
    match deg with
    | none => relabel (squash .pusom) m true [] p
    | some d =>
      if degGe d p then relabel (squash .pusom) m true [] p
      else do
        let P ← pusoToPubo κ p
        puboTo .puso m deg P
  | .pubo => do
    let P ← pusoToPubo κ p
    puboTo .pubo m deg P
  | .qubo => do
    let P ← pusoToPubo κ p
    puboTo .qubo m none P
  | .quso =>
    if degGe 2 p then do
      let H ← relabel (squash .pusom) m true [] p
      construct (squash .qusom) H
    else do
      let P ← pusoToPubo κ p
      let Q ← puboTo .qubo m none P
      quboToQuso .qubom Q

def pusoToIsNoop (κ : Kind) (t : Target) (m : Mapping) (deg : Option Int) (p : Poly) : Bool :=
  match t with
  | .puso =>
    match deg with
    | none => true
    | some d => if degGe d p then true else
      match pusoToPubo κ p with
      | .ok P => puboToIsNoop .puso m deg P
      | .error _ => true
  | .pubo =>
    match pusoToPubo κ p with
    | .ok P => puboToIsNoop .pubo m deg P
    | .error _ => true
  | .qubo | .quso =>
    if t = .quso ∧ degGe 2 p then true else
    match pusoToPubo κ p with
    | .ok P => puboToIsNoop .qubo m none P
    | .error _ => true

/-- `M.to_<t>(deg)` for `type(M) = κ`; the four Matrix types and plain dicts have no such method
(`AttributeError`) -/
def toMethod (κ : Kind) (t : Target) (m : Mapping) (deg : Option Int) (p : Poly) : Except Err Poly :=
  match κ with
  | .qubo => quboTo t m p
  | .quso => qusoTo t m p
  | .pubo | .pcbo => puboTo t m deg p
  | .puso | .pcso => pusoTo κ t m deg p
  | _ => .error .attr

def toMethodIsNoop (κ : Kind) (t : Target) (m : Mapping) (deg : Option Int) (p : Poly) : Bool :=
  match κ with
  | .pubo | .pcbo => puboToIsNoop t m deg p
  | .puso | .pcso => pusoToIsNoop κ t m deg p
  | _ => true

/-- `"to_" + self.__class__.__name__.lower().replace('c', 'u')` -/
def enumTarget : Kind → Option Target
  | .qubo => some .qubo | .quso => some .quso
  | .pubo | .pcbo => some .pubo | .puso | .pcso => some .puso
  | _ => none

/-- `M.to_enumerated()` -/
def toEnumerated (κ : Kind) (m : Mapping) (p : Poly) : Except Err Poly :=
  match enumTarget κ with
  | some t => toMethod κ t m none p
  | none => .error .attr

/-! ## `convert_solution` -/

/-- `is_solution_spin(solution, default)` on the values in iteration order -/
def isSolutionSpin (vals : List Rat) (dflt : Bool) : Bool :=
  match vals with
  | [] => dflt
  | v :: r => if v = 0 then false else if v = -1 then true else isSolutionSpin r dflt

/-- `convert = {-1: 1, 1: 0}; convert[v]` -/
def s2bVal (v : Rat) : Except Err Rat :=
  if v = -1 then .ok 1 else if v = 1 then .ok 0 else .error .key

/-- `convert = {0: 1, 1: -1}; convert[v]` -/
def b2sVal (v : Rat) : Except Err Rat :=
  if v = 0 then .ok 1 else if v = 1 then .ok (-1) else .error .key

/-- a solution container: the `(index, value)` items in iteration order
(a list or tuple `s` is `enumerate(s)`) -/
abbrev Sol := List (Nat × Rat)

/-- `spin_to_boolean(sol)` / `boolean_to_spin(sol)` on a container: every element is converted -/
def solMap (f : Rat → Except Err Rat) (s : Sol) : Except Err Sol :=
  match s with
  | [] => .ok []
  | (i, v) :: r => do
    let v' ← f v
    let r' ← solMap f r
    pure ((i, v') :: r')

/-- `solution[i]` : `KeyError` for a dict, `IndexError` for a list/tuple -/
def solGet (s : Sol) (isDict : Bool) (i : Nat) : Except Err Rat :=
  match s with
  | [] => .error (if isDict then .key else .index)
  | (j, v) :: r => if j = i then .ok v else solGet r isDict i

/-- a Python dict from labels to values, in insertion order -/
abbrev Assign := List (Var × Rat)

/-- `d[k] = v` on a plain dict -/
def aput (d : Assign) (k : Var) (v : Rat) : Assign :=
  match d with
  | [] => [(k, v)]
  | (k', v') :: r => if k' = k then (k, v) :: r else (k', v') :: aput r k v

def aget (d : Assign) (k : Var) : Option Rat :=
  match d with
  | [] => none
  | (k', v) :: r => if k' = k then some v else aget r k

/-- `{self._reverse_mapping[i]: solution[i] for i in range(n)}` (key evaluated before value) -/
def solLoop (rev : Mapping) (s : Sol) (isDict : Bool) (acc : Assign) (is : List Nat) : Except Err Assign :=
  match is with
  | [] => .ok acc
  | i :: r => do
    let l ← mapGet rev i
    let v ← solGet s isDict i
    solLoop rev s isDict (aput acc l v) r

/-- `M.convert_solution(solution, spin)`; `spinModel` says whether `M` is a spin type
(`QUSO.convert_solution`) or a boolean type (`QUBO.convert_solution`); `n = self.num_binary_variables` -/
def convertSolution (spinModel : Bool) (rev : Mapping) (n : Nat) (s : Sol) (isDict : Bool) (flag : Bool) :
    Except Err Assign := do
  let isSpin := isSolutionSpin (s.map Prod.snd) flag
  let s' ← if spinModel then (if !isSpin then solMap b2sVal s else pure s)
           else (if isSpin then solMap s2bVal s else pure s)
  solLoop rev s' isDict [] (List.range n)

/-- the total assignment read from a dict (labels outside it get 0; `value` would raise `KeyError`) -/
def Assign.fn (d : Assign) : Var → Rat := fun i => (aget d i).getD 0

/-! ## Exports -/

/-- `k * n` on tuples -/
def repKey (k : Key) : Nat → Key
  | 0 => []
  | n + 1 => k ++ repKey k n

/-- `QUBOMatrix.Q` : `{k * (3 - len(k)): v for k, v in self.items() if k}` (a plain dict) -/
def exportQ (acc : Poly) (p : Poly) : Poly :=
  match p with
  | [] => acc
  | (k, v) :: r => if k = [] then exportQ acc r else exportQ (put acc (repKey k (3 - k.length)) v) r

/-- `QUSOMatrix.h` : `{k[0]: v for k, v in self.items() if len(k) == 1}` -/
def exportH (p : Poly) : Assign :=
  p.filterMap (fun kv => match kv.1 with | [i] => some (i, kv.2) | _ => none)

/-- `QUSOMatrix.J` : `{k: v for k, v in self.items() if len(k) == 2}` -/
def exportJ (p : Poly) : Poly := p.filter (fun kv => kv.1.length == 2)

/-- `for j in range(n): Q[(i, j)] += matrix[i][j]` -/
def m2qRow (sq : Sq) (Q : Poly) (i : Nat) (row : List Rat) (j : Nat) : Except Err Poly :=
  match row with
  | [] => .ok Q
  | a :: r => do
    let Q' ← addTerm sq Q [i, j] a
    m2qRow sq Q' i r (j + 1)

/-- `for i in range(n): ...` -/
def m2qRows (sq : Sq) (Q : Poly) (rows : List (List Rat)) (i : Nat) : Except Err Poly :=
  match rows with
  | [] => .ok Q
  | row :: rs => do
    let Q' ← m2qRow sq Q i row 0
    m2qRows sq Q' rs (i + 1)

/-- `matrix_to_qubo(matrix)` for a (nested-sequence or 2-d array) matrix given by its rows:
`ValueError` unless two-dimensional and square (`np.array([])` has one dimension) -/
def matrixToQubo (A : List (List Rat)) : Except Err Poly :=
  if A.isEmpty || A.any (fun row => row.length != A.length) then .error .value
  else m2qRows (squash .qubom) [] A 0

/-- the constructor loop `for key, value in d.items(): self[key] += value` together with the
`_variables` bookkeeping of `PUBOMatrix.__setitem__` (labels of every key ever stored with a non-zero
value); only `max(_variables)` is used -/
def constructVars (sq : Sq) (acc : Poly) (vars : List Var) (d : Poly) : Except Err (Poly × List Var) :=
  match d with
  | [] => .ok (acc, vars)
  | (k, v) :: r => do
    let k' ← sq k
    let nv := get acc k' + v
    constructVars sq (set acc k' nv) (if nv = 0 then vars else vars ++ k') r

/-- `max(self._variables) if self._variables else None` -/
def maxIndex (vars : List Var) : Option Nat :=
  match vars with
  | [] => none
  | a :: r => some (r.foldl max a)

/-- the assignments into `np.zeros((n, n))`, as a dict from `[i, j]` to the stored value (later
assignments overwrite) -/
def fillMatrix (symmetric : Bool) (acc : Poly) (p : Poly) : Except Err Poly :=
  match p with
  | [] => .ok acc
  | (k, v) :: r =>
    match k with
    | [i] => fillMatrix symmetric (put acc [i, i] v) r
    | [i, j] =>
      if symmetric then fillMatrix symmetric (put (put acc [i, j] (v / 2)) [j, i] (v / 2)) r
      else fillMatrix symmetric (put acc [i, j] v) r
    | _ => .error .value   -- `i, j = k` on `()` or a longer key (not reached: offset is 0, keys ≤ 2)

/-- `matrix.tolist()` of the `n × n` array holding the entries `f` -/
def tabulate (n : Nat) (f : Nat → Nat → Rat) : List (List Rat) :=
  (List.range n).map (fun i => (List.range n).map (fun j => f i j))

/-- `qubo_to_matrix(Q, symmetric)`.  `isObj = false`: `Q` is a plain dict with items `p`
(`not Q` is tested on the dict, then `Q = QUBOMatrix(Q)`).  `isObj = true`: `Q` is the object
`QUBOMatrix(p)` (its terms and `_variables` are what the constructor loop leaves), so emptiness is
tested on the constructed terms.  `ValueError` on an empty dict or a non-zero offset;
`max_index + 1` with `max_index = None` is a `TypeError`.  Returns `(n, entries)`. -/
def quboToMatrixFn (p : Poly) (isObj : Bool) (symmetric : Bool) : Except Err (Nat × Poly) :=
  if !isObj && p.isEmpty then .error .value else do
    let (Q, vars) ← constructVars (squash .qubom) [] [] p
    if isObj && Q.isEmpty then .error .value else
    if get Q [] ≠ 0 then .error .value else
    match maxIndex vars with
    | none => .error .type
    | some mx => do
      let e ← fillMatrix symmetric [] Q
      pure (mx + 1, e)

def quboToMatrix (p : Poly) (isObj : Bool) (symmetric : Bool) : Except Err (List (List Rat)) := do
  let (n, e) ← quboToMatrixFn p isObj symmetric
  pure (tabulate n (fun i j => get e [i, j]))

end Qv
