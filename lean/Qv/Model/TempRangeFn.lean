import Qv.Model.TempRange
/-!
# Qv.Model.TempRangeFn — `anneal_temperature_range` at the granularity of the Python function

`Qv.tempRange` (the function the C15 theorems are about) takes the input as the caller built it (`Input`: a plain dict, or
an object with its construction history) and runs the model's own `pubo_to_puso`.  The Python function itself sees only the
items of `model` and calls `pubo_to_puso` as a black box.  `tempRangeFn` is that reading: the items, the two probabilities,
the spin flag and the conversion as a parameter.  `Qv/Proofs/GenEq/TempRange.lean` proves the definition generated from the
source equal to it and `tempRange` equal to its instance with the model's conversion (`tempRange_raw_u2`, `tempRange_obj_u2`).
Core Lean only.
-/
namespace Qv

/-- `anneal_temperature_range(model, ps, pe, spin)` on the items of `model`; `conv` is `pubo_to_puso` -/
def tempRangeFn (conv : Poly → Except Err Poly) (model : Poly) (ps pe : Rat) (spin : Bool) : Except Err (Temp × Temp) :=
  if ps < 0 ∨ 1 ≤ ps ∨ pe < 0 ∨ 1 ≤ pe then .error .value
  else if ps < pe then .error .value
  else (if spin then .ok model else conv model) >>= fun p => tempRangeCore p (keysVars [] p) ps pe

/-- the model's `pubo_to_puso` as a function on items -/
def puboToPusoItems (d : Poly) : Except Err Poly := (puboToPusoV d).map MState.p

end Qv
