import Qv.Model.Basic
import Qv.Model.Arith
/-!
# Qv.Model.Subst — `subvalue`, `subgraph`, `normalize` (function and method)

Mirrors `qubovert/utils/_subgraph.py:28-142`, `qubovert/utils/_normalize.py:26-71` and
`DictArithmetic.normalize/subgraph/subvalue` (`qubovert/utils/_dict_arithmetic.py:745-886`).
Core Lean only.

The result container is `type(G)()`.  Two families of containers occur:

* the builtin `dict` (`Ty.builtin`): `D[key] = value` is the plain store (zero values are kept);
* `DictArithmetic` and its ten model subclasses (`Ty.da κ`, `κ = .dict` for `DictArithmetic` itself):
  `D[key] = value` goes through `cls.squash_key` and removes zero values (`setItem (squash κ)`).

In both, `D.get(key, 0)` and `D.pop(key, 0)` are the *raw* `dict` methods (no squashing) — exactly as
the code calls them.
-/
namespace Qv

/-- `type(G)` -/
inductive Ty
  | builtin            -- `dict`
  | da (κ : Kind)      -- `DictArithmetic` (κ = .dict) or one of the ten model types
  deriving DecidableEq, Repr, Inhabited

/-- the squashing discipline of the container's keys -/
def Ty.kind : Ty → Kind
  | .builtin => .dict
  | .da κ => κ

/-- `D[key] = value` for `D` of type `τ` -/
def Ty.store (τ : Ty) (D : Poly) (k : Key) (v : Rat) : Except Err Poly :=
  match τ with
  | .builtin => .ok (put D k v)
  | .da κ => setItem (squash κ) D k v

/-- a Python `dict` from labels to numbers (`values`, `connections`) -/
abbrev Assoc := List (Var × Rat)

/-- `m.get(i)` (`none` when `i not in m`) -/
def lookup (m : Assoc) (i : Var) : Option Rat :=
  match m with
  | [] => none
  | (j, v) :: r => if j = i then some v else lookup r i

/-- `i in m` -/
def inDict (m : Assoc) (i : Var) : Bool := (lookup m i).isSome

/-- the assignment `ρ` extended / overridden by `m` -/
def override (ρ : Var → Rat) (m : Assoc) : Var → Rat :=
  fun i => match lookup m i with
    | some v => v
    | none => ρ i

/-- `np.prod(list)` (`1` for the empty list) -/
def prodL : List Rat → Rat
  | [] => 1
  | a :: r => a * prodL r

/-- the common tail of both loops:
```
value += D.get(key, 0)
if value: D[key] = value
else:     D.pop(key, 0)
``` -/
def accum (τ : Ty) (D : Poly) (key : Key) (value : Rat) : Except Err Poly :=
  let value := value + get D key
  if value ≠ 0 then τ.store D key value else .ok (erase D key)

/-- a dict item whose key may fail `isinstance(k, tuple)` (`none`) -/
abbrev RawItem := Option Key × Rat

def liftItems (G : Poly) : List RawItem := G.map (fun kv => (some kv.1, kv.2))

/-! ## subvalue -/

/-- `tuple(filter(lambda x: x not in values, k))` -/
def svKey (vals : Assoc) (k : Key) : Key := k.filter (fun x => !(inDict vals x))

/-- `[values[i] for i in filter(lambda x: x in values, k)]` -/
def svVals (vals : Assoc) (k : Key) : List Rat :=
  (k.filter (fun x => inDict vals x)).map (fun i => (lookup vals i).getD 0)

/-- the loop `for k, v in G.items(): ...` of `subvalue` -/
def subvalueLoop (τ : Ty) (vals : Assoc) (D : Poly) : List RawItem → Except Err Poly
  | [] => .ok D
  | (none, _) :: _ => .error .value          -- "Keys must be tuples"
  | (some k, v) :: r => do
    let D' ← accum τ D (svKey vals k) (v * prodL (svVals vals k))
    subvalueLoop τ vals D' r

/-- `subvalue(values, G)` with `type(G) = τ`, on raw items -/
def subvalueRaw (τ : Ty) (vals : Assoc) (G : List RawItem) : Except Err Poly :=
  subvalueLoop τ vals [] G

/-- `subvalue(values, G)` / `G.subvalue(values)` for a dict with tuple keys -/
def subvalue (τ : Ty) (vals : Assoc) (G : Poly) : Except Err Poly :=
  subvalueRaw τ vals (liftItems G)

/-! ## subgraph -/

/-- `tuple(filter(lambda x: x in nodes, k))` -/
def sgKey (nodes : List Var) (k : Key) : Key := k.filter (fun x => nodes.contains x)

/-- `[connections.get(i, 0) for i in filter(lambda x: x not in nodes, k)]` -/
def sgVals (nodes : List Var) (conn : Assoc) (k : Key) : List Rat :=
  (k.filter (fun x => !(nodes.contains x))).map (fun i => (lookup conn i).getD 0)

/-- the assignment `subgraph` fixes: `ρ` on `nodes`, `connections.get(i, 0)` elsewhere -/
def sgAssign (ρ : Var → Rat) (nodes : List Var) (conn : Assoc) : Var → Rat :=
  fun i => if nodes.contains i then ρ i else (lookup conn i).getD 0

def subgraphLoop (τ : Ty) (nodes : List Var) (conn : Assoc) (D : Poly) : List RawItem → Except Err Poly
  | [] => .ok D
  | (none, _) :: _ => .error .value          -- "Keys must be tuples"
  | (some k, v) :: r =>
    if k.isEmpty then subgraphLoop τ nodes conn D r          -- `if not k: continue`
    else do
      let D' ← accum τ D (sgKey nodes k) (v * prodL (sgVals nodes conn k))
      subgraphLoop τ nodes conn D' r

def subgraphRaw (τ : Ty) (nodes : List Var) (conn : Assoc) (G : List RawItem) : Except Err Poly :=
  subgraphLoop τ nodes conn [] G

/-- `subgraph(G, nodes, connections)` / `G.subgraph(nodes, connections)`; `connections=None` is `[]` -/
def subgraph (τ : Ty) (nodes : List Var) (conn : Assoc) (G : Poly) : Except Err Poly :=
  subgraphRaw τ nodes conn (liftItems G)

/-- `G` without its constant term(s): the items the loop does not skip -/
def dropConst (G : Poly) : Poly := G.filter (fun kv => !kv.1.isEmpty)

/-! ## normalize -/

/-- `abs(v)` -/
def absV (v : Rat) : Rat := if v < 0 then -v else v

/-- `max(abs(v) for v in D.values())` for non-empty `D` (`0` for the empty dict, which the callers
guard: the function raises `ValueError`, the method tests `if self:`) -/
def maxAbs : Poly → Rat
  | [] => 0
  | (_, v) :: r => let m := maxAbs r; if m < absV v then absV v else m

/-- `for k, v in D.items(): res[k] = mult * v` -/
def normLoop (τ : Ty) (mult : Rat) (res : Poly) : Poly → Except Err Poly
  | [] => .ok res
  | (k, v) :: r => do
    let res' ← τ.store res k (mult * v)
    normLoop τ mult res' r

/-- the function `qubovert.utils.normalize(D, value)`:
`max()` of an empty sequence is a `ValueError`, `value / 0` a `ZeroDivisionError`. -/
def normalizeFn (τ : Ty) (D : Poly) (c : Rat) : Except Err Poly :=
  if D.isEmpty then .error .value
  else
    let m := maxAbs D
    if m = 0 then .error .zerodiv
    else normLoop τ (c / m) [] D

/-- the method `DictArithmetic.normalize(self, value)` (in place; the new state is returned):
```
if self:
    mult = value / max(abs(v) for v in self.values())
    for k in tuple(self.keys()):
        self[k] *= mult
```
`if self:` guards the empty dict; the loop runs over a *snapshot* of the keys (`scaleKeys`,
`Qv.Model.Arith`), each step being `self[k] = self[k] * mult` through the type's
`__getitem__`/`__setitem__`. -/
def normalizeM (κ : Kind) (D : Poly) (c : Rat) : Except Err Poly :=
  if D.isEmpty then .ok D
  else
    let m := maxAbs D
    if m = 0 then .error .zerodiv
    else scaleKeys (squash κ) D (D.map Prod.fst) (c / m)

end Qv
