import Lean
/-!
# Qv.TieAudit — which model functions do the theorems talk about, and which does the correspondence exercise?

The property theorems (`Qv/Props/Cxx.lean`) are about functions of the hand-written model (`Qv/Model/*.lean`).
The correspondence check validates the model against `/repo` by running *driver handlers* (`Qv/Driver/*.lean`) on the
same inputs as the real code; the generated-source tie validates model functions by `*_eq_model` theorems.
Nothing in Lean forces the two sides to meet: a theorem could be about a model function that no handler ever runs.
This file computes both sides from the compiled environment so that `harness/tie_audit.py` can compare them on
every run:

* `theoremSide mod`  — the `Qv.Model.*` definitions reachable from the *statements* of the theorems of module `mod`
  (through the definitions those statements mention, never through proofs);
* `handlerSide lists` — per driver operation name, the `Qv.Model.*` definitions reachable from its handler
  (through definition bodies);
* `statementSide thms` — the same as `theoremSide` for an explicit list of theorems (the `*_eq_model` theorems).

Meta-level code only (no theorem depends on it); core Lean only.
-/
open Lean

namespace Qv.TieAudit

def moduleOf (env : Environment) (n : Name) : Option Name :=
  (env.getModuleIdxFor? n).bind fun idx => env.header.moduleNames[idx.toNat]?

def inQv (env : Environment) (n : Name) : Bool :=
  match moduleOf env n with
  | some m => (`Qv).isPrefixOf m
  | none => false

/-- auto-generated companions of inductive types / structures and instances are not "model functions" -/
def isBoring (env : Environment) (n : Name) (ty : Expr) : Bool :=
  isAuxRecursor env n || isNoConfusion env n || env.isProjectionFn n || ty.getForallBody.isSort ||
  n.components.any (fun c => match c with
    | .str _ s => s.startsWith "inst" || s == "brecOn" || s == "below" || s == "ctorIdx" || s == "toCtorIdx" ||
        s == "ofNat" || s == "casesOn" || s == "recOn" || s == "noConfusionType" || s == "noConfusion" || s == "ctorElim" ||
        s == "ctorElimType" || s == "elim" || s == "sizeOf_spec" || s == "injEq"
    | _ => false)

def isModelFn (env : Environment) (n : Name) : Bool :=
  match moduleOf env n, env.find? n with
  | some m, some (.defnInfo d) => (`Qv.Model).isPrefixOf m && !n.isInternalDetail && !isBoring env n d.type
  | _, _ => false

/-- constants of Qv modules reachable from `start`; `bodies`: follow definition bodies (never theorem proofs) -/
partial def reach (env : Environment) (start : Array Name) : NameSet := Id.run do
  let mut seen : NameSet := {}
  let mut todo := start
  while !todo.isEmpty do
    let n := todo.back!
    todo := todo.pop
    if seen.contains n then continue
    seen := seen.insert n
    if let some ci := env.find? n then
      let mut es := #[ci.type]
      match ci with
      | .defnInfo d => es := es.push d.value
      | .opaqueInfo d => es := es.push d.value
      | _ => pure ()
      for e in es do
        for c in e.getUsedConstants do
          if inQv env c && !seen.contains c then todo := todo.push c
  return seen

def modelFns (env : Environment) (s : NameSet) : Array Name :=
  (s.toArray.filter (isModelFn env)).qsort (fun a b => a.toString < b.toString)

def jArr (xs : Array Name) : String :=
  "[" ++ ", ".intercalate (xs.toList.map fun n => "\"" ++ n.toString ++ "\"") ++ "]"

/-- theorems of module `mod` (the property file): names, and the model functions their statements reach -/
def theoremSide (mod : Name) : CoreM Unit := do
  let env ← getEnv
  let some idx := env.header.moduleNames.idxOf? mod | throwError "module {mod} not imported"
  let names := env.header.moduleData[idx]!.constNames
  let mut thms : Array Name := #[]
  let mut start : Array Name := #[]
  for n in names do
    if n.isInternalDetail then continue
    if let some (.thmInfo t) := env.find? n then
      thms := thms.push n
      for c in t.type.getUsedConstants do
        if inQv env c then start := start.push c
  let fns := modelFns env (reach env start)
  IO.println ("{\"side\": \"theorems\", \"module\": \"" ++ mod.toString ++ "\", \"theorems\": " ++ toString thms.size ++
    ", \"model_functions\": " ++ jArr fns ++ "}")

/-- the model functions reached by the statements of the given theorems (generated-source tie) -/
def statementSide (thms : Array Name) : CoreM Unit := do
  let env ← getEnv
  let mut start : Array Name := #[]
  let mut missing : Array Name := #[]
  for n in thms do
    match env.find? n with
    | some ci =>
      for c in ci.type.getUsedConstants do
        if inQv env c then start := start.push c
    | none => missing := missing.push n
  let fns := modelFns env (reach env start)
  IO.println ("{\"side\": \"tie\", \"missing\": " ++ jArr missing ++ ", \"model_functions\": " ++ jArr fns ++ "}")

/-- `(op, handler)` pairs written literally in the value of a `handlersCxx` list -/
partial def pairsOf (e : Expr) (acc : Array (String × Array Name)) : Array (String × Array Name) :=
  match e with
  | .app .. =>
    let f := e.getAppFn
    let args := e.getAppArgs
    if f.isConstOf ``Prod.mk && args.size == 4 then
      match args[2]! with
      | .lit (.strVal s) => acc.push (s, args[3]!.getUsedConstants)
      | _ => args.foldl (fun a x => pairsOf x a) acc
    else args.foldl (fun a x => pairsOf x a) (pairsOf f acc)
  | .lam _ _ b _ => pairsOf b acc
  | .letE _ _ v b _ => pairsOf b (pairsOf v acc)
  | .mdata _ b => pairsOf b acc
  | _ => acc

/-- per driver operation: the model functions reachable from its handler -/
def handlerSide (lists : Array Name) : CoreM Unit := do
  let env ← getEnv
  for l in lists do
    let some (.defnInfo d) := env.find? l | throwError "{l} is not a definition"
    for (op, cs) in pairsOf d.value #[] do
      let fns := modelFns env (reach env (cs.filter (inQv env)))
      IO.println ("{\"side\": \"handler\", \"list\": \"" ++ l.toString ++ "\", \"op\": \"" ++ op ++
        "\", \"model_functions\": " ++ jArr fns ++ "}")

/-- every `handlers…` list defined in a module under `Qv.Driver` -/
def handlerLists : CoreM (Array Name) := do
  let env ← getEnv
  let mut out : Array Name := #[]
  for i in [0:env.header.moduleNames.size] do
    if (`Qv.Driver).isPrefixOf env.header.moduleNames[i]! then
      for n in env.header.moduleData[i]!.constNames do
        match n with
        | .str _ s => if s.startsWith "handlers" && !n.isInternalDetail then out := out.push n
        | _ => pure ()
  return out

def allHandlerSides : CoreM Unit := do handlerSide (← handlerLists)

end Qv.TieAudit
