"""Python -> Lean translator for a small, explicitly delimited fragment of qubovert (DESIGN.md §7, generated-source tie).

    /venv/bin/python -m harness.translate            # regenerate lean/Qv/Gen/{Source*.lean,manifest.json}

It reads the CURRENT source under $VERIF_REPO (default /repo) with `ast` (the code is never imported or
executed), and renders each function of REGISTRY as a Lean definition in `namespace Qv.Gen`.  The rendering
is structural: one rule per syntactic construct (table in the docstrings below), no rule looks at more
than the construct it translates and the static types of its parts.  Anything outside the fragment makes
the translation of that function fail with status "untranslatable: <construct> at line N"; nothing is
guessed.  `Qv/Proofs/GenEq*.lean` then proves every generated definition equal to the hand-written model
function the property theorems are about, so an edit of one of these functions changes the generated
definition and the equality stops compiling.

Fragment
  values      int literal (a number whose type is fixed by its first use), True/False, None (only where an
              Option type is expected), names of parameters/locals, tuples
  numbers     + - * (join of Nat < Int < Rat; Nat - x is computed in Int), / (Rat), n % m (Nat only),
              -e, abs(e) -> pyAbs, ceil(e) -> pyCeil, int(e) on an int, int.bit_length(e) -> pyBitLength,
              pow(a, n) (n : Nat) -> a ^ n, len(k) -> List.length
  conditions  < <= > >= == != (chains are conjunctions), `is None` / `is not None`, not / and / or
              (truthiness: number e -> e ≠ 0, tuple or list e -> e ≠ [], `not k` -> k = [])
  containers  x[i] on an indexed container -> x i;  k[n], n literal, on a tuple of labels -> pyGet k n;
              t[n] on a pair -> t.1 / t.2;  P.items() / k / list as loop sources;  l.count(a) -> pyCount
  iteration   `for k, v in P.items(): body` without return  -> List.foldl over the association list, the
              accumulator is the tuple of the locals assigned in the body, in source order;
              with `return` in the body -> pyFor and Flow.elim (prelude);
              sum(e for .. in .. if c) -> List.foldl (acc + e) 0;  [e for i in k] / map(lambda i: e, k)
              -> List.map;  all(l) on numbers -> pyAllNum
  statements  x = e, a, b = e, x op= e, if/elif/else (the statements after an `if` are continued in both
              branches), return, raise <Exc>(..) -> Except.error (the function then returns Except Err _),
              `if <name or name[n]> is None` narrows the Option type of that name in the other branch,
              calls of other REGISTRY functions
  effects     statements listed in the entry's `effects` table append a fixed constant to the effect list
              the generated function returns (used for `self += lam * P` and the like); `{x}` / `{x:Rat}` in the
              constant's text is the translated value of the local `x`, which must occur in the statement;
              `store`: `L[key] += e` / `L[key] -= e` append `(key, e)` / `(key, -e)`;
              `store_ops`: `L[key] = e`, `+=`, `-=`, `*=` append `SOp.set/add/mul` (reading `L` after, or in a loop
              in which, it is written is rejected); `effects_with_return`: the returned value paired with the list

Extensions (round 3; meaning of the primitives: lean/Qv/Gen/Prelude{M,Obj,Pcbo,Cons,Store,Brute}.lean)
  monadic     registry `monadic=True`: every operation that may raise is an `Except Err` action bound with `>>=` in
              Python's evaluation order (left operand, right operand, operator; arguments left to right; the frame of
              a statement wraps it and its continuation); operands of `and`/`or` after the first, comprehension /
              lambda bodies and later comparators must be pure; `for` without `return` -> pyForM; `a if c else b`
              with raising operands evaluates only the chosen one; `x / y` with `y` not a non-zero literal -> pyDiv
  objects     `a + b`, `-`, `*`, `** n`, unary `-` on a number / dict / model value -> Val.add/sub/mul/pow/neg
              (Qv/Model/Expr.lean); an int literal as such an operand -> Val.num; a value passed where a
              label-or-value is expected -> SVal.val; `isinstance(x, qv.BOOLEAN_MODELS)`, `isinstance(x, dict)`,
              `x.copy()`, `qv.PUBO()` / `qv.PUBO({…})` / `qv.PUBO(x)` (`qv` must be `import qubovert as qv`),
              `{(x,): 1}` (x as a label: pyLabel), `PCBO()` -> pyNewPCBO, a PCBO as an operand -> St.val,
              `recv.add_constraint_eq_zero(P, lam, bounds=(lo, hi))` -> pyAddEqZero, `recv.add_constraint_X(…)` ->
              the registered method of the same class (keyword-only `lam` with its default)
  sequences   `*args` parameters and `f(*l)` / `f(a, b)` calls into them; `l[i]` (literal i, negative from the end)
              -> pyIndex (IndexError); `l[a:b]` -> pySlice; `*head, a, b = l` -> pyUnpackAtLeast + pySlice +
              pyIndex; `range(n)` -> pyRangeNat; `[e, …]`, `[x] * n` -> pyRepeat; `a << n` -> a * 2^n; `n // d`
              (d a positive literal); `(a,) + k` on keys -> `++`; `k[1:]` on a key; `P.values()`, `P.keys()`,
              iterating a dict = its keys, `tuple(it)` = the same list, `P.offset` -> pyOffset,
              `max(…)`/`min(…)` -> pyMax/pyMin (ValueError when empty), `map(abs, l)`, `all(c for x in l)`,
              `set(l) == {…}` -> pySetEq, `d.setdefault(k, []).append(x)` -> pySetdefaultAppend,
              `X is None or B` inside a condition (B evaluated only when X is not None),
              `reduce(op, it, init)` with `op` from `operator` (and `it` possibly `map(F, l)`) -> the left fold
  functions   self-recursion with a registry `measure` (termination_by, discharged by `py_decreasing`; the tests of
              the enclosing `if`s are available to it); generators (`yield`) registered `generator=True` -> the
              list of yielded pairs; functions nested in a function (`outer.inner`); `loop_body` partial
              translations may identify the loop by a marker statement alone; `isinstance(k, tuple)` on a key is
              statically true (`a if isinstance(k, tuple) else b` keeps `a`)
  reshapings  (exact syntactic equivalences, accepted so that harmless refactorings keep the tie; robustness round)
              `continue` in a loop body -> what the loop does after one pass of its body, with the locals as they are
              (so `if c: A; continue` + rest  ==  `if c: A else: rest`);  `a = b = <int literal>` -> `a = …; b = …`;
              a partial translation's loop `for <targets> in <source>` is also found under renamed target variables
              (alpha-renamed back to the registry's names, which must be fresh in the function);
              a registered NESTED function that is no longer inside its outer function is looked up as the one private
              module-level function (bound once, by `def`) the outer function calls (a closure-free helper hoisted to
              module level, possibly renamed); calls of it resolve to the same generated definition;
              a call `f(x)` of a nested `def f(p): return e` (bound once; e reads only p and non-locals) on a plain
              local -> e with p replaced by x
Each generated unit goes to its own file (UNITS) so that a source edit in one cannot disturb the obligations that
use another; `not_translated` in the manifest lists, per function, what is deliberately outside the translation.
"""
import ast, hashlib, json, os, re, sys

ROOT = os.path.dirname(os.path.dirname(os.path.abspath(__file__)))
GEN_DIR = os.path.join(ROOT, "lean", "Qv", "Gen")


def repo():
    return os.environ.get("VERIF_REPO", "/repo")


class Untranslatable(Exception):
    def __init__(self, what, node=None):
        line = getattr(node, "lineno", None)
        Exception.__init__(self, "%s at line %s" % (what, line) if line else what)


# ------------------------------------------------------------------------------------------- types

class Ty:
    pass


class Simple(Ty):
    def __init__(self, name, lean):
        self.name, self.lean = name, lean

    def __repr__(self):
        return self.name


RAT, INT, NAT = Simple("Rat", "Rat"), Simple("Int", "Int"), Simple("Nat", "Nat")
BOOL, PROP, VAR, KEY = Simple("Bool", "Bool"), Simple("Prop", "Prop"), Simple("Var", "Var"), Simple("Key", "Key")
POLY, ASSIGN, UNIT, EFF = Simple("Poly", "Poly"), Simple("Assign", "(Var → Rat)"), Simple("Unit", "Unit"), Simple("Eff", "Eff")
OPAQUE = Simple("Opaque", "Unit")     # `self` and the like: may only occur inside effect statements
# object fragment (Qv/Gen/PreludeObj.lean): a number / plain dict / model object; an argument that may also be a label
VAL, SVAL = Simple("Val", "Val"), Simple("SVal", "SVal")
BASSIGN = Simple("Brute.Assign", "Brute.Assign")       # an assignment dict built by _solve_bruteforce (opaque)
ALLSOLS = Simple("Brute.AllSols", "Brute.AllSols")      # its `all_sols`: dict None/number -> list of assignments
ST = Simple("St", "St")               # a PCBO object in the logic-constraint methods (Qv/Gen/PreludePcbo.lean)
CLASS_NEW = {"PCBO": (ST, "pyNewPCBO")}
KINDS = {"QUBO": ".qubo", "PUBO": ".pubo", "PCBO": ".pcbo", "QUSO": ".quso", "PUSO": ".puso", "PCSO": ".pcso"}
NUM_ORDER = [NAT, INT, RAT]


class TV(Ty):
    """type of an integer literal until its first use fixes it"""
    n = 0
    all = {}

    def __init__(self):
        TV.n += 1
        self.id, self.ref = TV.n, None
        TV.all[self.id] = self


class TTuple(Ty):
    def __init__(self, elts):
        self.elts = list(elts)


class TOpt(Ty):
    def __init__(self, elt):
        self.elt = elt


class TList(Ty):
    def __init__(self, elt):
        self.elt = elt


class TSet(Ty):
    """a Python set of numbers, kept as a list; only `==` between sets is translated (pySetEq)"""
    def __init__(self, elt):
        self.elt = elt


def res(t):
    while isinstance(t, TV) and t.ref is not None:
        t = t.ref
    return t


def lean_ty(t, top=True):
    t = res(t)
    if isinstance(t, TV):
        return "⟦T%d⟧" % t.id
    if isinstance(t, Simple):
        return t.lean
    if isinstance(t, TTuple):
        s = " × ".join(lean_ty(e, False) for e in t.elts)
        return s if top else "(" + s + ")"
    if isinstance(t, TOpt):
        s = "Option " + lean_ty(t.elt, False)
    else:
        s = "List " + lean_ty(t.elt, False)       # TList and TSet
    return s if top else "(" + s + ")"


def same(a, b):
    a, b = res(a), res(b)
    if a is b:
        return True
    if type(a) is not type(b):
        return False
    if isinstance(a, TTuple):
        return len(a.elts) == len(b.elts) and all(same(x, y) for x, y in zip(a.elts, b.elts))
    if isinstance(a, (TOpt, TList)):
        return same(a.elt, b.elt)
    return False


def is_num(t):
    t = res(t)
    return isinstance(t, TV) or t in NUM_ORDER


def num_join(a, b):
    a, b = res(a), res(b)
    if isinstance(a, TV):
        if a is not b:
            a.ref = b
        return b
    if isinstance(b, TV):
        b.ref = a
        return a
    return NUM_ORDER[max(NUM_ORDER.index(a), NUM_ORDER.index(b))]


def join(a, b, node=None):
    a, b = res(a), res(b)
    if same(a, b):
        return a
    if is_num(a) and is_num(b):
        return num_join(a, b)
    if isinstance(a, TTuple) and isinstance(b, TTuple) and len(a.elts) == len(b.elts):
        return TTuple([join(x, y, node) for x, y in zip(a.elts, b.elts)])
    if a in (BOOL, PROP) and b in (BOOL, PROP):
        return BOOL
    if (a is VAL and is_num(b)) or (b is VAL and is_num(a)):
        return VAL
    if isinstance(a, TOpt) and not isinstance(b, TOpt):
        return TOpt(join(a.elt, b, node))
    if isinstance(b, TOpt) and not isinstance(a, TOpt):
        return TOpt(join(a, b.elt, node))
    raise Untranslatable("values of types %s and %s meet" % (lean_ty(a), lean_ty(b)), node)


def coerce(s, frm, to, node=None):
    frm, to = res(frm), res(to)
    if same(frm, to):
        return s
    if isinstance(frm, TV) and is_num(to):
        frm.ref = to
        return s
    if isinstance(to, TV) and is_num(frm):
        to.ref = frm
        return s
    if frm in NUM_ORDER and to in NUM_ORDER and NUM_ORDER.index(frm) < NUM_ORDER.index(to):
        return "(%s.cast %s : %s)" % (frm.lean, s, to.lean)
    if to is VAL and (isinstance(frm, TV) or frm in NUM_ORDER):
        if isinstance(frm, TV):
            frm.ref = VAL               # an int literal used as an operand of object arithmetic
            return s
        return "(Val.num %s)" % coerce(s, frm, RAT, node)
    if frm is VAL and to is SVAL:
        return "(SVal.val %s)" % s
    if frm is ST and to is VAL:
        return "(St.val %s)" % s
    if frm is ST and to is SVAL:
        return "(SVal.val (St.val %s))" % s
    if frm is PROP and to is BOOL:
        return "(decide %s)" % s
    if frm is BOOL and to is PROP:
        return "(%s = true)" % s
    if isinstance(to, TOpt) and not isinstance(frm, TOpt):
        return "(some %s)" % coerce(s, frm, to.elt, node)
    if isinstance(frm, TTuple) and isinstance(to, TTuple) and len(frm.elts) == len(to.elts):
        parts = [coerce(proj(s, i, len(frm.elts)), f, t, node) for i, (f, t) in enumerate(zip(frm.elts, to.elts))]
        return "(" + ", ".join(parts) + ")"
    raise Untranslatable("a %s where a %s is needed" % (lean_ty(frm), lean_ty(to)), node)


def proj(s, i, n):
    """i-th component of an n-tuple (nested pairs)"""
    if n == 1:
        return s
    return s + ".2" * i + (".1" if i < n - 1 else "")


RESERVED = {"fun", "end", "open", "by", "at", "do", "then", "show", "have", "let", "match", "with", "where",
            "deriving", "instance", "theorem", "def", "namespace", "section", "variable", "universe", "Type",
            "Prop", "Sort", "mut", "from", "using", "calc", "macro", "syntax", "structure", "inductive",
            "class", "extends", "example", "abbrev", "private", "protected", "partial", "noncomputable"}


def mangle(name):
    if name.startswith("_py"):
        raise Untranslatable("identifier %s collides with the translator's own names" % name)
    return name + "'" if name in RESERVED else name


# ------------------------------------------------------------------------------------------- registry

OPT_BOUNDS = lambda: TOpt(TTuple([TOpt(RAT), TOpt(RAT)]))   # noqa: E731
PARAM_TYPES = {
    "Poly": lambda: POLY, "Assign": lambda: ASSIGN, "Rat": lambda: RAT, "Bool": lambda: BOOL,
    "Nat": lambda: NAT, "Int": lambda: INT, "Key": lambda: KEY, "Values": lambda: TList(RAT),
    "OptBounds": OPT_BOUNDS, "Opaque": lambda: OPAQUE,
    "Val": lambda: VAL, "SVal": lambda: SVAL, "SVals": lambda: TList(SVAL), "St": lambda: ST,
    "KeyRats": lambda: TList(TTuple([KEY, RAT])),
    "BAssign": lambda: BASSIGN, "AllSols": lambda: ALLSOLS, "Best": lambda: TTuple([TOpt(RAT), BASSIGN]),
}

EQ_ZERO_EFFECTS = {
    "self += lam * P": "Eff.iaddLamP",
    "self -= lam * P": "Eff.isubLamP",
    "self += lam * P * P": "Eff.iaddLamPP",
    "QUBOVertWarning.warn('Constraint is always satisfied')": 'Eff.warn "always"',
    "QUBOVertWarning.warn('Constraint cannot be satisfied')": 'Eff.warn "unsat"',
}

# (file, qualified name) -> lean name, parameter typing (must list the Python parameters in order),
# property the equivalence theorem belongs to, module of Qv/Proofs/GenEq holding that theorem.
REGISTRY = [
    dict(file="qubovert/utils/_approximate_extrema.py", func="approximate_pubo_extrema",
         params=[("P", "Poly")], props=["C15", "C02", "C03", "C06"], group="Extrema"),
    dict(file="qubovert/utils/_approximate_extrema.py", func="approximate_puso_extrema",
         params=[("H", "Poly")], props=["C15"], group="Extrema"),
    dict(file="qubovert/utils/_approximate_extrema.py", func="approximate_qubo_extrema",
         params=[("Q", "Poly")], props=["C15"], group="Extrema"),
    dict(file="qubovert/utils/_approximate_extrema.py", func="approximate_quso_extrema",
         params=[("L", "Poly")], props=["C15"], group="Extrema"),
    dict(file="qubovert/utils/_values.py", func="pubo_value", params=[("x", "Assign"), ("P", "Poly")],
         props=["C05"], group="Values"),
    dict(file="qubovert/utils/_values.py", func="qubo_value", params=[("x", "Assign"), ("Q", "Poly")],
         props=["C05"], group="Values"),
    dict(file="qubovert/utils/_values.py", func="puso_value", params=[("z", "Assign"), ("H", "Poly")],
         props=["C05"], group="Values"),
    dict(file="qubovert/utils/_values.py", func="quso_value", params=[("z", "Assign"), ("L", "Poly")],
         props=["C05"], group="Values"),
    dict(file="qubovert/_pubo.py", func="PUBO.default_lam", lean="default_lam", params=[("v", "Rat")],
         props=["C01"], group="Lam", extra_theorems=["default_lam_eq_app"]),
    dict(file="qubovert/utils/_binary_helpers.py", func="num_bits",
         params=[("val", "Rat"), ("log_trick", "Bool")], props=["C02", "C03", "C06"], group="Bits",
         extra_theorems=["num_bits_neg"]),
    dict(file="qubovert/utils/_binary_helpers.py", func="is_solution_spin",
         params=[("solution", "Values"), ("default", "Bool")], props=["C04"], group="Convert"),
    dict(file="qubovert/_pcbo.py", func="_get_bounds", lean="get_bounds",
         params=[("P", "Poly"), ("bounds", "OptBounds")], props=["C02", "C03", "C06"], group="Bounds",
         extra_theorems=["get_bounds_none_eq_model"]),
    # only the statements after `min_val, max_val = _get_bounds(P, bounds)`: the if/elif chain on the bounds,
    # which warning is raised and which penalty is added
    dict(file="qubovert/_pcbo.py", func="PCBO.add_constraint_eq_zero", lean="add_constraint_eq_zero_decision",
         params=[("self", "Opaque"), ("P", "Opaque"), ("lam", "Opaque"), ("bounds", "Opaque"),
                 ("suppress_warnings", "Bool")],
         after="min_val, max_val = _get_bounds(P, bounds)", locals=[("min_val", "Rat"), ("max_val", "Rat")],
         effects=EQ_ZERO_EFFECTS, returns_effects="self", props=["C02", "C03", "C06"], group="Bounds"),
    # only the body of the loop after `k = squash_key(kp)`: the updates one term (k, v) produces
    dict(file="qubovert/utils/_conversions.py", func="qubo_to_quso", lean="qubo_to_quso_term",
         loop_body=dict(target="kp, v", source="Q.items()", after="k = squash_key(kp)"),
         params=[("k", "Key"), ("v", "Rat")], store="L", may_raise=True, props=["C04"], group="Convert"),
    dict(file="qubovert/utils/_conversions.py", func="quso_to_qubo", lean="quso_to_qubo_term",
         loop_body=dict(target="kp, v", source="L.items()", after="k = squash_key(kp)"),
         params=[("k", "Key"), ("v", "Rat")], store="Q", may_raise=True, props=["C04"], group="Convert"),
]

SAT = "qubovert/sat/_satisfiability.py"
SAT_COMMON = dict(file=SAT, unit="Sat", group="Sat", props=["C07"], monadic=True, returns="Val")
REGISTRY += [
    dict(SAT_COMMON, func="BUFFER", params=[("x", "SVal")]),
    dict(SAT_COMMON, func="NOT", params=[("x", "SVal")]),
    dict(SAT_COMMON, func="AND", params=[], vararg=("variables", "SVals")),
    dict(SAT_COMMON, func="NAND", params=[], vararg=("variables", "SVals")),
    dict(SAT_COMMON, func="OR", params=[], vararg=("variables", "SVals"), measure="len(variables)"),
    dict(SAT_COMMON, func="NOR", params=[], vararg=("variables", "SVals")),
    dict(SAT_COMMON, func="XOR", params=[], vararg=("variables", "SVals"), measure="len(variables)"),
    dict(SAT_COMMON, func="XNOR", params=[], vararg=("variables", "SVals"), extra_theorems=["gates_eq_applyGate"]),
]

# ---- decision chains of the other PCBO comparison constraints (C02; also C03, C06 which go through them)
CONS_EFFECTS = {
    "QUBOVertWarning.warn('Constraint is always satisfied')": 'CEff.warn "always"',
    "QUBOVertWarning.warn('Constraint cannot be satisfied')": 'CEff.warn "unsat"',
    "self += lam * P": "CEff.iaddLamP",
    "self += lam": "CEff.iaddLam",
    "P = P + 1": "CEff.pAddOne",
    "P = P.copy()": "CEff.pCopy",
    "P[(self._next_ancilla,)] += v": "CEff.slack {v:Rat}",
    "sign = 2 * boolean_var(self._next_ancilla) - 1": "CEff.newSign",
    "P += sign": "CEff.pAddSign",
    "P += sign * v * boolean_var(self._next_ancilla)": "CEff.pAddSignAnc {v:Rat}",
    "self.add_constraint_eq_zero(P, lam=lam, bounds=(min_val, max_val), suppress_warnings=True)":
        "CEff.callEq {min_val} {max_val}",
    "self.add_constraint_le_zero(P, lam=lam, log_trick=log_trick, bounds=(min_val, max_val), suppress_warnings=True)":
        "CEff.callLe {min_val} {max_val}",
    "self.add_constraint_lt_zero(-P, lam=lam, log_trick=log_trick, bounds=bounds, suppress_warnings=suppress_warnings)":
        "CEff.callLtNeg {bounds} {suppress_warnings}",
    "self.add_constraint_le_zero(-P, lam=lam, log_trick=log_trick, bounds=bounds, suppress_warnings=suppress_warnings)":
        "CEff.callLeNeg {bounds} {suppress_warnings}",
    "self.add_constraint_gt_zero(P, lam=lam, bounds=(min_val, max_val), suppress_warnings=suppress_warnings)":
        "CEff.callGt {min_val} {max_val} {suppress_warnings}",
    "self.add_constraint_lt_zero(P, lam=lam, bounds=(min_val, max_val), suppress_warnings=suppress_warnings)":
        "CEff.callLt {min_val} {max_val} {suppress_warnings}",
    "self._pop_constraint('eq')": 'CEff.pop "eq"', "self._pop_constraint('le')": 'CEff.pop "le"',
    "self._pop_constraint('lt')": 'CEff.pop "lt"', "self._pop_constraint('gt')": 'CEff.pop "gt"',
}
CONS_PARAMS = [("self", "Opaque"), ("P", "Opaque"), ("lam", "Opaque"), ("log_trick", "Bool"), ("bounds", "Opaque"),
               ("suppress_warnings", "Bool")]
CONS_NOT = ["`P = PUBO(P)`, `self._append_constraint(rel, P)`, `if not lam: return self`, the call of `_get_bounds` "
            "(tied separately: get_bounds)", "the opaque statements on self / P listed in CONS_EFFECTS are named, not "
            "translated (their meaning: runCEff in Qv/Proofs/GenEq/Cons.lean)"]
CONS_COMMON = dict(file="qubovert/_pcbo.py", unit="Cons", group="Cons", props=["C02", "C03", "C06"], monadic=True,
                   params=CONS_PARAMS, locals=[("min_val", "Rat"), ("max_val", "Rat")], effects=CONS_EFFECTS,
                   eff_type="CEff", returns_effects="self", not_translated=CONS_NOT)
REGISTRY += [
    dict(CONS_COMMON, func="PCBO.add_constraint_lt_zero", lean="add_constraint_lt_zero_decision",
         after="min_val, max_val = _get_bounds(P, bounds)"),
    dict(CONS_COMMON, func="PCBO.add_constraint_le_zero", lean="add_constraint_le_zero_decision",
         after="if _special_constraints_le_zero(self, P, lam, log_trick, bounds):\n    return self",
         not_translated=CONS_NOT + ["`_special_constraints_le_zero` (its four structural shortcuts)"]),
    dict(CONS_COMMON, func="PCBO.add_constraint_gt_zero", lean="add_constraint_gt_zero_decision",
         after="min_val, max_val = _get_bounds(P, bounds)"),
    dict(CONS_COMMON, func="PCBO.add_constraint_ge_zero", lean="add_constraint_ge_zero_decision",
         after="min_val, max_val = _get_bounds(P, bounds)"),
    dict(CONS_COMMON, func="PCBO.add_constraint_ne_zero", lean="add_constraint_ne_zero_decision",
         after="min_val, max_val = _get_bounds(P, bounds)"),
]

LE_SPECIAL_EFFECTS = {
    "pcbo += lam * P * P_wo_offset / 2": "LEff.sum1",
    "ancillas = PUBO()": "LEff.newAncillas",
    "ancillas[(pcbo._next_ancilla,)] += 1": "LEff.ancilla",
    "diff = P_wo_offset - ancillas": "LEff.diff",
    "pcbo += lam * diff * diff": "LEff.addDiffSq",
    "variables = tuple(P_wo_offset.keys())": "LEff.keysOfPwo",
    "x, y = AND(*variables[0]), AND(*variables[1])": "LEff.xyOfKeys",
    "pcbo += PCBO().add_constraint_OR(x, y, lam=lam)": "LEff.addOrPenalty",
    "coef = {v: k for k, v in P.items()}": "LEff.coef",
    "x, y = AND(*coef[1]), AND(*coef[-1])": "LEff.xyOfCoef",
    "pcbo += lam * x * (1 - y)": "LEff.addXnotY",
}
REGISTRY += [
    # the four structural shortcuts of `add_constraint_le_zero`: which one applies (conditions and their order), how
    # many unary slack ancillas the second one takes, and which statements run
    dict(file="qubovert/_pcbo.py", func="_special_constraints_le_zero", lean="special_constraints_le_zero_decision",
         unit="Cons", group="ConsSpecial", props=["C02", "C03", "C06"], monadic=True,
         params=[("pcbo", "Opaque"), ("P", "Poly"), ("lam", "Opaque"), ("log_trick", "Bool"), ("bounds", "Opaque")],
         after="P_wo_offset = P - P.offset",
         locals=[("min_val", "Rat"), ("max_val", "Rat"), ("P_wo_offset", "Poly")],
         effects=LE_SPECIAL_EFFECTS, eff_type="LEff", effects_with_return=True,
         not_translated=["`min_val, max_val = bounds` and `P_wo_offset = P - P.offset` (their values are parameters of "
                         "the generated function)", "the statements that build and add the penalty are named (LEff), not "
                         "translated; their meaning: runLEff in Qv/Proofs/GenEq/ConsSpecial.lean"]),
]

# ---- the sixteen logic-constraint methods of PCBO (C06), whole bodies
LOGIC_COMMON = dict(file="qubovert/_pcbo.py", unit="Logic", group="Logic", props=["C06"], monadic=True, returns="St",
                    kwonly=[("lam", "Rat", "1")],
                    not_translated=["the callee `add_constraint_eq_zero` (read as the prelude's pyAddEqZero = model eqZeroV; "
                                    "its own decision chain is tied separately)"])
LOGIC_VAR = dict(LOGIC_COMMON, params=[("self", "St")], vararg=("variables", "SVals"))
LOGIC_EQ_VAR = dict(LOGIC_COMMON, params=[("self", "St"), ("a", "SVal")], vararg=("variables", "SVals"))
REGISTRY += [
    dict(LOGIC_COMMON, func="PCBO.add_constraint_NOT", params=[("self", "St"), ("a", "SVal")]),
    dict(LOGIC_COMMON, func="PCBO.add_constraint_BUFFER", params=[("self", "St"), ("a", "SVal")]),
    dict(LOGIC_VAR, func="PCBO.add_constraint_AND"),
    dict(LOGIC_VAR, func="PCBO.add_constraint_NAND"),
    dict(LOGIC_VAR, func="PCBO.add_constraint_OR"),
    dict(LOGIC_VAR, func="PCBO.add_constraint_XOR"),
    dict(LOGIC_VAR, func="PCBO.add_constraint_NOR"),
    dict(LOGIC_VAR, func="PCBO.add_constraint_XNOR"),
    dict(LOGIC_EQ_VAR, func="PCBO.add_constraint_eq_AND"),
    dict(LOGIC_EQ_VAR, func="PCBO.add_constraint_eq_NAND"),
    dict(LOGIC_EQ_VAR, func="PCBO.add_constraint_eq_OR"),
    dict(LOGIC_EQ_VAR, func="PCBO.add_constraint_eq_NOR"),
    dict(LOGIC_EQ_VAR, func="PCBO.add_constraint_eq_XOR"),
    dict(LOGIC_EQ_VAR, func="PCBO.add_constraint_eq_XNOR"),
    dict(LOGIC_COMMON, func="PCBO.add_constraint_eq_BUFFER", params=[("self", "St"), ("a", "SVal"), ("b", "SVal")]),
    dict(LOGIC_COMMON, func="PCBO.add_constraint_eq_NOT", params=[("self", "St"), ("a", "SVal"), ("b", "SVal")]),
]

# ---- the six PCSO comparison constraints (C03): whole bodies, every statement but `if not lam` is opaque
def _pcso_effects(rel, log_trick):
    call = "h = _empty_pcbo(self).add_constraint_%s_zero(puso_to_pubo(H), lam=lam, %sbounds=bounds, " \
           "suppress_warnings=suppress_warnings)" % (rel, "log_trick=log_trick, " if log_trick else "")
    return {
        "H = PUSO(H)": "SEff.spinCopy",
        "self._append_constraint('%s', H)" % rel: 'SEff.append "%s"' % rel,
        call: 'SEff.helper "%s"' % rel,
        "self._ancilla = h._ancilla": "SEff.copyAncilla",
        "self += pubo_to_puso(h)": "SEff.iaddConverted",
    }


for _rel in ("eq", "ne", "lt", "le", "gt", "ge"):
    _lt = _rel != "eq"
    REGISTRY.append(dict(
        file="qubovert/_pcso.py", unit="Pcso", group="PcsoCons", props=["C03"],
        func="PCSO.add_constraint_%s_zero" % _rel, lean="pcso_add_constraint_%s_zero" % _rel,
        params=[("self", "Opaque"), ("H", "Opaque"), ("lam", "Rat")] + ([("log_trick", "Opaque")] if _lt else []) +
               [("bounds", "Opaque"), ("suppress_warnings", "Opaque")],
        effects=_pcso_effects(_rel, _lt), eff_type="SEff", returns_effects="self",
        not_translated=["every statement except `if not lam: return self` is opaque and named (SEff); what each "
                        "does: runSEff in Qv/Proofs/GenEq/PcsoCons.lean"]))

# ---- brute force (C09): the bookkeeping one visited assignment produces
REGISTRY += [
    dict(file="qubovert/utils/_solve_bruteforce.py", func="_solve_bruteforce", lean="solve_bruteforce_update",
         unit="Brute", group="Brute", props=["C09"],
         loop_body=dict(after="v = value(x, D)"),        # the enumeration loop: the one containing this statement
         params=[("all_solutions", "Bool")],
         locals=[("best", "Best"), ("all_sols", "AllSols"), ("x", "BAssign"), ("v", "Rat")],
         loop_state=[("best", "Best"), ("all_sols", "AllSols")],
         not_translated=["everything but the statements after `v = value(x, D)` in the enumeration loop: the "
                         "empty / constant shortcuts, the variable list, itertools.product, the dict "
                         "comprehension, `if not valid(x): continue`, the final `all_sols[best[0]]`"]),
]

# ---- pubo_to_puso / puso_to_pubo (C04): the recursive generator of the expansion of one key, and the updates one term
# (k, v) produces
CONV = "qubovert/utils/_conversions.py"
for _f, _src, _store in (("pubo_to_puso", "P", "H"), ("puso_to_pubo", "H", "P")):
    REGISTRY += [
        dict(file=CONV, func=_f + ".generate_new_key_value", lean=_f + "_generate", nested=True, generator=True,
             unit="Conv", group="ConvGen", props=["C04"], params=[("k", "Key")], returns="KeyRats", measure="len(k)"),
        dict(file=CONV, func=_f, lean=_f + "_term", unit="Conv", group="ConvGen", props=["C04"],
             loop_body=dict(target="k, v", source=_src + ".items()"), params=[("k", "Key"), ("v", "Rat")], store=_store,
             not_translated=["the choice of the result type (`PUSOMatrix() if type(P) in … else qv.PUSO()`) and the "
                             "outer loop over `.items()`; `%s[key] += c` is recorded as the update `(key, c)`" % _store]),
    ]

# ---- normalize (C18): the function and the DictArithmetic method; item statements of the DictArithmetic operators (C05)
DA = "qubovert/utils/_dict_arithmetic.py"
STORE_NOTE = "the container written to is opaque: each item statement is recorded as an SOp (Qv/Gen/PreludeStore.lean); " \
             "what a store does for a container type is the model's Ty.store / addTerm / mulItem"
REGISTRY += [
    dict(file="qubovert/utils/_normalize.py", func="normalize", lean="normalize_fn", unit="Store", group="Normalize",
         props=["C18"], monadic=True, params=[("D", "Poly"), ("value", "Rat")], after="res = type(D)()",
         store="res", store_ops=True, returns_effects="res", not_translated=["`res = type(D)()`", STORE_NOTE]),
    dict(file=DA, func="DictArithmetic.normalize", lean="normalize_method", unit="Store", group="Normalize",
         props=["C18"], monadic=True, params=[("self", "Poly"), ("value", "Rat")], store="self", store_ops=True,
         not_translated=[STORE_NOTE]),
    dict(file=DA, func="DictArithmetic.__iadd__", lean="dict_iadd_term", unit="Store", group="ArithTerms", props=["C05"],
         loop_body=dict(target="k, v", source="other.items()"), params=[("k", "Key"), ("v", "Rat")],
         store="self", store_ops=True, not_translated=["the `isinstance(other, dict)` dispatch and the constant branch", STORE_NOTE]),
    dict(file=DA, func="DictArithmetic.__isub__", lean="dict_isub_term", unit="Store", group="ArithTerms", props=["C05"],
         loop_body=dict(target="k, v", source="tuple(other.items())"), params=[("k", "Key"), ("v", "Rat")],
         store="self", store_ops=True, not_translated=["the `isinstance(other, dict)` dispatch and the constant branch", STORE_NOTE]),
    dict(file=DA, func="DictArithmetic.__imul__", lean="dict_imul_row", unit="Store", group="ArithTerms", props=["C05"],
         loop_body=dict(target="k, v", source="items"), params=[("k", "Key"), ("v", "Rat")], locals=[("oitems", "KeyRats")],
         store="self", store_ops=True,
         not_translated=["the dispatch, the snapshots `items, oitems = …`, `self.clear()` and the outer loop; the "
                         "`else (k,)` operands of `k if isinstance(k, tuple) else (k,)` (keys are tuples)", STORE_NOTE]),
    dict(file=DA, func="DictArithmetic.__imul__", lean="dict_imul_const_term", unit="Store", group="ArithTerms", props=["C05"],
         loop_body=dict(target="k", source="tuple(self.keys())"), params=[("k", "Key")], locals=[("other", "Rat")],
         store="self", store_ops=True, not_translated=["the dispatch and the loop over the key snapshot", STORE_NOTE]),
]

BUILTINS = {"abs", "len", "int", "pow", "sum", "all", "map", "isinstance", "dict", "set", "range", "tuple", "max", "min"}
EXC = {"KeyError": "Err.key", "ValueError": "Err.value", "TypeError": "Err.type", "IndexError": "Err.index",
       "ZeroDivisionError": "Err.zerodiv", "AttributeError": "Err.attr"}


# ------------------------------------------------------------------------------------------- translator

class Fn:
    """translation of one function"""

    def __init__(self, entry, module_src, fnode, done):
        self.e, self.src, self.fnode, self.done = entry, module_src, fnode, done
        self.ret_ty = None        # fixed in the second pass
        self.ret_seen = []
        self.raises = bool(entry.get("may_raise")) or any(isinstance(n, ast.Raise) for n in ast.walk(fnode))
        self.effects = {ast.dump(ast.parse(k).body[0]): v for k, v in entry.get("effects", {}).items()}
        self.store = entry.get("store")
        self.eff_ty = None
        if self.effects:
            self.eff_ty = Simple(entry["eff_type"], entry["eff_type"]) if "eff_type" in entry else EFF
        elif entry.get("store_ops"):
            self.eff_ty = Simple("SOp", "SOp")      # item statements on the opaque container (Qv/Gen/PreludeStore.lean)
        elif self.store or entry.get("generator"):
            self.eff_ty = TTuple([KEY, RAT])        # `L[key] += c` updates / the (key, value) pairs a generator yields
        self.extra_params = []
        self.monadic = bool(entry.get("monadic"))     # operations that may raise are Except actions, sequenced with >>=
        if self.monadic:
            self.raises = True
        self.pend, self.nbind, self.nhyp = [[]], 0, 0
        self.stored, self.in_store_loop = False, 0
        self.recursive = False
        self.own_name = entry["func"].split(".")[-1]

    # ---- operations that may raise (monadic mode)

    def bind(self, action, ty, node):
        """the value of an action that may raise: a fresh name bound with >>= around the enclosing statement"""
        if not self.monadic:
            raise Untranslatable("an operation that may raise, in a function not translated in monadic mode", node)
        self.nbind += 1
        name = "_py_m%d" % self.nbind
        self.pend[-1].append((name, ty, action))
        return name, ty

    def wrap(self, frame, text, pad):
        for name, ty, action in reversed(frame):
            text = "(%s >>= fun (%s : %s) =>\n%s%s)" % (action, name, lean_ty(ty), pad, text)
        return text

    def pure_only(self, f, what, node):
        """evaluate f() where no operation that may raise is allowed (short-circuit operands, lambda bodies)"""
        self.pend.append([])
        try:
            out = f()
        finally:
            frame = self.pend.pop()
        if frame:
            raise Untranslatable("an operation that may raise inside %s" % what, node)
        return out

    def framed(self, f):
        self.pend.append([])
        try:
            out = f()
        finally:
            frame = self.pend.pop()
        return out, frame

    # ---- expressions -> (lean string, type)

    def lit(self, n, node):
        if isinstance(n, bool):
            return ("true" if n else "false"), BOOL
        if isinstance(n, int):
            t = TV()
            return ("(%d : %s)" % (n, lean_ty(t)) if n >= 0 else "(-%d : %s)" % (-n, lean_ty(t))), t
        raise Untranslatable("literal %r" % (n,), node)

    def expr(self, n, env, expected=None):
        if isinstance(n, ast.Constant):
            if n.value is None:
                if expected is not None and isinstance(res(expected), TOpt):
                    return "none", res(expected)
                raise Untranslatable("None where no Option type is expected", n)
            return self.lit(n.value, n)
        if isinstance(n, ast.Name):
            if n.id not in env:
                raise Untranslatable("name %s is not a parameter or an assigned local" % n.id, n)
            if res(env[n.id]) is OPAQUE:
                raise Untranslatable("opaque parameter %s used outside an effect statement" % n.id, n)
            if self.e.get("store_ops") and n.id == self.store and (getattr(self, "stored", False) or self.in_store_loop):
                raise Untranslatable("the container %s is read after (or in a loop in which) it is written" % n.id, n)
            return mangle(n.id), env[n.id]
        if isinstance(n, ast.Tuple):
            exp = res(expected) if expected is not None else None
            if isinstance(exp, TTuple) and len(exp.elts) == len(n.elts):
                parts = [self.expr(x, env, t) for x, t in zip(n.elts, exp.elts)]
            else:
                parts = [self.expr(x, env) for x in n.elts]
            if all(res(t) is VAR for _, t in parts):          # a tuple of labels is a key (`()` included)
                return "[" + ", ".join(s for s, _ in parts) + "]", KEY
            if len(parts) == 1:
                raise Untranslatable("1-tuple of non-labels", n)
            return "(" + ", ".join(s for s, _ in parts) + ")", TTuple([t for _, t in parts])
        if isinstance(n, ast.UnaryOp):
            if isinstance(n.op, ast.USub):
                if isinstance(n.operand, ast.Constant) and isinstance(n.operand.value, int) \
                        and not isinstance(n.operand.value, bool):
                    return self.lit(-n.operand.value, n)
                s, t = self.expr(n.operand, env)
                if res(t) is VAL:
                    return self.bind("(Val.neg %s)" % s, VAL, n)
                if not is_num(t):
                    raise Untranslatable("negation of a non-number", n)
                if res(t) is NAT:
                    s, t = coerce(s, t, INT), INT
                return "(-%s)" % s, t
            if isinstance(n.op, ast.Not):
                return self.negation(n.operand, env), PROP
            raise Untranslatable("unary operator %s" % type(n.op).__name__, n)
        if isinstance(n, ast.BinOp):
            return self.binop(n.op, n.left, n.right, env, n)
        if isinstance(n, ast.Compare):
            return self.compare(n, env), PROP
        if isinstance(n, ast.BoolOp):
            # only its truth value is used anywhere in the fragment
            nar = self.narrowing(n.values[0], env) if isinstance(n.op, ast.Or) else None
            if nar and not nar[2]:
                # `X is None or B` where B reads X: B is evaluated only when X is not None
                name, c, _ = nar
                t = res(env[name])
                env_some = dict(env)
                if c is None:
                    scrut, rebind = mangle(name), "let %s : %s := _py_some;" % (mangle(name), lean_ty(t.elt))
                    env_some[name] = t.elt
                else:
                    elts = list(t.elts)
                    elts[c] = res(elts[c]).elt
                    t2 = TTuple(elts)
                    parts = ["_py_some" if i == c else proj(mangle(name), i, len(elts)) for i in range(len(elts))]
                    scrut = proj(mangle(name), c, len(elts))
                    rebind = "let %s : %s := (%s);" % (mangle(name), lean_ty(t2), ", ".join(parts))
                    env_some[name] = t2
                rest = n.values[1] if len(n.values) == 2 else ast.BoolOp(op=ast.Or(), values=n.values[1:])
                r = self.pure_only(lambda: self.cond(rest, env_some), "a short-circuit operand", n)
                return "((match %s with | none => true | some _py_some => %s decide %s) = true)" % (scrut, rebind, r), PROP
            op = " ∧ " if isinstance(n.op, ast.And) else " ∨ "
            parts = [self.cond(n.values[0], env)]
            parts += [self.pure_only(lambda v=v: self.cond(v, env), "a short-circuit operand", v) for v in n.values[1:]]
            return "(" + op.join(parts) + ")", PROP
        if isinstance(n, ast.IfExp) and self.static_tuple_test(n.test, env):
            return self.expr(n.body, env, expected)     # keys are tuples in this universe; the other operand is not translated
        if isinstance(n, ast.IfExp):
            c = self.cond(n.test, env)
            (a, ta), fa = self.framed(lambda: self.expr(n.body, env, expected))
            (b, tb), fb = self.framed(lambda: self.expr(n.orelse, env, expected))
            t = join(ta, tb, n)
            if fa or fb:        # only the chosen operand is evaluated
                ok = "(Except.ok %%s : Except Err %s)" % lean_ty(t, False)
                act = "(if %s then %s else %s)" % (c, self.wrap(fa, ok % coerce(a, ta, t, n), "    "),
                                                   self.wrap(fb, ok % coerce(b, tb, t, n), "    "))
                return self.bind(act, t, n)
            return "(if %s then %s else %s)" % (c, coerce(a, ta, t, n), coerce(b, tb, t, n)), t
        if isinstance(n, ast.Subscript):
            return self.subscript(n, env)
        if isinstance(n, ast.Call):
            return self.call(n, env)
        if isinstance(n, ast.ListComp):
            return self.comprehension(n, env)
        if isinstance(n, ast.Dict):
            return self.dict_literal(n, env)
        if isinstance(n, ast.Attribute) and n.attr == "offset":
            a, ta = self.expr(n.value, env)
            if res(ta) is POLY:
                return "(pyOffset %s)" % a, RAT             # `P.offset` is `P[()]`
            raise Untranslatable(".offset of a %s" % lean_ty(ta), n)
        if isinstance(n, ast.List):
            parts = [self.expr(x, env) for x in n.elts]
            if not parts:
                raise Untranslatable("empty list display", n)
            t = parts[0][1]
            for _, u in parts[1:]:
                t = join(t, u, n)
            return "[" + ", ".join(coerce(v, u, t, n) for v, u in parts) + "]", TList(t)
        if isinstance(n, ast.Set):
            parts = [self.expr(x, env) for x in n.elts]
            if not parts or not all(is_num(t) for _, t in parts):
                raise Untranslatable("set display of non-numbers", n)
            return "[" + ", ".join(coerce(v, t, RAT, n) for v, t in parts) + "]", TSet(RAT)
        raise Untranslatable("expression %s" % type(n).__name__, n)

    def static_tuple_test(self, t, env):
        """`isinstance(k, tuple)` for a `k` whose static type is Key"""
        return isinstance(t, ast.Call) and isinstance(t.func, ast.Name) and t.func.id == "isinstance" and len(t.args) == 2 \
            and not t.keywords and isinstance(t.args[1], ast.Name) and t.args[1].id == "tuple" \
            and isinstance(t.args[0], ast.Name) and t.args[0].id in env and res(env[t.args[0].id]) is KEY \
            and "tuple" not in self.module_names() and "isinstance" not in self.module_names()

    def dict_literal(self, n, env):
        """`{(a, b): c, …}` with tuple-of-labels keys and number values -> a Poly in source order"""
        items = []
        for k, v in zip(n.keys, n.values):
            if not isinstance(k, ast.Tuple):
                raise Untranslatable("dict literal whose key is not a tuple", n)
            labels = []
            for x in k.elts:
                sx, tx = self.expr(x, env)
                if res(tx) is SVAL:
                    sx, tx = self.bind("(pyLabel %s)" % sx, VAR, x)
                if res(tx) is not VAR:
                    raise Untranslatable("dict literal key element that is not a label", x)
                labels.append(sx)
            sv, tv = self.expr(v, env)
            if not is_num(tv):
                raise Untranslatable("dict literal value that is not a number", v)
            items.append("([%s], %s)" % (", ".join(labels), coerce(sv, tv, RAT, v)))
        return "[" + ", ".join(items) + "]", POLY

    def binop(self, op, left, right, env, node):
        a, ta = self.expr(left, env)
        if isinstance(op, ast.Pow) and res(ta) is VAL:
            if not (isinstance(right, ast.Constant) and isinstance(right.value, int) and not isinstance(right.value, bool)):
                raise Untranslatable("** on an object with a non-literal exponent", node)
            return self.bind("(Val.pow %s (%d : Int))" % (a, right.value), VAL, node)
        b, tb = self.expr(right, env)
        if res(ta) in (VAL, ST) or res(tb) in (VAL, ST):
            fn = {ast.Add: "Val.add", ast.Sub: "Val.sub", ast.Mult: "Val.mul"}.get(type(op))
            if fn is None:
                raise Untranslatable("operator %s on objects" % type(op).__name__, node)
            return self.bind("(%s %s %s)" % (fn, coerce(a, ta, VAL, node), coerce(b, tb, VAL, node)), VAL, node)
        if res(ta) is KEY and res(tb) is KEY and isinstance(op, ast.Add):
            return "(%s ++ %s)" % (a, b), KEY               # tuple concatenation
        if isinstance(op, ast.Mult) and isinstance(res(ta), TList) and is_num(tb) and res(tb) is not RAT:
            return "(pyRepeat %s %s)" % (a, coerce(b, tb, INT, node)), res(ta)      # `[x] * n`
        if isinstance(op, ast.LShift) and is_num(ta) and is_num(tb):
            return "(%s * %s ^ %s)" % (a, "(2 : %s)" % lean_ty(ta), self.as_nat(b, tb, "<< by", node)), ta   # a << n = a * 2**n
        if not (is_num(ta) and is_num(tb)):
            raise Untranslatable("arithmetic on non-numbers (%s, %s)" % (lean_ty(ta), lean_ty(tb)), node)
        if isinstance(op, ast.FloorDiv):
            if not (isinstance(right, ast.Constant) and isinstance(right.value, int) and right.value > 0):
                raise Untranslatable("// by something that is not a positive literal", node)
            return "(%s / %s)" % (self.as_nat(a, ta, "// on", node), self.as_nat(b, tb, "// by", node)), NAT
        if isinstance(op, ast.Div):
            if isinstance(right, ast.Constant) and isinstance(right.value, int) and not isinstance(right.value, bool) \
                    and right.value != 0:
                return "(%s / %s)" % (coerce(a, ta, RAT), coerce(b, tb, RAT)), RAT
            # a divisor that is not a non-zero literal: ZeroDivisionError when it is 0
            return self.bind("(pyDiv %s %s)" % (coerce(a, ta, RAT), coerce(b, tb, RAT)), RAT, node)
        if isinstance(op, ast.Mod):
            return "(%s %% %s)" % (self.as_nat(a, ta, "% on", node), self.as_nat(b, tb, "% by", node)), NAT
        sym = {ast.Add: "+", ast.Sub: "-", ast.Mult: "*"}.get(type(op))
        if sym is None:
            raise Untranslatable("operator %s" % type(op).__name__, node)
        t = num_join(ta, tb)
        if sym == "-" and res(t) is NAT:
            t = INT
        return "(%s %s %s)" % (coerce(a, ta, t), sym, coerce(b, tb, t)), t

    def as_nat(self, s, t, what, node):
        t = res(t)
        if isinstance(t, TV):
            t.ref = NAT
        elif t is not NAT:
            raise Untranslatable("%s something that is not a natural number" % what, node)
        return s

    def compare(self, n, env):
        parts, left = [], n.left
        for op, right in zip(n.ops, n.comparators):
            if isinstance(op, (ast.Is, ast.IsNot)):
                if not (isinstance(right, ast.Constant) and right.value is None):
                    raise Untranslatable("`is` other than `is None`", n)
                a, ta = self.expr(left, env)
                if not isinstance(res(ta), TOpt):
                    raise Untranslatable("`is None` on a value that is not optional", n)
                parts.append("%s %s none" % (a, "=" if isinstance(op, ast.Is) else "≠"))
            else:
                sym = {ast.Lt: "<", ast.LtE: "≤", ast.Gt: ">", ast.GtE: "≥", ast.Eq: "=", ast.NotEq: "≠"}.get(type(op))
                if sym is None:
                    raise Untranslatable("comparison %s" % type(op).__name__, n)
                a, ta = self.expr(left, env)
                b, tb = self.expr(right, env, ta)
                if isinstance(res(ta), TSet) and isinstance(res(tb), TSet) and sym in ("=", "≠"):
                    parts.append("((pySetEq %s %s) = %s)" % (a, b, "true" if sym == "=" else "false"))
                    left = right
                    continue
                if is_num(ta) and is_num(tb):
                    t = num_join(ta, tb)
                    a, b = coerce(a, ta, t), coerce(b, tb, t)
                elif not same(ta, tb) or sym not in ("=", "≠"):
                    raise Untranslatable("comparison of %s with %s" % (lean_ty(ta), lean_ty(tb)), n)
                parts.append("%s %s %s" % (a, sym, b))
            left = right
        return "(" + " ∧ ".join(parts) + ")"

    def cond(self, n, env):
        """truth value of an expression, as a decidable proposition"""
        s, t = self.expr(n, env)
        t = res(t)
        if t is PROP:
            return s
        if t is BOOL:
            return "(%s = true)" % s
        if is_num(t):
            return "(%s ≠ 0)" % s
        if t is KEY or t is POLY or isinstance(t, TList):
            return "(%s ≠ [])" % s
        raise Untranslatable("truth value of a %s" % lean_ty(t), n)

    def negation(self, n, env):
        s, t = self.expr(n, env)
        t = res(t)
        if t is PROP:
            return "(¬ %s)" % s
        if t is BOOL:
            return "(%s = false)" % s
        if is_num(t):
            return "(%s = 0)" % s
        if t is KEY or t is POLY or isinstance(t, TList):
            return "(%s = [])" % s
        raise Untranslatable("truth value of a %s" % lean_ty(t), n)

    def const_index(self, n):
        i = n.slice
        if isinstance(i, ast.Constant) and isinstance(i.value, int) and not isinstance(i.value, bool) and i.value >= 0:
            return i.value
        return None

    def subscript(self, n, env):
        v, tv = self.expr(n.value, env)
        tv = res(tv)
        if tv is ASSIGN:
            i, ti = self.expr(n.slice, env)
            if res(ti) is not VAR:
                raise Untranslatable("container indexed by something that is not a label", n)
            return "(%s %s)" % (v, i), RAT
        if isinstance(tv, TList):
            if isinstance(n.slice, ast.Slice):
                if n.slice.step is not None:
                    raise Untranslatable("slice with a step", n)
                bounds = []
                for bnd in (n.slice.lower, n.slice.upper):
                    if bnd is None:
                        bounds.append("none")
                    else:
                        sb, tb = self.expr(bnd, env)
                        if not is_num(tb) or res(tb) is RAT:
                            raise Untranslatable("slice bound that is not an int", n)
                        bounds.append("(some %s)" % coerce(sb, tb, INT, n))
                return "(pySlice %s %s %s)" % (v, bounds[0], bounds[1]), tv
            i = n.slice
            if isinstance(i, ast.UnaryOp) and isinstance(i.op, ast.USub) and isinstance(i.operand, ast.Constant):
                i = ast.Constant(value=-i.operand.value)
            if isinstance(i, ast.Constant) and isinstance(i.value, int) and not isinstance(i.value, bool):
                lit = "(%d : Int)" % i.value if i.value >= 0 else "(-%d : Int)" % -i.value
                return self.bind("(pyIndex %s %s)" % (v, lit), tv.elt, n)      # IndexError when out of range
            raise Untranslatable("list subscript with a non-literal index", n)
        if tv is KEY and isinstance(n.slice, ast.Slice):
            if n.slice.step is not None:
                raise Untranslatable("slice with a step", n)
            bounds = []
            for bnd in (n.slice.lower, n.slice.upper):
                if bnd is None:
                    bounds.append("none")
                else:
                    sb, tb = self.expr(bnd, env)
                    if not is_num(tb) or res(tb) is RAT:
                        raise Untranslatable("slice bound that is not an int", n)
                    bounds.append("(some %s)" % coerce(sb, tb, INT, n))
            return "(pySlice %s %s %s)" % (v, bounds[0], bounds[1]), KEY
        c = self.const_index(n)
        if c is None:
            raise Untranslatable("subscript with a non-literal index", n)
        if tv is KEY:
            return "(pyGet %s %d)" % (v, c), VAR
        if isinstance(tv, TTuple) and c < len(tv.elts):
            return proj(v, c, len(tv.elts)), tv.elts[c]
        raise Untranslatable("subscript of a %s" % lean_ty(tv), n)

    def iter_source(self, n, env):
        """(lean list, element type) of something iterated"""
        if isinstance(n, ast.Call) and isinstance(n.func, ast.Attribute) and n.func.attr == "items" and not n.args \
                and not n.keywords:
            s, t = self.expr(n.func.value, env)
            if res(t) is POLY:
                return s, TTuple([KEY, RAT])
            raise Untranslatable(".items() of a %s" % lean_ty(t), n)
        if isinstance(n, ast.Call) and isinstance(n.func, ast.Name) and n.func.id == "range" and len(n.args) == 1 \
                and not n.keywords and "range" not in env:
            if "range" in self.module_names():
                raise Untranslatable("builtin range is rebound in this module", n)
            s, t = self.expr(n.args[0], env)
            if not is_num(t) or res(t) is RAT:
                raise Untranslatable("range of something that is not an int", n)
            return "(pyRangeNat %s)" % coerce(s, t, INT, n), NAT
        s, t = self.list_like(n, env)
        t = res(t)
        if t is KEY:
            return s, VAR
        if isinstance(t, TList):
            return s, t.elt
        if t is POLY:
            return "(List.map Prod.fst %s)" % s, KEY    # iterating a dict gives its keys
        raise Untranslatable("iteration over a %s" % lean_ty(t), n)

    def bind_target(self, target, elt_ty, it, env):
        """`let`s binding the loop target(s) to the element `it`; returns (lets, env')"""
        env = dict(env)
        if isinstance(target, ast.Name):
            env[target.id] = elt_ty
            return "let %s : %s := %s; " % (mangle(target.id), lean_ty(elt_ty), it), env
        et = res(elt_ty)
        if isinstance(target, ast.Tuple) and isinstance(et, TTuple) and len(target.elts) == len(et.elts) \
                and all(isinstance(x, ast.Name) for x in target.elts):
            lets = ""
            for i, (x, t) in enumerate(zip(target.elts, et.elts)):
                env[x.id] = t
                lets += "let %s : %s := %s; " % (mangle(x.id), lean_ty(t), proj(it, i, len(et.elts)))
            return lets, env
        raise Untranslatable("loop target does not match the element type %s" % lean_ty(elt_ty), target)

    def one_generator(self, n):
        if len(n.generators) != 1 or n.generators[0].is_async:
            raise Untranslatable("comprehension with several generators", n)
        return n.generators[0]

    def comprehension(self, n, env):
        g = self.one_generator(n)
        src, et = self.iter_source(g.iter, env)
        lets, env2 = self.bind_target(g.target, et, "_py_it", env)
        e, te = self.pure_only(lambda: self.expr(n.elt, env2), "a comprehension", n)
        if res(te) is PROP:
            e, te = coerce(e, PROP, BOOL), BOOL
        if g.ifs:
            c = " ∧ ".join(self.pure_only(lambda i=i: self.cond(i, env2), "a comprehension", n) for i in g.ifs)
            src = "(List.filter (fun (_py_it : %s) => %sdecide %s) %s)" % (lean_ty(et), lets, c, src)
        return "(List.map (fun (_py_it : %s) => %s%s) %s)" % (lean_ty(et), lets, e, src), TList(te)

    def call(self, n, env):
        f = n.func
        if isinstance(f, ast.Attribute) and f.attr.startswith("add_constraint_"):
            return self.call_method(n, env)
        if n.keywords:
            raise Untranslatable("keyword arguments", n)
        if isinstance(f, ast.Name) and f.id in CLASS_NEW and f.id not in env and not n.args:
            if not any(isinstance(s, ast.ClassDef) and s.name == f.id for s in ast.parse(self.src).body) \
                    or sum(1 for x in self.module_names() if x == f.id) != 1:
                raise Untranslatable("%s is not the class defined in this module" % f.id, n)
            return "(%s)" % CLASS_NEW[f.id][1], CLASS_NEW[f.id][0]
        if isinstance(f, ast.Attribute):
            if isinstance(f.value, ast.Name) and f.value.id == "int" and f.attr == "bit_length" and len(n.args) == 1:
                a, ta = self.expr(n.args[0], env)
                if res(ta) not in (NAT, INT):
                    raise Untranslatable("int.bit_length of a %s" % lean_ty(ta), n)
                return "(pyBitLength %s)" % coerce(a, ta, INT), NAT
            if f.attr == "count" and len(n.args) == 1:
                l, tl = self.expr(f.value, env)
                if isinstance(res(tl), TList) and res(res(tl).elt) is RAT:
                    a, ta = self.expr(n.args[0], env)
                    return "(pyCount %s %s)" % (l, coerce(a, ta, RAT, n)), NAT
                raise Untranslatable(".count on a %s" % lean_ty(tl), n)
            if f.attr == "values" and not n.args and isinstance(f.value, ast.Name) \
                    and f.value.id + "_is_dict" in env:
                return self.expr(f.value, env)          # a `Values` parameter *is* the list of its values
            if f.attr == "values" and not n.args:
                a, ta = self.expr(f.value, env)
                if res(ta) is POLY:
                    return "(List.map Prod.snd %s)" % a, TList(RAT)
                raise Untranslatable(".values() of a %s" % lean_ty(ta), n)
            if f.attr == "keys" and not n.args:
                a, ta = self.expr(f.value, env)
                if res(ta) is POLY:
                    return "(List.map Prod.fst %s)" % a, TList(KEY)
                raise Untranslatable(".keys() of a %s" % lean_ty(ta), n)
            if isinstance(f.value, ast.Name) and f.value.id not in env and f.attr in KINDS:
                self.need_module_alias("qubovert", f.value.id, n)       # qv.PUBO(...)
                kind = KINDS[f.attr]
                if not n.args:
                    return "(pyNew0 %s)" % kind, VAL
                if len(n.args) == 1:
                    a, ta = self.expr(n.args[0], env)
                    if res(ta) is POLY:
                        return self.bind("(pyNewDict %s %s)" % (kind, a), VAL, n)
                    if res(ta) in (SVAL, VAL):
                        return self.bind("(pyNew %s %s)" % (kind, coerce(a, ta, SVAL, n)), VAL, n)
                raise Untranslatable("constructor call %s.%s with these arguments" % (f.value.id, f.attr), n)
            if f.attr == "copy" and not n.args:
                a, ta = self.expr(f.value, env)
                if res(ta) in (SVAL, VAL):
                    return self.bind("(pyCopy %s)" % coerce(a, ta, SVAL, n), VAL, n)
                raise Untranslatable(".copy() of a %s" % lean_ty(ta), n)
            raise Untranslatable("method call .%s" % f.attr, n)
        if not isinstance(f, ast.Name):
            raise Untranslatable("call of a computed function", n)
        name, args = f.id, n.args
        if name in env:
            raise Untranslatable("call of a local", n)
        if name in BUILTINS and name in self.module_names():
            raise Untranslatable("builtin %s is rebound in this module" % name, n)
        if name == "abs" and len(args) == 1:
            a, ta = self.expr(args[0], env)
            return "(pyAbs %s)" % coerce(a, ta, RAT, n), RAT
        if name == "len" and len(args) == 1:
            a, ta = self.expr(args[0], env)
            if res(ta) is KEY or isinstance(res(ta), TList) or res(ta) is POLY:
                return "(List.length %s)" % a, NAT
            raise Untranslatable("len of a %s" % lean_ty(ta), n)
        if name == "ceil" and len(args) == 1:
            self.need_import("math", "ceil", n)
            a, ta = self.expr(args[0], env)
            return "(pyCeil %s)" % coerce(a, ta, RAT, n), INT
        if name == "int" and len(args) == 1:
            a, ta = self.expr(args[0], env)
            if res(ta) in (NAT, INT):
                return a, ta
            raise Untranslatable("int() of a %s (truncation is outside the fragment)" % lean_ty(ta), n)
        if name == "pow" and len(args) == 2:
            a, ta = self.expr(args[0], env)
            b, tb = self.expr(args[1], env)
            if not is_num(ta):
                raise Untranslatable("pow of a non-number", n)
            return "(%s ^ %s)" % (a, self.as_nat(b, tb, "pow with an exponent", n)), ta
        if name == "sum" and len(args) == 1 and isinstance(args[0], ast.GeneratorExp):
            return self.sum_gen(args[0], env)
        if name == "tuple" and len(args) == 1:
            l, tl = self.list_like(args[0], env)        # a snapshot of an iterable: the same list
            if isinstance(res(tl), TList):
                return l, tl
            if res(tl) is POLY:                         # iterating a dict gives its keys
                return "(List.map Prod.fst %s)" % l, TList(KEY)
            raise Untranslatable("tuple() of a %s" % lean_ty(tl), n)
        if name in ("max", "min") and len(args) == 1 and not isinstance(args[0], ast.GeneratorExp):
            l, tl = self.list_like(args[0], env)
            if isinstance(res(tl), TList) and res(res(tl).elt) is RAT:
                return self.bind("(%s %s)" % ("pyMax" if name == "max" else "pyMin", l), RAT, n)
            raise Untranslatable("%s() of a %s" % (name, lean_ty(tl)), n)
        if name in ("max", "min") and len(args) == 1 and isinstance(args[0], ast.GeneratorExp):
            l, tl = self.comprehension(ast.ListComp(elt=args[0].elt, generators=args[0].generators,
                                                    lineno=n.lineno), env)
            if not (isinstance(res(tl), TList) and is_num(res(tl).elt)):
                raise Untranslatable("%s() of non-numbers" % name, n)
            if res(res(tl).elt) is not RAT:
                raise Untranslatable("%s() of a generator of ints" % name, n)
            return self.bind("(%s %s)" % ("pyMax" if name == "max" else "pyMin", l), RAT, n)   # ValueError when empty
        if name == "set" and len(args) == 1:
            l, tl = self.list_like(args[0], env)
            if isinstance(res(tl), TList) and res(res(tl).elt) is RAT:
                return l, TSet(RAT)
            raise Untranslatable("set() of a %s" % lean_ty(tl), n)
        if name == "all" and len(args) == 1 and isinstance(args[0], ast.GeneratorExp):
            gen = self.one_generator(args[0])
            if gen.ifs:
                raise Untranslatable("all() of a filtered generator", n)
            src, et = self.iter_source(gen.iter, env)
            lets, env2 = self.bind_target(gen.target, et, "_py_it", env)
            c = self.pure_only(lambda: self.cond(args[0].elt, env2), "a generator expression", n)
            return "(List.all %s (fun (_py_it : %s) => %sdecide %s))" % (src, lean_ty(et), lets, c), BOOL
        if name == "all" and len(args) == 1:
            l, tl = self.list_like(args[0], env)
            if isinstance(res(tl), TList) and res(res(tl).elt) is RAT:
                return "(pyAllNum %s)" % l, BOOL
            raise Untranslatable("all() of a %s" % lean_ty(tl), n)
        if name == "isinstance" and len(args) == 2 and isinstance(args[0], ast.Name) \
                and isinstance(args[1], ast.Name) and args[1].id == "dict" and args[0].id + "_is_dict" in env:
            return args[0].id + "_is_dict", BOOL
        if name == "isinstance" and len(args) == 2:
            a, ta = self.expr(args[0], env)
            if res(ta) in (SVAL, VAL):
                a = coerce(a, ta, SVAL, n)
                c = args[1]
                if isinstance(c, ast.Name) and c.id == "dict":
                    if "dict" in self.module_names():
                        raise Untranslatable("builtin dict is rebound in this module", n)
                    return "(pyIsDict %s)" % a, BOOL
                if isinstance(c, ast.Attribute) and isinstance(c.value, ast.Name) and c.value.id not in env \
                        and c.attr == "BOOLEAN_MODELS":
                    self.need_module_alias("qubovert", c.value.id, n)
                    return "(pyIsBooleanModel %s)" % a, BOOL
            raise Untranslatable("isinstance with these arguments", n)
        if name == self.own_name and ("." not in self.e["func"] or self.e.get("nested")) \
                and "loop_body" not in self.e and "after" not in self.e:
            return self.call_self(n, env)
        if name in self.done:
            return self.call_registered(name, n, env)
        hoisted = [k for k, i in self.done.items() if i.get("hoisted_as") == name and i.get("nested")
                   and k.startswith(self.e["func"] + ".") and i["file"] == self.e["file"]]
        if len(hoisted) == 1 and hoisted_helper_ok(ast.parse(self.src), name) \
                and name not in self.assigned([x for x in self.fnode.body if not isinstance(x, ast.FunctionDef)]) \
                and not any(isinstance(x, ast.FunctionDef) and x.name == name for x in ast.walk(self.fnode)):
            # the registered nested helper, hoisted unchanged to module level (it captures nothing): the same callee
            callee = self.done[hoisted[0]]
            if callee["status"] != "translated":
                raise Untranslatable("call of %s, which is itself %s" % (name, callee["status"]), n)
            args = self.pass_args(name, n, env, callee["param_tys"], False)
            call = "(%s %s)" % (callee["lean"], " ".join(args))
            return self.bind(call, callee["ret_ty"], n) if callee["raises"] else (call, callee["ret_ty"])
        inner = "%s.%s" % (self.e["func"], name)
        if inner in self.done and self.done[inner].get("nested") and self.done[inner]["file"] == self.e["file"] \
                and sum(1 for x in ast.walk(self.fnode) if isinstance(x, ast.FunctionDef) and x.name == name) == 1 \
                and name not in self.assigned([x for x in self.fnode.body if not isinstance(x, ast.FunctionDef)]):
            callee = self.done[inner]              # the function defined inside this one
            if callee["status"] != "translated":
                raise Untranslatable("call of %s, which is itself %s" % (name, callee["status"]), n)
            args = self.pass_args(name, n, env, callee["param_tys"], False)
            call = "(%s %s)" % (callee["lean"], " ".join(args))
            return self.bind(call, callee["ret_ty"], n) if callee["raises"] else (call, callee["ret_ty"])
        pe = local_single_return_helper(self.fnode, name)
        if pe is not None and len(args) == 1 and isinstance(args[0], ast.Name) and args[0].id in env:
            # a nested `def f(p): return e` (bound once, reading only p and non-locals) called on a plain local:
            # its return expression with the parameter replaced by that local
            import copy
            p, e, arg = pe[0], pe[1], args[0].id

            class S(ast.NodeTransformer):
                def visit_Name(self, x):
                    return ast.copy_location(ast.Name(id=arg, ctx=x.ctx), x) if x.id == p else x
            return self.expr(ast.fix_missing_locations(S().visit(copy.deepcopy(e))), env)
        raise Untranslatable("call of %s" % name, n)

    def need_module_alias(self, module, alias, node):
        """`alias` must be bound by `import module as alias` at module level and nowhere else at that level"""
        tree = ast.parse(self.src)
        hits = 0
        for s in tree.body:
            if isinstance(s, ast.Import):
                for a in s.names:
                    if (a.asname or a.name.split(".")[0]) == alias:
                        hits += 1 if (a.name == module and a.asname == alias) or (a.name == alias == module) else 100
            elif isinstance(s, ast.ImportFrom):
                hits += 100 * sum(1 for a in s.names if (a.asname or a.name) == alias)
            elif isinstance(s, (ast.FunctionDef, ast.ClassDef, ast.AsyncFunctionDef)):
                hits += 100 if s.name == alias else 0
            else:
                hits += 100 * sum(1 for x in ast.walk(s) if isinstance(x, ast.Name) and isinstance(x.ctx, ast.Store)
                                  and x.id == alias)
        if hits != 1:
            raise Untranslatable("%s is not exactly `import %s as %s`" % (alias, module, alias), node)

    def pass_args(self, what, n, env, ptys, vararg):
        """render the arguments of a call against the callee's parameter types (last one a *args list if vararg)"""
        fixed = ptys[:-1] if vararg else ptys
        args = list(n.args)
        if len(args) < len(fixed) or any(isinstance(a, ast.Starred) for a in args[:len(fixed)]):
            raise Untranslatable("call of %s with too few positional arguments" % what, n)
        out = []
        for a, pt in zip(args[:len(fixed)], fixed):
            sa, ta = self.expr(a, env, pt)
            out.append(coerce(sa, ta, pt, n))
        extra = args[len(fixed):]
        if not vararg:
            if extra:
                raise Untranslatable("call of %s with %d arguments" % (what, len(args)), n)
            return out
        lt = ptys[-1]
        if len(extra) == 1 and isinstance(extra[0], ast.Starred):
            sa, ta = self.expr(extra[0].value, env)
            if not same(ta, lt):
                raise Untranslatable("*%s passed where %s is expected" % (lean_ty(ta), lean_ty(lt)), n)
            out.append(sa)
        elif any(isinstance(a, ast.Starred) for a in extra):
            raise Untranslatable("mixed starred and plain variadic arguments", n)
        else:
            elts = []
            for a in extra:
                sa, ta = self.expr(a, env, lt.elt)
                elts.append(coerce(sa, ta, lt.elt, n))
            out.append("[" + ", ".join(elts) + "]")
        return out

    def call_method(self, n, env):
        """`recv.add_constraint_X(...)` on a PCBO: `add_constraint_eq_zero` is the prelude's `pyAddEqZero`; any other
        is the registered (translated) method of the same class"""
        f = n.func
        recv, tr = self.expr(f.value, env)
        if res(tr) is not ST:
            raise Untranslatable("method %s of a %s" % (f.attr, lean_ty(tr)), n)
        kws = {k.arg: k.value for k in n.keywords}
        if None in kws or len(kws) != len(n.keywords):
            raise Untranslatable("** or repeated keyword arguments", n)
        if f.attr == "add_constraint_eq_zero":
            args = list(n.args)
            if len(args) == 2 and "lam" not in kws:
                P, lam = args
            elif len(args) == 1 and "lam" in kws:
                P, lam = args[0], kws.pop("lam")
            else:
                raise Untranslatable("add_constraint_eq_zero called with other than (P, lam, bounds=…)", n)
            if set(kws) != {"bounds"}:
                raise Untranslatable("add_constraint_eq_zero called with other keywords than lam, bounds", n)
            sp, tp = self.expr(P, env)
            sl, tl = self.expr(lam, env)
            b = kws["bounds"]
            if isinstance(b, ast.Tuple) and len(b.elts) == 2:
                parts = [self.expr(x, env) for x in b.elts]
            else:
                sb, tb = self.expr(b, env)
                if not (isinstance(res(tb), TTuple) and len(res(tb).elts) == 2):
                    raise Untranslatable("bounds that is not a pair", n)
                parts = [(proj(sb, i, 2), res(tb).elts[i]) for i in range(2)]
            lo, hi = [coerce(x, t, RAT, n) for x, t in parts]
            return self.bind("(pyAddEqZero %s %s %s %s %s)" % (recv, coerce(sp, tp, VAL, n), coerce(sl, tl, RAT, n),
                                                              lo, hi), ST, n)
        cls = self.e["func"].split(".")[0] if "." in self.e["func"] else None
        callee = self.done.get("%s.%s" % (cls, f.attr))
        if callee is None or callee.get("func") != "%s.%s" % (cls, f.attr) or callee["file"] != self.e["file"]:
            raise Untranslatable("method %s is not a registered method of this class" % f.attr, n)
        if callee["status"] != "translated":
            raise Untranslatable("call of %s, which is itself %s" % (f.attr, callee["status"]), n)
        nkw = len(callee.get("kwonly", []))
        ptys = callee["param_tys"]
        pos_tys = ptys[1:len(ptys) - nkw]                     # without self and the keyword-only ones
        args = self.pass_args(f.attr, n, env, pos_tys, callee.get("vararg", False))
        for (kname, ktyname, kdefault), kt in zip(callee.get("kwonly", []), ptys[len(ptys) - nkw:]):
            v = kws.pop(kname, None)
            sv, tv = self.expr(v if v is not None else ast.parse(kdefault).body[0].value, env)
            args.append(coerce(sv, tv, kt, n))
        if kws:
            raise Untranslatable("unknown keyword arguments %s" % sorted(kws), n)
        call = "(%s %s %s)" % (callee["lean"], recv, " ".join(args))
        return self.bind(call, callee["ret_ty"], n) if callee["raises"] else (call, callee["ret_ty"])

    def call_self(self, n, env):
        """a recursive call; needs the declared return type and a termination measure (registry)"""
        if self.ret_ty is None or "measure" not in self.e:
            raise Untranslatable("recursive call in a function without declared return type and measure", n)
        if any(isinstance(s, ast.FunctionDef) and s.name == self.own_name for s in ast.walk(self.fnode) if s is not self.fnode) \
                or self.own_name in self.assigned(self.fnode.body) or self.own_name in env:
            raise Untranslatable("%s is rebound inside its own body" % self.own_name, n)
        args = self.pass_args(self.own_name, n, env, self.cur_ptys, bool(self.e.get("vararg")))
        self.recursive = True
        call = "(%s %s)" % (self.e.get("lean", self.own_name), " ".join(args))
        return self.bind(call, self.ret_ty, n) if self.raises else (call, self.ret_ty)

    def list_like(self, n, env):
        if isinstance(n, ast.Call) and isinstance(n.func, ast.Name) and n.func.id == "map" and len(n.args) == 2 \
                and isinstance(n.args[0], ast.Name) and n.args[0].id == "abs" and "abs" not in env \
                and "abs" not in self.module_names() and "map" not in self.module_names():
            src, et = self.iter_source(n.args[1], env)
            if res(et) is not RAT:
                raise Untranslatable("map(abs, …) over a %s" % lean_ty(et), n)
            return "(List.map (fun (_py_it : Rat) => (pyAbs _py_it)) %s)" % src, TList(RAT)
        if isinstance(n, ast.Call) and isinstance(n.func, ast.Name) and n.func.id == "map" and len(n.args) == 2 \
                and isinstance(n.args[0], ast.Lambda):
            lam = n.args[0]
            a = lam.args
            if len(a.args) != 1 or a.vararg or a.kwarg or a.kwonlyargs or a.defaults or a.posonlyargs:
                raise Untranslatable("lambda with other than one plain parameter", lam)
            src, et = self.iter_source(n.args[1], env)
            p = a.args[0].arg
            env2 = dict(env)
            env2[p] = et
            e, te = self.pure_only(lambda: self.expr(lam.body, env2), "a lambda", lam)
            return "(List.map (fun (%s : %s) => %s) %s)" % (mangle(p), lean_ty(et), e, src), TList(te)
        return self.expr(n, env)

    def sum_gen(self, g, env):
        gen = self.one_generator(g)
        src, et = self.iter_source(gen.iter, env)
        lets, env2 = self.bind_target(gen.target, et, "_py_it", env)
        e, te = self.pure_only(lambda: self.expr(g.elt, env2), "a generator expression", g)
        if not is_num(te):
            raise Untranslatable("sum of non-numbers", g)
        step = "(_py_acc + %s)" % e
        if gen.ifs:
            c = " ∧ ".join(self.pure_only(lambda i=i: self.cond(i, env2), "a generator expression", g) for i in gen.ifs)
            step = "if %s then %s else _py_acc" % (c, step)
        t = lean_ty(te)
        return "(List.foldl (fun (_py_acc : %s) (_py_it : %s) => %s%s) (0 : %s) %s)" % (
            t, lean_ty(et), lets, step, t, src), te

    def module_names(self):
        """every name bound at module level (imports, defs, classes, assignments)"""
        out = set()
        for s in ast.parse(self.src).body:
            if isinstance(s, (ast.Import, ast.ImportFrom)):
                out |= {(a.asname or a.name).split(".")[0] for a in s.names}
            elif isinstance(s, (ast.FunctionDef, ast.ClassDef, ast.AsyncFunctionDef)):
                out.add(s.name)
            else:
                out |= {n.id for n in ast.walk(s) if isinstance(n, ast.Name) and isinstance(n.ctx, ast.Store)}
        return out

    def need_import(self, module, name, node):
        """`name` must be bound by `from module import name` at module level and nowhere else"""
        tree = ast.parse(self.src)
        ok = False
        for s in tree.body:
            if isinstance(s, ast.ImportFrom) and s.module == module and any(
                    a.name == name and a.asname in (None, name) for a in s.names):
                ok = True
            elif isinstance(s, (ast.FunctionDef, ast.ClassDef)) and s.name == name:
                ok = False
                break
            elif isinstance(s, ast.Assign) and any(isinstance(t, ast.Name) and t.id == name for t in s.targets):
                ok = False
                break
        if not ok:
            raise Untranslatable("%s is not `from %s import %s`" % (name, module, name), node)

    def call_registered(self, name, n, env):
        callee = self.done[name]
        if callee["status"] != "translated":
            raise Untranslatable("call of %s, which is itself %s" % (name, callee["status"]), n)
        if callee["raises"] and not self.monadic:
            raise Untranslatable("call of a function that may raise", n)
        # the name must denote that function here: defined in this module, or imported by name
        tree = ast.parse(self.src)
        defined = any(isinstance(s, ast.FunctionDef) and s.name == name for s in tree.body)
        imported = any(isinstance(s, ast.ImportFrom) and any(a.name == name and a.asname is None for a in s.names)
                       for s in tree.body)
        if defined == imported:
            raise Untranslatable("cannot resolve %s to the registered function" % name, n)
        if defined and callee["file"] != self.e["file"]:
            raise Untranslatable("%s is a different function in this module" % name, n)
        args = self.pass_args(name, n, env, callee["param_tys"], callee.get("vararg", False))
        call = "(%s %s)" % (callee["lean"], " ".join(args))
        if callee["raises"]:
            return self.bind(call, callee["ret_ty"], n)
        return call, callee["ret_ty"]

    # ---- statements (continuation passing: `k(env)` renders what happens after the block)

    def assigned(self, stmts):
        """names assigned in a list of statements, in source order (loop targets excluded by the caller)"""
        out = []
        for s in stmts:
            for n in ast.walk(s):
                if isinstance(n, ast.Name) and isinstance(n.ctx, ast.Store) and n.id not in out:
                    out.append(n.id)
        return out

    def effect_const(self, s, env):
        """the constant naming an abstracted statement; `{x}` in the registry's text is the translated value of
        the local `x`, which must occur in the statement"""
        text = self.effects[ast.dump(s)]
        used = {n.id for n in ast.walk(s) if isinstance(n, ast.Name)}

        def hole(m):
            x = m.group(1)
            if x not in used:
                raise Untranslatable("registry: effect mentions {%s}, which does not occur in the statement" % x, s)
            v, t = self.expr(ast.Name(id=x, ctx=ast.Load(), lineno=s.lineno), env)
            if m.group(2):          # `{x:Rat}`: the constant takes a value of that type
                v = coerce(v, t, PARAM_TYPES[m.group(2)](), s)
            elif isinstance(res(t), TV):
                raise Untranslatable("effect argument %s of undetermined type" % x, s)
            return v if re.match(r"^[\w']+$", v) else "(%s)" % v
        return re.sub(r"\{(\w+)(?::(\w+))?\}", hole, text)

    def is_effect(self, s):
        return ast.dump(s) in self.effects or (isinstance(s, ast.Expr) and ast.dump(s) in self.effects)

    def ret(self, s, env):
        if self.e.get("returns_effects") and isinstance(s.value, ast.Name) and s.value.id == self.e["returns_effects"]:
            v, t = "_py_eff", TList(self.eff_ty)
        elif s.value is None and self.e.get("store_ops") and not self.e.get("returns_effects"):
            v, t = "_py_eff", TList(self.eff_ty)        # `return` of a procedure: the statements recorded so far
        elif s.value is None:
            raise Untranslatable("bare return", s)
        else:
            v, t = self.expr(s.value, env, self.ret_ty)
        if res(t) is PROP:
            v, t = coerce(v, PROP, BOOL), BOOL
        if self.e.get("effects_with_return"):      # the returned value together with the statements executed
            v, t = "(%s, _py_eff)" % v, TTuple([t, TList(self.eff_ty)])
        self.ret_seen.append(t)
        if self.ret_ty is not None:
            v = coerce(v, t, self.ret_ty, s)
        return v

    def wrap_ok(self, v):
        return "(Except.ok %s)" % v if self.raises else v

    def block(self, stmts, env, k, ind, flow=None):
        """flow: None in straight code / foldl bodies; (ρ) inside a pyFor body, where return -> Flow.ret"""
        if not stmts:
            return k(env)
        # the operations of this statement that may raise are bound, in evaluation order, around it and its continuation
        self.pend.append([])
        try:
            out = self.stmt(stmts, env, k, ind, flow)
        finally:
            frame = self.pend.pop()
        return self.wrap(frame, out, " " * ind)

    OPERATOR_FUNCS = {"mul": ast.Mult, "imul": ast.Mult, "add": ast.Add, "iadd": ast.Add, "sub": ast.Sub, "isub": ast.Sub}

    def desugar_reduce(self, s, env):
        """`x = reduce(op, it, init)` / `return reduce(op, it, init)` with `op` from the operator module:
        `acc = init; for e in it: acc = acc <op> e` (`it` may be `map(F, L)`, which is lazy: `F` is applied to one
        element at a time, just before it is combined)"""
        val = s.value if isinstance(s, (ast.Return, ast.Assign)) else None
        if not (isinstance(val, ast.Call) and isinstance(val.func, ast.Name) and val.func.id == "reduce"
                and len(val.args) == 3 and not val.keywords and "reduce" not in env):
            return None
        if isinstance(s, ast.Assign) and not (len(s.targets) == 1 and isinstance(s.targets[0], ast.Name)):
            return None
        op, it, init = val.args
        self.need_import("functools", "reduce", s)
        if not (isinstance(op, ast.Name) and op.id in self.OPERATOR_FUNCS and op.id not in env):
            raise Untranslatable("reduce with a function that is not one of operator.%s" % sorted(self.OPERATOR_FUNCS), s)
        self.need_import("operator", op.id, s)
        acc = s.targets[0].id if isinstance(s, ast.Assign) else "acc"
        while not isinstance(s, ast.Assign) and (acc in env or acc in self.assigned(self.fnode.body)):
            acc += "'"
        elt = "elt"
        while elt in env or elt in self.assigned(self.fnode.body):
            elt += "'"
        ld = lambda name: ast.Name(id=name, ctx=ast.Load(), lineno=s.lineno)   # noqa: E731
        item = ld(elt)
        if isinstance(it, ast.Call) and isinstance(it.func, ast.Name) and it.func.id == "map" and len(it.args) == 2 \
                and not it.keywords and isinstance(it.args[0], ast.Name) and "map" not in env \
                and "map" not in self.module_names():
            item = ast.Call(func=it.args[0], args=[item], keywords=[], lineno=s.lineno)
            it = it.args[1]
        out = [ast.Assign(targets=[ast.Name(id=acc, ctx=ast.Store(), lineno=s.lineno)], value=init, lineno=s.lineno),
               ast.For(target=ast.Name(id=elt, ctx=ast.Store(), lineno=s.lineno), iter=it, orelse=[], lineno=s.lineno,
                       body=[ast.Assign(targets=[ast.Name(id=acc, ctx=ast.Store(), lineno=s.lineno)], lineno=s.lineno,
                                        value=ast.BinOp(left=ld(acc), op=self.OPERATOR_FUNCS[op.id](), right=item,
                                                        lineno=s.lineno))])]
        if isinstance(s, ast.Return):
            out.append(ast.Return(value=ld(acc), lineno=s.lineno))
        return out

    def stmt(self, stmts, env, k, ind, flow):
        s, rest = stmts[0], stmts[1:]
        des = self.desugar_reduce(s, env)
        if des is not None:
            return self.stmt(des + list(rest), env, k, ind, flow)
        pad = " " * ind

        def cont(env2):
            return self.block(rest, env2, k, ind, flow)

        if isinstance(s, ast.Expr) and isinstance(s.value, ast.Constant) and isinstance(s.value.value, str):
            return cont(env)                      # docstring
        if isinstance(s, ast.Pass):
            return cont(env)
        if self.effects and ast.dump(s) in self.effects:
            return "let _py_eff : List %s := _py_eff ++ [%s];\n%s%s" % (
                lean_ty(self.eff_ty, False), self.effect_const(s, env), pad, cont(env))
        if isinstance(s, ast.Expr) and isinstance(s.value, ast.Yield):
            if not self.e.get("generator") or s.value.value is None:
                raise Untranslatable("yield outside a function translated as a generator", s)
            v, t = self.expr(s.value.value, env, self.eff_ty)
            return "let _py_eff : %s := _py_eff ++ [%s];\n%s%s" % (
                lean_ty(TList(self.eff_ty)), coerce(v, t, self.eff_ty, s), pad, cont(env))
        sd = self.setdefault_append(s, env)
        if sd:
            return "%s\n%s%s" % (sd, pad, cont(env))
        if isinstance(s, ast.Return):
            if rest:
                raise Untranslatable("statement after return", rest[0])
            v = self.wrap_ok(self.ret(s, env))
            return "(Flow.ret %s)" % v if flow else v
        if isinstance(s, ast.Raise):
            if rest:
                raise Untranslatable("statement after raise", rest[0])
            exc = s.exc
            name = exc.func.id if isinstance(exc, ast.Call) and isinstance(exc.func, ast.Name) else \
                exc.id if isinstance(exc, ast.Name) else None
            if name not in EXC or s.cause is not None:
                raise Untranslatable("raise of something that is not a builtin exception of the model's enum", s)
            v = "(Except.error %s)" % EXC[name]
            return "(Flow.ret %s)" % v if flow else v
        if isinstance(s, ast.Continue):
            # the rest of this iteration is skipped: what the loop does after its body, with the locals as they are now
            if rest:
                raise Untranslatable("statement after continue", rest[0])
            if not getattr(self, "loop_k", None) or self.loop_k[-1] is None:
                raise Untranslatable("continue outside a translated loop", s)
            return self.loop_k[-1](env)
        if isinstance(s, ast.Assign) and len(s.targets) > 1 and all(isinstance(t, ast.Name) for t in s.targets) \
                and isinstance(s.value, ast.Constant) and isinstance(s.value.value, int) and not isinstance(s.value.value, bool):
            # `a = b = <int literal>`: the targets are bound left to right to the same immutable number
            split = [ast.copy_location(ast.Assign(targets=[t], value=s.value), s) for t in s.targets]
            return self.stmt(split + list(rest), env, k, ind, flow)
        if isinstance(s, ast.Assign):
            if len(s.targets) != 1:
                raise Untranslatable("chained assignment", s)
            t0 = s.targets[0]
            if self.e.get("store_ops") and isinstance(t0, ast.Subscript) and isinstance(t0.value, ast.Name) \
                    and t0.value.id == self.store:
                return self.store_op(t0, "set", s.value, env, cont, pad, s)
            return self.assign(s.targets[0], s.value, env, cont, pad, s)
        if isinstance(s, ast.AugAssign):
            if isinstance(s.target, ast.Name):
                v, t = self.binop(s.op, ast.Name(id=s.target.id, ctx=ast.Load(), lineno=s.lineno), s.value, env, s)
                env2 = dict(env)
                env2[s.target.id] = t
                return "let %s : %s := %s;\n%s%s" % (mangle(s.target.id), lean_ty(t), v, pad, cont(env2))
            if self.e.get("store_ops") and isinstance(s.target, ast.Subscript) and isinstance(s.target.value, ast.Name) \
                    and s.target.value.id == self.store and isinstance(s.op, (ast.Add, ast.Sub, ast.Mult)):
                return self.store_op(s.target, {ast.Add: "add", ast.Sub: "sub", ast.Mult: "mul"}[type(s.op)], s.value,
                                     env, cont, pad, s)
            if self.store and isinstance(s.target, ast.Subscript) and isinstance(s.target.value, ast.Name) \
                    and s.target.value.id == self.store and isinstance(s.op, (ast.Add, ast.Sub)):
                key, tk = self.expr(s.target.slice, env)
                if res(tk) is not KEY:
                    raise Untranslatable("store into %s with a key that is not a tuple of labels" % self.store, s)
                v, tv = self.expr(s.value, env)
                v = coerce(v, tv, RAT, s)
                if isinstance(s.op, ast.Sub):
                    v = "(-%s)" % v
                return "let _py_eff : List (Key × Rat) := _py_eff ++ [(%s, %s)];\n%s%s" % (key, v, pad, cont(env))
            raise Untranslatable("augmented assignment to something that is not a local", s)
        if isinstance(s, ast.If):
            return self.if_(s.test, s.body, s.orelse, env, cont, ind, flow, s)
        if isinstance(s, ast.For):
            return self.for_(s, env, cont, ind, flow)
        raise Untranslatable("statement %s" % type(s).__name__, s)

    def store_op(self, target, kind, value, env, cont, pad, node):
        """`L[key] = e`, `L[key] += e`, `L[key] -= e`, `L[key] *= e` on the opaque container L -> one recorded SOp"""
        key, tk = self.expr(target.slice, env)
        if res(tk) is not KEY:
            raise Untranslatable("store into %s with a key that is not a tuple of labels" % self.store, node)
        v, tv = self.expr(value, env)
        v = coerce(v, tv, RAT, node)
        op = {"set": "SOp.set %s %s", "add": "SOp.add %s %s", "sub": "SOp.add %s (-%s)", "mul": "SOp.mul %s %s"}[kind]
        self.stored = True
        return "let _py_eff : List SOp := _py_eff ++ [%s];\n%s%s" % (op % (key, v), pad, cont(env))

    def setdefault_append(self, s, env):
        """`d.setdefault(k, []).append(x)` on a local dict of lists -> `let d := pySetdefaultAppend d k x;`"""
        c = s.value if isinstance(s, ast.Expr) else None
        if not (isinstance(c, ast.Call) and isinstance(c.func, ast.Attribute) and c.func.attr == "append"
                and len(c.args) == 1 and not c.keywords):
            return None
        inner = c.func.value
        if not (isinstance(inner, ast.Call) and isinstance(inner.func, ast.Attribute) and inner.func.attr == "setdefault"
                and isinstance(inner.func.value, ast.Name) and len(inner.args) == 2 and not inner.keywords
                and isinstance(inner.args[1], ast.List) and not inner.args[1].elts):
            return None
        d = inner.func.value.id
        if d not in env or res(env[d]) is not ALLSOLS:
            return None
        k, tk = self.expr(inner.args[0], env)
        x, tx = self.expr(c.args[0], env)
        return "let %s : %s := (pySetdefaultAppend %s %s %s);" % (
            mangle(d), lean_ty(ALLSOLS), mangle(d), coerce(k, tk, TOpt(RAT), s), coerce(x, tx, BASSIGN, s))

    def assign(self, target, value, env, cont, pad, node):
        if isinstance(target, ast.Name):
            v, t = self.expr(value, env)
            if res(t) is PROP:
                v, t = coerce(v, PROP, BOOL), BOOL
            env2 = dict(env)
            env2[target.id] = t
            return "let %s : %s := %s;\n%s%s" % (mangle(target.id), lean_ty(t), v, pad, cont(env2))
        if isinstance(target, ast.Tuple) and len(target.elts) >= 2 and isinstance(target.elts[0], ast.Starred) \
                and isinstance(target.elts[0].value, ast.Name) and all(isinstance(x, ast.Name) for x in target.elts[1:]):
            # `*head, a, b = L`: ValueError when L is too short; head is the slice, the others are read from the end
            v, t = self.expr(value, env)
            t = res(t)
            if not isinstance(t, TList):
                raise Untranslatable("starred unpacking of a %s" % lean_ty(t), node)
            k = len(target.elts) - 1
            self.bind("(pyUnpackAtLeast %s %d)" % (v, k), UNIT, node)
            lasts = [self.bind("(pyIndex %s (-%d : Int))" % (v, k - i), t.elt, node)[0] for i in range(k)]
            env2 = dict(env)
            head = target.elts[0].value.id
            env2[head] = t
            out = "let %s : %s := (pySlice %s none (some (-%d : Int)));\n%s" % (mangle(head), lean_ty(t), v, k, pad)
            for x, m in zip(target.elts[1:], lasts):
                env2[x.id] = t.elt
                out += "let %s : %s := %s;\n%s" % (mangle(x.id), lean_ty(t.elt), m, pad)
            return out + cont(env2)
        if isinstance(target, ast.Tuple) and all(isinstance(x, ast.Name) for x in target.elts):
            v, t = self.expr(value, env)
            t = res(t)
            names = [x.id for x in target.elts]
            if isinstance(t, TTuple) and len(t.elts) == len(names):
                env2 = dict(env)
                out = "let _py_t : %s := %s;\n%s" % (lean_ty(t), v, pad)
                for i, (x, tx) in enumerate(zip(names, t.elts)):
                    env2[x] = tx
                    out += "let %s : %s := %s;\n%s" % (mangle(x), lean_ty(tx), proj("_py_t", i, len(names)), pad)
                return out + cont(env2)
            if t is KEY:
                # unpacking a tuple of unknown length: ValueError unless the lengths agree
                if not self.raises:
                    raise Untranslatable("unpacking of a key in a function not declared may_raise", node)
                env2 = dict(env)
                for x in names:
                    env2[x] = VAR
                return "(match %s with\n%s| [%s] =>\n%s  %s\n%s| _ => (Except.error Err.value))" % (
                    v, pad, ", ".join(mangle(x) for x in names), pad, cont(env2), pad)
            raise Untranslatable("unpacking of a %s into %d names" % (lean_ty(t), len(names)), node)
        raise Untranslatable("assignment target %s" % type(target).__name__, node)

    def narrowing(self, test, env):
        """`X is None` / `X[n] is None` (or `is not`) on a name of Option type: (name, index|None, negated)"""
        if isinstance(test, ast.Compare) and len(test.ops) == 1 and isinstance(test.ops[0], (ast.Is, ast.IsNot)) \
                and isinstance(test.comparators[0], ast.Constant) and test.comparators[0].value is None:
            neg = isinstance(test.ops[0], ast.IsNot)
            x = test.left
            if isinstance(x, ast.Name) and x.id in env and isinstance(res(env[x.id]), TOpt):
                return x.id, None, neg
            if isinstance(x, ast.Subscript) and isinstance(x.value, ast.Name) and x.value.id in env:
                t, c = res(env[x.value.id]), self.const_index(x)
                if isinstance(t, TTuple) and c is not None and c < len(t.elts) and isinstance(res(t.elts[c]), TOpt):
                    return x.value.id, c, neg
        return None

    def if_(self, test, body, orelse, env, cont, ind, flow, node):
        pad = " " * ind
        if isinstance(test, ast.BoolOp) and isinstance(test.op, ast.Or) and self.narrowing(test.values[0], env):
            # `if A or B: S else: E`  ==  `if A: S else: (if B: S else: E)`   (A narrows a name for B, E)
            rest = test.values[1] if len(test.values) == 2 else ast.BoolOp(op=ast.Or(), values=test.values[1:])
            inner = ast.If(test=rest, body=body, orelse=orelse, lineno=node.lineno)
            return self.if_(test.values[0], body, [inner], env, cont, ind, flow, node)
        nar = self.narrowing(test, env)
        if nar:
            name, c, neg = nar
            t = res(env[name])
            env_some = dict(env)
            if c is None:
                scrut, rebind = mangle(name), "let %s : %s := _py_some;" % (mangle(name), lean_ty(t.elt))
                env_some[name] = t.elt
            else:
                elts = list(t.elts)
                elts[c] = res(elts[c]).elt
                t2 = TTuple(elts)
                parts = ["_py_some" if i == c else proj(mangle(name), i, len(elts)) for i in range(len(elts))]
                scrut = proj(mangle(name), c, len(elts))
                rebind = "let %s : %s := (%s);" % (mangle(name), lean_ty(t2), ", ".join(parts))
                env_some[name] = t2
            none_blk, some_blk = (orelse, body) if neg else (body, orelse)
            a = self.block(none_blk, env, cont, ind + 4, flow)
            b = self.block(some_blk, env_some, cont, ind + 4, flow)
            return "(match %s with\n%s| none =>\n%s    %s\n%s| some _py_some =>\n%s    %s\n%s    %s)" % (
                scrut, pad, pad, a, pad, pad, rebind, pad, b)
        c = self.cond(test, env)
        a = self.block(body, env, cont, ind + 2, flow)
        b = self.block(orelse, env, cont, ind + 2, flow)
        hyp = ""
        if "measure" in self.e:       # a function that may call itself: the test is available to its termination proof
            self.nhyp += 1
            hyp = "_py_h%d : " % self.nhyp
        return "if %s%s then\n%s  (%s)\n%selse\n%s  (%s)" % (hyp, c, pad, a, pad, pad, b)

    def for_(self, s, env, cont, ind, flow):
        if s.orelse:
            raise Untranslatable("for ... else", s)
        if flow:
            raise Untranslatable("nested loop inside a loop with return", s)
        pad = " " * ind
        src, et = self.iter_source(s.iter, env)
        targets = [n.id for n in ast.walk(s.target) if isinstance(n, ast.Name)]
        names = [x for x in self.assigned(s.body) if x not in targets]
        accs = [x for x in names if x in env and res(env[x]) is not OPAQUE]
        if self.eff_ty is not None and "_py_eff" in env and self.mentions_effect(s.body):
            accs.append("_py_eff")
        for x in targets:
            if x in env:
                raise Untranslatable("loop target %s shadows a local" % x, s)
        acc_tys = [env[x] for x in accs]
        acc_ty = TTuple(acc_tys) if len(accs) > 1 else (acc_tys[0] if accs else UNIT)
        mg = lambda x: x if x == "_py_eff" else mangle(x)   # noqa: E731
        init = "(" + ", ".join(mg(x) for x in accs) + ")" if accs else "()"
        unpack = "".join("let %s : %s := %s; " % (mg(x), lean_ty(t), proj("_py_acc", i, len(accs)))
                         for i, (x, t) in enumerate(zip(accs, acc_tys)))
        lets, env_body = self.bind_target(s.target, et, "_py_it", env)
        has_ret = any(isinstance(n, (ast.Return, ast.Raise)) for b in s.body for n in ast.walk(b))
        if self.e.get("store_ops") and self.mentions_effect(s.body):
            self.in_store_loop += 1
            try:
                return self.for_body(s, env, cont, ind, flow, pad, src, et, accs, acc_tys, acc_ty, mg, init, unpack, lets,
                                     env_body, has_ret)
            finally:
                self.in_store_loop -= 1
        return self.for_body(s, env, cont, ind, flow, pad, src, et, accs, acc_tys, acc_ty, mg, init, unpack, lets,
                             env_body, has_ret)

    def for_body(self, s, env, cont, ind, flow, pad, src, et, accs, acc_tys, acc_ty, mg, init, unpack, lets, env_body,
                 has_ret):
        if self.monadic:
            if any(isinstance(n, ast.Return) for b in s.body for n in ast.walk(b)):
                raise Untranslatable("return inside a loop of a function translated in monadic mode", s)
            has_ret = False

        def after_body(env2):
            for x, t in zip(accs, acc_tys):
                if not same(env2[x], t):
                    raise Untranslatable("local %s changes type (%s to %s) inside the loop" % (
                        x, lean_ty(t), lean_ty(env2[x])), s)
            tup = "(" + ", ".join(mg(x) for x in accs) + ")" if accs else "()"
            if self.monadic:
                return "(Except.ok %s)" % tup
            return "(Flow.next %s)" % tup if has_ret else tup

        rebind = "".join("let %s : %s := %s;\n%s" % (mg(x), lean_ty(t), proj("_py_acc", i, len(accs)), pad)
                         for i, (x, t) in enumerate(zip(accs, acc_tys)))
        env_after = dict(env)             # locals first assigned inside the loop are not visible afterwards
        return self.for_render(s, env, cont, ind, pad, src, et, accs, acc_ty, init, unpack, lets, env_body, has_ret,
                               after_body, rebind, env_after)

    def loop_block(self, stmts, env_body, after_body, ind, flow):
        """the body of a loop: `continue` in it goes to `after_body` (what the loop does after one pass of its body)"""
        if not hasattr(self, "loop_k"):
            self.loop_k = []
        self.loop_k.append(after_body)
        try:
            return self.block(stmts, env_body, after_body, ind, flow)
        finally:
            self.loop_k.pop()

    def for_render(self, s, env, cont, ind, pad, src, et, accs, acc_ty, init, unpack, lets, env_body, has_ret, after_body,
                   rebind, env_after):
        if self.monadic:
            body = self.loop_block(s.body, env_body, after_body, ind + 4, None)
            return ("((pyForM %s %s (fun (_py_acc : %s) (_py_it : %s) =>\n%s    %s%s\n%s    %s)) >>= "
                    "fun (_py_acc : %s) =>\n%s%s%s)" % (
                        src, init, lean_ty(acc_ty), lean_ty(et), pad, unpack, lets, pad, body, lean_ty(acc_ty), pad,
                        rebind, cont(env_after)))
        if not has_ret:
            body = self.loop_block(s.body, env_body, after_body, ind + 4, None)
            return "let _py_acc : %s := List.foldl (fun (_py_acc : %s) (_py_it : %s) =>\n%s    %s%s\n%s    %s) %s %s;\n%s%s%s" % (
                lean_ty(acc_ty), lean_ty(acc_ty), lean_ty(et), pad, unpack, lets, pad, body, init, src, pad, rebind,
                cont(env_after))
        body = self.loop_block(s.body, env_body, after_body, ind + 4, True)
        pad2 = pad + "  "
        return ("(Flow.elim (pyFor %s %s (fun (_py_acc : %s) (_py_it : %s) =>\n%s    %s%s\n%s    %s))\n"
                "%s  (fun _py_r => _py_r)\n%s  (fun (_py_acc : %s) =>\n%s%s%s))" % (
                    src, init, lean_ty(acc_ty), lean_ty(et), pad, unpack, lets, pad, body, pad, pad,
                    lean_ty(acc_ty), pad2 + "  ", rebind.replace("\n" + pad, "\n" + pad2 + "  "),
                    self.block([], env_after, cont, ind + 4, None)))

    def mentions_effect(self, stmts):
        for b in stmts:
            for n in ast.walk(b):
                if isinstance(n, ast.stmt) and ast.dump(n) in self.effects:
                    return True
                if self.store and isinstance(n, ast.AugAssign) and isinstance(n.target, ast.Subscript) \
                        and isinstance(n.target.value, ast.Name) and n.target.value.id == self.store:
                    return True
                if self.e.get("generator") and isinstance(n, ast.Yield):
                    return True
                if self.e.get("store_ops") and isinstance(n, ast.Assign) and len(n.targets) == 1 \
                        and isinstance(n.targets[0], ast.Subscript) and isinstance(n.targets[0].value, ast.Name) \
                        and n.targets[0].value.id == self.store:
                    return True
                if self.e.get("store_ops") and isinstance(n, ast.AugAssign) and isinstance(n.target, ast.Subscript) \
                        and isinstance(n.target.value, ast.Name) and n.target.value.id == self.store:
                    return True
        return False

    # ---- the function

    def body_statements(self):
        """the statements translated, and the python parameters they may mention"""
        e, f = self.e, self.fnode
        body = list(f.body)
        if "after" in e:
            marker = ast.dump(ast.parse(e["after"]).body[0])
            idx = [i for i, s in enumerate(body) if ast.dump(s) == marker]
            if len(idx) != 1:
                raise Untranslatable("marker statement %r not found exactly once" % e["after"], f)
            body = body[idx[0] + 1:]
        if "loop_body" in e:
            lb = e["loop_body"]
            if "source" not in lb:
                # the loop is identified by the marker statement alone: the one `for` whose body contains it
                marker = ast.dump(ast.parse(lb["after"]).body[0])

                def all_loops(stmts):
                    for x in stmts:
                        if isinstance(x, ast.For):
                            yield x
                        if isinstance(x, (ast.If, ast.For, ast.While, ast.Try)):
                            for part in (x.body, x.orelse, getattr(x, "finalbody", [])):
                                for y in all_loops(part):
                                    yield y
                loops = [l for l in all_loops(body) if sum(1 for s in l.body if ast.dump(s) == marker) == 1]
                if len(loops) != 1:
                    raise Untranslatable("no unique loop whose body contains %r" % lb["after"], f)
                lbody = list(loops[0].body)
                idx = [i for i, s in enumerate(lbody) if ast.dump(s) == marker][0]
                return lbody[idx + 1:]
            want = ast.parse("for %s in %s: pass" % (lb["target"], lb["source"])).body[0]
            def all_stmts(stmts):           # the function's statements, through if/else and loops, not into nested defs
                for x in stmts:
                    yield x
                    if isinstance(x, (ast.If, ast.For, ast.While)):
                        for y in all_stmts(x.body):
                            yield y
                        for y in all_stmts(x.orelse):
                            yield y
            loops = [s for s in all_stmts(body) if isinstance(s, ast.For) and ast.dump(s.target) == ast.dump(want.target)
                     and ast.dump(s.iter) == ast.dump(want.iter)]
            if not loops:
                # the same loop with renamed target variable(s): alpha-renamed back to the registry's names (which must be
                # fresh in the function)
                loops = self.renamed_loops([s for s in all_stmts(body) if isinstance(s, ast.For)
                                            and ast.dump(s.iter) == ast.dump(want.iter)], want.target)
            if len(loops) != 1:
                raise Untranslatable("loop `for %s in %s` not found exactly once" % (lb["target"], lb["source"]), f)
            body = list(loops[0].body)
            marker = ast.dump(ast.parse(lb["after"]).body[0]) if lb.get("after") else None
            if marker is None:
                pass
            elif lb.get("anywhere"):
                idx = [i for i, s in enumerate(body) if ast.dump(s) == marker]
                if len(idx) != 1:
                    raise Untranslatable("loop body does not contain %r exactly once" % lb["after"], loops[0])
                body = body[idx[0] + 1:]
            else:
                if not body or ast.dump(body[0]) != marker:
                    raise Untranslatable("loop body does not start with %r" % lb["after"], loops[0])
                body = body[1:]
        return body

    def renamed_loops(self, cands, want_target):
        """loops whose target has the shape of `want_target` (a name / a flat tuple of names) under other names: copies with
        the target names consistently renamed to the wanted ones everywhere in the loop; a wanted name that already
        occurs in the function (a possible capture) disqualifies the loop"""
        import copy
        names = lambda t: [t.id] if isinstance(t, ast.Name) else \
            [x.id for x in t.elts] if isinstance(t, ast.Tuple) and all(isinstance(x, ast.Name) for x in t.elts) else None  # noqa: E731
        want = names(want_target)
        used = {x.id for x in ast.walk(self.fnode) if isinstance(x, ast.Name)} | {a.arg for a in ast.walk(self.fnode)
                                                                                 if isinstance(a, ast.arg)}
        out = []
        for l in cands:
            got = names(l.target)
            if want is None or got is None or len(got) != len(want) or type(l.target) is not type(want_target) \
                    or len(set(got)) != len(got):
                continue
            ren = {g: w for g, w in zip(got, want) if g != w}
            if any(w in used for w in ren.values()):
                continue
            l2 = copy.deepcopy(l)
            for x in ast.walk(l2):
                if isinstance(x, ast.Name) and x.id in ren:
                    x.id = ren[x.id]
                elif isinstance(x, ast.arg) and x.arg in ren:
                    x.arg = ren[x.arg]
            out.append(l2)
        return out

    def check_signature(self):
        e, a = self.e, self.fnode.args
        for d in self.fnode.decorator_list:
            if not (isinstance(d, ast.Name) and d.id == "staticmethod"):
                raise Untranslatable("decorator %s" % ast.unparse(d), self.fnode)
        if "loop_body" in e:
            return
        va = e.get("vararg")
        if a.kwarg or a.posonlyargs or (a.vararg is not None) != bool(va) or (a.kwonlyargs and "kwonly" not in e):
            raise Untranslatable("signature with *args/**kwargs/keyword-only parameters the registry does not expect",
                                 self.fnode)
        got = [x.arg for x in a.args] + ([a.vararg.arg] if a.vararg else []) + [x.arg for x in a.kwonlyargs]
        want = [p for p, _ in e["params"]] + ([va[0]] if va else []) + [p for p, _, _ in e.get("kwonly", [])]
        if got != want:
            raise Untranslatable("signature changed: parameters %s, registry expects %s" % (got, want), self.fnode)
        for x, (_, _, dflt) in zip(a.kw_defaults, e.get("kwonly", [])):
            if x is None or ast.dump(x) != ast.dump(ast.parse(dflt).body[0].value):
                raise Untranslatable("default of a keyword-only parameter changed (registry expects %s)" % dflt,
                                     self.fnode)

    def translate_once(self):
        TV.n, TV.all = 0, {}
        e = self.e
        self.check_signature()
        env, binders, ptys = {}, [], []
        for p, tyname in e["params"]:
            t = PARAM_TYPES[tyname]()
            env[p] = t
            if t is OPAQUE:
                continue
            binders.append("(%s : %s)" % (mangle(p), lean_ty(t)))
            ptys.append(t)
            if tyname == "Values":
                env[p + "_is_dict"] = BOOL
                binders.append("(%s_is_dict : Bool)" % p)
                ptys.append(BOOL)
        for p, tyname in ([e["vararg"]] if e.get("vararg") else []) + [(p, t) for p, t, _ in e.get("kwonly", [])]:
            t = PARAM_TYPES[tyname]()
            env[p] = t
            binders.append("(%s : %s)" % (mangle(p), lean_ty(t)))
            ptys.append(t)
        self.cur_ptys = ptys
        self.pend, self.nbind, self.nhyp = [[]], 0, 0
        self.stored, self.in_store_loop = False, 0
        for p, tyname in e.get("locals", []):       # names bound by the skipped statements (the marker)
            env[p] = PARAM_TYPES[tyname]()
            binders.append("(%s : %s)" % (mangle(p), lean_ty(env[p])))
            ptys.append(env[p])
        self.ret_seen = []
        stmts = self.body_statements()

        def fall_off(env2):
            if "loop_state" in e:       # end of the loop body: the locals the loop carries on
                tys = [PARAM_TYPES[t]() for _, t in e["loop_state"]]
                vals = []
                for (x, _), t in zip(e["loop_state"], tys):
                    vx, tx = self.expr(ast.Name(id=x, ctx=ast.Load(), lineno=self.fnode.lineno), env2)
                    vals.append(coerce(vx, tx, t, self.fnode))
                self.ret_seen.append(TTuple(tys) if len(tys) > 1 else tys[0])
                return self.wrap_ok("(" + ", ".join(vals) + ")")
            if "loop_body" in e or e.get("generator") or e.get("store_ops"):   # end of the loop body / generator /
                # a procedure that only writes to the container: what was collected
                self.ret_seen.append(TList(self.eff_ty))
                return self.wrap_ok("_py_eff")
            raise Untranslatable("control can reach the end of the function without return", self.fnode)

        pre = ""
        if self.eff_ty is not None:
            env["_py_eff"] = TList(self.eff_ty)
            pre = "let _py_eff : %s := [];\n  " % lean_ty(TList(self.eff_ty))
        body = pre + self.block(stmts, env, fall_off, 2)
        return binders, ptys, body

    def translate(self):
        if "returns" in self.e:
            self.ret_ty = PARAM_TYPES[self.e["returns"]]()
        else:
            self.ret_ty = None
            self.translate_once()
            if not self.ret_seen:
                raise Untranslatable("function never returns a value", self.fnode)
            t = self.ret_seen[0]
            for u in self.ret_seen[1:]:
                t = join(t, u, self.fnode)
            self.ret_ty = freeze(t)
        binders, ptys, body = self.translate_once()
        # an int literal used as an operand of object arithmetic is the number
        body = re.sub(r"\((-?\d+) : ⟦T(\d+)⟧\)", lambda m: ("(Val.num (%s))" % m.group(1)) if res(TV.all[int(m.group(2))]) is VAL
                      else m.group(0), body)
        if self.recursive:
            env = {p: PARAM_TYPES[t]() for p, t in self.e["params"] + ([self.e["vararg"]] if self.e.get("vararg") else [])}
            ms, mt = self.expr(ast.parse(self.e["measure"]).body[0].value, env)
            if res(mt) is not NAT:
                raise Untranslatable("termination measure that is not a natural number", self.fnode)
            body += "\ntermination_by %s\ndecreasing_by all_goals py_decreasing" % ms
        # a literal nothing ever constrained is a Python int
        body = re.sub(r"⟦T(\d+)⟧", lambda m: lean_ty(freeze(TV.all[int(m.group(1))]), False), body)
        rty = lean_ty(self.ret_ty)
        if self.raises:
            rty = "Except Err (%s)" % rty
        return binders, ptys, rty, body


def freeze(t):
    t = res(t)
    if isinstance(t, TV):
        return INT
    if isinstance(t, TTuple):
        return TTuple([freeze(x) for x in t.elts])
    if isinstance(t, TOpt):
        return TOpt(freeze(t.elt))
    if isinstance(t, TList):
        return TList(freeze(t.elt))
    return t


def local_single_return_helper(fnode, name):
    """`def name(p): return e` nested directly or indirectly in `fnode`, `name` bound nowhere else in it, `e` reading only
    `p` and names that are not locals of `fnode`, without scopes of its own: (p, e); None otherwise"""
    defs = [x for x in ast.walk(fnode) if isinstance(x, ast.FunctionDef) and x is not fnode and x.name == name]
    if len(defs) != 1:
        return None
    s = defs[0]
    a = s.args
    if len(a.args) != 1 or a.vararg or a.kwarg or a.kwonlyargs or a.defaults or a.posonlyargs or s.decorator_list:
        return None
    body = [x for x in s.body if not (isinstance(x, ast.Expr) and isinstance(x.value, ast.Constant)
                                      and isinstance(x.value.value, str))]
    if len(body) != 1 or not isinstance(body[0], ast.Return) or body[0].value is None:
        return None
    binds = [x.id for x in ast.walk(fnode) if isinstance(x, ast.Name) and isinstance(x.ctx, ast.Store)] + \
        [x.name for x in ast.walk(fnode) if isinstance(x, (ast.FunctionDef, ast.ClassDef)) and x is not fnode] + \
        [x.arg for x in fnode.args.args + fnode.args.kwonlyargs] + \
        [x.arg for x in (fnode.args.vararg, fnode.args.kwarg) if x is not None]
    if binds.count(name) != 1 or any(isinstance(x, (ast.Global, ast.Nonlocal)) for x in ast.walk(fnode)):
        return None
    e, p = body[0].value, a.args[0].arg
    if any(isinstance(x, (ast.Lambda, ast.GeneratorExp, ast.ListComp, ast.SetComp, ast.DictComp, ast.NamedExpr, ast.Yield,
                          ast.YieldFrom, ast.Await)) for x in ast.walk(e)):
        return None
    if ({x.id for x in ast.walk(e) if isinstance(x, ast.Name)} - {p}) & set(binds):
        return None
    return p, e


def hoisted_helper_ok(tree, name):
    """`name` is bound exactly once at module level, by a plain `def`, and no `global name` rebinding exists"""
    hits = 0
    for s in tree.body:
        if isinstance(s, (ast.Import, ast.ImportFrom)):
            hits += 100 * sum(1 for a in s.names if (a.asname or a.name).split(".")[0] == name)
        elif isinstance(s, ast.FunctionDef):
            hits += (1 if not s.decorator_list else 100) if s.name == name else 0
        elif isinstance(s, (ast.ClassDef, ast.AsyncFunctionDef)):
            hits += 100 if s.name == name else 0
        else:
            hits += 100 * sum(1 for x in ast.walk(s) if isinstance(x, ast.Name) and isinstance(x.ctx, ast.Store) and x.id == name)
    if any(isinstance(x, (ast.Global, ast.Nonlocal)) and name in x.names for x in ast.walk(tree)):
        return False
    return hits == 1


def find_hoisted(tree, qual, registered):
    """A registered NESTED function `outer.inner` that is no longer inside `outer`: the one module-level private function
    `outer` calls by name that is not itself registered (a nested def that captures nothing, moved to module level,
    possibly renamed).  Returns (node, name) or None; exactly one candidate or nothing."""
    parts = qual.split(".")
    if len(parts) != 2:
        return None
    outer = find_function(tree, parts[0])
    if outer is None:
        return None
    bound = {a.arg for a in outer.args.args + outer.args.kwonlyargs} | \
        {x.id for x in ast.walk(outer) if isinstance(x, ast.Name) and isinstance(x.ctx, ast.Store)} | \
        {x.name for x in ast.walk(outer) if isinstance(x, ast.FunctionDef) and x is not outer}
    called = {x.func.id for x in ast.walk(outer) if isinstance(x, ast.Call) and isinstance(x.func, ast.Name)}
    cands = [s for s in tree.body if isinstance(s, ast.FunctionDef) and s.name in called and s.name not in bound
             and s.name not in registered and s.name.startswith("_") and hoisted_helper_ok(tree, s.name)]
    if len(cands) != 1:
        return None
    return cands[0], cands[0].name


def find_function(tree, qual):
    parts, body = qual.split("."), tree.body
    node = None
    for i, p in enumerate(parts):
        kinds = ast.FunctionDef if i == len(parts) - 1 else (ast.ClassDef, ast.FunctionDef)
        hits = [s for s in body if isinstance(s, kinds) and s.name == p]
        if len(hits) != 1:
            return None
        node = hits[0]
        body = node.body
    return node


# generated files: unit name -> (file, imports).  One file per unit so that a source edit (or a translator
# failure) in one unit cannot disturb the obligations of the properties that use another.
UNITS = {
    "": ("Source.lean", ["Qv.Model.Basic", "Qv.Gen.Prelude"]),
    "Sat": ("SourceSat.lean", ["Qv.Model.Sat", "Qv.Gen.PreludeObj"]),
    "Cons": ("SourceCons.lean", ["Qv.Gen.Source", "Qv.Gen.PreludeCons"]),
    "Logic": ("SourceLogic.lean", ["Qv.Gen.SourceSat", "Qv.Gen.PreludePcbo"]),
    "Pcso": ("SourcePcso.lean", ["Qv.Model.Basic", "Qv.Gen.PreludeCons"]),
    "Brute": ("SourceBrute.lean", ["Qv.Model.Brute", "Qv.Gen.PreludeBrute"]),
    "Conv": ("SourceConv.lean", ["Qv.Model.Basic", "Qv.Gen.PreludeM"]),
    "Store": ("SourceStore.lean", ["Qv.Model.Basic", "Qv.Gen.PreludeStore"]),
}


_EXT_LOADED = False
EXT_MODULES = []


def load_ext():
    """Extension modules `harness/tie_ext/<name>.py` (one per builder, so that parallel work does not collide in this file).
    Each may define  REGISTRY (list of entries, same shape as above), UNITS ({unit: (file, imports)}) and FnExt (a subclass
    of Fn adding / overriding rules; used for that module's entries unless an entry names its own `fn_class`) and
    REAL (lean name -> (property, real function, input field names, oracle) for harness/gen_search.py)."""
    global _EXT_LOADED
    if _EXT_LOADED:
        return
    _EXT_LOADED = True
    import importlib
    d = os.path.join(os.path.dirname(os.path.abspath(__file__)), "tie_ext")
    if not os.path.isdir(d):
        return
    for f in sorted(os.listdir(d)):
        if f.endswith(".py") and not f.startswith("_"):
            mod = importlib.import_module("harness.tie_ext." + f[:-3])
            EXT_MODULES.append(mod)
            for u, spec in getattr(mod, "UNITS", {}).items():
                UNITS[u] = spec
            for e in getattr(mod, "REGISTRY", []):
                if hasattr(mod, "FnExt"):
                    e.setdefault("fn_class", mod.FnExt)
                REGISTRY.append(e)


def translate_all():
    """returns ({file name: lean source text}, manifest dict)"""
    load_ext()
    done, outs, manifest = {}, {u: [] for u in UNITS}, {}
    for e in REGISTRY:
        out = outs[e.get("unit", "")]
        lean_name = e.get("lean", e["func"].split(".")[-1])
        key = e["file"] + "::" + e["func"] + ("" if lean_name == e["func"].split(".")[-1] else " as " + lean_name)
        rec = dict(file=e["file"], function=e["func"], lean_name="Qv.Gen." + lean_name, props=e["props"],
                   group=e["group"], theorem="Qv.Gen.%s_eq_model" % lean_name, source_hash=None, lines=None,
                   unit=UNITS[e.get("unit", "")][0], not_translated=e.get("not_translated", []))
        info = dict(status=None, lean=lean_name, file=e["file"], raises=False)
        path = os.path.join(repo(), e["file"])
        try:
            if not os.path.exists(path):
                raise Untranslatable("source file %s is missing" % e["file"])
            src = open(path).read()
            try:
                tree = ast.parse(src)
            except SyntaxError as err:
                raise Untranslatable("source file does not parse: %s" % err)
            f = find_function(tree, e["func"])
            hoisted_as = None
            if f is None and e.get("nested"):
                h = find_hoisted(tree, e["func"], {x["func"] for x in REGISTRY if x["file"] == e["file"]})
                if h is not None:
                    f, hoisted_as = h
            if f is None:
                raise Untranslatable("function %s not found exactly once" % e["func"])
            seg = ast.get_source_segment(src, f)
            rec["source_hash"] = hashlib.sha256(seg.encode()).hexdigest()[:16]
            rec["lines"] = [f.lineno, f.end_lineno]
            fn = e.get("fn_class", Fn)(e, src, f, done)
            if hoisted_as is not None:
                fn.own_name = hoisted_as            # its recursive calls use the module-level name
                info["hoisted_as"] = hoisted_as
            binders, ptys, rty, body = fn.translate()
            info.update(status="translated", param_tys=ptys, ret_ty=fn.ret_ty, raises=fn.raises,
                        vararg=bool(e.get("vararg")), kwonly=e.get("kwonly", []), func=e["func"],
                        nested=bool(e.get("nested")))
            part = ""
            if "after" in e:
                part = "\n(only the statements after `%s`)" % e["after"].replace("\n", " ")
            if "loop_body" in e:
                if "source" in e["loop_body"]:
                    part = "\n(only the body of `for %s in %s:`%s)" % (
                        e["loop_body"]["target"], e["loop_body"]["source"],
                        " after `%s`" % e["loop_body"]["after"] if e["loop_body"].get("after") else "")
                else:
                    part = "\n(only the statements after `%s` in the body of the loop that contains it)" % e["loop_body"]["after"]
            out.append("/-- generated from `%s`, `%s`, lines %d-%d, sha256[:16] of its source text %s%s -/\n"
                       "def %s %s : %s :=\n  %s\n" % (
                           e["file"], e["func"], f.lineno, f.end_lineno, rec["source_hash"], part,
                           lean_name, " ".join(binders), rty, body))
            rec["status"] = "translated"
        except Untranslatable as err:
            rec["status"] = info["status"] = "untranslatable: %s" % err
            out.append("-- %s `%s` (%s): %s\n-- no definition of `%s` is generated; its equivalence theorem cannot compile\n" % (
                e["file"], e["func"], rec["source_hash"], rec["status"], lean_name))
        # plain functions are callable by name, methods as Class.method; partial translations are not callable
        done[e.get("done_key") or (e["func"] if "loop_body" not in e and "after" not in e else "\0" + lean_name)] = info
        manifest[key] = rec
    texts = {}
    for u, (fname, imports) in UNITS.items():
        header = ("%s\n/-!\n# Qv.Gen.%s — GENERATED by harness/translate.py "
                  "from the qubovert source; do not edit.\n\nRegenerated on every `./check` run from the current working "
                  "tree (`$VERIF_REPO`, default `/repo`).\nEach definition is the structural rendering of one Python "
                  "function (rules: docstring of\n`harness/translate.py`; meaning of the primitives: `Qv/Gen/Prelude*.lean`)."
                  "  `Qv/Proofs/GenEq/*.lean`\nproves each equal to the hand-written model function.\n-/\n"
                  "set_option linter.unusedVariables false\nnamespace Qv.Gen\n\n" % (
                      "\n".join("import " + i for i in imports), fname[:-5]))
        texts[fname] = header + "\n".join(outs[u]) + "\nend Qv.Gen\n"
    return texts, manifest


def generated_files():
    load_ext()
    return [f for f, _ in UNITS.values()]


def write(gen_dir=GEN_DIR):
    texts, manifest = translate_all()
    os.makedirs(gen_dir, exist_ok=True)
    for name, content in list(texts.items()) + [("manifest.json", json.dumps(manifest, indent=1, sort_keys=True) + "\n")]:
        p = os.path.join(gen_dir, name)
        if not os.path.exists(p) or open(p).read() != content:      # keep mtime when nothing changed
            open(p, "w").write(content)
    return manifest


if __name__ == "__main__":
    if __package__:                       # `python -m harness.translate`: use the one importable copy of this module
        from harness import translate as _T
        m = _T.write()
    else:
        m = write()
    for k, r in m.items():
        print("%-75s %s  %s" % (k, r["source_hash"], r["status"]))
    sys.exit(0)
