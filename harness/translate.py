"""Python -> Lean translator for a small, explicitly delimited fragment of qubovert (DESIGN.md §7, generated-source tie).

    /venv/bin/python -m harness.translate            # regenerate lean/Qv/Gen/{Source.lean,manifest.json}

It reads the CURRENT source under $VERIF_REPO (default /repo) with `ast` (the code is never imported or
executed), and renders each function of REGISTRY as a Lean definition in `namespace Qv.Gen`.  The rendering
is structural: one rule per syntactic construct (table in the docstrings below), no rule looks at more
than the construct it translates and the static types of its parts.  Anything outside the fragment makes
the translation of that function fail with status "untranslatable: <construct> at line N"; nothing is
guessed.  `Qv/Proofs/GenEq*.lean` then proves every generated definition equal to the hand-written model
function the property theorems are about, so an edit of one of these functions changes the generated
definition and the equality stops compiling.

Fragment
  values      int literal (a number whose type is fixed by its first use), True/False, None (only where an
              Option type is expected), names of parameters/locals, tuples
  numbers     + - * (join of Nat < Int < Rat; Nat - x is computed in Int), / (Rat), n % m (Nat only),
              -e, abs(e) -> pyAbs, ceil(e) -> pyCeil, int(e) on an int, int.bit_length(e) -> pyBitLength,
              pow(a, n) (n : Nat) -> a ^ n, len(k) -> List.length
  conditions  < <= > >= == != (chains are conjunctions), `is None` / `is not None`, not / and / or
              (truthiness: number e -> e ≠ 0, tuple or list e -> e ≠ [], `not k` -> k = [])
  containers  x[i] on an indexed container -> x i;  k[n], n literal, on a tuple of labels -> pyGet k n;
              t[n] on a pair -> t.1 / t.2;  P.items() / k / list as loop sources;  l.count(a) -> pyCount
  iteration   `for k, v in P.items(): body` without return  -> List.foldl over the association list, the
              accumulator is the tuple of the locals assigned in the body, in source order;
              with `return` in the body -> pyFor and Flow.elim (prelude);
              sum(e for .. in .. if c) -> List.foldl (acc + e) 0;  [e for i in k] / map(lambda i: e, k)
              -> List.map;  all(l) on numbers -> pyAllNum
  statements  x = e, a, b = e, x op= e, if/elif/else (the statements after an `if` are continued in both
              branches), return, raise <Exc>(..) -> Except.error (the function then returns Except Err _),
              `if <name or name[n]> is None` narrows the Option type of that name in the other branch,
              calls of other REGISTRY functions
  effects     statements listed in the entry's `effects` table append a fixed constant to the effect list
              the generated function returns (used for `self += lam * P` and the like);
              `store`: `L[key] += e` / `L[key] -= e` append `(key, e)` / `(key, -e)`
"""
import ast, hashlib, json, os, re, sys

ROOT = os.path.dirname(os.path.dirname(os.path.abspath(__file__)))
GEN_DIR = os.path.join(ROOT, "lean", "Qv", "Gen")


def repo():
    return os.environ.get("VERIF_REPO", "/repo")


class Untranslatable(Exception):
    def __init__(self, what, node=None):
        line = getattr(node, "lineno", None)
        Exception.__init__(self, "%s at line %s" % (what, line) if line else what)


# ------------------------------------------------------------------------------------------- types

class Ty:
    pass


class Simple(Ty):
    def __init__(self, name, lean):
        self.name, self.lean = name, lean

    def __repr__(self):
        return self.name


RAT, INT, NAT = Simple("Rat", "Rat"), Simple("Int", "Int"), Simple("Nat", "Nat")
BOOL, PROP, VAR, KEY = Simple("Bool", "Bool"), Simple("Prop", "Prop"), Simple("Var", "Var"), Simple("Key", "Key")
POLY, ASSIGN, UNIT, EFF = Simple("Poly", "Poly"), Simple("Assign", "(Var → Rat)"), Simple("Unit", "Unit"), Simple("Eff", "Eff")
OPAQUE = Simple("Opaque", "Unit")     # `self` and the like: may only occur inside effect statements
NUM_ORDER = [NAT, INT, RAT]


class TV(Ty):
    """type of an integer literal until its first use fixes it"""
    n = 0
    all = {}

    def __init__(self):
        TV.n += 1
        self.id, self.ref = TV.n, None
        TV.all[self.id] = self


class TTuple(Ty):
    def __init__(self, elts):
        self.elts = list(elts)


class TOpt(Ty):
    def __init__(self, elt):
        self.elt = elt


class TList(Ty):
    def __init__(self, elt):
        self.elt = elt


def res(t):
    while isinstance(t, TV) and t.ref is not None:
        t = t.ref
    return t


def lean_ty(t, top=True):
    t = res(t)
    if isinstance(t, TV):
        return "⟦T%d⟧" % t.id
    if isinstance(t, Simple):
        return t.lean
    if isinstance(t, TTuple):
        s = " × ".join(lean_ty(e, False) for e in t.elts)
        return s if top else "(" + s + ")"
    if isinstance(t, TOpt):
        s = "Option " + lean_ty(t.elt, False)
    else:
        s = "List " + lean_ty(t.elt, False)
    return s if top else "(" + s + ")"


def same(a, b):
    a, b = res(a), res(b)
    if a is b:
        return True
    if type(a) is not type(b):
        return False
    if isinstance(a, TTuple):
        return len(a.elts) == len(b.elts) and all(same(x, y) for x, y in zip(a.elts, b.elts))
    if isinstance(a, (TOpt, TList)):
        return same(a.elt, b.elt)
    return False


def is_num(t):
    t = res(t)
    return isinstance(t, TV) or t in NUM_ORDER


def num_join(a, b):
    a, b = res(a), res(b)
    if isinstance(a, TV):
        if a is not b:
            a.ref = b
        return b
    if isinstance(b, TV):
        b.ref = a
        return a
    return NUM_ORDER[max(NUM_ORDER.index(a), NUM_ORDER.index(b))]


def join(a, b, node=None):
    a, b = res(a), res(b)
    if same(a, b):
        return a
    if is_num(a) and is_num(b):
        return num_join(a, b)
    if isinstance(a, TTuple) and isinstance(b, TTuple) and len(a.elts) == len(b.elts):
        return TTuple([join(x, y, node) for x, y in zip(a.elts, b.elts)])
    if a in (BOOL, PROP) and b in (BOOL, PROP):
        return BOOL
    if isinstance(a, TOpt) and not isinstance(b, TOpt):
        return TOpt(join(a.elt, b, node))
    if isinstance(b, TOpt) and not isinstance(a, TOpt):
        return TOpt(join(a, b.elt, node))
    raise Untranslatable("values of types %s and %s meet" % (lean_ty(a), lean_ty(b)), node)


def coerce(s, frm, to, node=None):
    frm, to = res(frm), res(to)
    if same(frm, to):
        return s
    if isinstance(frm, TV) and is_num(to):
        frm.ref = to
        return s
    if isinstance(to, TV) and is_num(frm):
        to.ref = frm
        return s
    if frm in NUM_ORDER and to in NUM_ORDER and NUM_ORDER.index(frm) < NUM_ORDER.index(to):
        return "(%s.cast %s : %s)" % (frm.lean, s, to.lean)
    if frm is PROP and to is BOOL:
        return "(decide %s)" % s
    if frm is BOOL and to is PROP:
        return "(%s = true)" % s
    if isinstance(to, TOpt) and not isinstance(frm, TOpt):
        return "(some %s)" % coerce(s, frm, to.elt, node)
    if isinstance(frm, TTuple) and isinstance(to, TTuple) and len(frm.elts) == len(to.elts):
        parts = [coerce(proj(s, i, len(frm.elts)), f, t, node) for i, (f, t) in enumerate(zip(frm.elts, to.elts))]
        return "(" + ", ".join(parts) + ")"
    raise Untranslatable("a %s where a %s is needed" % (lean_ty(frm), lean_ty(to)), node)


def proj(s, i, n):
    """i-th component of an n-tuple (nested pairs)"""
    if n == 1:
        return s
    return s + ".2" * i + (".1" if i < n - 1 else "")


RESERVED = {"fun", "end", "open", "by", "at", "do", "then", "show", "have", "let", "match", "with", "where",
            "deriving", "instance", "theorem", "def", "namespace", "section", "variable", "universe", "Type",
            "Prop", "Sort", "mut", "from", "using", "calc", "macro", "syntax", "structure", "inductive",
            "class", "extends", "example", "abbrev", "private", "protected", "partial", "noncomputable"}


def mangle(name):
    if name.startswith("_py"):
        raise Untranslatable("identifier %s collides with the translator's own names" % name)
    return name + "'" if name in RESERVED else name


# ------------------------------------------------------------------------------------------- registry

OPT_BOUNDS = lambda: TOpt(TTuple([TOpt(RAT), TOpt(RAT)]))   # noqa: E731
PARAM_TYPES = {
    "Poly": lambda: POLY, "Assign": lambda: ASSIGN, "Rat": lambda: RAT, "Bool": lambda: BOOL,
    "Nat": lambda: NAT, "Int": lambda: INT, "Key": lambda: KEY, "Values": lambda: TList(RAT),
    "OptBounds": OPT_BOUNDS, "Opaque": lambda: OPAQUE,
}

EQ_ZERO_EFFECTS = {
    "self += lam * P": "Eff.iaddLamP",
    "self -= lam * P": "Eff.isubLamP",
    "self += lam * P * P": "Eff.iaddLamPP",
    "QUBOVertWarning.warn('Constraint is always satisfied')": 'Eff.warn "always"',
    "QUBOVertWarning.warn('Constraint cannot be satisfied')": 'Eff.warn "unsat"',
}

# (file, qualified name) -> lean name, parameter typing (must list the Python parameters in order),
# property the equivalence theorem belongs to, module of Qv/Proofs/GenEq holding that theorem.
REGISTRY = [
    dict(file="qubovert/utils/_approximate_extrema.py", func="approximate_pubo_extrema",
         params=[("P", "Poly")], props=["C15", "C02", "C03", "C06"], group="Extrema"),
    dict(file="qubovert/utils/_approximate_extrema.py", func="approximate_puso_extrema",
         params=[("H", "Poly")], props=["C15"], group="Extrema"),
    dict(file="qubovert/utils/_approximate_extrema.py", func="approximate_qubo_extrema",
         params=[("Q", "Poly")], props=["C15"], group="Extrema"),
    dict(file="qubovert/utils/_approximate_extrema.py", func="approximate_quso_extrema",
         params=[("L", "Poly")], props=["C15"], group="Extrema"),
    dict(file="qubovert/utils/_values.py", func="pubo_value", params=[("x", "Assign"), ("P", "Poly")],
         props=["C05"], group="Values"),
    dict(file="qubovert/utils/_values.py", func="qubo_value", params=[("x", "Assign"), ("Q", "Poly")],
         props=["C05"], group="Values"),
    dict(file="qubovert/utils/_values.py", func="puso_value", params=[("z", "Assign"), ("H", "Poly")],
         props=["C05"], group="Values"),
    dict(file="qubovert/utils/_values.py", func="quso_value", params=[("z", "Assign"), ("L", "Poly")],
         props=["C05"], group="Values"),
    dict(file="qubovert/_pubo.py", func="PUBO.default_lam", lean="default_lam", params=[("v", "Rat")],
         props=["C01"], group="Lam", extra_theorems=["default_lam_eq_app"]),
    dict(file="qubovert/utils/_binary_helpers.py", func="num_bits",
         params=[("val", "Rat"), ("log_trick", "Bool")], props=["C02", "C03", "C06"], group="Bits",
         extra_theorems=["num_bits_neg"]),
    dict(file="qubovert/utils/_binary_helpers.py", func="is_solution_spin",
         params=[("solution", "Values"), ("default", "Bool")], props=["C04"], group="Convert"),
    dict(file="qubovert/_pcbo.py", func="_get_bounds", lean="get_bounds",
         params=[("P", "Poly"), ("bounds", "OptBounds")], props=["C02", "C03", "C06"], group="Bounds",
         extra_theorems=["get_bounds_none_eq_model"]),
    # only the statements after `min_val, max_val = _get_bounds(P, bounds)`: the if/elif chain on the bounds,
    # which warning is raised and which penalty is added
    dict(file="qubovert/_pcbo.py", func="PCBO.add_constraint_eq_zero", lean="add_constraint_eq_zero_decision",
         params=[("self", "Opaque"), ("P", "Opaque"), ("lam", "Opaque"), ("bounds", "Opaque"),
                 ("suppress_warnings", "Bool")],
         after="min_val, max_val = _get_bounds(P, bounds)", locals=[("min_val", "Rat"), ("max_val", "Rat")],
         effects=EQ_ZERO_EFFECTS, returns_effects="self", props=["C02", "C03", "C06"], group="Bounds"),
    # only the body of the loop after `k = squash_key(kp)`: the updates one term (k, v) produces
    dict(file="qubovert/utils/_conversions.py", func="qubo_to_quso", lean="qubo_to_quso_term",
         loop_body=dict(target="kp, v", source="Q.items()", after="k = squash_key(kp)"),
         params=[("k", "Key"), ("v", "Rat")], store="L", may_raise=True, props=["C04"], group="Convert"),
    dict(file="qubovert/utils/_conversions.py", func="quso_to_qubo", lean="quso_to_qubo_term",
         loop_body=dict(target="kp, v", source="L.items()", after="k = squash_key(kp)"),
         params=[("k", "Key"), ("v", "Rat")], store="Q", may_raise=True, props=["C04"], group="Convert"),
]

BUILTINS = {"abs", "len", "int", "pow", "sum", "all", "map", "isinstance", "dict"}
EXC = {"KeyError": "Err.key", "ValueError": "Err.value", "TypeError": "Err.type", "IndexError": "Err.index",
       "ZeroDivisionError": "Err.zerodiv", "AttributeError": "Err.attr"}


# ------------------------------------------------------------------------------------------- translator

class Fn:
    """translation of one function"""

    def __init__(self, entry, module_src, fnode, done):
        self.e, self.src, self.fnode, self.done = entry, module_src, fnode, done
        self.ret_ty = None        # fixed in the second pass
        self.ret_seen = []
        self.raises = bool(entry.get("may_raise")) or any(isinstance(n, ast.Raise) for n in ast.walk(fnode))
        self.effects = {ast.dump(ast.parse(k).body[0]): v for k, v in entry.get("effects", {}).items()}
        self.store = entry.get("store")
        self.eff_ty = None
        if self.effects:
            self.eff_ty = EFF
        elif self.store:
            self.eff_ty = TTuple([KEY, RAT])
        self.extra_params = []

    # ---- expressions -> (lean string, type)

    def lit(self, n, node):
        if isinstance(n, bool):
            return ("true" if n else "false"), BOOL
        if isinstance(n, int):
            t = TV()
            return ("(%d : %s)" % (n, lean_ty(t)) if n >= 0 else "(-%d : %s)" % (-n, lean_ty(t))), t
        raise Untranslatable("literal %r" % (n,), node)

    def expr(self, n, env, expected=None):
        if isinstance(n, ast.Constant):
            if n.value is None:
                if expected is not None and isinstance(res(expected), TOpt):
                    return "none", res(expected)
                raise Untranslatable("None where no Option type is expected", n)
            return self.lit(n.value, n)
        if isinstance(n, ast.Name):
            if n.id not in env:
                raise Untranslatable("name %s is not a parameter or an assigned local" % n.id, n)
            if res(env[n.id]) is OPAQUE:
                raise Untranslatable("opaque parameter %s used outside an effect statement" % n.id, n)
            return mangle(n.id), env[n.id]
        if isinstance(n, ast.Tuple):
            exp = res(expected) if expected is not None else None
            if isinstance(exp, TTuple) and len(exp.elts) == len(n.elts):
                parts = [self.expr(x, env, t) for x, t in zip(n.elts, exp.elts)]
            else:
                parts = [self.expr(x, env) for x in n.elts]
            if all(res(t) is VAR for _, t in parts):          # a tuple of labels is a key (`()` included)
                return "[" + ", ".join(s for s, _ in parts) + "]", KEY
            if len(parts) == 1:
                raise Untranslatable("1-tuple of non-labels", n)
            return "(" + ", ".join(s for s, _ in parts) + ")", TTuple([t for _, t in parts])
        if isinstance(n, ast.UnaryOp):
            if isinstance(n.op, ast.USub):
                if isinstance(n.operand, ast.Constant) and isinstance(n.operand.value, int) \
                        and not isinstance(n.operand.value, bool):
                    return self.lit(-n.operand.value, n)
                s, t = self.expr(n.operand, env)
                if not is_num(t):
                    raise Untranslatable("negation of a non-number", n)
                if res(t) is NAT:
                    s, t = coerce(s, t, INT), INT
                return "(-%s)" % s, t
            if isinstance(n.op, ast.Not):
                return self.negation(n.operand, env), PROP
            raise Untranslatable("unary operator %s" % type(n.op).__name__, n)
        if isinstance(n, ast.BinOp):
            return self.binop(n.op, n.left, n.right, env, n)
        if isinstance(n, ast.Compare):
            return self.compare(n, env), PROP
        if isinstance(n, ast.BoolOp):
            # only its truth value is used anywhere in the fragment
            op = " ∧ " if isinstance(n.op, ast.And) else " ∨ "
            return "(" + op.join(self.cond(v, env) for v in n.values) + ")", PROP
        if isinstance(n, ast.IfExp):
            c = self.cond(n.test, env)
            a, ta = self.expr(n.body, env, expected)
            b, tb = self.expr(n.orelse, env, expected)
            t = join(ta, tb, n)
            return "(if %s then %s else %s)" % (c, coerce(a, ta, t, n), coerce(b, tb, t, n)), t
        if isinstance(n, ast.Subscript):
            return self.subscript(n, env)
        if isinstance(n, ast.Call):
            return self.call(n, env)
        if isinstance(n, ast.ListComp):
            return self.comprehension(n, env)
        raise Untranslatable("expression %s" % type(n).__name__, n)

    def binop(self, op, left, right, env, node):
        a, ta = self.expr(left, env)
        b, tb = self.expr(right, env)
        if not (is_num(ta) and is_num(tb)):
            raise Untranslatable("arithmetic on non-numbers (%s, %s)" % (lean_ty(ta), lean_ty(tb)), node)
        if isinstance(op, ast.Div):
            return "(%s / %s)" % (coerce(a, ta, RAT), coerce(b, tb, RAT)), RAT
        if isinstance(op, ast.Mod):
            return "(%s %% %s)" % (self.as_nat(a, ta, "% on", node), self.as_nat(b, tb, "% by", node)), NAT
        sym = {ast.Add: "+", ast.Sub: "-", ast.Mult: "*"}.get(type(op))
        if sym is None:
            raise Untranslatable("operator %s" % type(op).__name__, node)
        t = num_join(ta, tb)
        if sym == "-" and res(t) is NAT:
            t = INT
        return "(%s %s %s)" % (coerce(a, ta, t), sym, coerce(b, tb, t)), t

    def as_nat(self, s, t, what, node):
        t = res(t)
        if isinstance(t, TV):
            t.ref = NAT
        elif t is not NAT:
            raise Untranslatable("%s something that is not a natural number" % what, node)
        return s

    def compare(self, n, env):
        parts, left = [], n.left
        for op, right in zip(n.ops, n.comparators):
            if isinstance(op, (ast.Is, ast.IsNot)):
                if not (isinstance(right, ast.Constant) and right.value is None):
                    raise Untranslatable("`is` other than `is None`", n)
                a, ta = self.expr(left, env)
                if not isinstance(res(ta), TOpt):
                    raise Untranslatable("`is None` on a value that is not optional", n)
                parts.append("%s %s none" % (a, "=" if isinstance(op, ast.Is) else "≠"))
            else:
                sym = {ast.Lt: "<", ast.LtE: "≤", ast.Gt: ">", ast.GtE: "≥", ast.Eq: "=", ast.NotEq: "≠"}.get(type(op))
                if sym is None:
                    raise Untranslatable("comparison %s" % type(op).__name__, n)
                a, ta = self.expr(left, env)
                b, tb = self.expr(right, env, ta)
                if is_num(ta) and is_num(tb):
                    t = num_join(ta, tb)
                    a, b = coerce(a, ta, t), coerce(b, tb, t)
                elif not same(ta, tb) or sym not in ("=", "≠"):
                    raise Untranslatable("comparison of %s with %s" % (lean_ty(ta), lean_ty(tb)), n)
                parts.append("%s %s %s" % (a, sym, b))
            left = right
        return "(" + " ∧ ".join(parts) + ")"

    def cond(self, n, env):
        """truth value of an expression, as a decidable proposition"""
        s, t = self.expr(n, env)
        t = res(t)
        if t is PROP:
            return s
        if t is BOOL:
            return "(%s = true)" % s
        if is_num(t):
            return "(%s ≠ 0)" % s
        if t is KEY or isinstance(t, TList):
            return "(%s ≠ [])" % s
        raise Untranslatable("truth value of a %s" % lean_ty(t), n)

    def negation(self, n, env):
        s, t = self.expr(n, env)
        t = res(t)
        if t is PROP:
            return "(¬ %s)" % s
        if t is BOOL:
            return "(%s = false)" % s
        if is_num(t):
            return "(%s = 0)" % s
        if t is KEY or isinstance(t, TList):
            return "(%s = [])" % s
        raise Untranslatable("truth value of a %s" % lean_ty(t), n)

    def const_index(self, n):
        i = n.slice
        if isinstance(i, ast.Constant) and isinstance(i.value, int) and not isinstance(i.value, bool) and i.value >= 0:
            return i.value
        return None

    def subscript(self, n, env):
        v, tv = self.expr(n.value, env)
        tv = res(tv)
        if tv is ASSIGN:
            i, ti = self.expr(n.slice, env)
            if res(ti) is not VAR:
                raise Untranslatable("container indexed by something that is not a label", n)
            return "(%s %s)" % (v, i), RAT
        c = self.const_index(n)
        if c is None:
            raise Untranslatable("subscript with a non-literal index", n)
        if tv is KEY:
            return "(pyGet %s %d)" % (v, c), VAR
        if isinstance(tv, TTuple) and c < len(tv.elts):
            return proj(v, c, len(tv.elts)), tv.elts[c]
        raise Untranslatable("subscript of a %s" % lean_ty(tv), n)

    def iter_source(self, n, env):
        """(lean list, element type) of something iterated"""
        if isinstance(n, ast.Call) and isinstance(n.func, ast.Attribute) and n.func.attr == "items" and not n.args \
                and not n.keywords:
            s, t = self.expr(n.func.value, env)
            if res(t) is POLY:
                return s, TTuple([KEY, RAT])
            raise Untranslatable(".items() of a %s" % lean_ty(t), n)
        s, t = self.expr(n, env)
        t = res(t)
        if t is KEY:
            return s, VAR
        if isinstance(t, TList):
            return s, t.elt
        raise Untranslatable("iteration over a %s" % lean_ty(t), n)

    def bind_target(self, target, elt_ty, it, env):
        """`let`s binding the loop target(s) to the element `it`; returns (lets, env')"""
        env = dict(env)
        if isinstance(target, ast.Name):
            env[target.id] = elt_ty
            return "let %s : %s := %s; " % (mangle(target.id), lean_ty(elt_ty), it), env
        et = res(elt_ty)
        if isinstance(target, ast.Tuple) and isinstance(et, TTuple) and len(target.elts) == len(et.elts) \
                and all(isinstance(x, ast.Name) for x in target.elts):
            lets = ""
            for i, (x, t) in enumerate(zip(target.elts, et.elts)):
                env[x.id] = t
                lets += "let %s : %s := %s; " % (mangle(x.id), lean_ty(t), proj(it, i, len(et.elts)))
            return lets, env
        raise Untranslatable("loop target does not match the element type %s" % lean_ty(elt_ty), target)

    def one_generator(self, n):
        if len(n.generators) != 1 or n.generators[0].is_async:
            raise Untranslatable("comprehension with several generators", n)
        return n.generators[0]

    def comprehension(self, n, env):
        g = self.one_generator(n)
        src, et = self.iter_source(g.iter, env)
        lets, env2 = self.bind_target(g.target, et, "_py_it", env)
        e, te = self.expr(n.elt, env2)
        if res(te) is PROP:
            e, te = coerce(e, PROP, BOOL), BOOL
        if g.ifs:
            c = " ∧ ".join(self.cond(i, env2) for i in g.ifs)
            src = "(List.filter (fun (_py_it : %s) => %sdecide %s) %s)" % (lean_ty(et), lets, c, src)
        return "(List.map (fun (_py_it : %s) => %s%s) %s)" % (lean_ty(et), lets, e, src), TList(te)

    def call(self, n, env):
        if n.keywords:
            raise Untranslatable("keyword arguments", n)
        f = n.func
        if isinstance(f, ast.Attribute):
            if isinstance(f.value, ast.Name) and f.value.id == "int" and f.attr == "bit_length" and len(n.args) == 1:
                a, ta = self.expr(n.args[0], env)
                if res(ta) not in (NAT, INT):
                    raise Untranslatable("int.bit_length of a %s" % lean_ty(ta), n)
                return "(pyBitLength %s)" % coerce(a, ta, INT), NAT
            if f.attr == "count" and len(n.args) == 1:
                l, tl = self.expr(f.value, env)
                if isinstance(res(tl), TList) and res(res(tl).elt) is RAT:
                    a, ta = self.expr(n.args[0], env)
                    return "(pyCount %s %s)" % (l, coerce(a, ta, RAT, n)), NAT
                raise Untranslatable(".count on a %s" % lean_ty(tl), n)
            if f.attr == "values" and not n.args and isinstance(f.value, ast.Name) \
                    and f.value.id + "_is_dict" in env:
                return self.expr(f.value, env)          # a `Values` parameter *is* the list of its values
            raise Untranslatable("method call .%s" % f.attr, n)
        if not isinstance(f, ast.Name):
            raise Untranslatable("call of a computed function", n)
        name, args = f.id, n.args
        if name in env:
            raise Untranslatable("call of a local", n)
        if name in BUILTINS and name in self.module_names():
            raise Untranslatable("builtin %s is rebound in this module" % name, n)
        if name == "abs" and len(args) == 1:
            a, ta = self.expr(args[0], env)
            return "(pyAbs %s)" % coerce(a, ta, RAT, n), RAT
        if name == "len" and len(args) == 1:
            a, ta = self.expr(args[0], env)
            if res(ta) is KEY or isinstance(res(ta), TList) or res(ta) is POLY:
                return "(List.length %s)" % a, NAT
            raise Untranslatable("len of a %s" % lean_ty(ta), n)
        if name == "ceil" and len(args) == 1:
            self.need_import("math", "ceil", n)
            a, ta = self.expr(args[0], env)
            return "(pyCeil %s)" % coerce(a, ta, RAT, n), INT
        if name == "int" and len(args) == 1:
            a, ta = self.expr(args[0], env)
            if res(ta) in (NAT, INT):
                return a, ta
            raise Untranslatable("int() of a %s (truncation is outside the fragment)" % lean_ty(ta), n)
        if name == "pow" and len(args) == 2:
            a, ta = self.expr(args[0], env)
            b, tb = self.expr(args[1], env)
            if not is_num(ta):
                raise Untranslatable("pow of a non-number", n)
            return "(%s ^ %s)" % (a, self.as_nat(b, tb, "pow with an exponent", n)), ta
        if name == "sum" and len(args) == 1 and isinstance(args[0], ast.GeneratorExp):
            return self.sum_gen(args[0], env)
        if name == "all" and len(args) == 1:
            l, tl = self.list_like(args[0], env)
            if isinstance(res(tl), TList) and res(res(tl).elt) is RAT:
                return "(pyAllNum %s)" % l, BOOL
            raise Untranslatable("all() of a %s" % lean_ty(tl), n)
        if name == "isinstance" and len(args) == 2 and isinstance(args[0], ast.Name) \
                and isinstance(args[1], ast.Name) and args[1].id == "dict" and args[0].id + "_is_dict" in env:
            return args[0].id + "_is_dict", BOOL
        if name in self.done:
            return self.call_registered(name, n, env)
        raise Untranslatable("call of %s" % name, n)

    def list_like(self, n, env):
        if isinstance(n, ast.Call) and isinstance(n.func, ast.Name) and n.func.id == "map" and len(n.args) == 2 \
                and isinstance(n.args[0], ast.Lambda):
            lam = n.args[0]
            a = lam.args
            if len(a.args) != 1 or a.vararg or a.kwarg or a.kwonlyargs or a.defaults or a.posonlyargs:
                raise Untranslatable("lambda with other than one plain parameter", lam)
            src, et = self.iter_source(n.args[1], env)
            p = a.args[0].arg
            env2 = dict(env)
            env2[p] = et
            e, te = self.expr(lam.body, env2)
            return "(List.map (fun (%s : %s) => %s) %s)" % (mangle(p), lean_ty(et), e, src), TList(te)
        return self.expr(n, env)

    def sum_gen(self, g, env):
        gen = self.one_generator(g)
        src, et = self.iter_source(gen.iter, env)
        lets, env2 = self.bind_target(gen.target, et, "_py_it", env)
        e, te = self.expr(g.elt, env2)
        if not is_num(te):
            raise Untranslatable("sum of non-numbers", g)
        step = "(_py_acc + %s)" % e
        if gen.ifs:
            c = " ∧ ".join(self.cond(i, env2) for i in gen.ifs)
            step = "if %s then %s else _py_acc" % (c, step)
        t = lean_ty(te)
        return "(List.foldl (fun (_py_acc : %s) (_py_it : %s) => %s%s) (0 : %s) %s)" % (
            t, lean_ty(et), lets, step, t, src), te

    def module_names(self):
        """every name bound at module level (imports, defs, classes, assignments)"""
        out = set()
        for s in ast.parse(self.src).body:
            if isinstance(s, (ast.Import, ast.ImportFrom)):
                out |= {(a.asname or a.name).split(".")[0] for a in s.names}
            elif isinstance(s, (ast.FunctionDef, ast.ClassDef, ast.AsyncFunctionDef)):
                out.add(s.name)
            else:
                out |= {n.id for n in ast.walk(s) if isinstance(n, ast.Name) and isinstance(n.ctx, ast.Store)}
        return out

    def need_import(self, module, name, node):
        """`name` must be bound by `from module import name` at module level and nowhere else"""
        tree = ast.parse(self.src)
        ok = False
        for s in tree.body:
            if isinstance(s, ast.ImportFrom) and s.module == module and any(
                    a.name == name and a.asname in (None, name) for a in s.names):
                ok = True
            elif isinstance(s, (ast.FunctionDef, ast.ClassDef)) and s.name == name:
                ok = False
                break
            elif isinstance(s, ast.Assign) and any(isinstance(t, ast.Name) and t.id == name for t in s.targets):
                ok = False
                break
        if not ok:
            raise Untranslatable("%s is not `from %s import %s`" % (name, module, name), node)

    def call_registered(self, name, n, env):
        callee = self.done[name]
        if callee["status"] != "translated":
            raise Untranslatable("call of %s, which is itself %s" % (name, callee["status"]), n)
        if callee["raises"]:
            raise Untranslatable("call of a function that may raise", n)
        # the name must denote that function here: defined in this module, or imported by name
        tree = ast.parse(self.src)
        defined = any(isinstance(s, ast.FunctionDef) and s.name == name for s in tree.body)
        imported = any(isinstance(s, ast.ImportFrom) and any(a.name == name and a.asname is None for a in s.names)
                       for s in tree.body)
        if defined == imported:
            raise Untranslatable("cannot resolve %s to the registered function" % name, n)
        if defined and callee["file"] != self.e["file"]:
            raise Untranslatable("%s is a different function in this module" % name, n)
        ptys = callee["param_tys"]
        if len(n.args) != len(ptys):
            raise Untranslatable("call of %s with %d arguments" % (name, len(n.args)), n)
        args = []
        for a, pt in zip(n.args, ptys):
            s, t = self.expr(a, env, pt)
            args.append(coerce(s, t, pt, n))
        return "(%s %s)" % (callee["lean"], " ".join(args)), callee["ret_ty"]

    # ---- statements (continuation passing: `k(env)` renders what happens after the block)

    def assigned(self, stmts):
        """names assigned in a list of statements, in source order (loop targets excluded by the caller)"""
        out = []
        for s in stmts:
            for n in ast.walk(s):
                if isinstance(n, ast.Name) and isinstance(n.ctx, ast.Store) and n.id not in out:
                    out.append(n.id)
        return out

    def is_effect(self, s):
        return ast.dump(s) in self.effects or (isinstance(s, ast.Expr) and ast.dump(s) in self.effects)

    def ret(self, s, env):
        if self.e.get("returns_effects") and isinstance(s.value, ast.Name) and s.value.id == self.e["returns_effects"]:
            v, t = "_py_eff", TList(self.eff_ty)
        elif s.value is None:
            raise Untranslatable("bare return", s)
        else:
            v, t = self.expr(s.value, env, self.ret_ty)
        if res(t) is PROP:
            v, t = coerce(v, PROP, BOOL), BOOL
        self.ret_seen.append(t)
        if self.ret_ty is not None:
            v = coerce(v, t, self.ret_ty, s)
        return v

    def wrap_ok(self, v):
        return "(Except.ok %s)" % v if self.raises else v

    def block(self, stmts, env, k, ind, flow=None):
        """flow: None in straight code / foldl bodies; (ρ) inside a pyFor body, where return -> Flow.ret"""
        if not stmts:
            return k(env)
        s, rest = stmts[0], stmts[1:]
        pad = " " * ind

        def cont(env2):
            return self.block(rest, env2, k, ind, flow)

        if isinstance(s, ast.Expr) and isinstance(s.value, ast.Constant) and isinstance(s.value.value, str):
            return cont(env)                      # docstring
        if isinstance(s, ast.Pass):
            return cont(env)
        if self.effects and ast.dump(s) in self.effects:
            return "let _py_eff : List Eff := _py_eff ++ [%s];\n%s%s" % (self.effects[ast.dump(s)], pad, cont(env))
        if isinstance(s, ast.Return):
            if rest:
                raise Untranslatable("statement after return", rest[0])
            v = self.wrap_ok(self.ret(s, env))
            return "(Flow.ret %s)" % v if flow else v
        if isinstance(s, ast.Raise):
            if rest:
                raise Untranslatable("statement after raise", rest[0])
            exc = s.exc
            name = exc.func.id if isinstance(exc, ast.Call) and isinstance(exc.func, ast.Name) else \
                exc.id if isinstance(exc, ast.Name) else None
            if name not in EXC or s.cause is not None:
                raise Untranslatable("raise of something that is not a builtin exception of the model's enum", s)
            v = "(Except.error %s)" % EXC[name]
            return "(Flow.ret %s)" % v if flow else v
        if isinstance(s, ast.Assign):
            if len(s.targets) != 1:
                raise Untranslatable("chained assignment", s)
            return self.assign(s.targets[0], s.value, env, cont, pad, s)
        if isinstance(s, ast.AugAssign):
            if isinstance(s.target, ast.Name):
                v, t = self.binop(s.op, ast.Name(id=s.target.id, ctx=ast.Load(), lineno=s.lineno), s.value, env, s)
                env2 = dict(env)
                env2[s.target.id] = t
                return "let %s : %s := %s;\n%s%s" % (mangle(s.target.id), lean_ty(t), v, pad, cont(env2))
            if self.store and isinstance(s.target, ast.Subscript) and isinstance(s.target.value, ast.Name) \
                    and s.target.value.id == self.store and isinstance(s.op, (ast.Add, ast.Sub)):
                key, tk = self.expr(s.target.slice, env)
                if res(tk) is not KEY:
                    raise Untranslatable("store into %s with a key that is not a tuple of labels" % self.store, s)
                v, tv = self.expr(s.value, env)
                v = coerce(v, tv, RAT, s)
                if isinstance(s.op, ast.Sub):
                    v = "(-%s)" % v
                return "let _py_eff : List (Key × Rat) := _py_eff ++ [(%s, %s)];\n%s%s" % (key, v, pad, cont(env))
            raise Untranslatable("augmented assignment to something that is not a local", s)
        if isinstance(s, ast.If):
            return self.if_(s.test, s.body, s.orelse, env, cont, ind, flow, s)
        if isinstance(s, ast.For):
            return self.for_(s, env, cont, ind, flow)
        raise Untranslatable("statement %s" % type(s).__name__, s)

    def assign(self, target, value, env, cont, pad, node):
        if isinstance(target, ast.Name):
            v, t = self.expr(value, env)
            if res(t) is PROP:
                v, t = coerce(v, PROP, BOOL), BOOL
            env2 = dict(env)
            env2[target.id] = t
            return "let %s : %s := %s;\n%s%s" % (mangle(target.id), lean_ty(t), v, pad, cont(env2))
        if isinstance(target, ast.Tuple) and all(isinstance(x, ast.Name) for x in target.elts):
            v, t = self.expr(value, env)
            t = res(t)
            names = [x.id for x in target.elts]
            if isinstance(t, TTuple) and len(t.elts) == len(names):
                env2 = dict(env)
                out = "let _py_t : %s := %s;\n%s" % (lean_ty(t), v, pad)
                for i, (x, tx) in enumerate(zip(names, t.elts)):
                    env2[x] = tx
                    out += "let %s : %s := %s;\n%s" % (mangle(x), lean_ty(tx), proj("_py_t", i, len(names)), pad)
                return out + cont(env2)
            if t is KEY:
                # unpacking a tuple of unknown length: ValueError unless the lengths agree
                if not self.raises:
                    raise Untranslatable("unpacking of a key in a function not declared may_raise", node)
                env2 = dict(env)
                for x in names:
                    env2[x] = VAR
                return "(match %s with\n%s| [%s] =>\n%s  %s\n%s| _ => (Except.error Err.value))" % (
                    v, pad, ", ".join(mangle(x) for x in names), pad, cont(env2), pad)
            raise Untranslatable("unpacking of a %s into %d names" % (lean_ty(t), len(names)), node)
        raise Untranslatable("assignment target %s" % type(target).__name__, node)

    def narrowing(self, test, env):
        """`X is None` / `X[n] is None` (or `is not`) on a name of Option type: (name, index|None, negated)"""
        if isinstance(test, ast.Compare) and len(test.ops) == 1 and isinstance(test.ops[0], (ast.Is, ast.IsNot)) \
                and isinstance(test.comparators[0], ast.Constant) and test.comparators[0].value is None:
            neg = isinstance(test.ops[0], ast.IsNot)
            x = test.left
            if isinstance(x, ast.Name) and x.id in env and isinstance(res(env[x.id]), TOpt):
                return x.id, None, neg
            if isinstance(x, ast.Subscript) and isinstance(x.value, ast.Name) and x.value.id in env:
                t, c = res(env[x.value.id]), self.const_index(x)
                if isinstance(t, TTuple) and c is not None and c < len(t.elts) and isinstance(res(t.elts[c]), TOpt):
                    return x.value.id, c, neg
        return None

    def if_(self, test, body, orelse, env, cont, ind, flow, node):
        pad = " " * ind
        if isinstance(test, ast.BoolOp) and isinstance(test.op, ast.Or) and self.narrowing(test.values[0], env):
            # `if A or B: S else: E`  ==  `if A: S else: (if B: S else: E)`   (A narrows a name for B, E)
            rest = test.values[1] if len(test.values) == 2 else ast.BoolOp(op=ast.Or(), values=test.values[1:])
            inner = ast.If(test=rest, body=body, orelse=orelse, lineno=node.lineno)
            return self.if_(test.values[0], body, [inner], env, cont, ind, flow, node)
        nar = self.narrowing(test, env)
        if nar:
            name, c, neg = nar
            t = res(env[name])
            env_some = dict(env)
            if c is None:
                scrut, rebind = mangle(name), "let %s : %s := _py_some;" % (mangle(name), lean_ty(t.elt))
                env_some[name] = t.elt
            else:
                elts = list(t.elts)
                elts[c] = res(elts[c]).elt
                t2 = TTuple(elts)
                parts = ["_py_some" if i == c else proj(mangle(name), i, len(elts)) for i in range(len(elts))]
                scrut = proj(mangle(name), c, len(elts))
                rebind = "let %s : %s := (%s);" % (mangle(name), lean_ty(t2), ", ".join(parts))
                env_some[name] = t2
            none_blk, some_blk = (orelse, body) if neg else (body, orelse)
            a = self.block(none_blk, env, cont, ind + 4, flow)
            b = self.block(some_blk, env_some, cont, ind + 4, flow)
            return "(match %s with\n%s| none =>\n%s    %s\n%s| some _py_some =>\n%s    %s\n%s    %s)" % (
                scrut, pad, pad, a, pad, pad, rebind, pad, b)
        c = self.cond(test, env)
        a = self.block(body, env, cont, ind + 2, flow)
        b = self.block(orelse, env, cont, ind + 2, flow)
        return "if %s then\n%s  (%s)\n%selse\n%s  (%s)" % (c, pad, a, pad, pad, b)

    def for_(self, s, env, cont, ind, flow):
        if s.orelse:
            raise Untranslatable("for ... else", s)
        if flow:
            raise Untranslatable("nested loop inside a loop with return", s)
        pad = " " * ind
        src, et = self.iter_source(s.iter, env)
        targets = [n.id for n in ast.walk(s.target) if isinstance(n, ast.Name)]
        names = [x for x in self.assigned(s.body) if x not in targets]
        accs = [x for x in names if x in env]
        if self.eff_ty is not None and "_py_eff" in env and self.mentions_effect(s.body):
            accs.append("_py_eff")
        for x in targets:
            if x in env:
                raise Untranslatable("loop target %s shadows a local" % x, s)
        acc_tys = [env[x] for x in accs]
        acc_ty = TTuple(acc_tys) if len(accs) > 1 else (acc_tys[0] if accs else UNIT)
        mg = lambda x: x if x == "_py_eff" else mangle(x)   # noqa: E731
        init = "(" + ", ".join(mg(x) for x in accs) + ")" if accs else "()"
        unpack = "".join("let %s : %s := %s; " % (mg(x), lean_ty(t), proj("_py_acc", i, len(accs)))
                         for i, (x, t) in enumerate(zip(accs, acc_tys)))
        lets, env_body = self.bind_target(s.target, et, "_py_it", env)
        has_ret = any(isinstance(n, (ast.Return, ast.Raise)) for b in s.body for n in ast.walk(b))

        def after_body(env2):
            for x, t in zip(accs, acc_tys):
                if not same(env2[x], t):
                    raise Untranslatable("local %s changes type (%s to %s) inside the loop" % (
                        x, lean_ty(t), lean_ty(env2[x])), s)
            tup = "(" + ", ".join(mg(x) for x in accs) + ")" if accs else "()"
            return "(Flow.next %s)" % tup if has_ret else tup

        rebind = "".join("let %s : %s := %s;\n%s" % (mg(x), lean_ty(t), proj("_py_acc", i, len(accs)), pad)
                         for i, (x, t) in enumerate(zip(accs, acc_tys)))
        env_after = dict(env)             # locals first assigned inside the loop are not visible afterwards
        if not has_ret:
            body = self.block(s.body, env_body, after_body, ind + 4, None)
            return "let _py_acc : %s := List.foldl (fun (_py_acc : %s) (_py_it : %s) =>\n%s    %s%s\n%s    %s) %s %s;\n%s%s%s" % (
                lean_ty(acc_ty), lean_ty(acc_ty), lean_ty(et), pad, unpack, lets, pad, body, init, src, pad, rebind,
                cont(env_after))
        body = self.block(s.body, env_body, after_body, ind + 4, True)
        pad2 = pad + "  "
        return ("(Flow.elim (pyFor %s %s (fun (_py_acc : %s) (_py_it : %s) =>\n%s    %s%s\n%s    %s))\n"
                "%s  (fun _py_r => _py_r)\n%s  (fun (_py_acc : %s) =>\n%s%s%s))" % (
                    src, init, lean_ty(acc_ty), lean_ty(et), pad, unpack, lets, pad, body, pad, pad,
                    lean_ty(acc_ty), pad2 + "  ", rebind.replace("\n" + pad, "\n" + pad2 + "  "),
                    self.block([], env_after, cont, ind + 4, None)))

    def mentions_effect(self, stmts):
        for b in stmts:
            for n in ast.walk(b):
                if isinstance(n, ast.stmt) and ast.dump(n) in self.effects:
                    return True
                if self.store and isinstance(n, ast.AugAssign) and isinstance(n.target, ast.Subscript) \
                        and isinstance(n.target.value, ast.Name) and n.target.value.id == self.store:
                    return True
        return False

    # ---- the function

    def body_statements(self):
        """the statements translated, and the python parameters they may mention"""
        e, f = self.e, self.fnode
        body = list(f.body)
        if "after" in e:
            marker = ast.dump(ast.parse(e["after"]).body[0])
            idx = [i for i, s in enumerate(body) if ast.dump(s) == marker]
            if len(idx) != 1:
                raise Untranslatable("marker statement %r not found exactly once" % e["after"], f)
            body = body[idx[0] + 1:]
        if "loop_body" in e:
            lb = e["loop_body"]
            want = ast.parse("for %s in %s: pass" % (lb["target"], lb["source"])).body[0]
            loops = [s for s in body if isinstance(s, ast.For) and ast.dump(s.target) == ast.dump(want.target)
                     and ast.dump(s.iter) == ast.dump(want.iter)]
            if len(loops) != 1:
                raise Untranslatable("loop `for %s in %s` not found exactly once" % (lb["target"], lb["source"]), f)
            body = list(loops[0].body)
            marker = ast.dump(ast.parse(lb["after"]).body[0])
            if not body or ast.dump(body[0]) != marker:
                raise Untranslatable("loop body does not start with %r" % lb["after"], loops[0])
            body = body[1:]
        return body

    def check_signature(self):
        e, a = self.e, self.fnode.args
        for d in self.fnode.decorator_list:
            if not (isinstance(d, ast.Name) and d.id == "staticmethod"):
                raise Untranslatable("decorator %s" % ast.unparse(d), self.fnode)
        if "loop_body" in e:
            return
        if a.vararg or a.kwarg or a.kwonlyargs or a.posonlyargs:
            raise Untranslatable("signature with *args/**kwargs/keyword-only parameters", self.fnode)
        got = [x.arg for x in a.args]
        want = [p for p, _ in e["params"]]
        if got != want:
            raise Untranslatable("signature changed: parameters %s, registry expects %s" % (got, want), self.fnode)

    def translate_once(self):
        TV.n, TV.all = 0, {}
        e = self.e
        self.check_signature()
        env, binders, ptys = {}, [], []
        for p, tyname in e["params"]:
            t = PARAM_TYPES[tyname]()
            env[p] = t
            if t is OPAQUE:
                continue
            binders.append("(%s : %s)" % (mangle(p), lean_ty(t)))
            ptys.append(t)
            if tyname == "Values":
                env[p + "_is_dict"] = BOOL
                binders.append("(%s_is_dict : Bool)" % p)
                ptys.append(BOOL)
        for p, tyname in e.get("locals", []):       # names bound by the skipped statements (the marker)
            env[p] = PARAM_TYPES[tyname]()
            binders.append("(%s : %s)" % (mangle(p), lean_ty(env[p])))
            ptys.append(env[p])
        self.ret_seen = []
        stmts = self.body_statements()

        def fall_off(env2):
            if "loop_body" in e:        # end of the loop body: the updates collected so far
                self.ret_seen.append(TList(self.eff_ty))
                return self.wrap_ok("_py_eff")
            raise Untranslatable("control can reach the end of the function without return", self.fnode)

        pre = ""
        if self.eff_ty is not None:
            env["_py_eff"] = TList(self.eff_ty)
            pre = "let _py_eff : %s := [];\n  " % lean_ty(TList(self.eff_ty))
        body = pre + self.block(stmts, env, fall_off, 2)
        return binders, ptys, body

    def translate(self):
        self.ret_ty = None
        self.translate_once()
        if not self.ret_seen:
            raise Untranslatable("function never returns a value", self.fnode)
        t = self.ret_seen[0]
        for u in self.ret_seen[1:]:
            t = join(t, u, self.fnode)
        self.ret_ty = freeze(t)
        binders, ptys, body = self.translate_once()
        # a literal nothing ever constrained is a Python int
        body = re.sub(r"⟦T(\d+)⟧", lambda m: lean_ty(freeze(TV.all[int(m.group(1))]), False), body)
        rty = lean_ty(self.ret_ty)
        if self.raises:
            rty = "Except Err (%s)" % rty
        return binders, ptys, rty, body


def freeze(t):
    t = res(t)
    if isinstance(t, TV):
        return INT
    if isinstance(t, TTuple):
        return TTuple([freeze(x) for x in t.elts])
    if isinstance(t, TOpt):
        return TOpt(freeze(t.elt))
    if isinstance(t, TList):
        return TList(freeze(t.elt))
    return t


def find_function(tree, qual):
    parts, body = qual.split("."), tree.body
    node = None
    for i, p in enumerate(parts):
        kinds = ast.FunctionDef if i == len(parts) - 1 else ast.ClassDef
        hits = [s for s in body if isinstance(s, kinds) and s.name == p]
        if len(hits) != 1:
            return None
        node = hits[0]
        body = node.body
    return node


def translate_all():
    """returns (lean source text, manifest dict)"""
    done, out, manifest = {}, [], {}
    for e in REGISTRY:
        lean_name = e.get("lean", e["func"].split(".")[-1])
        key = e["file"] + "::" + e["func"] + ("" if lean_name == e["func"].split(".")[-1] else " as " + lean_name)
        rec = dict(file=e["file"], function=e["func"], lean_name="Qv.Gen." + lean_name, props=e["props"],
                   group=e["group"], theorem="Qv.Gen.%s_eq_model" % lean_name, source_hash=None, lines=None)
        info = dict(status=None, lean=lean_name, file=e["file"], raises=False)
        path = os.path.join(repo(), e["file"])
        try:
            if not os.path.exists(path):
                raise Untranslatable("source file %s is missing" % e["file"])
            src = open(path).read()
            try:
                tree = ast.parse(src)
            except SyntaxError as err:
                raise Untranslatable("source file does not parse: %s" % err)
            f = find_function(tree, e["func"])
            if f is None:
                raise Untranslatable("function %s not found exactly once" % e["func"])
            seg = ast.get_source_segment(src, f)
            rec["source_hash"] = hashlib.sha256(seg.encode()).hexdigest()[:16]
            rec["lines"] = [f.lineno, f.end_lineno]
            fn = Fn(e, src, f, done)
            binders, ptys, rty, body = fn.translate()
            info.update(status="translated", param_tys=ptys, ret_ty=fn.ret_ty, raises=fn.raises)
            part = ""
            if "after" in e:
                part = "\n(only the statements after `%s`)" % e["after"].replace("\n", " ")
            if "loop_body" in e:
                part = "\n(only the body of `for %s in %s:` after `%s`)" % (
                    e["loop_body"]["target"], e["loop_body"]["source"], e["loop_body"]["after"])
            out.append("/-- generated from `%s`, `%s`, lines %d-%d, sha256[:16] of its source text %s%s -/\n"
                       "def %s %s : %s :=\n  %s\n" % (
                           e["file"], e["func"], f.lineno, f.end_lineno, rec["source_hash"], part,
                           lean_name, " ".join(binders), rty, body))
            rec["status"] = "translated"
        except Untranslatable as err:
            rec["status"] = info["status"] = "untranslatable: %s" % err
            out.append("-- %s `%s` (%s): %s\n-- no definition of `%s` is generated; its equivalence theorem cannot compile\n" % (
                e["file"], e["func"], rec["source_hash"], rec["status"], lean_name))
        done[e["func"].split(".")[-1] if "loop_body" not in e and "after" not in e else "\0" + lean_name] = info
        manifest[key] = rec
    header = ("import Qv.Model.Basic\nimport Qv.Gen.Prelude\n/-!\n# Qv.Gen.Source — GENERATED by harness/translate.py "
              "from the qubovert source; do not edit.\n\nRegenerated on every `./check` run from the current working "
              "tree (`$VERIF_REPO`, default `/repo`).\nEach definition is the structural rendering of one Python "
              "function (rules: docstring of\n`harness/translate.py`; meaning of the primitives: `Qv/Gen/Prelude.lean`)."
              "  `Qv/Proofs/GenEq/*.lean`\nproves each equal to the hand-written model function.\n-/\n"
              "set_option linter.unusedVariables false\nnamespace Qv.Gen\n\n")
    return header + "\n".join(out) + "\nend Qv.Gen\n", manifest


def write(gen_dir=GEN_DIR):
    text, manifest = translate_all()
    os.makedirs(gen_dir, exist_ok=True)
    for name, content in (("Source.lean", text), ("manifest.json", json.dumps(manifest, indent=1, sort_keys=True) + "\n")):
        p = os.path.join(gen_dir, name)
        if not os.path.exists(p) or open(p).read() != content:      # keep mtime when nothing changed
            open(p, "w").write(content)
    return manifest


if __name__ == "__main__":
    m = write()
    for k, r in m.items():
        print("%-75s %s  %s" % (k, r["source_hash"], r["status"]))
    sys.exit(0)
