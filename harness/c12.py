"""C12 — annealer dynamics are reproducible Metropolis sweeps (correspondence + oracle + supporting statistics).

Families (all cases are in the case format of harness/c11.py, so the C11 exact-replay machinery is reused):
  replay   (a) exact replay of states/values for fixed non-negative seeds, T > 0 / T = 0 / mixed, in-order and random
           visiting, QUSO and PUSO kernels (all four functions), schedules up to 80 (quick) / 300 (thorough) sweeps,
           through the Lean model (`c11_anneal`: front end over Q, kernel on Float with the PCG32 model);
           plus arbitrary-float kernel replays (`c11_kernel_*`) with long schedules
  repro    (b) the same call repeated, interleaved with other annealer calls (other functions, other seeds,
           seed=None) in the same process, must return identical results
  zero     (c) schedule of zeros + supplied initial state: every result's value <= value of the initial state;
           integer-labelled Matrix models visited in order: the final state must be reachable by the reference sweep
           "label order, dE < 0 => flip, dE > 0 => keep" (ties: either), written here from the property text
  tiefree  (c) tie-free Matrix models (coefficients distinct signed powers of two, every variable in a term / with a
           linear term): the final state equals THE reference sweep (flip iff dE < 0); no tie may occur
  mapping  replay / zero cases on labelled objects (QUSO, PUSO, PCSO, QUBO, PUBO, PCBO) whose label -> integer mapping was
           set by the user with set_mapping / set_reverse_mapping: a random permutation given in a dict whose insertion
           order differs from the index order, or in index order with permuted labels; asymmetric initial states as
           dicts, 40% of them strict local minima (which T = 0 must return unchanged).  The model (`c12_anneal`) is fed
           the mapping read by index — the data the code reads — never the insertion order of the dicts
  xeq      labelled inputs (dict, QUSO, PUSO, PCSO, QUBO, PUBO, PCBO; all four functions) whose integer labels are written as
           int / float / bool / numpy.int64 from one occurrence to the next (1 == 1.0 == True: ONE variable), 60% of the
           monomials of degree >= 2 given twice in spellings that ordering_key stores under DIFFERENT keys, e.g.
           {(1.0, 0): -2, (0, 1): 1} — the conversion to the integer matrix must add the two entries.  `xeq-zero`: schedule
           of zeros + initial state (40% strict local minima): value <= initial value, value == model(state), a strict
           minimum is returned unchanged, and (in order, <= 4 variables) the final state must be reachable by the reference
           sweep "flip when dE < 0, keep when dE > 0" in SOME fixed visiting order of the variables (the property fixes
           the order only for Matrix models); `xeq-replay`: T > 0 schedules, value == model(state) and domain.  The Lean
           model is compared exactly where it is label-parametric (spin functions; anneal_pubo on a dict) — see
           c11.model_is_label_parametric — the other calls are judged by the oracle only
  schedtype explicit schedules whose entries are numbers that are not Python floats but equal the float they stand for: int,
           bool, Fraction, Decimal, numpy.int64/int32/uint8/float32/float16/float64/bool_, objects with only __index__
           (only exactly representable values), uniform or mixed within one schedule, as list / tuple / ndarray / iterator;
           all four functions, all input kinds, both visiting orders, T > 0 / zeros / mixed: (i) exact replay through the
           Lean model run on the equal float schedule under the same seed, (ii) direct oracle: the call and the call with
           [float(t) for t in schedule] (equal arguments in Python's ==, same seed) must return identical results
  accept   SUPPORTING STATISTICAL CLAUSE, every run: one-variable models started in their ground state, ONE sweep at a
           positive temperature T given as float / int (4 and 1000) / bool / Fraction / Decimal / numpy.int64 / numpy.float32 /
           __index__ object, coefficient T/4 so that the only possible move is uphill by dE = T/2: 2000 anneals per call,
           all four functions x both visiting orders x 9 (type, T) settings = 72 calls; the number of accepted flips must be within
           t = sqrt(n ln(2/1e-11) / 2) = 161.3 of n exp(-1/2) = 1213.1 (Hoeffding: false-alarm probability <= 1e-11 per
           call, < 1e-9 per run, for an ideal uniform generator)
  reheat   SUPPORTING STATISTICAL CLAUSE, every run: non-monotone schedules (a zero-temperature stretch followed by positive
           temperatures) started from a strict local minimum, fixed and generated 2-4-variable models, 400 seeds each: the
           number of runs that end in the initial state must be within 6 sigma of n * p0, p0 the exact probability under
           the k-step Metropolis dynamics computed here (p0 is well below 1: the re-heated sweeps must be performed)
  chi2     (d) SUPPORTING STATISTICAL TEST, not proof — thorough tier (and the failing-input search of the quick tier):
           ~2*10^5 anneals of 2-3-spin models, k <= 3 sweeps from a given state, both visiting orders, one fresh seed
           per anneal; chi-square of the empirical final-state distribution against the exact k-step single-spin
           Metropolis distribution (acceptance min(1, exp(-dE/T)), computed here independently); fails at p < 1e-9

The direct oracles are written from the property text and share nothing with the Lean model.
"""
import itertools, math, warnings
from fractions import Fraction
from . import common, c11
from .common import Labels, fs, exc_name

CEXT = "plain"
RULE = ("calls of anneal_quso/puso/qubo/pubo on dict / labelled / Matrix inputs (2..8 variables, dyadic coefficients, "
        "no cancelled terms; labelled objects with the automatic or a user-set permuted mapping; labels equal across types "
        "(1 / 1.0 / True / numpy.int64(1)) with monomials stored under two keys; explicit schedules whose entries are int / bool / "
        "Fraction / Decimal / numpy scalars / __index__ objects equal to floats), explicit schedules of 0..80 sweeps (T>0, T=0, mixed, cooling) and 'linear'/'geometric', "
        "initial_state or random start, in_order or random visiting, seeds in [0, 2^31), num_anneals 1..3; "
        "zero/tiefree: schedules of zeros with a supplied initial state; non-trivial = the C kernel ran on >= 2 spins "
        "with >= 1 term of degree >= 2 and a non-empty schedule; distinct = distinct case JSON")
ASSUMPTIONS = [
    "exact replay: coefficients are dyadic so that float(v) and the C double arithmetic are exact; PCG32 and libm exp are "
    "reproduced bit for bit by the Lean driver (C11); seed >= 0",
    "C12 is PARTIAL: the distributional sentence needs an ideal uniform generator; it is supported by the chi-square TEST "
    "(thorough tier; labelled a test, not proof) and by T12.4 (acceptance region / index map are the Metropolis ones)",
    "the tie reading: the code flips at dE = 0 (min(1, exp(-dE/T)) = 1 there); the oracle demands only dE<0 => flip, "
    "dE>0 => keep, and the exact final state only on tie-free models",
]

SPIN_FNS = ("quso", "puso")
MATRIX_OF = {"quso": ["QUSOMatrix"], "puso": ["PUSOMatrix", "QUSOMatrix"], "qubo": ["QUBOMatrix"], "pubo": ["PUBOMatrix"]}
KINDS = {"quso": ["dict", "QUSO", "QUSOMatrix"],
         "puso": ["dict", "QUSO", "PUSO", "PCSO", "QUSOMatrix", "PUSOMatrix"],
         "qubo": ["dict", "QUBO", "QUBOMatrix"],
         "pubo": ["dict", "QUBO", "PUBO", "PCBO", "PUBOMatrix"]}
DEG2 = c11.DEG2
MATRIX = c11.MATRIX
COEFS = c11.COEFS

# ------------------------------------------------------------------ generation

def gen_model(rng, fn, kind, nmax=8):
    """ops without repeated keys, without cancellation, every key with distinct labels, >= 1 key of degree >= 1"""
    deg2 = fn in ("quso", "qubo") or kind in DEG2
    matrix = kind in MATRIX
    n = rng.randint(2, nmax)
    ids = sorted(rng.sample(range(nmax + 1), n)) if (matrix and rng.random() < 0.25) else list(range(n))
    labels = "int" if matrix else rng.choice(Labels.STYLES_X)
    seen, ops = set(), []
    for _ in range(rng.randint(2, 12)):
        ln = rng.choice([1, 2, 2, 2] if deg2 else [1, 2, 2, 3, 3, 4])
        k = tuple(sorted(rng.sample(ids, min(ln, len(ids)))))
        if k in seen:
            continue
        seen.add(k)
        k = list(k)
        rng.shuffle(k)
        ops.append([k, rng.choice(COEFS)])
    if rng.random() < 0.4:
        ops.insert(rng.randrange(len(ops) + 1), [[], rng.choice(COEFS)])
    return ops, ids, labels

def gen_schedule(rng, maxdur):
    dur = rng.choice([1, 2, 5, 10, 20, 40, maxdur, rng.randint(1, maxdur)])
    mode = rng.choice(["zero", "mixed", "hot", "cool", "cool", "const", "tail0", "reheat", "reheat", "midzero"])
    if mode == "zero":
        Ts = [0.0] * dur
    elif mode == "mixed":
        Ts = [rng.choice([0.0, 0.3, 1.0, 2.5, rng.uniform(0.01, 5)]) for _ in range(dur)]
    elif mode == "hot":
        Ts = [rng.uniform(2, 50) for _ in range(dur)]
    elif mode == "const":
        Ts = [rng.choice([0.25, 0.5, 1.0, 3.0])] * dur
    elif mode == "reheat":                      # a zero-temperature stretch first, then positive temperatures again
        z = rng.randint(1, max(1, dur // 2))
        Ts = [0.0] * z + [rng.choice([8.0, 6.0, 2.5, 1.0, rng.uniform(0.5, 10)]) for _ in range(max(1, dur - z))]
    elif mode == "midzero":                     # hot, zeros in the middle, hot again
        a = max(1, dur // 3)
        Ts = ([rng.uniform(0.5, 8) for _ in range(a)] + [0.0] * rng.randint(1, a + 1) +
              [rng.uniform(0.5, 8) for _ in range(a)])
    elif mode == "tail0":
        h = dur // 2
        Ts = sorted((rng.uniform(0.01, 8) for _ in range(h)), reverse=True) + [0.0] * (dur - h)
    else:
        Ts = sorted((rng.uniform(0.01, 8) for _ in range(dur)), reverse=True)
    return {"t": "explicit", "Ts": Ts}

def gen_init(rng, fn, kind, ids):
    spin = fn in SPIN_FNS
    dom = range(max(ids) + 1) if kind in MATRIX else ids
    return [[i, rng.choice([1, -1] if spin else [0, 1])] for i in dom]

LABELLED = {"QUSO", "PUSO", "PCSO", "QUBO", "PUBO", "PCBO"}

def gen_mapping(rng, ops):
    """a user-chosen label -> integer mapping for the variables of `ops` (a permutation of 0..n-1), as the ordered
    pairs handed to set_mapping / set_reverse_mapping"""
    vs = sorted({i for k, _ in ops for i in k})
    n = len(vs)
    if n < 2:
        return None
    perm = list(range(n))
    while perm == list(range(n)) and n > 1:
        rng.shuffle(perm)
    pairs = [[v, perm[j]] for j, v in enumerate(vs)]            # label v gets integer perm[j]
    style = rng.choice(["shuffled", "shuffled", "by-label", "index-order"])
    if style == "shuffled":
        rng.shuffle(pairs)
    elif style == "index-order":
        pairs.sort(key=lambda p: p[1])                           # insertion order = index order, labels permuted
    return {"how": rng.choice(["set_mapping", "set_reverse_mapping"]), "style": style, "pairs": pairs}

def mapping_by_index(case):
    m = case.get("mapping")
    return None if not m else [v for v, _ in sorted(m["pairs"], key=lambda p: p[1])]

def local_minimum(rng, case, ids):
    """a strict local minimum of the model reached by greedy descent from a random state (None if none was found)"""
    spin = case["fn"] in SPIN_FNS
    poly = model_poly(case)
    x = {i: rng.choice([1, -1] if spin else [0, 1]) for i in ids}
    for _ in range(64):
        moved = False
        for i in ids:
            y = flipped(x, i, spin)
            if energy(poly, y) < energy(poly, x):
                x, moved = y, True
        if not moved:
            break
    if all(energy(poly, flipped(x, i, spin)) > energy(poly, x) for i in ids):
        return [[i, x[i]] for i in ids]
    return None

def add_mapping(rng, case, want_minimum):
    if case["kind"] not in LABELLED:
        return case
    m = gen_mapping(rng, case["ops"])
    if m is None:
        return case
    case["mapping"] = m
    vs = sorted({i for k, _ in case["ops"] for i in k})
    if case["init"] is not None:
        case["init"] = [[i, v] for i, v in case["init"] if i in vs]      # exactly the variables of the model
        if want_minimum and rng.random() < 0.4:
            lm = local_minimum(rng, case, vs)
            if lm is not None:
                case["init"] = lm
    return case

def gen_replay(rng, maxdur):
    fn = rng.choice(["quso", "puso", "qubo", "pubo"])
    kind = rng.choice(KINDS[fn])
    ops, ids, labels = gen_model(rng, fn, kind)
    r = rng.random()
    if r < 0.12:
        sched = {"t": "named", "name": rng.choice(["linear", "geometric"]), "duration": rng.randint(1, maxdur)}
        if rng.random() < 0.5:
            a, b = sorted((rng.choice([0.25, 0.5, 1.0, 2.0, 3.5, 8.0]), rng.choice([0.25, 0.5, 1.0, 2.0, 3.5, 8.0])))
            sched["range"] = [b, a]
    else:
        sched = gen_schedule(rng, maxdur)
    return {"family": "anneal", "c12": "replay", "fn": fn, "kind": kind, "shape": "general", "ops": ops, "labels": labels,
            "num": rng.choice(["int", "frac", "float"]), "sched": sched,
            "init": gen_init(rng, fn, kind, ids) if rng.random() < 0.5 else None,
            "in_order": rng.random() < 0.5,
            "seed": rng.choice([0, 1, 2, 3, 2 ** 31 - 1] + [rng.randrange(2 ** 31) for _ in range(10)]),
            "num_anneals": rng.choice([1, 1, 2, 3])}

def gen_replay_mapping(rng, maxdur):
    while True:
        c = gen_replay(rng, maxdur)
        if c["kind"] in LABELLED:
            break
    if c["init"] is None and rng.random() < 0.7:
        c["init"] = gen_init(rng, c["fn"], c["kind"], sorted({i for k, _ in c["ops"] for i in k}))
    return add_mapping(rng, c, False)

def gen_zero_mapping(rng):
    while True:
        c = gen_zero(rng)
        if c["kind"] in LABELLED:
            break
    return add_mapping(rng, c, True)

def gen_zero(rng):
    fn = rng.choice(["quso", "puso", "qubo", "pubo"])
    kind = rng.choice(KINDS[fn] + MATRIX_OF[fn] * 2)
    ops, ids, labels = gen_model(rng, fn, kind, nmax=7)
    return {"family": "anneal", "c12": "zero", "fn": fn, "kind": kind, "shape": "general", "ops": ops, "labels": labels,
            "num": rng.choice(["int", "frac", "float"]),
            "sched": {"t": "explicit", "Ts": [0.0] * rng.choice([0, 1, 1, 2, 3, 5, 9])},
            "init": gen_init(rng, fn, kind, ids), "in_order": rng.random() < 0.6,
            "seed": rng.randrange(2 ** 31), "num_anneals": rng.choice([1, 2, 3])}

def gen_tiefree(rng):
    """Matrix model, labels 0..n-1 without gaps, coefficients distinct signed powers of two; spin: every variable
    occurs in a term; boolean: every variable has a linear term — then no single flip has dE = 0"""
    fn = rng.choice(["quso", "puso", "qubo", "pubo"])
    kind = rng.choice(MATRIX_OF[fn])
    deg2 = fn in ("quso", "qubo") or kind in DEG2
    spin = fn in SPIN_FNS
    n = rng.randint(2, 7)
    ids = list(range(n))
    keys = set()
    if not spin:
        keys |= {(i,) for i in ids}
    for _ in range(rng.randint(1, 9)):
        ln = rng.choice([1, 2, 2, 2] if deg2 else [1, 2, 2, 3, 3, 4])
        keys.add(tuple(sorted(rng.sample(ids, min(ln, n)))))
    for i in ids:                                   # no isolated variable
        if not any(i in k for k in keys):
            j = rng.choice([x for x in ids if x != i])
            keys.add(tuple(sorted((i, j))))
    keys = sorted(keys)
    rng.shuffle(keys)
    exps = rng.sample(range(-3, 14), len(keys))      # distinct powers of two, dyadic
    ops = [[list(k), fs(Fraction(2) ** e * rng.choice([1, -1]))] for k, e in zip(keys, exps)]
    if rng.random() < 0.4:
        ops.append([[], rng.choice(COEFS)])
    return {"family": "anneal", "c12": "tiefree", "fn": fn, "kind": kind, "shape": "general", "ops": ops, "labels": "int",
            "num": rng.choice(["int", "frac", "float"]),
            "sched": {"t": "explicit", "Ts": [0.0] * rng.choice([0, 1, 1, 2, 3, 4, 6])},
            "init": gen_init(rng, fn, kind, ids), "in_order": True,
            "seed": rng.randrange(2 ** 31), "num_anneals": rng.choice([1, 2])}

# ------------------------------------------------------------------ families xeq (labels equal across types), schedtype

LAB_KINDS = {fn: [k for k in KINDS[fn] if k not in MATRIX] for fn in KINDS}

def gen_xeq(rng, zero, maxdur=40):
    fn = rng.choice(["quso", "quso", "puso", "qubo", "qubo", "pubo"])
    kind = rng.choice(LAB_KINDS[fn])
    while True:
        ops, spl, ids = c11.gen_xeq_ops(rng, fn, kind, nmax=4 if zero else 6)
        c = {"family": "anneal", "c12": "xeq-zero" if zero else "xeq-replay", "fn": fn, "kind": kind, "shape": "xeq",
             "ops": ops, "spell": spl, "labels": "xeq", "num": rng.choice(["int", "frac", "float"])}
        if c11.xeq_collisions(c) or rng.random() < 0.1:
            break
    if zero:
        c["sched"] = {"t": "explicit", "Ts": [0.0] * rng.choice([0, 1, 1, 2, 3, 5])}
        c["init"] = gen_init(rng, fn, kind, ids)
        if rng.random() < 0.4:
            lm = local_minimum(rng, c, ids)
            if lm is not None:
                c["init"] = lm
    else:
        c["sched"] = gen_schedule(rng, maxdur)
        c["init"] = gen_init(rng, fn, kind, ids) if rng.random() < 0.5 else None
    c.update(in_order=rng.random() < 0.6, seed=rng.randrange(2 ** 31), num_anneals=rng.choice([1, 2, 3]))
    return c

def gen_schedtype(rng, maxdur):
    c = gen_replay(rng, maxdur)
    c["c12"] = "schedtype"
    c["sched"] = c11.gen_typed_schedule(rng, min(maxdur, 40))
    if c["init"] is None and rng.random() < 0.6:
        ids = sorted({i for k, _ in c["ops"] for i in k})
        c["init"] = gen_init(rng, c["fn"], c["kind"], ids)
    return c

def float_twin(case):
    """the same call with the schedule [float(t) for t in schedule] (== the typed schedule, element by element)"""
    s = {k: v for k, v in case["sched"].items() if k not in ("types", "container")}
    return dict(case, sched=s)

def schedtype_oracle(case):
    """direct oracle (ii): equal arguments, same seed => identical results (the real code twice; no model involved)"""
    a, b = plain_call(case), plain_call(float_twin(case))
    if a != b:
        sch = c11.typed_schedule(case["sched"])
        return ("C12:schedule-entry-type",
                "anneal_%s(..., schedule=%r, in_order=%s, seed=%r) returns %s, but the same call with the equal schedule %r "
                "(every entry == the float it stands for) returns %s: with a fixed seed, calls with equal arguments must "
                "return identical results, and a temperature is a number, not a Python type"
                % (case["fn"], list(sch) if not isinstance(sch, (list, tuple)) else sch, case["in_order"], case["seed"],
                   str(a)[:300], [float(t) for t in case["sched"]["Ts"]], str(b)[:300]))
    return None

def value_oracle(case, canon, res, L):
    """xeq-replay: domain, spin flag and value == model(state), written from the property text (C11's clause, needed here
    because the dynamics ran on whatever matrix the front end built)"""
    if "err" in canon:
        return ("C12:exception", "anneal_%s raised %s on a valid call" % (case["fn"], canon["err"]))
    spin = case["fn"] in SPIN_FNS
    poly = model_poly(case)
    variables = {i for k in poly for i in k}
    if len(res) != case["num_anneals"]:
        return ("C12:count", "returned %d results for num_anneals=%d" % (len(res), case["num_anneals"]))
    for idx, r in enumerate(res):
        st = {L.ident(k): int(v) for k, v in r.state.items()}
        if set(st) != variables:
            return ("C12:domain", "result %d: state domain %s, variables %s" % (idx, sorted(st), sorted(variables)))
        if Fraction(r.value) != energy(poly, st):
            return ("C12:value", "result %d: value %s but the model %s evaluates to %s at its state %s"
                    % (idx, r.value, describe(case), energy(poly, st), st))
    return None

def describe(case):
    """the concrete Python model of a case (for messages)"""
    try:
        obj, _ = c11.build_obj(dict(case, mapping=None))
        return "%s(%r)" % (case["kind"], dict(obj)) if case["kind"] != "dict" else repr(obj)
    except Exception:
        return repr(case["ops"])

def perm_sweep_ok(poly, x0, st, sweeps, spin, limit=4):
    """in-order visiting at T = 0 of a labelled model: the variables are visited in ONE fixed order per sweep, which the
    property does not name — the final state must be reachable by the reference sweep in some order"""
    ids = sorted(x0)
    if len(ids) > limit:
        return True
    target = tuple(sorted(st.items()))
    for order in itertools.permutations(ids):
        if target in reference_sweeps(poly, x0, list(order), sweeps, spin, False):
            return True
    return False

# ------------------------------------------------------------------ family accept (supporting statistical clause)

ACCEPT_TS = [("float", 4.0), ("int", 4.0), ("int", 1000.0), ("bool", 1.0), ("frac", 2.5), ("decimal", 1.5),
             ("npint64", 3.0), ("npfloat32", 2.5), ("index", 2.0)]
ACCEPT_N = 2000
ACCEPT_DELTA = 1e-11        # per call; 72 calls per run: < 1e-9

def accept_case(fn, ty, T, in_order, seed):
    return {"c12": "accept", "fn": fn, "type": ty, "T": T, "in_order": in_order, "seed": seed, "n": ACCEPT_N}

def run_accept(case):
    """one call, n anneals of a one-variable model from its ground state, one sweep at temperature T (an entry of Python
    type case["type"]): the single possible move is uphill by dE = T/2, so the number of runs that end flipped is a sum of
    n independent indicators of probability exp(-dE/T) = exp(-1/2) under the property's Metropolis rule"""
    import qubovert.sim as sim
    from qubovert.utils import QUSOMatrix, PUSOMatrix
    fn, T, n = case["fn"], float(case["T"]), case["n"]
    c = T / 4                                   # dyadic
    if fn in SPIN_FNS:
        model = (QUSOMatrix if fn == "quso" else PUSOMatrix)({(0,): c})      # H = c z: ground state z = -1, flip costs 2c
        init, flipped_val = {0: -1}, 1
    else:
        model = {(0,): -2 * c}                                                # -2c x: ground state x = 1, flip costs 2c
        init, flipped_val = {0: 1}, 0
    entry = c11.typed_entry(T, case["type"])
    with warnings.catch_warnings():
        warnings.simplefilter("ignore")
        res = getattr(sim, "anneal_" + fn)(model, num_anneals=n, initial_state=init, schedule=[entry],
                                           in_order=case["in_order"], seed=case["seed"])
    k = sum(1 for r in res if r.state[0] == flipped_val)
    p = math.exp(-0.5)
    t = math.sqrt(n * math.log(2 / ACCEPT_DELTA) / 2)
    summ = {"fn": fn, "type": case["type"], "T": T, "in_order": case["in_order"], "anneals": n, "accepted": k,
            "expected": round(n * p, 1), "bound": round(t, 1)}
    if len(res) != n or abs(k - n * p) > t:
        return (("C12:distribution",
                 "STATISTICAL CLAUSE: anneal_%s(%r, num_anneals=%d, initial_state=%r, schedule=[%r], in_order=%s, seed=%d): the "
                 "only possible move is uphill by dE = %s and must be accepted with probability exp(-dE/T) = exp(-1/2) = %.4f, "
                 "i.e. %.1f of %d runs; observed %d (Hoeffding bound for a false alarm at probability 1e-11: +-%.1f)"
                 % (fn, dict(model), n, init, entry, case["in_order"], case["seed"], 2 * c, p, n * p, n, k, t)), summ)
    return None, summ

def accept_family(ctx):
    for fn in ("quso", "puso", "qubo", "pubo"):
        for ty, T in ACCEPT_TS:
            for io in (True, False):
                case = accept_case(fn, ty, T, io, ctx.rng.randrange(2 ** 31))
                bad, summ = run_accept(case)
                ctx.case(case, True)
                ctx.count("accept:%s:%s" % (fn, ty))
                if bad or (fn == "quso" and io):
                    ctx.notes.append("accept (supporting statistical clause, not proof) %s" % summ)
                if bad:
                    ctx.violation(bad[0], case, bad[1])

def gen_kernel(rng, maxdur):
    c = c11.gen_kernel_case(rng)
    dur = rng.choice([20, 40, maxdur, rng.randint(1, maxdur)])
    c["Ts"] = [rng.choice([0.0, rng.uniform(0.01, 6), rng.uniform(0.01, 6)]) for _ in range(dur)]
    c["c12"] = "kernel"
    return c

# ------------------------------------------------------------------ implementation / model side (with user-set mappings)

def build_obj(case):
    obj, L = c11.build_obj(case)
    m = case.get("mapping")
    if m:
        if m["how"] == "set_mapping":
            obj.set_mapping({L.lab(v): k for v, k in m["pairs"]})
        else:
            obj.set_reverse_mapping({k: L.lab(v) for v, k in m["pairs"]})
    return obj, L

def run_impl(case):
    """c11.run_impl with the user-set mapping applied to the object (same 7-tuple)"""
    if not case.get("mapping"):
        return c11.run_impl(case)
    import qubovert.sim as sim
    obj, L = build_obj(case)
    kw, sched_data = c11.schedule_args(case, obj)
    init = None if case["init"] is None else {L.lab(i): v for i, v in case["init"]}
    c = c11.cap(); c.last = None
    try:
        with warnings.catch_warnings():
            warnings.simplefilter("ignore")
            res = getattr(sim, "anneal_" + case["fn"])(obj, num_anneals=case["num_anneals"], initial_state=init,
                                                       in_order=case["in_order"], seed=case["seed"], **kw)
    except c11.UnsafeKernelCall as e:
        return {"err": "other"}, None, obj, L, sched_data, c.last, str(e)
    except Exception as e:
        return {"err": exc_name(e)}, None, obj, L, sched_data, c.last, repr(e)
    try:
        canon = {"results": [{"state": sorted([L.ident(k), int(v)] for k, v in r.state.items()), "value": fs(r.value),
                              "spin": bool(r.spin)} for r in res],
                 "best": None if res.best is None else fs(res.best.value),
                 "call": c11.canon_call(c.last if (c.last and "out" in c.last) else None)}
    except Exception as e:
        return {"err": "canon:" + repr(e)}, res, obj, L, sched_data, c.last, repr(e)
    return canon, res, obj, L, sched_data, c.last, None

def model_line(case, sched_data):
    line = c11.model_line(case, sched_data)
    if case.get("mapping"):
        line = dict(line, op="c12_anneal", mapping=mapping_by_index(case))
    return line

# ------------------------------------------------------------------ independent reading of the input and the energy

def model_poly(case):
    """the polynomial the call is about: {sorted key tuple: Fraction} (keys have distinct labels, no cancellation)"""
    spin = case["fn"] in SPIN_FNS
    poly = {}
    for k, v in case["ops"]:
        sk = tuple(c11.squashed(k, spin))
        poly[sk] = poly.get(sk, Fraction(0)) + Fraction(v)
    return {k: v for k, v in poly.items() if v != 0}

def energy(poly, x):
    tot = Fraction(0)
    for k, v in poly.items():
        m = v
        for i in k:
            m = m * x[i]
        tot += m
    return tot

def flipped(x, i, spin):
    y = dict(x)
    y[i] = -x[i] if spin else 1 - x[i]
    return y

def reference_sweeps(poly, x0, order, sweeps, spin, strict):
    """the sweep of the property text: visit the variables in `order`, flip whenever the exact energy change is
    negative, keep when it is positive.  strict=True: returns (final state, tie seen); strict=False: ties may go either
    way — returns the set of reachable final states (as sorted tuples)"""
    if strict:
        x, tie = dict(x0), False
        for _ in range(sweeps):
            for i in order:
                y = flipped(x, i, spin)
                dE = energy(poly, y) - energy(poly, x)
                if dE == 0:
                    tie = True
                if dE < 0:
                    x = y
        return x, tie
    states = {tuple(sorted(x0.items()))}
    for _ in range(sweeps):
        for i in order:
            nxt = set()
            for st in states:
                x = dict(st)
                y = flipped(x, i, spin)
                dE = energy(poly, y) - energy(poly, x)
                if dE <= 0:
                    nxt.add(tuple(sorted(y.items())))
                if dE >= 0:
                    nxt.add(st)
            states = nxt
    return states

def zero_oracle(case, canon, res, L):
    """(c): returns (signature, why) or None"""
    spin = case["fn"] in SPIN_FNS
    poly = model_poly(case)
    if "err" in canon:
        return ("C12:exception", "anneal_%s raised %s on a valid zero-temperature call" % (case["fn"], canon["err"]))
    x0 = {i: v for i, v in case["init"]}
    e0 = energy(poly, x0)
    sweeps = len(case["sched"]["Ts"])
    if len(res) != case["num_anneals"]:
        return ("C12:count", "returned %d results for num_anneals=%d" % (len(res), case["num_anneals"]))
    matrix_in_order = case["in_order"] and case["kind"] in MATRIX_OF[case["fn"]]
    ref_set = ref_one = None
    strict_min = all(energy(poly, flipped(x0, i, spin)) > e0 for i in x0)
    how = ""
    if case.get("mapping"):
        how = " [object with %s(%s)]" % (case["mapping"]["how"], case["mapping"]["pairs"])
    for idx, r in enumerate(res):
        st = {L.ident(k): int(v) for k, v in r.state.items()}
        if Fraction(r.value) > e0:
            return ("C12:zero-temperature-value-increased",
                    "result %d: value %s > value %s of the supplied initial state %s (schedule of %d zeros, in_order=%s)%s%s"
                    % (idx, r.value, e0, x0, sweeps, case["in_order"], how,
                       " [model %s]" % describe(case) if case.get("spell") else ""))
        if set(st) != set(x0):
            continue        # domain questions are C11's
        if Fraction(r.value) != energy(poly, st):
            return ("C12:value", "result %d: value %s but the model%s evaluates to %s at its state %s"
                    % (idx, r.value, " " + describe(case) if case.get("spell") else "", energy(poly, st), st))
        if strict_min and st != x0:
            return ("C12:zero-temperature-left-strict-local-minimum",
                    "result %d: the supplied initial state %s is a strict local minimum (every single flip raises the "
                    "energy), so no step may be taken at T = 0, but the result is %s (schedule of %d zeros, in_order=%s)%s"
                    % (idx, x0, st, sweeps, case["in_order"], how))
        if sweeps == 0 and st != x0:
            return ("C12:empty-schedule-moved", "result %d: state %s differs from the initial state %s with an empty schedule"
                    % (idx, st, x0))
        if case["c12"] == "xeq-zero" and case["in_order"] and not perm_sweep_ok(poly, x0, st, sweeps, spin):
            return ("C12:in-order-zero-temperature-sweep",
                    "result %d: final state %s of the model %s is not reachable from %s by %d sweep(s) that visit the variables "
                    "in any one fixed order and flip when dE < 0, keep when dE > 0" % (idx, st, describe(case), x0, sweeps))
        if matrix_in_order:
            order = sorted(x0)
            if case["c12"] == "tiefree":
                if ref_one is None:
                    ref_one = reference_sweeps(poly, x0, order, sweeps, spin, True)
                want, tie = ref_one
                if tie:
                    return ("C12:generator", "tie in a tie-free model (harness bug)")
                if st != want:
                    return ("C12:in-order-zero-temperature-sweep",
                            "result %d: final state %s, but sweeping the variables in label order %d time(s) from %s and "
                            "flipping whenever the exact energy change is negative gives %s (no tie occurs)"
                            % (idx, st, sweeps, x0, want))
            else:
                if ref_set is None:
                    ref_set = reference_sweeps(poly, x0, order, sweeps, spin, False)
                if tuple(sorted(st.items())) not in ref_set:
                    return ("C12:in-order-zero-temperature-sweep",
                            "result %d: final state %s is not reachable from %s by %d label-order sweep(s) that flip when "
                            "dE < 0 and keep when dE > 0 (%d reachable states)" % (idx, st, x0, sweeps, len(ref_set)))
    return None

# ------------------------------------------------------------------ (b) reproducibility

def plain_call(case):
    """the real call; returns a comparable value (list of (sorted state items, value) in order, or an error name)"""
    import qubovert.sim as sim
    obj, L = build_obj(case)
    kw, _ = c11.schedule_args(case, obj)
    init = None if case["init"] is None else {L.lab(i): v for i, v in case["init"]}
    try:
        with warnings.catch_warnings():
            warnings.simplefilter("ignore")
            res = getattr(sim, "anneal_" + case["fn"])(obj, num_anneals=case["num_anneals"], initial_state=init,
                                                       in_order=case["in_order"], seed=case["seed"], **kw)
    except Exception as e:
        return {"err": exc_name(e)}
    return {"results": [[sorted([L.ident(k), int(v)] for k, v in r.state.items()), repr(r.value)] for r in res],
            "best": None if res.best is None else repr(res.best.value)}

def repro_oracle(case, others, rounds=1):
    """two identical calls, with the calls `others` in between, and once more: identical results
    (rounds > 1, used by --replay: the whole pattern repeated, since a failure may depend on the process history)"""
    a = plain_call(case)
    for _ in range(rounds):
        for o in others[:1]:
            plain_call(o)
        b = plain_call(case)
        for o in others[1:]:
            plain_call(o)
        c = plain_call(case)
        if a != b or a != c:
            return ("C12:reproducibility",
                    "a later one of several identical calls (seed=%r), interleaved with %d other annealer call(s), "
                    "returned %s; the first returned %s" % (case["seed"], len(others), (b if a != b else c), a))
    return None

# ------------------------------------------------------------------ (d) chi-square (supporting statistical test)

def gammaincc(a, x):
    """regularised upper incomplete gamma Q(a, x) (series / continued fraction)"""
    if x <= 0:
        return 1.0
    lg = math.lgamma(a)
    if x < a + 1:
        ap, s, d = a, 1.0 / a, 1.0 / a
        for _ in range(10000):
            ap += 1
            d *= x / ap
            s += d
            if abs(d) < abs(s) * 1e-16:
                break
        return max(0.0, 1.0 - s * math.exp(-x + a * math.log(x) - lg))
    tiny = 1e-300
    b = x + 1 - a
    c = 1 / tiny
    d = 1 / b
    h = d
    for i in range(1, 10000):
        an = -i * (i - a)
        b += 2
        d = an * d + b
        d = tiny if abs(d) < tiny else d
        c = b + an / c
        c = tiny if abs(c) < tiny else c
        d = 1 / d
        delta = d * c
        h *= delta
        if abs(delta - 1) < 1e-16:
            break
    return math.exp(-x + a * math.log(x) - lg) * h

def chi2_sf(x, df):
    return gammaincc(df / 2.0, x / 2.0)

def exact_distribution(poly, n, x0, Ts, in_order, spin):
    """exact distribution over final states of k = len(Ts) sweeps of single-spin Metropolis updates with acceptance
    probability min(1, exp(-dE/T)) from the model's exact energy differences; in-order: visit 0..n-1; random: each of the
    n visits of a sweep picks the spin uniformly"""
    vals = (1, -1) if spin else (0, 1)
    states = list(itertools.product(vals, repeat=n))
    E = {s: energy(poly, dict(enumerate(s))) for s in states}
    def flip(s, i):
        return s[:i] + ((-s[i] if spin else 1 - s[i]),) + s[i + 1:]
    def visit(dist, i, T):
        out = dict.fromkeys(states, 0.0)
        for s, p in dist.items():
            if p == 0.0:
                continue
            t = flip(s, i)
            dE = float(E[t] - E[s])
            a = 1.0 if dE <= 0 else (math.exp(-dE / T) if T > 0 else 0.0)
            out[t] += p * a
            out[s] += p * (1 - a)
        return out
    dist = dict.fromkeys(states, 0.0)
    dist[tuple(x0)] = 1.0
    for T in Ts:
        if in_order:
            for i in range(n):
                dist = visit(dist, i, T)
        else:
            for _ in range(n):
                parts = [visit(dist, i, T) for i in range(n)]
                dist = {s: sum(p[s] for p in parts) / n for s in states}
    return dist

CHI2_CONFIGS = [
    # fn, kind, ops, init, Ts, in_order
    ("quso", "QUSOMatrix", [[[0, 1], "1"], [[0], "1/2"]], [1, 1], [1.0], True),
    ("quso", "QUSOMatrix", [[[0, 1], "1"], [[1, 2], "-1"], [[0], "1/2"], [[2], "-1/4"]], [1, -1, 1], [2.0, 0.75], True),
    ("quso", "QUSOMatrix", [[[0, 1], "-1"], [[0, 2], "1/2"], [[1], "1/2"]], [-1, 1, 1], [1.5], False),
    ("quso", "QUSO", [[[0, 1], "1"], [[1, 2], "1"], [[0, 2], "-1/2"], [[1], "1/4"]], [1, 1, -1], [2.0, 1.0, 0.5], False),
    ("puso", "PUSOMatrix", [[[0, 1, 2], "1"], [[0, 1], "-1/2"], [[2], "1/2"]], [1, 1, 1], [1.0, 1.0], True),
    ("puso", "PUSOMatrix", [[[0, 1, 2], "-1"], [[1, 2], "1/2"], [[0], "1/4"]], [1, -1, -1], [0.75, 1.75, 0.5], False),
    ("qubo", "QUBOMatrix", [[[0, 1], "2"], [[0], "-1"], [[1], "1/2"]], [0, 1], [1.0, 0.5], False),
    ("pubo", "PUBOMatrix", [[[0, 1, 2], "2"], [[0, 1], "-1"], [[2], "-1/2"], [[1], "1/2"]], [1, 0, 1], [1.25], True),
]

# re-heating schedules started from a strict local minimum (every single flip raises the energy): the exact k-step
# distribution puts visible mass away from the initial state, so skipped positive-temperature sweeps show
REHEAT_CONFIGS = [
    ("quso", "QUSOMatrix", [[[0, 1], "-1"], [[1, 2], "-1"], [[0], "-1/2"], [[2], "-1/2"]], [1, 1, 1], [0.0, 2.0, 1.0], True),
    ("quso", "QUSOMatrix", [[[0, 1], "-1"], [[1, 2], "-1"], [[0], "-1/2"], [[2], "-1/2"]], [1, 1, 1], [0.0, 0.0, 3.0], False),
    ("quso", "QUSO", [[[0, 1], "-1"], [[1, 2], "-1"], [[0], "-1/2"], [[2], "-1/2"]], [1, 1, 1], [2.0, 0.0, 0.0, 1.5], True),
    ("qubo", "QUBOMatrix", [[[0, 1], "2"], [[0], "-1"], [[1], "-1"]], [1, 0], [0.0, 1.0, 0.5], False),
    ("puso", "PUSOMatrix", [[[0, 1, 2], "-1"], [[0], "-1/2"], [[1], "-1/2"], [[2], "-1/2"]], [1, 1, 1], [0.0, 2.0], True),
    ("quso", "QUSOMatrix", [[[0, 1], "-1"], [[1, 2], "-1"], [[2, 3], "-1"], [[0], "-1"], [[3], "-1"]], [1, 1, 1, 1],
     [0.0, 0.0, 8.0, 8.0, 6.0], True),
]

def gen_reheat_config(rng):
    """a generated 2-4-variable Matrix model without isolated variable, a strict local minimum of it as initial state,
    and a schedule of 1-3 zeros followed by 1-3 positive temperatures (None if the descent found no strict minimum)"""
    fn = rng.choice(["quso", "quso", "qubo", "puso", "pubo"])
    kind = MATRIX_OF[fn][0]
    spin = fn in SPIN_FNS
    n = rng.randint(2, 4)
    ids = list(range(n))
    keys = {(i,) for i in ids if rng.random() < 0.6}
    for _ in range(rng.randint(1, 4)):
        ln = 2 if fn in ("quso", "qubo") else rng.choice([2, 3])
        keys.add(tuple(sorted(rng.sample(ids, min(ln, n)))))
    for i in ids:
        if not any(i in k for k in keys):
            keys.add(tuple(sorted((i, rng.choice([x for x in ids if x != i])))))
    ops = [[list(k), rng.choice(["1", "-1", "2", "-2", "1/2", "-1/2", "3/2", "-3/2"])] for k in sorted(keys)]
    case = {"fn": fn, "ops": ops}
    lm = local_minimum(rng, case, ids)
    if lm is None:
        return None
    Ts = [0.0] * rng.randint(1, 3) + [rng.choice([1.0, 2.0, 4.0, 8.0]) for _ in range(rng.randint(1, 3))]
    init, in_order = [v for _, v in lm], rng.random() < 0.5
    p0 = exact_distribution(model_poly(case), n, init, Ts, in_order, spin)[tuple(init)]
    if not 0.1 <= p0 <= 0.9:          # keep the binomial well inside the normal regime (sigma >= 6 for 400 anneals)
        return None
    return (fn, kind, ops, init, Ts, in_order)

def sample_final_states(case):
    """case['n'] anneals of the configuration, one fresh seed each: (counts of final states, exact distribution)"""
    import qubovert.sim as sim
    fn, spin = case["fn"], case["fn"] in SPIN_FNS
    n = len(case["init"])
    obj = c11.cls_of(case["kind"])()
    for k, v in case["ops"]:
        obj[tuple(k)] += float(Fraction(v))
    init = dict(enumerate(case["init"]))
    f = getattr(sim, "anneal_" + fn)
    counts, Ts = {}, list(case["Ts"])
    with warnings.catch_warnings():
        warnings.simplefilter("ignore")
        for i in range(case["n"]):
            seed = (case["seed0"] + i * 2654435761) % (2 ** 31)        # an odd multiplier: distinct seeds
            r = f(obj, num_anneals=1, initial_state=init, in_order=case["in_order"], seed=seed, schedule=Ts)
            st = tuple(r[0].state[j] for j in range(n))
            counts[st] = counts.get(st, 0) + 1
    return counts, exact_distribution(model_poly(case), n, case["init"], Ts, case["in_order"], spin)

def run_reheat(case):
    """the 6-sigma clause on the probability of ending in the initial state; returns (finding or None, summary)"""
    spin = case["fn"] in SPIN_FNS
    poly = model_poly(case)
    x0 = dict(enumerate(case["init"]))
    if not all(energy(poly, flipped(x0, i, spin)) > energy(poly, x0) for i in x0):
        return ("C12:generator", "initial state of a reheat configuration is not a strict local minimum (harness bug)"), {}
    counts, dist = sample_final_states(case)
    n = case["n"]
    p0 = dist[tuple(case["init"])]
    got = counts.get(tuple(case["init"]), 0)
    sigma = math.sqrt(n * p0 * (1 - p0))
    summ = {"fn": case["fn"], "in_order": case["in_order"], "Ts": case["Ts"], "anneals": n, "p_stay": round(p0, 4),
            "stayed": got, "expected": round(n * p0, 1), "sigma": round(sigma, 2)}
    if abs(got - n * p0) > 6 * sigma + 0.5:
        return (("C12:distribution",
                 "STATISTICAL CLAUSE: %d anneals of anneal_%s (%s %s, in_order=%s, one seed per anneal) with the re-heating "
                 "schedule %s from the strict local minimum %s: %d runs end in the initial state, but under the exact %d-step "
                 "single-spin Metropolis dynamics (acceptance min(1, exp(-dE/T))) that has probability %.4f, i.e. %.1f +- %.1f "
                 "runs (more than 6 sigma off) — the sweeps at positive temperature after the zero-temperature stretch are not "
                 "the Metropolis sweeps" % (n, case["fn"], case["kind"], case["ops"], case["in_order"], case["Ts"],
                                            case["init"], got, len(case["Ts"]), p0, n * p0, sigma)), summ)
    return None, summ

def reheat_family(ctx, n_generated, per_config):
    cfgs = list(REHEAT_CONFIGS)
    tries = 0
    while len(cfgs) < len(REHEAT_CONFIGS) + n_generated and tries < 40 * n_generated + 40:
        tries += 1
        g = gen_reheat_config(ctx.rng)
        if g is not None:
            cfgs.append(g)
    for cfg in cfgs:
        case = dict(chi2_case(cfg, per_config, ctx.rng.randrange(2 ** 31)), c12="reheat")
        bad, summ = run_reheat(case)
        ctx.case(case, True)
        ctx.count("reheat:%s:%s" % (cfg[0], "in_order" if cfg[5] else "random"))
        if summ and (bad or cfg in REHEAT_CONFIGS):
            ctx.notes.append("reheat (supporting statistical clause, not proof) %s" % summ)
        if bad:
            ctx.violation(bad[0], case, bad[1])

def chi2_case(cfg, n, seed0):
    fn, kind, ops, init, Ts, in_order = cfg
    return {"c12": "chi2", "fn": fn, "kind": kind, "ops": ops, "init": init, "Ts": Ts, "in_order": in_order, "n": n,
            "seed0": seed0}

def run_chi2(case):
    """returns (finding or None, summary dict)"""
    fn = case["fn"]
    Ts = list(case["Ts"])
    counts, dist = sample_final_states(case)
    N = case["n"]
    # states of probability 0 must not occur; bins with expectation < 5 are pooled
    chi, df, pool_e, pool_o = 0.0, -1, 0.0, 0
    for s, p in dist.items():
        o = counts.get(s, 0)
        if p < 1e-15:
            if o:
                return (("C12:distribution", "final state %s was observed %d time(s) but has probability 0 under the %d-step "
                         "Metropolis dynamics" % (s, o, len(Ts))), {})
            continue
        e = p * N
        if e < 5:
            pool_e += e; pool_o += o
            continue
        chi += (o - e) ** 2 / e
        df += 1
    if pool_e > 0:
        chi += (pool_o - pool_e) ** 2 / pool_e
        df += 1
    unknown = [s for s in counts if s not in dist]
    if unknown:
        return (("C12:distribution", "state outside the domain: %s" % (unknown[0],)), {})
    p = chi2_sf(chi, df) if df > 0 else 1.0
    summ = {"fn": fn, "kind": case["kind"], "in_order": case["in_order"], "sweeps": len(Ts), "anneals": N,
            "chi2": round(chi, 3), "df": df, "p": p}
    if p < 1e-9:
        top = sorted(dist, key=lambda s: -abs(counts.get(s, 0) - dist[s] * N))[:3]
        return (("C12:distribution",
                 "STATISTICAL TEST: %d anneals of anneal_%s (%s, in_order=%s, schedule %s, initial state %s, one seed per "
                 "anneal): chi2 = %.1f with %d degrees of freedom, p = %.3g < 1e-9 against the exact %d-step single-spin "
                 "Metropolis distribution; e.g. %s" % (
                     N, fn, case["ops"], case["in_order"], Ts, case["init"], chi, df, p, len(Ts),
                     "; ".join("state %s: observed %d, expected %.1f" % (s, counts.get(s, 0), dist[s] * N) for s in top))),
                summ)
    return None, summ

def chi2_family(ctx, per_config):
    for k, cfg in enumerate(CHI2_CONFIGS + REHEAT_CONFIGS):
        case = chi2_case(cfg, per_config, ctx.rng.randrange(2 ** 31))
        bad, summ = run_chi2(case)
        ctx.case(case, True)
        ctx.count("chi2:%s:%s" % (cfg[0], "in_order" if cfg[5] else "random"))
        if summ:
            ctx.notes.append("chi2 (supporting statistical test, not proof) %s" % summ)
        if bad:
            ctx.violation(bad[0], case, bad[1])

# ------------------------------------------------------------------ driver of the check

def nontrivial(case, call):
    return bool(call and "out" in call and call["N"] >= 2 and call["Ts"] and case["num_anneals"] >= 1
                and any(len(set(k)) >= 2 for k, _ in case["ops"]))

def process(ctx, cases):
    a_cases = [c for c in cases if c.get("family") == "anneal"]
    k_cases = [c for c in cases if c.get("family") == "kernel"]
    impls, lines = [], []
    for c in a_cases:
        r = run_impl(c)
        impls.append(r)
        lines.append(model_line(c, r[4]))
    models = common.run_driver(lines)
    for c, (canon, res, obj, L, _sd, call, detail), m in zip(a_cases, impls, models):
        m = c11.canon_model(m)
        ctx.case(c, nontrivial(c, call))
        fam = c["c12"]
        Ts = c["sched"].get("Ts")
        temp = "named" if Ts is None else ("empty" if not Ts else "T=0" if not any(Ts) else "T>0" if all(Ts) else "mixed")
        ctx.count("%s:%s:%s:%s" % (fam, c["fn"], "in_order" if c["in_order"] else "random", temp))
        ctx.count("kind:" + c["kind"])
        if c.get("mapping"):
            ctx.count("mapping:%s:%s:%s" % (fam, c["mapping"]["how"], c["mapping"]["style"]))
        if Ts is not None:
            ctx.count("sweeps:%s" % ("0" if not Ts else "1-9" if len(Ts) < 10 else "10-39" if len(Ts) < 40 else "40+"))
        if c.get("spell"):
            ctx.count("xeq:%s:%s" % (c["kind"], "model+oracle" if c11.model_is_label_parametric(c) else "oracle-only"))
            ctx.count("xeq:monomials-stored-under-two-keys", c11.xeq_collisions(c))
        if Ts is not None and c["sched"].get("types"):
            for ty in set(c["sched"]["types"]):
                ctx.count("schedtype:entry:" + ty)
            ctx.count("schedtype:container:" + (c["sched"].get("container") or "list/tuple"))
        if c.get("spell"):
            if c11.model_is_label_parametric(c) and c11.xeq_view(canon) != c11.xeq_view(m):
                ctx.diff(fam, c, canon, m)
        elif canon != m:
            ctx.diff("replay" if fam == "replay" else fam, c, canon, m)
        if "results" in canon:
            ctx.traces += 1
        bad = None
        if fam in ("zero", "tiefree", "xeq-zero"):
            bad = zero_oracle(c, canon, res, L)
        elif fam == "xeq-replay":
            bad = value_oracle(c, canon, res, L)
        elif fam == "schedtype" and "err" not in canon:
            bad = schedtype_oracle(c)
        elif "err" in canon:
            bad = ("C12:exception", "anneal_%s raised %s (%s) on a valid call" % (c["fn"], canon["err"], detail))
        if bad:
            ctx.violation(bad[0], c, bad[1])
    klines, kimpls, kc2 = [], [], []
    for c in k_cases:
        impl, line, bad = c11.run_kernel_impl(c)
        if line is None:
            continue
        klines.append(line); kimpls.append((impl, bad)); kc2.append(c)
    kmodels = common.run_driver(klines)
    for c, (impl, bad), m in zip(kc2, kimpls, kmodels):
        ctx.case(c, len(c["Ts"]) > 0)
        ctx.count("kernel:%s:%s" % (c["fn"], "in_order" if c["in_order"] else "random"))
        ctx.traces += 1
        if impl != m:
            ctx.diff("kernel", c, impl, m)
        if bad:
            ctx.violation(bad[0].replace("C11:", "C12:"), c, bad[1])

def repro_family(ctx, cases, pool, k_others=2):
    for c in cases:
        others = [ctx.rng.choice(pool) for _ in range(k_others)]
        if ctx.rng.random() < 0.5:
            others[0] = dict(others[0], seed=None)          # a clock-seeded call in between
        rc = dict(c, c12="repro", others=others)
        bad = repro_oracle(c, others)
        ctx.case(rc, True)
        ctx.count("repro:%s:%s" % (c["fn"], "in_order" if c["in_order"] else "random"))
        if bad:
            ctx.violation(bad[0], rc, bad[1])

def check(ctx):
    rng = ctx.rng
    maxdur = ctx.scale(80, 300)
    replay_cases = [gen_replay(rng, maxdur) for _ in range(ctx.scale(2000, 14000))]
    zero_cases = [gen_zero(rng) for _ in range(ctx.scale(1500, 12000))]
    tie_cases = [gen_tiefree(rng) for _ in range(ctx.scale(1000, 9000))]
    kernel_cases = [gen_kernel(rng, maxdur) for _ in range(ctx.scale(400, 3000))]
    map_cases = ([gen_replay_mapping(rng, maxdur) for _ in range(ctx.scale(500, 4000))] +
                 [gen_zero_mapping(rng) for _ in range(ctx.scale(900, 7000))])
    xeq_cases = ([gen_xeq(rng, True) for _ in range(ctx.scale(700, 6000))] +
                 [gen_xeq(rng, False) for _ in range(ctx.scale(300, 3000))])
    st_cases = [gen_schedtype(rng, maxdur) for _ in range(ctx.scale(600, 6000))]
    process(ctx, replay_cases + zero_cases + tie_cases + kernel_cases + map_cases + xeq_cases + st_cases)
    accept_family(ctx)
    repro_family(ctx, replay_cases[:ctx.scale(400, 3500)] + map_cases[:ctx.scale(100, 500)], replay_cases)
    reheat_family(ctx, ctx.scale(10, 150), 400)
    if ctx.tier == "thorough":
        chi2_family(ctx, 25000)        # 8 + 6 re-heating configurations x 25 000 anneals
    if ctx.diffs and not ctx.violations:
        search(ctx)

def search(ctx):
    """failing-input search after a correspondence difference: zero-temperature variants of the disagreeing cases under
    the direct oracle, reproducibility of the disagreeing cases, a fresh batch of zero / tie-free cases, and the
    chi-square test (smaller sample) for differences that only show in the distribution"""
    extra, seen = [], 0
    for d in ctx.diffs[:40]:
        c = d["case"]
        if c.get("family") != "anneal":
            continue
        seen += 1
        ids = sorted({i for k, _ in c["ops"] for i in k})
        if not ids:
            continue
        for io in (True, False):
            for sw in (1, 2, 3):
                for _ in range(3):
                    extra.append(dict(c, c12="zero", sched={"t": "explicit", "Ts": [0.0] * sw}, in_order=io,
                                      init=gen_init(ctx.rng, c["fn"], c["kind"], ids)))
        bad = repro_oracle(c, [ctx.rng.choice([x["case"] for x in ctx.diffs if x["case"].get("family") == "anneal"])])
        if bad:
            ctx.violation(bad[0], dict(c, c12="repro", others=[]), bad[1])
    extra += ([gen_zero(ctx.rng) for _ in range(600)] + [gen_tiefree(ctx.rng) for _ in range(600)] +
              [gen_zero_mapping(ctx.rng) for _ in range(600)] + [gen_xeq(ctx.rng, True) for _ in range(600)])
    for c in extra:
        canon, res, obj, L, _sd, call, detail = run_impl(c)
        bad = zero_oracle(c, canon, res, L)
        if bad:
            ctx.violation(bad[0], c, bad[1])
    for d in ctx.diffs[:40]:
        c = d["case"]
        if c.get("family") == "anneal" and c["sched"].get("types") and not ctx.violations:
            bad = schedtype_oracle(c)
            if bad:
                ctx.violation(bad[0], c, bad[1])
    if not ctx.violations:
        chi2_family(ctx, 6000)

def replay(ctx, payload):
    c = payload.get("case") or (payload.get("first_difference") or {}).get("case")
    if not c:
        ctx.notes.append("replay file has no case; re-running the full check")
        return check(ctx)
    fam = c.get("c12")
    if fam == "chi2":
        bad, summ = run_chi2(c)
        ctx.case(c, True)
        if bad:
            ctx.violation(bad[0], c, bad[1])
    elif fam == "accept":
        bad, summ = run_accept(c)
        ctx.case(c, True)
        if bad:
            ctx.violation(bad[0], c, bad[1])
    elif fam == "reheat":
        bad, summ = run_reheat(c)
        ctx.case(c, True)
        if bad:
            ctx.violation(bad[0], c, bad[1])
    elif fam == "repro":
        base = {k: v for k, v in c.items() if k != "others"}
        bad = repro_oracle(base, c.get("others", []), rounds=25)
        ctx.case(c, True)
        if bad:
            ctx.violation(bad[0], c, bad[1])
    else:
        process(ctx, [c])
