"""C06 — logical constraint methods penalise exactly the violating assignments (correspondence + oracle).

Families:
  enum   all 16 methods x arities (0..5 operands after the first argument; below-minimum and wrong arities
         included for the ValueError / TypeError) x operand kinds (labels / nested sat expressions /
         {0,1}-valued dicts / repeated operands / model objects) x lam in {1, 2, 1/3}
  rand   random single calls with mixed operand kinds and more lam values
  seq    several logical constraints added to one PCBO
  seq-obj  histories whose operands are model OBJECTS (boolean_var, PCBO/PUBO/QUBO objects and products, built sat
         expressions) created once by the harness and re-used as operands of later calls; every operand object is
         snapshotted before and after every call (inputs must not be modified)
  seq-cmp  histories interleaving logical methods with comparison constraints add_constraint_{eq,ne,lt,le,gt,ge}_zero
         (trivial ones included: always / never satisfiable by their bounds); is_solution_valid after every step must be
         "every logical constraint so far holds and every comparison so far holds"
  tmpl   fixed templates that force the `_special_constraints_eq_zero` shortcut and the squared branch
  mag    extreme-magnitude weights and coefficients: all 16 methods x arities x operand kinds with lam in
         {1/10^18, 3/2^70, 1/2^60, 1/2^55, 7/10^16, 2^60, 3*2^70, 10^18+1} as exact Fractions / ints and, for the dyadic
         ones, as Python floats (2.0**-60 ...: IEEE arithmetic is exact there, all coefficients are small-integer multiples
         of one power of two); {0,1}-valued dict operands spelled with huge / tiny coefficients that cancel on squashing
         ({(i,): 1+c, (i,i): -c}); histories mixing magnitudes (exact), histories with one common scale (float),
         and histories with comparison constraints of extreme weight.  The model is over exact rationals: compared exactly.

Every call is run on the real `qubovert.PCBO` and on the Lean model (`op: logic`); compared exactly after every
step: the terms, the recorded constraints (in order), `num_ancillas`, warnings, `is_solution_valid` on all
assignments.  The direct oracle uses only the property text: the truth table of the added terms against the
gate evaluated with Python's `all` / `any` / `sum % 2` on the operand values.
"""
import itertools, warnings
from fractions import Fraction
from . import common
from .common import Labels, fs, exc_name, canon_terms, snapshot

CEXT = "plain"
RULE = ("calls add_constraint_[eq_]G(*operands, lam=lam) on a PCBO (fresh, or carrying earlier logical constraints); "
        "operands are labels (4 label realisations), nested sat expressions (depth<=2), {0,1}-valued plain dicts, "
        "PUBO/PCBO/QUBO objects, repeated operands; arities 0..5; lam in {1,2,1/3} (enum) plus {3,5/2,1/8,0} (random); "
        "histories also re-use operand objects across calls and interleave comparison constraints; "
        "the same with extreme-magnitude lam (1/10^18 .. 3*2^70, exact Fractions and dyadic floats) and {0,1}-valued dict "
        "operands whose huge / tiny raw coefficients cancel on squashing (mag); "
        "a case is non-trivial when at least one step succeeds with >=2 operands; distinct = distinct case JSON")
ASSUMPTIONS = ["operands given as dicts / model objects take values in {0,1} on boolean assignments (the generator "
               "builds them so and the oracle re-checks it)",
               "arity 0 of the variadic gates is degenerate: qubovert defines AND()=OR()=XOR()=1; the oracle uses that "
               "convention there (Python's any([]) / sum([])%2 would say False)"]

GATES = ["AND", "OR", "XOR", "NAND", "NOR", "XNOR", "NOT", "BUFFER"]
VARIADIC = ["AND", "OR", "XOR", "NAND", "NOR", "XNOR"]
MIN2 = {"AND", "OR", "NAND", "NOR"}          # eq_ forms that raise ValueError below two variables
LAMS = ["1", "2", "1/3"]

# ------------------------------------------------------------------ operands

def lbl(i):
    return {"t": "lbl", "i": i}

def dict_templates(pool):
    """{0,1}-valued polynomials over the labels in `pool` (raw keys may be unsorted / repeat a label)"""
    i = pool[0]; j = pool[1 % len(pool)]; k = pool[2 % len(pool)]
    t = [
        [[[i], "1"]],
        [[[j, i], "1"]],
        [[[], "1"], [[i], "-1"]],
        [[[i], "1"], [[j], "1"], [[i, j], "-1"]] if i != j else [[[i], "1"]],
        [[[i], "1"], [[j], "1"], [[j, i], "-2"]] if i != j else [[[], "1"]],
        [[[], "1"]],
        [],
        [[[i, i, k], "1"]],
        [[[], "1"], [[i, j, k], "-1"]],
    ]
    return t

def gen_operand(rng, pool, depth, kinds):
    k = rng.choice(kinds)
    if k == "lbl" or (k == "gate" and depth <= 0):
        return lbl(rng.choice(pool))
    if k == "raw":
        sub = rng.sample(pool, min(len(pool), 3))
        rng.shuffle(sub)
        return {"t": "raw", "p": rng.choice(dict_templates(sub))}
    if k == "mdl":
        sub = rng.sample(pool, min(len(pool), 3))
        kind = rng.choice(["PUBO", "PUBO", "PCBO", "QUBO"])
        p = rng.choice(dict_templates(sub)[:7])
        return {"t": "mdl", "k": kind, "p": p}
    g = rng.choice(GATES)
    if g in ("NOT", "BUFFER"):
        args = [gen_operand(rng, pool, depth - 1, kinds)]
    else:
        args = [gen_operand(rng, pool, depth - 1, kinds) for _ in range(rng.choice([1, 2, 2, 3]))]
    return {"t": "gate", "g": g, "args": args}

def arity_ok(eq, g, nops):
    """number of operands Python's signature accepts (otherwise TypeError before anything happens)"""
    if g in ("NOT", "BUFFER"):
        return nops == (2 if eq else 1)
    return nops >= 1 if eq else True

def make_ops(rng, kind, nops, pool):
    if kind == "labels":
        return [lbl(i) for i in range(nops)]
    if kind == "repeated":
        base = [rng.choice(pool[:2]) for _ in range(nops)]
        return [lbl(i) for i in base]
    if kind == "nested":
        return [gen_operand(rng, pool, 2, ["gate", "gate", "lbl"]) if rng.random() < 0.8 else lbl(rng.choice(pool))
                for _ in range(nops)]
    if kind == "dicts":
        return [gen_operand(rng, pool, 0, ["raw"]) for _ in range(nops)]
    if kind == "models":
        return [gen_operand(rng, pool, 0, ["mdl", "mdl", "lbl"]) for _ in range(nops)]
    raise ValueError(kind)

def labels_of(o, acc):
    if o["t"] in ("lbl", "bvar"):
        acc.add(o["i"])
    elif o["t"] == "ref":
        pass                        # the pool entry is counted by case_n
    elif o["t"] in ("raw", "mdl"):
        for k, _ in o["p"]:
            acc.update(k)
    else:
        for a in o["args"]:
            labels_of(a, acc)
    return acc

def case_n(seq, pool=()):
    acc = set()
    for o in pool:
        labels_of(o, acc)
    for st in seq:
        if st.get("cmp"):
            for k, _ in st["P"]:
                acc.update(k)
            continue
        for o in st["ops"]:
            labels_of(o, acc)
    return (max(acc) + 1) if acc else 0

def resolve(o, pool):
    """the operand as the Lean driver sees it: pool references replaced by their (immutable) description,
    boolean_var(i) by the PCBO {(i,): 1}"""
    if o["t"] == "ref":
        return resolve(pool[o["i"]], pool)
    if o["t"] == "bvar":
        return {"t": "mdl", "k": "PCBO", "p": [[[o["i"]], "1"]]}
    if o["t"] == "gate":
        return dict(o, args=[resolve(a, pool) for a in o["args"]])
    return o

def enum_cases(rng):
    out = []
    styles = Labels.STYLES
    idx = 0
    for eq in (False, True):
        for g in GATES:
            if g in ("NOT", "BUFFER"):
                arities = [1, 2, 3] if eq else [0, 1, 2]
            else:
                arities = list(range(0, 7)) if eq else list(range(0, 6))
            for nops in arities:
                for kind in ("labels", "nested", "dicts", "repeated", "models"):
                    for lam in LAMS:
                        pool = list(range(4))
                        ops = make_ops(rng, kind, nops, pool)
                        seq = [{"eq": eq, "g": g, "ops": ops, "lam": lam}]
                        out.append({"family": "enum", "kind": kind, "labels": styles[idx % 4], "seq": seq,
                                    "n": case_n(seq)})
                        idx += 1
    return out

def rand_step(rng, pool):
    eq = rng.random() < 0.5
    g = rng.choice(GATES)
    if g in ("NOT", "BUFFER"):
        nops = 2 if eq else 1
        if rng.random() < 0.03:
            nops += rng.choice([-1, 1])
    else:
        nops = rng.choice([1, 2, 2, 3, 3, 4, 5]) + (1 if eq else 0)
        if rng.random() < 0.06:
            nops = rng.choice([0, 1, 2])
    kinds = rng.choice([["lbl"], ["lbl", "gate"], ["lbl", "gate", "raw", "mdl"], ["gate"], ["raw", "lbl"],
                        ["mdl", "lbl", "gate"]])
    ops = [gen_operand(rng, pool, rng.choice([1, 2]), kinds) for _ in range(nops)]
    lam = rng.choice(["1", "2", "1/3", "1", "3", "5/2", "1/8"] + (["0"] if rng.random() < 0.05 else []))
    return {"eq": eq, "g": g, "ops": ops, "lam": lam}

def rand_case(rng, steps=1):
    pool = list(range(rng.choice([2, 3, 4, 4, 5])))
    seq = [rand_step(rng, pool) for _ in range(steps)]
    return {"family": "rand" if steps == 1 else "seq", "kind": "mixed", "labels": rng.choice(Labels.STYLES_X),
            "seq": seq, "n": case_n(seq)}

def gen_pool(rng, labels):
    pool = []
    for _ in range(rng.randint(1, 3)):
        r = rng.random()
        if r < 0.5 or not labels:
            o = {"t": "bvar", "i": rng.choice(labels)}
        elif r < 0.75:
            sub = rng.sample(labels, min(len(labels), 3))
            o = {"t": "mdl", "k": rng.choice(["PCBO", "PUBO", "PUBO", "QUBO"]), "p": rng.choice(dict_templates(sub)[:5])}
        else:
            g = rng.choice(["AND", "OR", "XOR", "NAND", "NOT"])
            def arg():
                ok = [i for i, q in enumerate(pool) if not has_qubo(resolve(q, pool))]   # no degree overflow here
                if ok and rng.random() < 0.4:
                    return {"t": "ref", "i": rng.choice(ok)}
                return rng.choice([lbl(rng.choice(labels)), {"t": "bvar", "i": rng.choice(labels)}])
            o = {"t": "gate", "g": g, "args": [arg() for _ in range(1 if g == "NOT" else rng.choice([2, 2, 3]))]}
        pool.append(o)
    return pool

def obj_step(rng, labels, npool):
    eq = rng.random() < 0.4
    g = rng.choice(["AND", "NAND", "AND", "NAND", "OR", "XOR", "NOR", "XNOR", "NOT", "BUFFER"])
    if g in ("NOT", "BUFFER"):
        nops = 2 if eq else 1
    else:
        nops = rng.choice([2, 2, 3]) + (1 if eq else 0)
    def operand():
        r = rng.random()
        if r < 0.6:
            return {"t": "ref", "i": rng.randrange(npool)}
        if r < 0.85:
            return lbl(rng.choice(labels))
        return gen_operand(rng, labels, 1, ["gate", "lbl"])
    return {"eq": eq, "g": g, "ops": [operand() for _ in range(nops)], "lam": rng.choice(["1", "2", "1/3", "3"])}

def obj_case(rng):
    labels = list(range(rng.choice([2, 3, 3, 4])))
    pool = gen_pool(rng, labels)
    seq = [obj_step(rng, labels, len(pool)) for _ in range(rng.choice([2, 3, 3, 4]))]
    return {"family": "seq-obj", "kind": "objects", "labels": rng.choice(Labels.STYLES_X), "pool": pool, "seq": seq,
            "n": case_n(seq, pool)}

RELS = ["eq", "ne", "lt", "le", "gt", "ge"]

def cmp_step(rng, labels):
    """add_constraint_<rel>_zero(P): integer coefficients; about half of them trivial by their bounds"""
    def mono():
        return sorted(rng.sample(labels, rng.randint(1, min(2, len(labels)))))
    r = rng.random()
    if r < 0.2:      # all coefficients negative (<= 0, < 1 always; >= 1 never ...)
        P = [[mono(), str(-rng.randint(1, 2))] for _ in range(rng.randint(1, 3))]
    elif r < 0.4:    # all positive
        P = [[mono(), str(rng.randint(1, 2))] for _ in range(rng.randint(1, 3))]
    elif r < 0.55:   # shifted away from zero
        P = [[mono(), str(rng.choice([-1, 1]))] for _ in range(rng.randint(1, 2))] + [[[], str(rng.choice([-3, 3, 2, -2]))]]
    else:
        P = [[mono(), str(rng.choice([-2, -1, 1, 2]))] for _ in range(rng.randint(1, 3))]
        if rng.random() < 0.6:
            P.append([[], str(rng.choice([-2, -1, 1]))])
    d = {}
    for k, v in P:                     # a dict literal cannot hold a key twice
        d[tuple(k)] = v
    P = [[list(k), v] for k, v in d.items()]
    return {"cmp": True, "rel": rng.choice(RELS), "P": P, "lam": rng.choice(["1", "2", "1/3"]),
            "lt": rng.random() < 0.5, "lo": None, "hi": None}

def cmp_case(rng):
    labels = list(range(rng.choice([2, 3, 3, 4])))
    seq = []
    for _ in range(rng.choice([2, 3, 4, 5])):
        if rng.random() < 0.5:
            seq.append(cmp_step(rng, labels))
        else:
            st = rand_step(rng, labels)
            st["ops"] = [o for o in st["ops"]]
            seq.append(st)
    if not any(st.get("cmp") for st in seq):
        seq.append(cmp_step(rng, labels))
    if all(st.get("cmp") for st in seq):
        seq.insert(0, rand_step(rng, labels))
    return {"family": "seq-cmp", "kind": "cmp", "labels": rng.choice(Labels.STYLES_X), "seq": seq, "n": case_n(seq)}

def hist_tmpl_cases():
    """fixed histories: an operand object used by AND/NAND and again afterwards; a logical constraint followed by a
    trivial comparison of every relation"""
    out = []
    x, y, z = {"t": "ref", "i": 0}, {"t": "ref", "i": 1}, {"t": "ref", "i": 2}
    pool = [{"t": "bvar", "i": 0}, {"t": "bvar", "i": 1}, {"t": "bvar", "i": 2}]
    H = [
        [(False, "NAND", [x, y]), (True, "NOT", [x, z])],
        [(False, "AND", [x, y]), (False, "OR", [x, z])],
        [(False, "AND", [x, y, z]), (False, "BUFFER", [x])],
        [(True, "AND", [z, x, y]), (False, "NAND", [x, y]), (True, "XOR", [x, y, z])],
        [(False, "NAND", [y, x]), (True, "OR", [z, y, x]), (False, "NOT", [y])],
    ]
    for i, h in enumerate(H):
        for lam in ("1", "2"):
            seq = [{"eq": e, "g": g, "ops": ops, "lam": lam} for e, g, ops in h]
            out.append({"family": "seq-obj", "kind": "objects", "labels": Labels.STYLES[i % 4], "pool": pool, "seq": seq,
                        "n": case_n(seq, pool)})
    pool2 = [{"t": "mdl", "k": "PUBO", "p": [[[1, 0], "1"]]}, {"t": "bvar", "i": 2},
             {"t": "gate", "g": "OR", "args": [{"t": "ref", "i": 1}, lbl(0)]}]
    for i, h in enumerate([[(False, "AND", [x, y]), (True, "BUFFER", [y, x])],
                           [(False, "NAND", [z, x]), (False, "OR", [z, y])],
                           [(False, "AND", [y, z]), (False, "XOR", [y, x])]]):
        seq = [{"eq": e, "g": g, "ops": ops, "lam": "2"} for e, g, ops in h]
        out.append({"family": "seq-obj", "kind": "objects", "labels": Labels.STYLES[i % 4], "pool": pool2, "seq": seq,
                    "n": case_n(seq, pool2)})
    trivial = [("le", [[[2], "-1"]]), ("ge", [[[0], "1"], [[1], "1"], [[2], "1"]]), ("lt", [[[2], "-1"], [[], "-1"]]),
               ("gt", [[[0], "1"], [[], "1"]]), ("le", [[[2], "1"], [[], "1"]]), ("ge", [[[2], "-1"], [[], "-2"]]),
               ("ne", [[[2], "1"], [[], "2"]]), ("eq", [[[2], "1"], [[], "1"]]), ("le", [[[0], "1"], [[1], "-1"]]),
               ("ge", [[[0], "1"], [[1], "1"], [[], "-1"]])]
    logic = [(False, "OR", [lbl(0), lbl(1)]), (True, "AND", [lbl(2), lbl(0), lbl(1)]), (False, "NOT", [lbl(1)]),
             (True, "XOR", [lbl(0), lbl(1), lbl(2)])]
    for i, (rel, P) in enumerate(trivial):
        for j, (e, g, ops) in enumerate(logic):
            seq = [{"eq": e, "g": g, "ops": ops, "lam": "2"},
                   {"cmp": True, "rel": rel, "P": P, "lam": "2", "lt": bool((i + j) % 2), "lo": None, "hi": None},
                   {"eq": False, "g": "BUFFER", "ops": [lbl(0)], "lam": "1"}]
            out.append({"family": "seq-cmp", "kind": "cmp", "labels": Labels.STYLES[(i + j) % 4], "seq": seq,
                        "n": case_n(seq)})
    return out

def tmpl_cases():
    """the shortcut `z == x*y` of `_special_constraints_eq_zero` reached through the logic methods, and the
    squared-difference branch with non-trivial operands"""
    a, b, c, d = lbl(0), lbl(1), lbl(2), lbl(3)
    AND = lambda *x: {"t": "gate", "g": "AND", "args": list(x)}
    NOT = lambda x: {"t": "gate", "g": "NOT", "args": [x]}
    OR = lambda *x: {"t": "gate", "g": "OR", "args": list(x)}
    raw_bc = {"t": "raw", "p": [[[1, 2], "1"]]}
    T = [
        (True, "BUFFER", [a, AND(b, c)]), (True, "BUFFER", [AND(b, c), a]), (True, "BUFFER", [a, raw_bc]),
        (True, "XOR", [a, AND(b, c)]), (True, "XNOR", [NOT(a), AND(b, c)]), (True, "NOT", [NOT(a), AND(b, c)]),
        (True, "NOT", [AND(b, c), NOT(a)]), (True, "BUFFER", [a, AND(a, c)]), (True, "BUFFER", [a, AND(b, b)]),
        (True, "OR", [a, b, c, d]), (True, "NOR", [a, b, c, d]), (True, "AND", [a, b, c, d]),
        (True, "NAND", [a, b, c, d]), (True, "XOR", [a, b, c, d]), (True, "XNOR", [a, b, c, d]),
        (True, "OR", [AND(a, b), OR(b, c), NOT(d), c]), (True, "AND", [OR(a, b), NOT(c), OR(c, d)]),
        (False, "BUFFER", [AND(b, c)]), (False, "NOT", [OR(a, NOT(b))]),
    ]
    out = []
    for i, (eq, g, ops) in enumerate(T):
        for lam in LAMS:
            seq = [{"eq": eq, "g": g, "ops": ops, "lam": lam}]
            out.append({"family": "tmpl", "kind": "tmpl", "labels": Labels.STYLES[i % 4], "seq": seq, "n": case_n(seq)})
    return out

# ------------------------------------------------------------------ extreme magnitudes

MAG_TINY = ["1/1000000000000000000", "3/1180591620717411303424", "1/1152921504606846976", "1/36028797018963968",
            "7/10000000000000000"]                       # 1/10^18, 3/2^70, 1/2^60, 1/2^55, 7/10^16
MAG_HUGE = ["1152921504606846976", "3541774862152233910272", "1000000000000000001"]     # 2^60, 3*2^70, 10^18+1
MAG_LAMS = MAG_TINY + MAG_HUGE
MAG_SCALES = ["1/1152921504606846976", "1/36028797018963968", "3/1180591620717411303424", "1152921504606846976",
              "1/1267650600228229401496703205376"]       # common scale of a float history: 2^-60, 2^-55, 3/2^70, 2^60, 2^-100

def is_dyadic(s):
    """a small odd integer times a power of two: exactly a float, and so is every small-integer multiple of it"""
    f = Fraction(s)
    d, m = f.denominator, abs(f.numerator)
    while m and m % 2 == 0:
        m //= 2
    return d & (d - 1) == 0 and m < 2 ** 20

def mag_dicts(pool, c):
    """{0,1}-valued dicts whose raw coefficients are huge / tiny and cancel when the keys are squashed"""
    i = pool[0]; j = pool[1 % len(pool)]
    c = Fraction(c)
    out = [[[[i], fs(1 + c)], [[i, i], fs(-c)]],
           [[[i, i], fs(c)], [[i], fs(1 - c)]],
           [[[], "1"], [[i], fs(c - 1)], [[i, i, i], fs(-c)]]]
    if i != j:
        out += [[[[i, j], fs(1 + c)], [[j, i, j], fs(-c)]],
                [[[i], "1"], [[j], fs(1 + c)], [[j, i], "-1"], [[j, j], fs(-c)]]]
    return out

def mag_cases(rng, reps_seq):
    out, idx = [], 0
    styles = Labels.STYLES
    for eq in (False, True):
        for g in GATES:
            arities = [2 if eq else 1] if g in ("NOT", "BUFFER") else ([3, 4] if eq else [2, 3])
            for nops in arities:
                for kind in ("labels", "nested", "dicts", "models", "magdicts"):
                    for rep in range(2):
                        lam = MAG_LAMS[idx % len(MAG_LAMS)]
                        pool = list(range(4))
                        if kind == "magdicts":
                            c = rng.choice(["1152921504606846976", "1/1152921504606846976", "1000000000000000000",
                                            "1/1000000000000000000", "-3541774862152233910272"])
                            ops = []
                            for _ in range(nops):
                                sub = rng.sample(pool, 2)
                                ops.append({"t": "raw", "p": rng.choice(mag_dicts(sub, c))} if rng.random() < 0.7
                                           else lbl(rng.choice(pool)))
                        else:
                            ops = make_ops(rng, kind, nops, pool)
                        seq = [{"eq": eq, "g": g, "ops": ops, "lam": lam}]
                        case = {"family": "mag", "kind": kind, "labels": styles[idx % 4], "seq": seq, "n": case_n(seq)}
                        # dyadic weights also as floats (exact: every coefficient is a small-integer multiple of lam)
                        if is_dyadic(lam) and kind != "magdicts" and rep == 1:
                            case["num"] = "float"
                        out.append(case)
                        idx += 1
    # histories: mixed magnitudes with exact numbers; one common scale with floats; with comparison constraints
    for r in range(reps_seq):
        c = rand_case(rng, rng.choice([2, 3]))
        for st in c["seq"]:
            st["lam"] = rng.choice(MAG_LAMS + ["1", "2"])
        out.append(dict(c, family="mag", kind="seq-exact"))
        c = rand_case(rng, rng.choice([1, 2, 3]))
        scale = Fraction(rng.choice(MAG_SCALES))
        for st in c["seq"]:
            st["lam"] = fs(scale * rng.choice([1, 1, 2, 3]))
        out.append(dict(c, family="mag", kind="seq-float", num="float"))
        c = cmp_case(rng)
        scale = Fraction(rng.choice(MAG_LAMS))
        for st in c["seq"]:
            st["lam"] = fs(scale * rng.choice([1, 2]))
        out.append(dict(c, family="mag", kind="seq-cmp"))
        c = obj_case(rng)
        for st in c["seq"]:
            st["lam"] = rng.choice(MAG_LAMS)
        out.append(dict(c, family="mag", kind="seq-obj"))
    return out

# ------------------------------------------------------------------ implementation side

def num_of(s):
    f = Fraction(s)
    return int(f) if f.denominator == 1 else f

def build_operand(o, L, objs=None):
    import qubovert as qv
    from qubovert import sat
    if o["t"] == "lbl":
        return L.lab(o["i"])
    if o["t"] == "ref":
        return objs[o["i"]]              # the SAME Python object every time
    if o["t"] == "bvar":
        return qv.boolean_var(L.lab(o["i"]))
    if o["t"] == "raw":
        d = {}
        for k, v in o["p"]:
            kk = L.key(k)
            d[kk] = d.get(kk, 0) + num_of(v)
        return d
    if o["t"] == "mdl":
        return getattr(qv, o["k"])([(L.key(k), num_of(v)) for k, v in o["p"]])
    return getattr(sat, o["g"])(*[build_operand(a, L, objs) for a in o["args"]])

def assignments(n):
    for b in range(2 ** n):
        yield b, [(b >> i) & 1 for i in range(n)]

def state_of(H, L, n, warns):
    cons = {rel: [canon_terms(P, L) for P in lst] for rel, lst in H._constraints.items()}
    valid = []
    for _, bits in assignments(n):
        sol = {L.lab(i): v for i, v in enumerate(bits)}
        valid.append(bool(H.is_solution_valid(sol)))
    return {"terms": canon_terms(H, L), "anc": H.num_ancillas, "cons": cons, "warns": list(warns), "valid": valid}

def full_state(H):
    return (dict(H), H.num_ancillas, {k: [dict(p) for p in v] for k, v in H._constraints.items()})

def run_impl(case):
    """returns (canonical per-step outputs, per-step facts for the oracle)"""
    import qubovert as qv
    L = Labels(case["labels"])
    n = case["n"]
    H = qv.PCBO()
    objs = []
    for o in case.get("pool", []):
        try:
            objs.append(build_operand(o, L, objs))   # created once; later calls receive these very objects
        except Exception as e:
            raise common.Infra("GENERATOR: pool object %r does not build: %r" % (o, e))
    # exactness: `/ 2` in the library turns ints into floats; with a non-dyadic weight anywhere in the history the
    # comparison steps are driven with Fractions throughout (float + Fraction would round; DESIGN.md §3.2)
    frac = any(Fraction(st["lam"]).denominator & (Fraction(st["lam"]).denominator - 1) for st in case["seq"])
    # ... and with a weight of extreme magnitude (the library's floats would round next to 10^18 + 1 or 2^-60)
    frac = frac or any(Fraction(st["lam"]) != 0 and not (Fraction(1, 2 ** 20) <= abs(Fraction(st["lam"])) <= 2 ** 20)
                       for st in case["seq"])
    cnum = (lambda v: Fraction(v)) if frac else num_of
    # "float": dyadic weights are passed as Python floats (the generator keeps all weights of such a case on one scale)
    lnum = (lambda v: float(Fraction(v)) if is_dyadic(v) else num_of(v)) if case.get("num") == "float" else num_of
    outs, funcs, warns = [], [], []
    for st in case["seq"]:
        before_terms, anc_before = dict(H), H.num_ancillas
        before_state = full_state(H)
        pool_snaps = [snapshot(o) for o in objs]
        ops, op_snaps = [], []
        try:
            if st.get("cmp"):
                d = {L.key(k): cnum(v) for k, v in st["P"]}
                kw = dict(lam=cnum(st["lam"]) if case.get("num") != "float" else lnum(st["lam"]))
                if st["rel"] != "eq":
                    kw["log_trick"] = st["lt"]
                if st["lo"] is not None or st["hi"] is not None:
                    kw["bounds"] = (None if st["lo"] is None else cnum(st["lo"]),
                                    None if st["hi"] is None else cnum(st["hi"]))
                ops, name, args = [d], "add_constraint_%s_zero" % st["rel"], (d,)
            else:
                ops = [build_operand(o, L, objs) for o in st["ops"]]
                name, args, kw = "add_constraint_" + ("eq_" if st["eq"] else "") + st["g"], tuple(ops), \
                    dict(lam=lnum(st["lam"]))
            op_snaps = [snapshot(o) for o in ops]
            with warnings.catch_warnings(record=True) as w:
                warnings.simplefilter("always")
                r = getattr(H, name)(*args, **kw)
            for x in w:
                m = str(x.message)
                warns.append("always" if "always" in m else "unsat" if "cannot" in m else m)
            note = None if r is H else "method did not return self"
            err = None
        except Exception as e:
            err = exc_name(e)
        modified = ["pool[%d]" % i for i, (o, sn) in enumerate(zip(objs, pool_snaps)) if snapshot(o) != sn]
        modified += ["operand %d" % i for i, (o, sn) in enumerate(zip(ops, op_snaps))
                     if snapshot(o) != sn and not any(o is p for p in objs)]
        if err:
            outs.append({"err": err})
            funcs.append({"err": err, "unchanged": full_state(H) == before_state, "modified": modified})
            continue
        outs.append(state_of(H, L, n, warns))
        if st.get("cmp"):
            funcs.append({"cmp": True, "valid": outs[-1]["valid"], "note": note, "modified": modified})
            continue
        D = qv.PUBO(dict(H)) - qv.PUBO(before_terms)          # the added terms
        dvars = sorted({str(v) for k in D for v in k})      # labels occurring in the added terms
        F = None
        if not any(v.startswith("__a") for v in dvars):
            F = [Fraction(D.value({L.lab(i): v for i, v in enumerate(bits)})) for _, bits in assignments(n)]
        funcs.append({"F": F, "dvars": dvars, "valid": outs[-1]["valid"], "anc_delta": H.num_ancillas - anc_before,
                      "note": note, "modified": modified})
    return outs, funcs

# ------------------------------------------------------------------ direct oracle (from the property text only)

def poly_value(p, bits):
    tot = Fraction(0)
    for k, v in p:
        m = Fraction(v)
        for i in k:
            m *= bits[i]
        tot += m
    return tot

class NotBoolean(Exception):
    pass

def truth(o, bits):
    """truth value of an operand at an assignment, straight from the operand's description"""
    if o["t"] == "lbl":
        return bool(bits[o["i"]])
    if o["t"] in ("raw", "mdl"):
        v = poly_value(o["p"], bits)
        if v not in (0, 1):
            raise NotBoolean(o)
        return bool(v)
    ts = [truth(a, bits) for a in o["args"]]
    return gate_truth(o["g"], ts)

def gate_truth(g, ts):
    if not ts:                      # qubovert's convention AND() = OR() = XOR() = 1 (see ASSUMPTIONS)
        base = True
    elif g in ("AND", "NAND", "BUFFER", "NOT"):
        base = all(ts)
    elif g in ("OR", "NOR"):
        base = any(ts)
    else:
        base = sum(ts) % 2 == 1
    return (not base) if g in ("NAND", "NOR", "XNOR", "NOT") else base

def expected_error(st):
    """the exception the documentation / signature prescribes, or None"""
    nops = len(st["ops"])
    if not arity_ok(st["eq"], st["g"], nops):
        return "TypeError"
    if st["eq"] and st["g"] in MIN2 and nops - 1 < 2:
        return "ValueError"
    return None

def has_qubo(o):
    if o["t"] == "mdl":
        return o["k"] == "QUBO"
    if o["t"] == "gate":
        return any(has_qubo(a) for a in o["args"])
    return False

def holds(rel, v):
    return {"eq": v == 0, "ne": v != 0, "lt": v < 0, "le": v <= 0, "gt": v > 0, "ge": v >= 0}[rel]

def step_name(st):
    if st.get("cmp"):
        return "add_constraint_%s_zero(%s)" % (st["rel"], st["P"])
    return "%s%s" % ("eq_" if st["eq"] else "", st["g"])

def oracle(case, funcs):
    n = case["n"]
    pool = case.get("pool", [])
    sat_so_far = [True] * (2 ** n)
    for si, (st, f) in enumerate(zip(case["seq"], funcs)):
        if f.get("modified"):
            return "step %d (%s) modified its input object(s) %s — operands must not be modified" % (
                si, step_name(st), ", ".join(f["modified"]))
        if st.get("cmp"):
            if "err" in f:
                return "step %d: %s raised %s" % (si, step_name(st), f["err"])
            if f["note"]:
                return "step %d: %s" % (si, f["note"])
            for b, bits in assignments(n):
                sat_so_far[b] = sat_so_far[b] and holds(st["rel"], poly_value(st["P"], bits))
                if f["valid"][b] != sat_so_far[b]:
                    return ("step %d (%s): is_solution_valid(%s) = %s but the constraints added so far (logical and "
                            "comparison) say %s" % (si, step_name(st), bits, f["valid"][b], sat_so_far[b]))
            continue
        ops = [resolve(o, pool) for o in st["ops"]]
        want_err = expected_error(st)
        if "err" in f:
            if not f["unchanged"]:
                return "step %d raised %s and left the PCBO modified" % (si, f["err"])
            if want_err == f["err"]:
                continue
            if f["err"] == "KeyError" and any(has_qubo(o) for o in ops):
                continue        # degree overflow of a QUBO-typed operand (C05/C07 territory)
            return "step %d: unexpected %s (expected %s)" % (si, f["err"], want_err)
        if want_err:
            return "step %d: expected %s for %d operands, call succeeded" % (si, want_err, len(st["ops"]))
        if f["note"]:
            return "step %d: %s" % (si, f["note"])
        if f["anc_delta"] != 0 or any(v.startswith("__a") for v in f["dvars"]):
            return "step %d (%s) introduced an ancilla (num_ancillas +%s, variables of the added terms %s)" % (
                si, step_name(st), f["anc_delta"], f["dvars"])
        lam = Fraction(st["lam"])
        for b, bits in assignments(n):
            try:
                if st["eq"]:
                    a = truth(ops[0], bits)
                    g = gate_truth(st["g"], [truth(o, bits) for o in ops[1:]])
                    ok = (a == g)
                else:
                    ok = gate_truth(st["g"], [truth(o, bits) for o in ops])
            except NotBoolean as e:
                return "GENERATOR: operand not {0,1}-valued: %r" % (e.args[0],)
            F = f["F"][b]
            if ok and F != 0:
                return "step %d (%s, lam=%s): assignment %s satisfies the gate but the added terms give %s" % (
                    si, step_name(st), st["lam"], bits, F)
            if not ok and F < lam:
                return "step %d (%s, lam=%s): assignment %s violates the gate but the added terms give %s < lam" % (
                    si, step_name(st), st["lam"], bits, F)
            sat_so_far[b] = sat_so_far[b] and ok
            if f["valid"][b] != sat_so_far[b]:
                return "step %d (%s): is_solution_valid(%s) = %s but the constraints added so far say %s" % (
                    si, step_name(st), bits, f["valid"][b], sat_so_far[b])
    return None

# ------------------------------------------------------------------ driver of the check

def model_line(case):
    pool = case.get("pool", [])
    seq = [st if st.get("cmp") else dict(st, ops=[resolve(o, pool) for o in st["ops"]]) for st in case["seq"]]
    return {"op": "logic", "n": case["n"], "seq": seq}

def nontrivial(case, outs):
    return any("err" not in o and not st.get("cmp") and len(st["ops"]) >= 2 for st, o in zip(case["seq"], outs))

def process(ctx, cases):
    models = common.run_driver([model_line(c) for c in cases])
    for c, m in zip(cases, models):
        outs, funcs = run_impl(c)
        ctx.case(c, nontrivial(c, outs))
        ctx.traces += 1
        if isinstance(m, dict) and "driver_error" in m:
            ctx.diff(c["family"], c, outs, m)
            continue
        mm, seen = [], 0
        for o in m:
            o = dict(o)
            tags = o.pop("tags", [])
            for t in tags[seen:]:
                ctx.count("branch:" + t)
            seen = max(seen, len(tags))
            if "cons" in o:
                cons = {}
                for r, p in o["cons"]:
                    cons.setdefault(r, []).append(p)
                o["cons"] = cons
            mm.append(o)
        for st, o in zip(c["seq"], outs):
            if st.get("cmp"):
                ctx.count("%s:cmp:%s" % (c["family"], st["rel"]))
                continue
            ctx.count("%s:%s%s:%s" % (c["family"], "eq_" if st["eq"] else "", st["g"],
                                      ("err:" + o["err"]) if "err" in o else "ok"))
            ctx.count("arity:%d" % len(st["ops"]))
        ctx.count("kind:" + c["kind"])
        if outs != mm:
            ctx.diff(c["family"], c, outs, mm)
        bad = oracle(c, funcs)
        if bad:
            if bad.startswith("GENERATOR"):
                raise common.Infra(bad)
            ctx.violation("C06:" + c["family"], c, bad)

def check(ctx):
    rng = ctx.rng
    cases = tmpl_cases() + hist_tmpl_cases() + enum_cases(rng)
    cases += [rand_case(rng) for _ in range(ctx.scale(1500, 20000))]
    cases += [rand_case(rng, rng.choice([2, 3, 4])) for _ in range(ctx.scale(300, 4000))]
    cases += [obj_case(rng) for _ in range(ctx.scale(300, 4000))]
    cases += [cmp_case(rng) for _ in range(ctx.scale(300, 4000))]
    cases += mag_cases(rng, ctx.scale(60, 800))          # generated last: the earlier streams are unchanged
    process(ctx, cases)
    ctx.exhaustive = False
    if ctx.diffs and not ctx.violations:
        search(ctx)

def search(ctx):
    """failing-input search after a correspondence difference: the direct oracle on the single steps of the
    disagreeing cases with plain-label operands of every arity, and on a fresh larger random batch"""
    extra = []
    for d in ctx.diffs[:50]:
        c = d["case"]
        for st in c["seq"]:
            if st.get("cmp"):
                continue
            c = dict(c, pool=[])
            st = dict(st, ops=[resolve(o, d["case"].get("pool", [])) for o in st["ops"]])
            for nops in range(0, 7):
                seq = [dict(st, ops=[lbl(i) for i in range(nops)])]
                extra.append(dict(c, family="search", seq=seq, n=nops))
            extra.append(dict(c, family="search", seq=[st], n=case_n([st])))
    extra += [rand_case(ctx.rng) for _ in range(3000)]
    extra += [obj_case(ctx.rng) for _ in range(500)] + [cmp_case(ctx.rng) for _ in range(500)]
    for c in extra:
        _, funcs = run_impl(c)
        bad = oracle(c, funcs)
        if bad and not bad.startswith("GENERATOR"):
            ctx.violation("C06:" + c["family"], c, bad)

def replay(ctx, payload):
    c = payload.get("case") or (payload.get("first_difference") or {}).get("case")
    if not c:
        ctx.notes.append("replay file has no case; re-running the full check")
        return check(ctx)
    process(ctx, [c])
