"""C06 — logical constraint methods penalise exactly the violating assignments (correspondence + oracle).

Families:
  enum   all 16 methods x arities (0..5 operands after the first argument; below-minimum and wrong arities
         included for the ValueError / TypeError) x operand kinds (labels / nested sat expressions /
         {0,1}-valued dicts / repeated operands / model objects) x lam in {1, 2, 1/3}
  rand   random single calls with mixed operand kinds and more lam values
  seq    several logical constraints added to one PCBO
  tmpl   fixed templates that force the `_special_constraints_eq_zero` shortcut and the squared branch

Every call is run on the real `qubovert.PCBO` and on the Lean model (`op: logic`); compared exactly after every
step: the terms, the recorded constraints (in order), `num_ancillas`, warnings, `is_solution_valid` on all
assignments.  The direct oracle uses only the property text: the truth table of the added terms against the
gate evaluated with Python's `all` / `any` / `sum % 2` on the operand values.
"""
import itertools, warnings
from fractions import Fraction
from . import common
from .common import Labels, fs, exc_name, canon_terms

CEXT = "plain"
RULE = ("calls add_constraint_[eq_]G(*operands, lam=lam) on a PCBO (fresh, or carrying earlier logical constraints); "
        "operands are labels (4 label realisations), nested sat expressions (depth<=2), {0,1}-valued plain dicts, "
        "PUBO/PCBO/QUBO objects, repeated operands; arities 0..5; lam in {1,2,1/3} (enum) plus {3,5/2,1/8,0} (random); "
        "a case is non-trivial when at least one step succeeds with >=2 operands; distinct = distinct case JSON")
ASSUMPTIONS = ["operands given as dicts / model objects take values in {0,1} on boolean assignments (the generator "
               "builds them so and the oracle re-checks it)",
               "arity 0 of the variadic gates is degenerate: qubovert defines AND()=OR()=XOR()=1; the oracle uses that "
               "convention there (Python's any([]) / sum([])%2 would say False)"]

GATES = ["AND", "OR", "XOR", "NAND", "NOR", "XNOR", "NOT", "BUFFER"]
VARIADIC = ["AND", "OR", "XOR", "NAND", "NOR", "XNOR"]
MIN2 = {"AND", "OR", "NAND", "NOR"}          # eq_ forms that raise ValueError below two variables
LAMS = ["1", "2", "1/3"]

# ------------------------------------------------------------------ operands

def lbl(i):
    return {"t": "lbl", "i": i}

def dict_templates(pool):
    """{0,1}-valued polynomials over the labels in `pool` (raw keys may be unsorted / repeat a label)"""
    i = pool[0]; j = pool[1 % len(pool)]; k = pool[2 % len(pool)]
    t = [
        [[[i], "1"]],
        [[[j, i], "1"]],
        [[[], "1"], [[i], "-1"]],
        [[[i], "1"], [[j], "1"], [[i, j], "-1"]] if i != j else [[[i], "1"]],
        [[[i], "1"], [[j], "1"], [[j, i], "-2"]] if i != j else [[[], "1"]],
        [[[], "1"]],
        [],
        [[[i, i, k], "1"]],
        [[[], "1"], [[i, j, k], "-1"]],
    ]
    return t

def gen_operand(rng, pool, depth, kinds):
    k = rng.choice(kinds)
    if k == "lbl" or (k == "gate" and depth <= 0):
        return lbl(rng.choice(pool))
    if k == "raw":
        sub = rng.sample(pool, min(len(pool), 3))
        rng.shuffle(sub)
        return {"t": "raw", "p": rng.choice(dict_templates(sub))}
    if k == "mdl":
        sub = rng.sample(pool, min(len(pool), 3))
        kind = rng.choice(["PUBO", "PUBO", "PCBO", "QUBO"])
        p = rng.choice(dict_templates(sub)[:7])
        return {"t": "mdl", "k": kind, "p": p}
    g = rng.choice(GATES)
    if g in ("NOT", "BUFFER"):
        args = [gen_operand(rng, pool, depth - 1, kinds)]
    else:
        args = [gen_operand(rng, pool, depth - 1, kinds) for _ in range(rng.choice([1, 2, 2, 3]))]
    return {"t": "gate", "g": g, "args": args}

def arity_ok(eq, g, nops):
    """number of operands Python's signature accepts (otherwise TypeError before anything happens)"""
    if g in ("NOT", "BUFFER"):
        return nops == (2 if eq else 1)
    return nops >= 1 if eq else True

def make_ops(rng, kind, nops, pool):
    if kind == "labels":
        return [lbl(i) for i in range(nops)]
    if kind == "repeated":
        base = [rng.choice(pool[:2]) for _ in range(nops)]
        return [lbl(i) for i in base]
    if kind == "nested":
        return [gen_operand(rng, pool, 2, ["gate", "gate", "lbl"]) if rng.random() < 0.8 else lbl(rng.choice(pool))
                for _ in range(nops)]
    if kind == "dicts":
        return [gen_operand(rng, pool, 0, ["raw"]) for _ in range(nops)]
    if kind == "models":
        return [gen_operand(rng, pool, 0, ["mdl", "mdl", "lbl"]) for _ in range(nops)]
    raise ValueError(kind)

def labels_of(o, acc):
    if o["t"] == "lbl":
        acc.add(o["i"])
    elif o["t"] in ("raw", "mdl"):
        for k, _ in o["p"]:
            acc.update(k)
    else:
        for a in o["args"]:
            labels_of(a, acc)
    return acc

def case_n(seq):
    acc = set()
    for st in seq:
        for o in st["ops"]:
            labels_of(o, acc)
    return (max(acc) + 1) if acc else 0

def enum_cases(rng):
    out = []
    styles = Labels.STYLES
    idx = 0
    for eq in (False, True):
        for g in GATES:
            if g in ("NOT", "BUFFER"):
                arities = [1, 2, 3] if eq else [0, 1, 2]
            else:
                arities = list(range(0, 7)) if eq else list(range(0, 6))
            for nops in arities:
                for kind in ("labels", "nested", "dicts", "repeated", "models"):
                    for lam in LAMS:
                        pool = list(range(4))
                        ops = make_ops(rng, kind, nops, pool)
                        seq = [{"eq": eq, "g": g, "ops": ops, "lam": lam}]
                        out.append({"family": "enum", "kind": kind, "labels": styles[idx % 4], "seq": seq,
                                    "n": case_n(seq)})
                        idx += 1
    return out

def rand_step(rng, pool):
    eq = rng.random() < 0.5
    g = rng.choice(GATES)
    if g in ("NOT", "BUFFER"):
        nops = 2 if eq else 1
        if rng.random() < 0.03:
            nops += rng.choice([-1, 1])
    else:
        nops = rng.choice([1, 2, 2, 3, 3, 4, 5]) + (1 if eq else 0)
        if rng.random() < 0.06:
            nops = rng.choice([0, 1, 2])
    kinds = rng.choice([["lbl"], ["lbl", "gate"], ["lbl", "gate", "raw", "mdl"], ["gate"], ["raw", "lbl"],
                        ["mdl", "lbl", "gate"]])
    ops = [gen_operand(rng, pool, rng.choice([1, 2]), kinds) for _ in range(nops)]
    lam = rng.choice(["1", "2", "1/3", "1", "3", "5/2", "1/8"] + (["0"] if rng.random() < 0.05 else []))
    return {"eq": eq, "g": g, "ops": ops, "lam": lam}

def rand_case(rng, steps=1):
    pool = list(range(rng.choice([2, 3, 4, 4, 5])))
    seq = [rand_step(rng, pool) for _ in range(steps)]
    return {"family": "rand" if steps == 1 else "seq", "kind": "mixed", "labels": rng.choice(Labels.STYLES),
            "seq": seq, "n": case_n(seq)}

def tmpl_cases():
    """the shortcut `z == x*y` of `_special_constraints_eq_zero` reached through the logic methods, and the
    squared-difference branch with non-trivial operands"""
    a, b, c, d = lbl(0), lbl(1), lbl(2), lbl(3)
    AND = lambda *x: {"t": "gate", "g": "AND", "args": list(x)}
    NOT = lambda x: {"t": "gate", "g": "NOT", "args": [x]}
    OR = lambda *x: {"t": "gate", "g": "OR", "args": list(x)}
    raw_bc = {"t": "raw", "p": [[[1, 2], "1"]]}
    T = [
        (True, "BUFFER", [a, AND(b, c)]), (True, "BUFFER", [AND(b, c), a]), (True, "BUFFER", [a, raw_bc]),
        (True, "XOR", [a, AND(b, c)]), (True, "XNOR", [NOT(a), AND(b, c)]), (True, "NOT", [NOT(a), AND(b, c)]),
        (True, "NOT", [AND(b, c), NOT(a)]), (True, "BUFFER", [a, AND(a, c)]), (True, "BUFFER", [a, AND(b, b)]),
        (True, "OR", [a, b, c, d]), (True, "NOR", [a, b, c, d]), (True, "AND", [a, b, c, d]),
        (True, "NAND", [a, b, c, d]), (True, "XOR", [a, b, c, d]), (True, "XNOR", [a, b, c, d]),
        (True, "OR", [AND(a, b), OR(b, c), NOT(d), c]), (True, "AND", [OR(a, b), NOT(c), OR(c, d)]),
        (False, "BUFFER", [AND(b, c)]), (False, "NOT", [OR(a, NOT(b))]),
    ]
    out = []
    for i, (eq, g, ops) in enumerate(T):
        for lam in LAMS:
            seq = [{"eq": eq, "g": g, "ops": ops, "lam": lam}]
            out.append({"family": "tmpl", "kind": "tmpl", "labels": Labels.STYLES[i % 4], "seq": seq, "n": case_n(seq)})
    return out

# ------------------------------------------------------------------ implementation side

def num_of(s):
    f = Fraction(s)
    return int(f) if f.denominator == 1 else f

def build_operand(o, L):
    import qubovert as qv
    from qubovert import sat
    if o["t"] == "lbl":
        return L.lab(o["i"])
    if o["t"] == "raw":
        d = {}
        for k, v in o["p"]:
            kk = L.key(k)
            d[kk] = d.get(kk, 0) + num_of(v)
        return d
    if o["t"] == "mdl":
        return getattr(qv, o["k"])([(L.key(k), num_of(v)) for k, v in o["p"]])
    return getattr(sat, o["g"])(*[build_operand(a, L) for a in o["args"]])

def assignments(n):
    for b in range(2 ** n):
        yield b, [(b >> i) & 1 for i in range(n)]

def state_of(H, L, n, warns):
    cons = []
    for rel, lst in H._constraints.items():
        for P in lst:
            cons.append([rel, canon_terms(P, L)])
    # all recorded constraints of the logic methods are 'eq'; the dict keeps per-relation append order
    valid = []
    for _, bits in assignments(n):
        sol = {L.lab(i): v for i, v in enumerate(bits)}
        valid.append(bool(H.is_solution_valid(sol)))
    return {"terms": canon_terms(H, L), "anc": H.num_ancillas, "cons": cons, "warns": list(warns), "valid": valid}

def run_impl(case):
    """returns (canonical per-step outputs, per-step term functions for the oracle, notes)"""
    import qubovert as qv
    L = Labels(case["labels"])
    n = case["n"]
    H = qv.PCBO()
    outs, funcs, warns = [], [], []
    for st in case["seq"]:
        before_terms = dict(H)
        before_state = (dict(H), H.num_ancillas, {k: [dict(p) for p in v] for k, v in H._constraints.items()})
        name = "add_constraint_" + ("eq_" if st["eq"] else "") + st["g"]
        try:
            ops = [build_operand(o, L) for o in st["ops"]]
            with warnings.catch_warnings(record=True) as w:
                warnings.simplefilter("always")
                r = getattr(H, name)(*ops, lam=num_of(st["lam"]))
            for x in w:
                m = str(x.message)
                warns.append("always" if "always" in m else "unsat" if "cannot" in m else m)
            note = None if r is H else "method did not return self"
        except Exception as e:
            after_state = (dict(H), H.num_ancillas, {k: [dict(p) for p in v] for k, v in H._constraints.items()})
            outs.append({"err": exc_name(e)})
            funcs.append({"err": exc_name(e), "unchanged": after_state == before_state})
            continue
        outs.append(state_of(H, L, n, warns))
        vals_before, vals_after = [], []
        Hb = qv.PUBO(before_terms)
        for _, bits in assignments(n):
            sol = {L.lab(i): v for i, v in enumerate(bits)}
            vals_before.append(Fraction(Hb.value(sol)))
            vals_after.append(Fraction(H.value(sol)))
        funcs.append({"F": [a - b for a, b in zip(vals_after, vals_before)],
                      "vars": [str(v) for v in H.variables], "valid": outs[-1]["valid"], "anc": H.num_ancillas,
                      "note": note})
    return outs, funcs

# ------------------------------------------------------------------ direct oracle (from the property text only)

def poly_value(p, bits):
    tot = Fraction(0)
    for k, v in p:
        m = Fraction(v)
        for i in k:
            m *= bits[i]
        tot += m
    return tot

class NotBoolean(Exception):
    pass

def truth(o, bits):
    """truth value of an operand at an assignment, straight from the operand's description"""
    if o["t"] == "lbl":
        return bool(bits[o["i"]])
    if o["t"] in ("raw", "mdl"):
        v = poly_value(o["p"], bits)
        if v not in (0, 1):
            raise NotBoolean(o)
        return bool(v)
    ts = [truth(a, bits) for a in o["args"]]
    return gate_truth(o["g"], ts)

def gate_truth(g, ts):
    if not ts:                      # qubovert's convention AND() = OR() = XOR() = 1 (see ASSUMPTIONS)
        base = True
    elif g in ("AND", "NAND", "BUFFER", "NOT"):
        base = all(ts)
    elif g in ("OR", "NOR"):
        base = any(ts)
    else:
        base = sum(ts) % 2 == 1
    return (not base) if g in ("NAND", "NOR", "XNOR", "NOT") else base

def expected_error(st):
    """the exception the documentation / signature prescribes, or None"""
    nops = len(st["ops"])
    if not arity_ok(st["eq"], st["g"], nops):
        return "TypeError"
    if st["eq"] and st["g"] in MIN2 and nops - 1 < 2:
        return "ValueError"
    return None

def has_qubo(o):
    if o["t"] == "mdl":
        return o["k"] == "QUBO"
    if o["t"] == "gate":
        return any(has_qubo(a) for a in o["args"])
    return False

def oracle(case, funcs):
    n = case["n"]
    sat_so_far = [True] * (2 ** n)
    for si, (st, f) in enumerate(zip(case["seq"], funcs)):
        want_err = expected_error(st)
        if "err" in f:
            if not f["unchanged"]:
                return "step %d raised %s and left the PCBO modified" % (si, f["err"])
            if want_err == f["err"]:
                continue
            if f["err"] == "KeyError" and any(has_qubo(o) for o in st["ops"]):
                continue        # degree overflow of a QUBO-typed operand (C05/C07 territory)
            return "step %d: unexpected %s (expected %s)" % (si, f["err"], want_err)
        if want_err:
            return "step %d: expected %s for %d operands, call succeeded" % (si, want_err, len(st["ops"]))
        if f["note"]:
            return "step %d: %s" % (si, f["note"])
        if f["anc"] != 0 or any(v.startswith("__a") for v in f["vars"]):
            return "step %d introduced an ancilla (num_ancillas=%s, variables=%s)" % (si, f["anc"], f["vars"])
        lam = Fraction(st["lam"])
        for b, bits in assignments(n):
            try:
                if st["eq"]:
                    a = truth(st["ops"][0], bits)
                    g = gate_truth(st["g"], [truth(o, bits) for o in st["ops"][1:]])
                    ok = (a == g)
                else:
                    ok = gate_truth(st["g"], [truth(o, bits) for o in st["ops"]])
            except NotBoolean as e:
                return "GENERATOR: operand not {0,1}-valued: %r" % (e.args[0],)
            F = f["F"][b]
            if ok and F != 0:
                return "step %d (%s%s, lam=%s): assignment %s satisfies the gate but the added terms give %s" % (
                    si, "eq_" if st["eq"] else "", st["g"], st["lam"], bits, F)
            if not ok and F < lam:
                return "step %d (%s%s, lam=%s): assignment %s violates the gate but the added terms give %s < lam" % (
                    si, "eq_" if st["eq"] else "", st["g"], st["lam"], bits, F)
            sat_so_far[b] = sat_so_far[b] and ok
            if f["valid"][b] != sat_so_far[b]:
                return "step %d (%s%s): is_solution_valid(%s) = %s but the gates say %s" % (
                    si, "eq_" if st["eq"] else "", st["g"], bits, f["valid"][b], sat_so_far[b])
    return None

# ------------------------------------------------------------------ driver of the check

def model_line(case):
    return {"op": "logic", "n": case["n"], "seq": case["seq"]}

def nontrivial(case, outs):
    return any("err" not in o and len(st["ops"]) >= 2 for st, o in zip(case["seq"], outs))

def process(ctx, cases):
    models = common.run_driver([model_line(c) for c in cases])
    for c, m in zip(cases, models):
        outs, funcs = run_impl(c)
        ctx.case(c, nontrivial(c, outs))
        ctx.traces += 1
        if isinstance(m, dict) and "driver_error" in m:
            ctx.diff(c["family"], c, outs, m)
            continue
        mm, seen = [], 0
        for o in m:
            o = dict(o)
            tags = o.pop("tags", [])
            for t in tags[seen:]:
                ctx.count("branch:" + t)
            seen = max(seen, len(tags))
            mm.append(o)
        for st, o in zip(c["seq"], outs):
            ctx.count("%s:%s%s:%s" % (c["family"], "eq_" if st["eq"] else "", st["g"],
                                      ("err:" + o["err"]) if "err" in o else "ok"))
            ctx.count("arity:%d" % len(st["ops"]))
        ctx.count("kind:" + c["kind"])
        if outs != mm:
            ctx.diff(c["family"], c, outs, mm)
        bad = oracle(c, funcs)
        if bad:
            if bad.startswith("GENERATOR"):
                raise common.Infra(bad)
            ctx.violation("C06:" + c["family"], c, bad)

def check(ctx):
    rng = ctx.rng
    cases = tmpl_cases() + enum_cases(rng)
    cases += [rand_case(rng) for _ in range(ctx.scale(1500, 20000))]
    cases += [rand_case(rng, rng.choice([2, 3, 4])) for _ in range(ctx.scale(300, 4000))]
    process(ctx, cases)
    ctx.exhaustive = False
    if ctx.diffs and not ctx.violations:
        search(ctx)

def search(ctx):
    """failing-input search after a correspondence difference: the direct oracle on the single steps of the
    disagreeing cases with plain-label operands of every arity, and on a fresh larger random batch"""
    extra = []
    for d in ctx.diffs[:50]:
        c = d["case"]
        for st in c["seq"]:
            for nops in range(0, 7):
                seq = [dict(st, ops=[lbl(i) for i in range(nops)])]
                extra.append(dict(c, family="search", seq=seq, n=nops))
            extra.append(dict(c, family="search", seq=[st], n=case_n([st])))
    extra += [rand_case(ctx.rng) for _ in range(3000)]
    for c in extra:
        _, funcs = run_impl(c)
        bad = oracle(c, funcs)
        if bad and not bad.startswith("GENERATOR"):
            ctx.violation("C06:" + c["family"], c, bad)

def replay(ctx, payload):
    c = payload.get("case") or (payload.get("first_difference") or {}).get("case")
    if not c:
        ctx.notes.append("replay file has no case; re-running the full check")
        return check(ctx)
    process(ctx, [c])
