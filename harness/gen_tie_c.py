"""Source-level tie for the C annealing kernels (DESIGN.md §7): regenerate `lean/Qv/Gen/CSource.lean` from the
current `pcg_basic.c`, `random.c`, `anneal_quso.c`, `anneal_puso.c` (clang JSON AST -> Lean, harness/translate_c.py),
rebuild the refinement proofs `Qv.Proofs.GenEqC.*` against the hand-written models and audit their axioms.

    translate_and_build(prop_id) -> dict(ok, problems, functions, theorems, obligations, discharged)

Same contract as `harness/gen_tie.py`: `harness/run.py` folds the result into the Lean audit of C17 and C12, so a
source edit that changes a generated definition (an index expression, a loop bound, a PCG constant, a missing
`free`) and breaks its theorem is a broken proof obligation of the property (DESIGN.md §2.4 then applies:
failing-input search, `VIOLATION ... [no-failing-input-found]`).
"""
import os, re, subprocess
from . import common, translate_c
from . import translate_canneal      # [cw] the CPython wrapper _canneal.c (own translator module, own generated file)

PROPS = ("C12", "C17", "C11")         # [cw] C11: only the _canneal.c entries carry it
# evaluated instances of the generated definitions (non-vacuity); built after the theorem modules
EXTRA_MODULES = ["Qv.Proofs.GenEqC.Examples", "Qv.Proofs.GenEqC.CannealExamples"]
GENERATED = [translate_c, translate_canneal]
CHECKED_FILES = ("CSource.lean", "CPrelude.lean", "CSourceCanneal.lean", "CPreludePy.lean")


def _axioms(out, name):
    if re.search(r"'%s' does not depend on any axioms" % re.escape(name), out):
        return []
    m = re.search(r"'%s' depends on axioms: \[([^\]]*)\]" % re.escape(name), out)
    if m:
        return [x.strip() for x in m.group(1).replace("\n", " ").split(",") if x.strip()]
    return None


def translate_and_build(prop):
    if prop not in PROPS:
        return dict(ok=True, problems=[], functions=[], theorems=[], obligations=0, discharged=0)
    problems, functions, theorems = [], [], []
    lock = common._lake_lock()          # translation + build + audit see one consistent CSource.lean
    try:
        try:
            manifest = {}
            for g in GENERATED:
                manifest.update(g.write())
        except translate_c.ToolFailure as err:
            raise common.Infra("generated-source tie (C): " + str(err))
        recs = [r for r in manifest.values() if prop in r["props"]]
        for fn in CHECKED_FILES:
            src = common.strip_comments(open(os.path.join(translate_c.GEN_DIR, fn)).read())
            for ln, line in enumerate(src.splitlines(), 1):
                if common.FORBIDDEN.search(line):
                    problems.append("forbidden construct in Qv/Gen/%s:%d: %s" % (fn, ln, line.strip()))
        for r in recs:
            if r["status"] != "translated":
                problems.append("generated-source tie (C): %s `%s` is %s" % (r["file"], r["function"], r["status"]))
        modules = []
        for r in recs:
            for m in r["modules"]:
                if m not in modules:
                    modules.append(m)
        built = {}
        b = subprocess.run(["lake", "build"] + modules, cwd=common.LEAN, capture_output=True, text=True)
        if b.returncode == 0:
            built = {m: True for m in modules}
        else:
            log = b.stdout + b.stderr
            failed = set(re.findall(r"^- (Qv\.\S+)", log, re.M)) | set(re.findall(r"✖ \[\d+/\d+\] Building (\S+)", log))
            # a module that imports a failed one is not built either: rebuild one by one to find out which stand
            for m in modules:
                if m in failed:
                    built[m] = False
                else:
                    built[m] = subprocess.run(["lake", "build", m], cwd=common.LEAN, capture_output=True,
                                              text=True).returncode == 0
            errs = [l for l in log.splitlines() if l.startswith("error:") and "build failed" not in l
                    and "Lean exited" not in l]
            bad = [m for m in modules if not built[m]]
            problems.append("generated-source tie (C): %s no longer check(s) against the definitions generated from "
                            "the current C source: %s" % (", ".join(bad), " | ".join(errs[:4])[:900] or log[-600:]))
        if all(built.get(m) for m in modules):
            for m in EXTRA_MODULES:
                e = subprocess.run(["lake", "build", m], cwd=common.LEAN, capture_output=True, text=True)
                if e.returncode != 0:
                    log = e.stdout + e.stderr
                    errs = [l for l in log.splitlines() if l.startswith("error:") and "build failed" not in l
                            and "Lean exited" not in l]
                    problems.append("generated-source tie (C): %s (the generated definitions evaluated on concrete "
                                    "inputs) no longer builds: %s" % (m, " | ".join(errs[:3])[:600] or log[-400:]))
        ok_modules = [m for m in modules if built.get(m)]
        out = ""
        if ok_modules:
            names = [n for r in recs for n in r["theorems"] if all(built.get(m) for m in r["modules"])]
            audit = "".join("import %s\n" % m for m in ok_modules) + "".join("#print axioms %s\n" % n for n in names)
            tmp = os.path.join(common.LEAN, ".lake", "audit_genc_%s_%d.lean" % (prop, os.getpid()))
            open(tmp, "w").write(audit)
            try:
                a = subprocess.run(["lake", "env", "lean", tmp], cwd=common.LEAN, capture_output=True, text=True)
            finally:
                os.unlink(tmp)
            out = a.stdout + a.stderr
        discharged = 0
        for r in recs:
            r_built = all(built.get(m) for m in r["modules"])
            f_ok = r_built and r["status"] == "translated"
            for n in r["theorems"]:
                axs = _axioms(out, n) if r_built else None
                if r_built and axs is None:
                    problems.append("generated-source tie (C): no axiom report for " + n)
                bad = [x for x in (axs or []) if x not in common.ALLOWED_AXIOMS]
                if bad:
                    problems.append("generated-source tie (C): %s depends on %s" % (n, bad))
                if axs is not None and not bad:
                    discharged += 1
                else:
                    f_ok = False
                theorems.append(dict(name=n, axioms=axs, generated_from=r["file"] + "::" + r["function"]))
            functions.append(dict(function=r["file"] + "::" + r["function"], lines=r["lines"],
                                  source_hash=r["source_hash"], lean_name=r["lean_name"], loops=r["loops"],
                                  outside_fragment=r["outside"], theorems=r["theorems"], status=r["status"],
                                  checked=f_ok))
        if os.path.realpath(translate_c.repo()) != os.path.realpath("/repo"):
            # a redirected run (seeded change): leave the tree with the file generated from /repo
            saved = os.environ.pop("VERIF_REPO", None)
            try:
                for g in GENERATED:
                    g.write()
            finally:
                if saved is not None:
                    os.environ["VERIF_REPO"] = saved
    finally:
        lock.close()
    return dict(ok=not problems, problems=problems, functions=functions, theorems=theorems,
                obligations=len(theorems), discharged=discharged)


if __name__ == "__main__":
    import json, sys
    r = translate_and_build(sys.argv[1] if len(sys.argv) > 1 else "C17")
    print(json.dumps(r, indent=1))
    sys.exit(0 if r["ok"] else 1)
