"""C07 — sat expression builders compute their truth functions (correspondence + oracle).

Families:
  tree      random gate trees (depth<=4, arity 0..5), leaves: labels, raw dicts, models of the five boolean types
  grid      all 8 gates x arities 1..6 on distinct labels and on repeated labels, in every label style
  overflow  degree-2-typed operands (QUBO / QUBOMatrix) in leading and trailing position with >= 3 labels in play
"""
import itertools
from fractions import Fraction
import json
from . import common
from .common import Labels, fs, exc_name, canon_terms, snapshot

CEXT = "plain"
RULE = ("gate trees over BUFFER NOT AND NAND OR NOR XOR XNOR, depth<=4, arity 0..5 (0 and wrong BUFFER/NOT arities as "
        "corner cases), leaves = labels (int/str/tuple/mixed), plain dicts with unsorted/repeated raw keys, "
        "QUBO/PUBO/PCBO/QUBOMatrix/PUBOMatrix models ({0,1}-valued small models, ~12% arbitrary polynomials for the "
        "correspondence only), the same object passed twice, nested results; plus every gate x arity 1..6 on "
        "distinct and repeated labels and a degree-overflow stream; a case is non-trivial when some gate has >= 2 "
        "operands; distinct = distinct case JSON")
ASSUMPTIONS = ["the truth-table oracle applies to trees whose gates have >= 1 operand and whose dict/model leaves are "
               "{0,1}-valued on boolean assignments (the scope of the property); other trees are compared with the model only"]

GATES = ["BUFFER", "NOT", "AND", "NAND", "OR", "NOR", "XOR", "XNOR"]
NARY = ["AND", "NAND", "OR", "NOR", "XOR", "XNOR"]
BOOL_KINDS = ["QUBO", "PUBO", "PCBO", "QUBOMatrix", "PUBOMatrix"]
DEG2 = {"QUBO", "QUBOMatrix"}
MATRIX = {"QUBOMatrix", "PUBOMatrix"}


def cls_of(name):
    import qubovert as qv
    from qubovert import utils
    return getattr(qv, name, None) or getattr(utils, name)

# ------------------------------------------------------------------ generation

def shuffled(rng, l):
    l = list(l)
    rng.shuffle(l)
    return l

def bool_poly(rng, n, deg2):
    """terms of a small polynomial that is {0,1}-valued on every boolean assignment; raw keys may be unsorted and
    repeat a label (the constructors squash them)"""
    i, j, k = (rng.randrange(n) for _ in range(3))
    shapes = ["var", "var", "notvar", "and2", "or2", "xor2", "nand2", "one", "zero", "varsq", "split"]
    if not deg2:
        shapes += ["and3", "and3rep", "or3"]
    s = rng.choice(shapes)
    if s == "var":
        p = [[[i], "1"]]
    elif s == "notvar":
        p = [[[], "1"], [[i], "-1"]]
    elif s == "and2":
        p = [[[i, j], "1"]]
    elif s == "or2":
        p = [[[i], "1"], [[j], "1"], [[j, i], "-1"]] if i != j else [[[i], "1"]]
    elif s == "xor2":
        p = [[[i], "1"], [[j], "1"], [[i, j], "-2"]] if i != j else []
    elif s == "nand2":
        p = [[[], "1"], [[j, i], "-1"]]
    elif s == "one":
        p = [[[], "1"]]
    elif s == "zero":
        p = []
    elif s == "varsq":
        p = [[[i, i], "1"]]
    elif s == "split":
        p = [[[i, j], "1/2"], [[j, i], "1/2"]] if i != j else [[[i], "1/2"], [[i, i], "1/2"]]
    elif s == "and3":
        p = [[[k, i, j], "1"]]
    elif s == "and3rep":
        p = [[[j, i, j, k, i], "1"]]
    else:  # or3 = 1 - (1-a)(1-b)(1-c) on distinct a,b,c; degenerate picks fall back to a variable
        if len({i, j, k}) == 3:
            p = [[[i], "1"], [[j], "1"], [[k], "1"], [[i, j], "-1"], [[i, k], "-1"], [[j, k], "-1"], [[i, j, k], "1"]]
        else:
            p = [[[i], "1"]]
    return shuffled(rng, p)

def gen_coef(rng):
    r = rng.random()
    if r < 0.6:
        return str(rng.choice([-3, -2, -1, 1, 2, 3]))
    if r < 0.85:
        return rng.choice(["1/2", "-1/2", "3/2", "-3/4", "1/4"])
    return rng.choice(["1/3", "-2/3", "0"])

def any_poly(rng, n, deg2):
    terms = []
    for _ in range(rng.randint(1, 4)):
        ln = rng.choice([0, 1, 1, 2, 2] if deg2 else [0, 1, 1, 2, 2, 3])
        terms.append([[rng.randrange(n) for _ in range(ln)], gen_coef(rng)])
    return terms

def gen_leaf(rng, n, kinds, wild):
    r = rng.random()
    if r < 0.45:
        return {"t": "lbl", "i": rng.randrange(n)}
    if r < 0.6:
        return {"t": "raw", "p": any_poly(rng, n, False) if (wild and rng.random() < 0.5) else bool_poly(rng, n, False)}
    k = rng.choice(kinds)
    return {"t": "mdl", "k": k,
            "p": any_poly(rng, n, k in DEG2) if (wild and rng.random() < 0.5) else bool_poly(rng, n, k in DEG2)}

def gen_gate(rng, n, depth, kinds, wild, corner):
    g = rng.choice(GATES if depth > 1 else NARY + ["NOT"])
    if g in ("BUFFER", "NOT"):
        ar = 1 if not corner or rng.random() < 0.7 else rng.choice([0, 2, 3])
    else:
        ar = rng.choice([1, 2, 2, 3, 3, 4, 5]) if not corner or rng.random() < 0.7 else rng.choice([0, 0, 1])
    args = []
    for pos in range(ar):
        if pos > 0 and rng.random() < 0.08:
            j = rng.randrange(pos)
            if args[j]["t"] != "same":
                args.append({"t": "same", "j": j})
                continue
        if depth > 1 and rng.random() < 0.55:
            args.append(gen_gate(rng, n, depth - 1, kinds, wild, corner))
        else:
            args.append(gen_leaf(rng, n, kinds, wild))
    return {"t": "gate", "g": g, "args": args}

def tree_case(rng, maxn=6):
    r = rng.random()
    if r < 0.2:
        kinds = [k for k in BOOL_KINDS if k in DEG2]
    elif r < 0.6:
        kinds = [k for k in BOOL_KINDS if k not in DEG2]
    else:
        kinds = BOOL_KINDS
    n = rng.randint(2, maxn)
    wild = rng.random() < 0.12
    corner = rng.random() < 0.15
    depth = rng.choice([1, 2, 2, 3, 3, 4])
    tree = gen_gate(rng, n, depth, kinds, wild, corner)
    return finish(rng, "tree", n, tree, wild=wild)

def finish(rng, family, n, tree, labels=None, wild=False):
    uses_matrix = bool(tree_kinds(tree, set()) & MATRIX)
    if labels is None:
        labels = "int" if uses_matrix else rng.choice(Labels.STYLES_XEQ)
    num = rng.choice(["int", "frac", "float"])
    if num == "float" and (wild or not all_dyadic(tree)):
        num = "frac"       # products of arbitrary dyadic coefficients outgrow the 53-bit mantissa; {0,1}-valued leaves stay exact
    return {"family": family, "n": n, "tree": tree, "labels": labels, "num": num}

def nodes(t):
    yield t
    for a in t.get("args", ()):
        yield from nodes(a)

def tree_kinds(t, acc):
    for u in nodes(t):
        if u["t"] == "mdl":
            acc.add(u["k"])
    return acc

def all_dyadic(t):
    for u in nodes(t):
        if u["t"] in ("raw", "mdl"):
            for _, v in u["p"]:
                d = Fraction(v).denominator
                if d & (d - 1):
                    return False
    return True

def nontrivial(t):
    return any(u["t"] == "gate" and len(u["args"]) >= 2 for u in nodes(t))

def grid_cases(rng):
    out = []
    reps = [0, 1, 0, 2, 1, 0]
    for g in GATES:
        for ar in range(1, 7):
            for style in Labels.STYLES:
                for ids in (list(range(ar)), reps[:ar]):
                    tree = {"t": "gate", "g": g, "args": [{"t": "lbl", "i": i} for i in ids]}
                    out.append({"family": "grid", "n": max(ids) + 1, "tree": tree, "labels": style, "num": "int"})
    return out

def overflow_cases(rng, count):
    out = []
    for _ in range(count):
        n = rng.randint(3, 5)
        g = rng.choice(NARY)
        ar = rng.randint(2, 4)
        k = rng.choice(sorted(DEG2))
        args = []
        for _ in range(ar):
            r = rng.random()
            if r < 0.6:
                args.append({"t": "lbl", "i": rng.randrange(n)})
            elif r < 0.8:
                args.append({"t": "mdl", "k": rng.choice(["PUBO", "PCBO", k]), "p": bool_poly(rng, n, True)})
            else:
                args.append({"t": "gate", "g": rng.choice(NARY),
                             "args": [{"t": "lbl", "i": rng.randrange(n)} for _ in range(rng.randint(1, 3))]})
        pos = rng.choice([0, 0, ar - 1, rng.randrange(ar)])
        args[pos] = {"t": "mdl", "k": k, "p": bool_poly(rng, n, True)}
        tree = {"t": "gate", "g": g, "args": args}
        if rng.random() < 0.3:
            tree = {"t": "gate", "g": rng.choice(NARY), "args": shuffled(rng, [tree, {"t": "lbl", "i": rng.randrange(n)}])}
        out.append(finish(rng, "overflow", n, tree))
    return out

# ------------------------------------------------------------------ implementation side

def num_of(s, style):
    f = Fraction(s)
    if style == "float" and (f.denominator & (f.denominator - 1)) == 0:
        return float(f)
    if f.denominator == 1 and style != "frac":
        return int(f)
    return f

def ev(t, L, style, log):
    """build the operand / call the gate on the real qubovert objects"""
    k = t["t"]
    if k == "lbl":
        return L.lab(t["i"])
    if k == "raw":
        d = {}
        for key, v in t["p"]:
            kk = L.key(key)
            d[kk] = d.get(kk, 0) + num_of(v, style)     # a dict literal cannot repeat a key: pre-merged
        return d
    if k == "mdl":
        return cls_of(t["k"])([(L.key(key), num_of(v, style)) for key, v in t["p"]])
    import qubovert.sat as sat
    args = []
    for a in t["args"]:
        args.append(args[a["j"]] if a["t"] == "same" else ev(a, L, style, log))
    snaps = [snapshot(a) for a in args]
    r = getattr(sat, t["g"])(*args)
    for i, (a, s0) in enumerate(zip(args, snaps)):
        if snapshot(a) != s0:
            log.append("%s modified its operand %d (%s): before %s after %s" % (t["g"], i, type(a).__name__, s0[1], snapshot(a)[1]))
    return r

def canon_result(r, L):
    if isinstance(r, dict):
        return {"type": type(r).__name__, "terms": canon_terms(r, L)}
    return {"type": "num", "c": fs(r)}

def run_impl(case):
    L = Labels(case["labels"])
    log = []
    try:
        r = ev(case["tree"], L, case["num"], log)
    except Exception as e:
        return {"err": exc_name(e)}, None, log
    try:
        canon = canon_result(r, L)
    except (KeyError, TypeError, ValueError) as e:     # a label that none of the inputs contains
        canon = {"type": type(r).__name__, "unknown_label": repr(e)}
    return canon, r, log

def strip(t):
    """the tree as the driver sees it: `same` references expanded"""
    if t["t"] != "gate":
        return t
    args = []
    for a in t["args"]:
        args.append(args[a["j"]] if a["t"] == "same" else strip(a))
    return {"t": "gate", "g": t["g"], "args": args}

def assignments(n):
    return list(itertools.product((0, 1), repeat=n))

def model_line(case):
    xs = [[[i, str(b)] for i, b in enumerate(bits)] for bits in assignments(case["n"])]
    return {"op": "sat", "tree": strip(case["tree"]), "xs": xs}

# ------------------------------------------------------------------ direct oracle (independent of the Lean model)

class OutOfScope(Exception):
    pass

def leaf_value(p, x):
    tot = Fraction(0)
    for key, v in p:
        m = Fraction(v)
        for i in key:
            m *= x[i]
        tot += m
    return tot

def truth_of(t, x):
    """truth value of the expression at the 0/1 assignment x, with Python's own all / any / sum % 2"""
    k = t["t"]
    if k == "lbl":
        return bool(x[t["i"]])
    if k in ("raw", "mdl"):
        v = leaf_value(t["p"], x)
        if v not in (0, 1):
            raise OutOfScope("leaf not {0,1}-valued")
        return bool(v)
    ts = []
    for a in t["args"]:
        ts.append(ts[a["j"]] if a["t"] == "same" else truth_of(a, x))
    g = t["g"]
    if not ts:
        raise OutOfScope("gate without operand")
    if g in ("BUFFER", "NOT"):
        if len(ts) != 1:
            raise OutOfScope("BUFFER/NOT take exactly one operand")
        return ts[0] if g == "BUFFER" else not ts[0]
    if g == "AND": return all(ts)
    if g == "NAND": return not all(ts)
    if g == "OR": return any(ts)
    if g == "NOR": return not any(ts)
    if g == "XOR": return sum(ts) % 2 == 1
    if g == "XNOR": return sum(ts) % 2 == 0
    raise ValueError(g)

def in_scope(t):
    for u in nodes(t):
        if u["t"] == "gate":
            if not u["args"] or (u["g"] in ("BUFFER", "NOT") and len(u["args"]) != 1):
                return False
    return True

def truth_table(case):
    """list of booleans over all assignments, or None when the tree is outside the property's scope"""
    try:
        return [truth_of(case["tree"], bits) for bits in assignments(case["n"])]
    except OutOfScope:
        return None

def oracle(case, canon, obj, log):
    """the property, evaluated on the implementation's own result"""
    if log:
        return "inputs-not-modified clause: " + "; ".join(log)
    tree = case["tree"]
    if "err" in canon:
        if canon["err"] == "KeyError" and tree_kinds(tree, set()) & DEG2:
            return None            # a QUBO-typed operand cannot hold a cubic term
        if canon["err"] == "TypeError" and not in_scope(tree) and any(
                u["t"] == "gate" and u["g"] in ("BUFFER", "NOT") and len(u["args"]) != 1 for u in nodes(tree)):
            return None            # BUFFER(x) / NOT(x) have exactly one parameter
        return "unexpected exception %s" % canon["err"]
    if not isinstance(obj, dict) or type(obj) is dict:
        return "result is not a model: %s" % type(obj).__name__
    if "unknown_label" in canon:
        return "the returned model %r mentions a variable that is not a label of the inputs (%s)" % (
            dict(obj), canon["unknown_label"])
    tt = truth_table(case)
    if tt is None:
        return None
    L = Labels(case["labels"])
    for bits, want in zip(assignments(case["n"]), tt):
        got = Fraction(0)
        for key, v in obj.items():
            m = Fraction(v)
            for lab in key:
                m *= bits[L.ident(lab)]
            got += m
        if got != (1 if want else 0):
            return "truth table: at %s the expression is %s but the returned %s evaluates to %s" % (
                {repr(L.lab(i)): b for i, b in enumerate(bits)}, want, type(obj).__name__, got)
        via = obj.value({L.lab(i): b for i, b in enumerate(bits)})
        if Fraction(via) != got:
            return "value() of the returned model disagrees with its own terms at %s" % (bits,)
    return None

# ------------------------------------------------------------------ driver of the check

def tt_inside(c):
    try:
        return truth_table(c) is not None
    except Exception:
        return False


def process(ctx, cases):
    lines = [model_line(c) for c in cases]
    impls = [run_impl(c) for c in cases]
    models = common.run_driver(lines)
    for c, (canon, obj, log), m in zip(cases, impls, models):
        ctx.case(c, nontrivial(c["tree"]))
        ctx.count(c["family"] + ":" + ("err:" + canon["err"] if "err" in canon else canon["type"]))
        top = c["tree"]
        ctx.count("gate:%s/%d" % (top["g"], len(top["args"])))
        mtruth = m.pop("truth", None) if isinstance(m, dict) else None
        if canon != m:
            if (c.get("labels") == "xeq" and isinstance(m, dict) and "err" not in m and canon.get("err") == "KeyError"
                    and tt_inside(c)):
                # labels equal across types (0 / 0.0 / False are ONE variable): squash_key sorts a key by type name first and
                # removes only adjacent duplicates, so a product such as (1.0, 0) * (0.0,) keeps three spellings of two
                # variables and the degree-2 check of QUBO / QUBOMatrix raises KeyError although the expression has degree 2.
                # The same defect as C05:equalfn:cross-type-equal-labels, seen from C07: the gate does not return a model.
                ctx.violation("C07:xeq-degree-keyerror", c,
                              "with labels that compare equal across types the gate raises KeyError on a QUBO-typed operand "
                              "although the expression has degree <= 2 (the model, over variable identities, returns %s)" % (
                                  json.dumps(m)[:200],))
            else:
                ctx.diff(c["family"], c, canon, m)
        tt = truth_table(c)
        if tt is None:
            ctx.count("scope:outside")
        else:
            ctx.count("scope:inside")
            if mtruth != tt:      # the specification side of the theorem (`Qv.truth`) against all/any/sum%2
                ctx.diff("truth-spec", c, tt, mtruth)
        bad = oracle(c, canon, obj, log)
        if bad:
            ctx.violation("C07:" + c["family"], c, bad)
        elif isinstance(obj, dict) and type(obj) is not dict:
            # history: the caller owns the returned model and may modify it in place; building the same expression
            # again must give the same (correct) model -- a result that aliases memoised / shared state fails here
            try:
                obj *= 3
                obj += 5
            except Exception:
                pass
            else:
                canon2, obj2, log2 = run_impl(c)
                bad2 = oracle(c, canon2, obj2, log2)
                ctx.count("rebuild-after-mutation")
                if bad2:
                    ctx.violation("C07:rebuild", c, "after the first result was modified in place (res *= 3; res += 5) "
                                  "the same expression was built again: " + bad2)
                elif canon2 != canon:
                    ctx.diff("rebuild", c, canon2, canon)
        ctx.traces += 1

def check(ctx):
    rng = ctx.rng
    cases = grid_cases(rng)
    cases += overflow_cases(rng, ctx.scale(300, 4000))
    maxn = 6 if ctx.tier == "quick" else 7
    cases += [tree_case(rng, maxn) for _ in range(ctx.scale(2000, 40000))]
    for i in range(0, len(cases), 4000):
        process(ctx, cases[i:i + 4000])
    if ctx.diffs and not ctx.violations:
        search(ctx)

def search(ctx):
    """failing-input search after a correspondence difference: the direct oracle on every gate subtree of the
    disagreeing trees and on a fresh batch"""
    extra = []
    for d in ctx.diffs[:50]:
        c = d["case"]
        for st in nodes(c["tree"]):
            if st is not c["tree"] and st["t"] == "gate":
                extra.append(dict(c, tree=st))
    extra += [tree_case(ctx.rng) for _ in range(3000)]
    for c in extra:
        canon, obj, log = run_impl(c)
        bad = oracle(c, canon, obj, log)
        if bad:
            ctx.violation("C07:" + c["family"], c, bad)

def replay(ctx, payload):
    c = payload.get("case") or (payload.get("first_difference") or {}).get("case")
    if not c:
        ctx.notes.append("replay file has no case; re-running the full check")
        return check(ctx)
    process(ctx, [c])
